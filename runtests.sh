#!/bin/sh
# Run the pinned baseline suite on /repo (guard off: there are no hooks) and compare with BASELINE.json stable_pass.
OUT=${1:-/root/.cache/verif-junit.xml}
mkdir -p "$(dirname "$OUT")"
cd /repo && /venv/bin/python -m pytest -ra -q -p no:cacheprovider --timeout=900 --continue-on-collection-errors --junitxml="$OUT" >/root/.cache/verif-pytest.log 2>&1
/venv/bin/python - "$OUT" <<'P'
import json, sys, xml.etree.ElementTree as ET
base = json.load(open('/root/.vp/BASELINE.json'))
want = set(base['stable_pass'])
got = set()
for tc in ET.parse(sys.argv[1]).getroot().iter('testcase'):
    bad = any(c.tag in ('failure', 'error', 'skipped') for c in tc)
    if not bad:
        got.add('%s::%s' % (tc.get('classname'), tc.get('name')))
missing = sorted(want - got)
print('stable_pass', len(want), 'passing now', len(got & want), 'missing', len(missing))
for m in missing[:20]:
    print('  MISSING', m)
sys.exit(1 if missing else 0)
P
