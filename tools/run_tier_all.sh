#!/bin/sh
# run_tier_all.sh <quick|thorough> [ids...] : run the registered checks sequentially from this directory's parent,
# print one summary line per check (id, exit code, seconds, runner summary line).  Used to size tiers.
HERE=$(dirname "$(dirname "$(readlink -f "$0")")")
TIER=${1:-quick}; shift
IDS=${*:-$(jq -r '.checks[].property_id' "$HERE/MANIFEST.json")}
mkdir -p "$HERE/tierlogs"
for id in $IDS; do
  s=$(date +%s)
  nice -n ${NICE:-0} timeout ${PER_CHECK_TIMEOUT:-3600} "$HERE/vf" $id --tier $TIER ${EXTRA:-} > "$HERE/tierlogs/$id.$TIER.log" 2>&1
  rc=$?
  e=$(date +%s)
  echo "$id tier=$TIER rc=$rc secs=$((e-s)) :: $(grep -E 'tier=' "$HERE/tierlogs/$id.$TIER.log" | tail -1)"
  grep -E '^VIOLATION|^INCONCLUSIVE' "$HERE/tierlogs/$id.$TIER.log" | cut -c1-300 | head -5
done
echo ALL-DONE
