#!/bin/sh
# run_thorough_keep.sh [ids...] : run the thorough tier of each registered check end to end, keep its evidence under
# evidence-thorough/<id>.json (the committed evidence/<id>.json stays the quick tier's, which is what `vp check` rewrites).
HERE=$(dirname "$(dirname "$(readlink -f "$0")")")
cd "$HERE" || exit 2
IDS=${*:-$(jq -r '.checks[].property_id' MANIFEST.json)}
mkdir -p evidence-thorough tierlogs
for id in $IDS; do
  s=$(date +%s)
  cp evidence/$id.json /tmp/quick-evidence-$id.json 2>/dev/null
  timeout ${PER_CHECK_TIMEOUT:-5400} ./vf $id --tier thorough --jobs ${JOBS:-12} > tierlogs/$id.thorough.log 2>&1
  rc=$?
  e=$(date +%s)
  [ -f evidence/$id.json ] && mv evidence/$id.json evidence-thorough/$id.json
  [ -f /tmp/quick-evidence-$id.json ] && mv /tmp/quick-evidence-$id.json evidence/$id.json
  echo "$id tier=thorough rc=$rc secs=$((e-s)) :: $(grep -E ' tier=' tierlogs/$id.thorough.log | tail -1)" | tee -a tierlogs/thorough-summary.txt
  grep -E '^VIOLATION|^INCONCLUSIVE' tierlogs/$id.thorough.log | cut -c1-300 | head -5 | tee -a tierlogs/thorough-summary.txt
done
echo ALL-DONE | tee -a tierlogs/thorough-summary.txt
