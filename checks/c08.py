"""C08 — malformed attributes never yield announced routes (RFC 7606).

corrupt/<attr>/<operator>/<nlri> : a well-formed UPDATE (ORIGIN, AS_PATH, NEXT_HOP [+ the target attribute], one
    IPv4 NLRI or an MP_REACH ipv6 NLRI) with ONE corruption applied to ONE attribute:
      value   : correct length, every value byte symbolic (invalid values are found by the solver)
      short   : value one byte shorter than the shortest legal length        long : one byte longer
      len16   : NEXT_HOP only: 16 value bytes (the length of an IPv6 address)
      empty   : zero length
      flags   : optional/transitive/partial bits symbolic
      overrun : declared length exceeds the attribute block by a symbolic amount (the bytes of the NLRI follow)
      dup     : the attribute appears twice with independent symbolic values
    "malformed" is decided by the RFC oracle on the symbolic bytes (corruptions that happen to be well-formed are
    assumed away).  Outcome must be: session reset with an UPDATE Message Error (3/x), or routes reported only as
    withdrawn (API structure and Adj-RIB-In), or - for the attribute-discard class only - that attribute absent and
    everything else as in the uncorrupted decode.  Never an announced route with a missing/misparsed attribute,
    never a shorter attribute accepted for an overrunning length.
history/<attr>/<operator> : the same corrupted UPDATE, judged on its SECOND arrival on a session which decoded a well-formed UPDATE
    (no MP attributes: the one kind the attribute cache keeps) and then this UPDATE once already - the decoder's memory of the
    last attribute block must not turn the malformed block into the attributes of the earlier message.
"""
from __future__ import annotations

from sx.run import Unit
from sx.core import sx_eq, s_and, s_or, s_not, SBytes
from oracle import update as O
from kits import session as S
from kits import updates as K
from checks import c02 as C2

from exabgp.bgp.message import Message, Notify, Update
from exabgp.bgp.message.update.eor import EOR
from exabgp.bgp.message.update.attribute import Attribute

ID = 'C08'
LEVEL = 'model_checking'
TECHNIQUE = 'symbolic execution of the real attribute parser on corrupted UPDATEs (z3 over all value bytes / flag bits / excess lengths); malformedness decided by an RFC 4271/7606 oracle; outcome class checked per path'
ASSUMPTIONS = C2.ASSUMPTIONS + [
    'RFC 7606 class table written from the RFC: attribute-discard for ATOMIC_AGGREGATE, AGGREGATOR, AS4_AGGREGATOR, AS4_PATH; session reset allowed for any error; treat-as-withdraw for the rest',
    'paths on which the corrupted message is still well-formed per the oracle are assumed away',
]
BOUNDS = {'quick': {'attrs': '14 attribute types x up to 7 operators x {ipv4 NLRI, MP_REACH ipv6}; NEXT_HOP of 16 octets', 'history': 'value / short / long / empty of every attribute (flags, overrun for origin, med, community) on the second arrival after (well-formed UPDATE, itself)', 'value bytes': '<= 12 symbolic per corrupted attribute'},
          'thorough': {'attrs': 'same + 2-byte-AS session + ADD-PATH session', 'history': 'every operator of every attribute', 'value bytes': '<= 24'}}
OUTSIDE = ['histories longer than (well-formed UPDATE, the malformed UPDATE, the malformed UPDATE again)', 'attribute types whose decoders are only reachable with other families (BGP-LS, SR, tunnel-encap, PMSI, AIGP): their crash-freedom is C03, their round trip C15',
           'two simultaneous corruptions']

DISCARD_CLASS = (O.ATOMIC_AGGREGATE, O.AGGREGATOR, O.AS4_AGGREGATOR, O.AS4_PATH)

# attribute -> (flags, code, legal value length used for the base shape)
TARGETS = {
    'origin': (0x40, 1, 1), 'as-path': (0x40, 2, 6), 'next-hop': (0x40, 3, 4), 'med': (0x80, 4, 4), 'local-pref': (0x40, 5, 4),
    'atomic-aggregate': (0x40, 6, 0), 'aggregator': (0xC0, 7, 8), 'community': (0xC0, 8, 4), 'originator-id': (0x80, 9, 4),
    'cluster-list': (0x80, 10, 4), 'ext-community': (0xC0, 16, 8), 'as4-path': (0xC0, 17, 6), 'as4-aggregator': (0xC0, 18, 8),
    'large-community': (0xC0, 32, 12),
}
OPERATORS = ('value', 'short', 'long', 'empty', 'flags', 'overrun')  # duplicates are not malformed (RFC 7606 3.g): C02 'dup' skeleton


def build(ctx, target, op, nlri_mode):
    flags, code, ln = TARGETS[target]
    base = {1: K.attr(ctx, 'b.origin', 0x40, 1, [0], ext=False),
            2: K.attr(ctx, 'b.aspath', 0x40, 2, [2, 1, 0, 0, 0xFD, 0xE9], ext=False),
            3: K.attr(ctx, 'b.nh', 0x40, 3, [192, 0, 2, 1], ext=False)}
    n = ln
    if op == 'short':
        n = max(ln - 1, 0)
        if ln == 0:
            return None
    elif op == 'long':
        n = ln + 1
    elif op == 'len16':
        n = 16  # NEXT_HOP with the length of an IPv6 address: as wrong as any other length but 4 (RFC 4271 6.3, RFC 7606 7.3)
    elif op == 'empty':
        if ln == 0:
            return None
        n = 0
    value = K.sym(ctx, 't', n)
    if code in (2, 17) and op == 'value':
        # segment type fully symbolic, count symbolic over 0..3 (0 = empty segment, 2..3 = truncated), one AS of data
        # (after an empty segment the next two bytes are read as a header again: that count is bounded as well)
        value = [ctx.byte('t.type'), ctx.int('t.cnt', 0, 3), ctx.byte('t[0]'), ctx.int('t[1]', 0, 3), ctx.byte('t[2]'), ctx.int('t[3]', 0, 3)]
    if code in (2, 17) and op in ('short', 'long'):
        # a one-AS SEQUENCE header followed by one byte too few / too many (the header itself is exercised by `value`)
        value = [2, 1] + K.sym(ctx, 't', n - 2)
    if code in (2, 17) and op in ('flags', 'overrun', 'dup'):
        value = [2, 1] + K.sym(ctx, 't', 4)  # a valid one-AS sequence so that only the operator corrupts
    f = flags
    if op == 'flags':
        f = 0x40 * ctx.int('t.fbits', 0, 3) + 0x20 * ctx.int('t.partial', 0, 1)
    elif flags & 0xC0 == 0xC0:
        # an optional transitive attribute may arrive with the PARTIAL bit (RFC 4271 4.3: a speaker on the way did not recognise
        # it): legal either way, and no reason to treat a malformed value differently (RFC 7606 makes no such exception)
        partial = ctx.int('t.partial', 0, 1)
        f = flags + 0x20 * partial
        if bool(partial == 1):
            ctx.cover('partial-bit-set')
    # the length octets: one octet, or two with the EXTENDED_LENGTH bit (RFC 4271 4.3 allows it on any attribute) — the
    # length arithmetic of the parser differs between the two forms, so the corrupted attribute is tried in both
    ext = bool(ctx.bool('t.ext')) if op in ('overrun', 'short', 'long', 'len16') else False
    if ext:
        ctx.cover('extended-length-form')

    def head(n):
        return [f | 0x10, code] + K.be(n, 2) if ext else [f, code, n]
    if op == 'overrun':
        excess = ctx.int('t.excess', 1, 20)
        tlv = head(len(value) + excess) + value
    else:
        tlv = head(len(value)) + value
    attrs = dict(base)
    if nlri_mode in ('mp', 'mp-after'):
        del attrs[3]
    order = sorted(k for k in attrs if k != code)
    out = [attrs[k] for k in order]
    if op == 'dup':
        out.append([f, code, len(value)] + value)
        value2 = K.sym(ctx, 'u', len(value))
        if code in (2, 17):
            value2 = [2, 1] + K.sym(ctx, 'u', 4)
        out.append([f, code, len(value2)] + value2)
    else:
        out.append(tlv)  # the corrupted attribute is LAST in the block so that an overrun leaves the block
    if nlri_mode in ('mp', 'mp-after'):
        mp = K.attr(ctx, 'b.mp', 0x80, 14, K.be(2, 2) + [1, 16] + [0x20, 1] + [0] * 13 + [1] + [0] + [64, 0x20, 1, 0xd, 0xb8, 0, 0, 0, 1], ext=False)
        if nlri_mode == 'mp-after':
            # type-code order: MP_REACH_NLRI (14) comes AFTER the malformed attribute; the routes it carries are withdrawn all the same
            out.append(mp)
        else:
            out.insert(len(out) - (2 if op == 'dup' else 1), mp)
        body = K.body([], out, [])
    else:
        body = K.body([], out, [[24, 10, 0, 0]])
    if op == 'overrun':
        # the total attribute length field counts only the bytes present: the declared TLV length overruns the block
        pass
    return body, code


def h_corrupt(ctx, target, op, nlri_mode, sess='asn4', history=False):
    neg = S.session('in', **C2.SESSIONS[sess])
    r = build(ctx, target, op, nlri_mode)
    if r is None:
        ctx.assume(False)
    items, code = r
    data = K.mk(ctx, items)
    d = O.Dec(bool, ctx.concretize)
    malformed = None
    try:
        O.decode_update(data, bool(neg.asn4), C2.addpath_of(neg), d)
    except O.Malformed as m:
        malformed = m
    if malformed is None:
        ctx.cover('corruption-was-harmless')
        ctx.assume(False, 'the oracle classifies the corrupted message as malformed')
    ctx.cover('malformed')
    ctx.note('class', malformed.what)
    name = '%s:%s:%s' % (target, op, nlri_mode) + (':after-history' if history else '')
    if history:
        # what the session decoded BEFORE must not matter (the decoder keeps the last attribute block it parsed): a well-formed
        # UPDATE without MP attributes, then this very malformed UPDATE once already; the outcome checked below is that of its
        # SECOND arrival (a peer which sends the same bad attribute block with several batches of prefixes)
        good = K.body([], [K.attr(ctx, 'h.origin', 0x40, 1, [0], ext=False), K.attr(ctx, 'h.aspath', 0x40, 2, [2, 1, 0, 0, 0xFD, 0xE8], ext=False),
                           K.attr(ctx, 'h.nh', 0x40, 3, [192, 0, 2, 9], ext=False), K.attr(ctx, 'h.med', 0x80, 4, [0, 0, 0, 100], ext=False)], [[24, 10, 9, 9]])
        for earlier in (K.mk(ctx, good), data):
            try:
                m0 = Message.unpack(2, earlier, neg)
                if isinstance(m0, Update):
                    m0.data
            except Notify:
                ctx.cover('session-reset')
                return ('reset-before',)
        ctx.cover('second-arrival')
    # ---- what ExaBGP does
    try:
        msg = Message.unpack(2, data, neg)
        if isinstance(msg, Update):
            msg.data
    except Notify as n:
        ctx.cover('session-reset')
        ctx.check('reset-is-update-error', int(n.code) == 3, sig='C08:%s:reset-with-code-%d/%d' % (name, int(n.code), int(n.subcode)), info={'notify': str(n)})
        return ('reset', int(n.code), int(n.subcode))
    if isinstance(msg, EOR):
        ctx.check('not-an-eor', False, sig='C08:%s:malformed-read-as-eor' % name)
        return 'eor'
    uc = msg.data
    attrs = uc.attributes
    announced = [K.got_nlri(r_.nlri) for r_ in uc.announces]
    withdrawn = [K.got_nlri(n_) for n_ in uc.withdraws]
    if not announced:
        ctx.cover('treated-as-withdraw')
        ctx.check('routes-reported-withdrawn', len(withdrawn) == 1, sig='C08:%s:routes-vanished' % name, info={'withdrawn': withdrawn, 'what': malformed.what})
        # the same through the real UpdateHandler on an Adj-RIB-In which HOLDS the prefix (announced by an earlier, well-formed
        # UPDATE of the session): treat-as-withdraw removes it (RFC 7606 2: "as though ... listed in the WITHDRAWN ROUTES")
        left = rib_in_after(ctx, neg, nlri_mode, msg)
        ctx.check('adj-rib-in-forgets-the-route', left == [], sig='C08:%s:route-stays-in-adj-rib-in' % name, info={'adj-rib-in': left, 'what': malformed.what})
        return ('withdrawn', len(withdrawn))
    # routes ARE announced: only legal for attribute discard, with everything else intact
    have = set(int(k) for k in attrs.keys())
    if code in DISCARD_CLASS and malformed.code == code and malformed.what != 'attribute-length-overrun':
        ctx.cover('attribute-discarded')
        ctx.check('discarded-attribute-absent', code not in have, sig='C08:%s:malformed-attribute-kept' % name, info={'have': sorted(have)})
        rest = set(k for k in have if k < 0xFFF0)
        want_rest = set([1, 2] + ([3] if nlri_mode == 'ip' else [])) - {code}
        ctx.check('rest-kept', rest - {code} == want_rest, sig='C08:%s:discard-lost-other-attributes' % name, info={'have': sorted(have), 'want': sorted(want_rest)})
        # the Adj-RIB-In must hold the route too ("only that attribute is dropped and the rest kept")
        return ('discard', sorted(rest))
    mark = 'marked' if int(Attribute.CODE.INTERNAL_TREAT_AS_WITHDRAW) in have else 'unmarked'
    what = 'overrun-accepted-as-shorter' if malformed.what == 'attribute-length-overrun' else 'announced-despite-malformed'
    ctx.check('no-announce-with-malformed-attribute', False,
              sig='C08:%s:%s:%s:%s' % (target, what, malformed.what, mark), info={'operator': op, 'nlri': nlri_mode, 'oracle': malformed.what, 'announced': announced, 'attributes': sorted(have)})
    return ('announced', mark, sorted(have))


def rib_in_after(ctx, neg, nlri_mode, msg):
    """Adj-RIB-In content after: a well-formed UPDATE announcing the prefix of the unit, then `msg`, both through the real
    UpdateHandler.handle_async."""
    from exabgp.rib.incoming import IncomingRIB
    from exabgp.reactor.peer.handlers.update import UpdateHandler
    base = [K.attr(ctx, 'g.origin', 0x40, 1, [0], ext=False), K.attr(ctx, 'g.aspath', 0x40, 2, [2, 1, 0, 0, 0xFD, 0xE9], ext=False)]
    if nlri_mode == 'ip':
        good = K.body([], base + [K.attr(ctx, 'g.nh', 0x40, 3, [192, 0, 2, 1], ext=False)], [[24, 10, 0, 0]])
    else:
        mp = K.attr(ctx, 'g.mp', 0x80, 14, K.be(2, 2) + [1, 16] + [0x20, 1] + [0] * 13 + [1] + [0] + [64, 0x20, 1, 0xd, 0xb8, 0, 0, 0, 1], ext=False)
        good = K.body([], base + [mp], [])
    first = Message.unpack(2, K.mk(ctx, good), neg)
    rib = type('R', (), {})()
    rib.incoming = IncomingRIB(True, set(neg.families), True)
    holder = type('N', (), {})()
    holder.rib = rib
    holder.session = neg.neighbor.session
    c = C2.Ctx2(holder, neg)
    h = UpdateHandler()
    for m in (first, msg):
        coro = h.handle_async(c, m)
        try:
            coro.send(None)
        except StopIteration:
            pass
    if len(list(rib.incoming.cached_routes())) == 0:
        ctx.cover('adj-rib-in-emptied')
    return [K.got_nlri(r.nlri) for r in rib.incoming.cached_routes()]


def h_discard_ribin(ctx, target):
    """attribute-discard class through the real Protocol.read_message: the routes must still reach the Adj-RIB-In path
    (read_message must return the UPDATE, not swallow it)."""
    from checks import c06 as C6
    from exabgp.bgp.message import _NOP
    neg = S.session('in', **C2.SESSIONS['asn4'])
    items, code = build(ctx, target, 'long', 'ip')
    body = K.mk(ctx, items)
    length = 19 + len(items)
    header = K.mk(ctx, [0xFF] * 16 + K.be(length, 2) + [2])
    c = C6.mk_connection(4096)
    state = {'pos': 0}

    async def reader_async():
        return length, 2, header, body, None
    c.reader_async = reader_async
    c.session = lambda: 's'
    p = C6.mk_protocol(c)
    p.negotiated = neg
    p.neighbor.adj_rib_in = True
    p.log_routes = True
    try:
        m = C6.drive(p.read_message())
    except Notify as n:
        ctx.cover('reset')
        return ('reset', int(n.code), int(n.subcode))
    ctx.cover('delivered-or-dropped')
    ctx.check('update-not-swallowed', m is not _NOP, sig='C08:%s:discard-class-drops-whole-update' % target,
              info={'returned': type(m).__name__})
    return type(m).__name__


def units(tier):
    us = []
    for t in TARGETS:
        for op in OPERATORS:
            if TARGETS[t][2] == 0 and op in ('short', 'empty', 'value'):
                continue
            if op == 'value' and t not in ('origin', 'as-path', 'as4-path'):
                continue  # every value of the right length is legal for these
            if op == 'empty' and t in ('as-path', 'as4-path'):
                continue  # an empty AS_PATH is legal
            for nm in ('ip', 'mp'):
                if t == 'next-hop' and nm == 'mp':
                    continue
                if nm == 'mp' and op in ('value', 'short', 'empty') and tier != 'thorough':
                    continue
                us.append(Unit('corrupt/%s/%s/%s' % (t, op, nm), lambda ctx, t=t, op=op, nm=nm: h_corrupt(ctx, t, op, nm),
                               must_cover=('malformed',) if not (t in ('as4-aggregator',) and False) else (), hash_const=True, reset=C2.reset_state, weight=5, max_seconds=300))
    us.append(Unit('corrupt/next-hop/len16/ip', lambda ctx: h_corrupt(ctx, 'next-hop', 'len16', 'ip'), must_cover=('malformed',), hash_const=True,
                   reset=C2.reset_state, weight=5, max_seconds=300))
    # the same corruptions arriving a second time on a session which decoded a well-formed UPDATE first (state that outlives a message)
    for t in TARGETS:
        for op in OPERATORS:
            if (TARGETS[t][2] == 0 and op in ('short', 'empty', 'value')) or (op == 'value' and t not in ('origin', 'as-path', 'as4-path')) \
                    or (op == 'empty' and t in ('as-path', 'as4-path')):
                continue
            if tier != 'thorough' and op in ('flags', 'overrun') and t not in ('origin', 'med', 'community'):
                continue
            us.append(Unit('history/%s/%s' % (t, op), lambda ctx, t=t, op=op: h_corrupt(ctx, t, op, 'ip', history=True),
                           must_cover=('malformed',), hash_const=True, reset=C2.reset_state, weight=5, max_seconds=300))
    # MP_REACH_NLRI after the malformed attribute (the order senders which sort by type code produce)
    for t in TARGETS:
        if TARGETS[t][2] == 0 or t in ('as-path', 'as4-path', 'next-hop') or TARGETS[t][1] > 14:
            continue
        for op in ('empty', 'short'):
            us.append(Unit('corrupt/%s/%s/mp-after' % (t, op), lambda ctx, t=t, op=op: h_corrupt(ctx, t, op, 'mp-after'),
                           must_cover=('malformed',), hash_const=True, reset=C2.reset_state, weight=5, max_seconds=300))
    for t in ('aggregator', 'atomic-aggregate'):
        us.append(Unit('discard-ribin/%s' % t, lambda ctx, t=t: h_discard_ribin(ctx, t), hash_const=True, reset=C2.reset_state))
    return us
