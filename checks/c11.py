"""C11 — after any session loss the peer is fully resynchronised.

resync/* : the REAL reconnect path.  A real Neighbor (parsed configuration, fresh RIB through Neighbor.make_rib, the
           configured routes registered by the real ParseNeighbor._init_neighbor) is driven by the real `Peer.run()`
           coroutine (the `while True: ... await self._run()` restart loop, real _establish/_main/_reset, real
           Protocol.new_open/new_update_generator/new_eors, real OutgoingRIB/Cache) over a fake transport whose remote
           end is scripted, under a virtual clock.  One run = attempt 1 ... attempt L+1:
             * every route operand (configured routes, API announce/withdraw operands) carries a SYMBOLIC prefix octet:
               ExaBGP's own dicts probe by symbolic equality and z3 decides which operands alias (rib kit);
             * attempts 1..L are LOST at a solver-chosen cut point: TCP connect refused, remote closes before its OPEN,
               after its OPEN / before its KEEPALIVE, the j-th UPDATE-type write of the session fails (j SYMBOLIC: the
               fake writer compares its counter with j, one solver branch per message - i.e. inside the initial batch,
               between the batch and the End-of-RIB markers, inside a later batch, a generator partially consumed),
               or the remote closes / sends a NOTIFICATION once everything was sent;
             * while an attempt is established, API operations arrive through the real Configuration.announce_route /
               withdraw_route at solver-chosen scheduling points (before the initial batch, after its first message,
               once the End-of-RIB markers are out);  while the peer is down, more operations arrive;
             * the last attempt establishes; EVERY byte it writes is decoded with the RFC reference decoder
               (oracle/update.py) into the table the remote peer holds.
           Obligations on every path (= for every value of the operands on that aliasing pattern):
             adj-rib-out kept  : peer table == intended table (configured + API-announced, last announcement wins,
                                 minus withdrawn - while up or while down) == cached_routes();  no route whose last
                                 operation is a withdraw is announced;  the routes are followed by exactly one End-of-RIB
                                 per negotiated family and nothing precedes the routes.
             adj-rib-out false : (the tree documents that without the cache the routes sent before are lost:
                                 rib/__init__.py, healthcheck.py) nothing unintended and nothing withdrawn is announced,
                                 every operation issued since the last loss is honoured, cached_routes() is empty, the
                                 End-of-RIB markers follow;  and a configured route that was never put on the wire in any
                                 earlier attempt and never touched by the API is advertised.
"""
from __future__ import annotations

from collections import deque

from sx.run import Unit
from sx.core import SBytes

from kits import session as S
from kits import peer as P
from kits import rib as K
from oracle import update as OU

import exabgp.rib as ribpkg
from exabgp.rib import RIB
from exabgp.rib.route import Route
from exabgp.protocol.family import AFI, SAFI
from exabgp.bgp.message.update.nlri.inet import INET
from exabgp.reactor.protocol import Protocol
from exabgp.reactor.network.error import LostConnection, NetworkError
from exabgp.configuration.configuration import Configuration
from exabgp.configuration.neighbor import ParseNeighbor
import exabgp.configuration.neighbor as cnm
import exabgp.configuration.configuration as ccm
import exabgp.reactor.delay as delaymod

ID = 'C11'
LEVEL = 'model_checking'
TECHNIQUE = ('symbolic execution (z3) of the real Peer.run() restart loop (real _run/_establish/_main/_reset, Protocol, '
             'Neighbor.reset_rib, OutgoingRIB.reset/replace_restart/updates, Cache) over a scripted remote speaker under a '
             'virtual clock: cut point, operation kinds and injection points enumerated by the solver, the failing write '
             'index j and every route prefix symbolic (z3 decides aliasing inside ExaBGP\'s own dicts); every byte of the '
             'session after the loss decoded by an RFC reference decoder into the peer table and compared with the '
             'intended table and with cached_routes()')
ASSUMPTIONS = [
    'asyncio and time are replaced inside exabgp.reactor.peer.peer / exabgp.bgp.timer / exabgp.reactor.delay by a virtual '
    'clock and a hand-driven scheduler (coro.send(None)); every `await asyncio.sleep()` is a scheduling point at which API '
    'operations may arrive',
    'the transport is a fake Connection: reader_async delivers the scripted remote speaker (valid OPEN, KEEPALIVE, then '
    'silence, EOF or a NOTIFICATION), writer_async records what is written or fails with NetworkError at the chosen write; '
    'Protocol.connect is stubbed (returns False for "connection refused")',
    'logging has an empty body (peer, protocol, rib, configuration modules)',
    'the Neighbor comes from the real configuration parser (cached per shape); per path it gets a fresh RIB the way '
    'Neighbor.__init__/make_rib build it, `routes` is replaced by routes with the parsed attributes and a symbolic-prefix NLRI, '
    'and the real ParseNeighbor._init_neighbor registers them (add_to_rib_watchdog)',
    'API operations enter through the real Configuration.announce_route / withdraw_route (what the API command handlers '
    'call) on a Configuration object holding this neighbor; operand attributes come from the real static-route parser',
    'every route operand carries a symbolic prefix octet p in 0..dom-1 (hash_const soundness rule of the rib kit): 10.0.<p>.0/24 and '
    '2001:db8:00<p>::/48; the two configured IPv4 routes have different prefixes',
    'peer semantics: RFC 4271 (an announcement replaces the route with the same NLRI, a withdraw removes it; a new session '
    'starts from an empty table), RFC 4724 2 (End-of-RIB marker per family)',
    'eBGP session 65000 -> 65001, 4-byte AS, hold time 180 s, no ADD-PATH, no graceful restart, manual-eor false, group-updates default',
    'the remote speaker never sends UPDATEs or ROUTE-REFRESH (C04 covers refresh)',
]
BOUNDS = {
    'quick': {'configured routes': '2 ipv4 (+1 ipv6 in the two-family shape)', 'losses': 1,
              'cut': 'connect refused | EOF before OPEN | EOF before KEEPALIVE | j-th UPDATE-type write fails (j symbolic 0..4-6: every message '
                     'of the initial batch, every End-of-RIB marker, every message of the next batch) | EOF / NOTIFICATION once everything is '
                     'out | rate-limited neighbor: remote closes after j messages (seen at the next read, generator live)',
              'operations': '(while up, while down) <= (1,1), (2,0), (0,2), (0,3 after a refused connect); kinds announce x3 attribute sets / '
                            'withdraw (+ ipv6 kinds); operations while up arrive before the initial batch, after its first message or when idle',
              'prefix octet': 'symbolic in 0..2', 'adj-rib-out': 'true and false', 'families': 'ipv4 unicast; ipv4+ipv6 unicast'},
    'thorough': {'adds': '(1,2) operations for both adj-rib-out settings; two losses in a row (every ordered pair of the 6 cut kinds, <=1 '
                         'operation while up, <=1 per down period); (0,3) over all cuts with prefix octet 0..3; the two-family shape over the '
                         'full alphabet and with adj-rib-out false'},
}
OUTSIDE = [
    'graceful-restart stale-route timing on the remote side; ADD-PATH; families other than ipv4/ipv6 unicast',
    'configuration reload while down (C17); route refresh (C04); the encoding of attributes beyond MED/NEXT_HOP/ORIGIN (C01)',
    'generator-mode (non asyncio) reactor twin; several peers sharing the reactor',
    'adj-rib-out false: whether routes that were on the wire before the loss come back (the tree documents that they do not)',
]

P.quiet(cnm, ccm)
delaymod.time = P.FakeTime

LOCAL_AS, PEER_AS = 65000, 65001
NH4 = {'x': '192.0.2.1', 'y': '192.0.2.1', 'x2': '192.0.2.2'}
MED = {'x': 10, 'y': 20, 'x2': 10}
NH6 = '2001:db8::1'
V4 = (1, 1)
V6 = (2, 1)
FAMNAME = {V4: 'ipv4 unicast', V6: 'ipv6 unicast'}


def reset():
    ribpkg.RIB._cache.clear()
    from exabgp.bgp.message.update.attribute.collection import AttributeCollection
    AttributeCollection.cached = None
    AttributeCollection.previous = b''


# ----------------------------------------------------------------------------- the neighbor and the operand pool

_SHAPES: dict = {}


def shape(fams, aro, rate=False):
    """(neighbor, configuration, {pool name: parsed Route}) for one session shape, parsed once by the real parser."""
    key = (tuple(fams), aro, rate)
    if key in _SHAPES:
        return _SHAPES[key]
    ribpkg.RIB._cache.clear()
    routes = ['route 10.9.0.0/24 next-hop %s med %d' % (NH4['x'], MED['x']),
              'route 10.9.1.0/24 next-hop %s med %d' % (NH4['y'], MED['y']),
              'route 10.9.2.0/24 next-hop %s med %d' % (NH4['x2'], MED['x2'])]
    if V6 in fams:
        routes += ['route 2001:db8:9::/48 next-hop %s med %d' % (NH6, MED['x']),
                   'route 2001:db8:a::/48 next-hop %s med %d' % (NH6, MED['y'])]
    conf = S.mk_conf(local_as=LOCAL_AS, peer_as=PEER_AS, hold=180, families=tuple(FAMNAME[f] for f in fams), routes=routes,
                     extra='    adj-rib-out %s;\n%s' % ('true' if aro else 'false', '    rate-limit 10;\n' if rate else ''))
    cfg = Configuration([conf], text=True)
    if not cfg.reload():
        raise RuntimeError('C11: configuration refused: %s' % (cfg.error,))
    nb = list(cfg.neighbors.values())[0]
    if bool(nb.adj_rib_out) != bool(aro) or bool(nb.rate_limit) != bool(rate):
        raise RuntimeError('C11: adj-rib-out / rate-limit not taken from the configuration')
    parsed = list(nb.routes)
    pool = {(V4, 'x'): parsed[0], (V4, 'y'): parsed[1], (V4, 'x2'): parsed[2]}
    if V6 in fams:
        pool[(V6, 'x')] = parsed[3]
        pool[(V6, 'y')] = parsed[4]
    _SHAPES[key] = (nb, cfg, pool)
    return _SHAPES[key]


def mk_nlri(ctx, fam, p):
    if fam == V4:
        packed = [10, 0, p, 0]
        return INET.make_route(AFI.ipv4, SAFI.unicast, SBytes(packed) if ctx.sym else bytes(packed), 24)
    packed = [0x20, 0x01, 0x0d, 0xb8, 0x00, p] + [0] * 10
    return INET.make_route(AFI.ipv6, SAFI.unicast, SBytes(packed) if ctx.sym else bytes(packed), 48)


def mk_route(ctx, pool, fam, sel, p):
    tpl = pool[(fam, sel)]
    return Route(mk_nlri(ctx, fam, p), tpl.attributes, nexthop=tpl.nexthop)


class _ParseSelf:
    def __init__(self):
        self.neighbors = {}
        self._uncommitted = []


def fresh_neighbor(nb, routes):
    """a Neighbor as the configuration parser leaves it: fresh (empty) RIB of the configured kind built by the real
    Neighbor.make_rib, the configured routes queued by the real parser code (ParseNeighbor.commit / _init_neighbor)"""
    ribpkg.RIB._cache.clear()
    nb.rib = RIB(name='disabled-c11', adj_rib_in=True, adj_rib_out=True, families=set(), enabled=False)   # Neighbor.__init__
    nb.routes = list(routes)
    nb.previous = None
    nb.eor = deque()
    nb.asm = dict()
    nb.messages = deque()
    nb.refresh = deque()
    ps = _ParseSelf()
    if hasattr(ParseNeighbor, 'commit'):
        # the RIB work of the parser is done by commit(), once the whole configuration is accepted
        ParseNeighbor._init_neighbor(ps, nb, {})
        ParseNeighbor.commit(ps)
    else:
        nb.make_rib()
        ParseNeighbor._init_neighbor(ps, nb, {})
    if not nb.rib.enabled or nb.rib.outgoing.cache != bool(nb.adj_rib_out):
        raise RuntimeError('C11 harness: the RIB was not set up by the parser code')


# ----------------------------------------------------------------------------- intent (ghost)


def same(a, b):
    """do two (family, prefix octet) keys denote the same NLRI?  forks while the path has not decided it"""
    return a[0] == b[0] and bool(a[1] == b[1])


class Intent:
    """per prefix: the last operation (announce with which attributes / withdraw), when it was issued"""

    def __init__(self):
        self.rows = []   # dict(key, sel|None, route|None, phase, epoch)

    def find(self, key):
        for r in self.rows:
            if same(r['key'], key):
                return r
        return None

    def op(self, key, sel, route, phase, epoch):
        old = self.find(key)
        if old is not None:
            self.rows = [r for r in self.rows if r is not old]
        self.rows.append({'key': key, 'sel': sel, 'route': route, 'phase': phase, 'epoch': epoch,
                          'configured': (old['configured'] if old else phase == 'config'),
                          'api': (phase != 'config') or (old['api'] if old else False)})

    def table(self):
        return [r for r in self.rows if r['sel'] is not None]

    def render(self):
        return [[r['key'][0][0], r['key'][1], r['sel'], r['phase'], r['epoch']] for r in self.rows]


def attrs_of(fam, sel):
    """what the operator asked for, as the remote peer sees it: (MED, next hop bytes)"""
    if fam == V4:
        return MED[sel], bytes(int(x) for x in NH4[sel].split('.'))
    return MED[sel], bytes.fromhex('20010db8000000000000000000000001')


# ----------------------------------------------------------------------------- transport and run state


class Sess:
    def __init__(self, n, cut, j):
        self.n = n
        self.cut = cut
        self.j = j
        self.reads = 0
        self.written = []       # every message written, in order (bytes / SBytes)
        self.nupd = 0           # UPDATE-type writes so far (routes and End-of-RIB markers)
        self.neor = 0           # of which End-of-RIB markers (23 / 29 bytes: nothing else this check emits is that short)
        self.established = False
        self.quiet = 0
        self.calm = 0
        self.seen_written = 0
        self.injected = 0
        self.ended = False
        self.cut_done = None


class Conn(P.FakeConn):
    def __init__(self, peer, run, sess):
        P.FakeConn.__init__(self, peer, None)
        self.run = run
        self.sess = sess

    async def reader_async(self):
        P.WORLD.reads += 1
        ev = self.run.remote(self.sess)
        if ev[0] == 'nothing':
            t = P.WORLD.timeout
            P.WORLD.now += t if t is not None else 1.0
            if t is None:
                raise LostConnection('C11 harness: a read without timeout got nothing')
            raise TimeoutError()
        if ev[0] == 'eof':
            raise LostConnection('the TCP connection was closed by the remote end')
        _, t, body = ev
        n = 19 + len(body)
        hdr = b'\xff' * 16 + n.to_bytes(2, 'big') + bytes([t])
        return n, t, memoryview(hdr), memoryview(bytes(body)), None

    async def writer_async(self, data):
        if self.io is None:
            return
        sess = self.sess
        t = data[18]
        if t == 2:
            if sess.cut == 'write' and bool(sess.nupd == sess.j):
                sess.cut_done = 'write-%d' % sess.nupd
                self.close()
                raise NetworkError('Broken TCP connection')
            sess.nupd += 1
            if len(data) in (23, 29):
                sess.neor += 1
        sess.written.append(data)


async def _connect(self):
    run = self.peer._c11
    if self.connection:
        return True
    sess = run.new_session()
    if sess.cut == 'refused':
        sess.cut_done = 'refused'
        return False
    self.connection = Conn(self.peer, run, sess)
    return True


Protocol.connect = _connect


class Run:
    def __init__(self, ctx, nb, cfg, pool, fams, plan, ops_up, ops_down, dom):
        self.ctx = ctx
        self.nb = nb
        self.cfg = cfg
        self.pool = pool
        self.fams = fams
        self.plan = plan          # per attempt: (cut kind, j)   ; last one: ('none', None)
        self.ops_up = ops_up      # per attempt: [(at, kind)]
        self.ops_down = ops_down  # per down period: [kind]
        self.dom = dom
        self.sessions = []
        self.intent = Intent()
        self.epoch = 0            # number of resets so far
        self.down_done = 0
        self.done = False
        self.log = []
        self.stale_seen = 0
        self.stale_keys = []      # prefixes with a superseded pending entry that was queued since the last reset
        self.route_epoch = {}     # id(route object handed to ExaBGP) -> number of resets before it was queued
        self.nop = 0
        self.peer = None
        body = S.peer_open_body(asn=PEER_AS, hold=180, families=fams, asn4=True)
        self.open = ('msg', 1, body)
        self.early_fams = None    # families the remote offers in its OPEN of every attempt but the last (None: the same)

    # ---- remote speaker
    def new_session(self):
        k = len(self.sessions)
        cut, j = self.plan[k] if k < len(self.plan) else ('none', None)
        s = Sess(k, cut, j)
        self.sessions.append(s)
        return s

    def idle(self, sess):
        """everything this session had to send is out: at least one whole loop iteration went by, nothing was written
        during the last one (no generator live), the queue is empty and the planned operations are in.  Deliberately NOT
        defined through the End-of-RIB markers: whether they were sent is an obligation, not a premise."""
        return (sess.calm >= 1 and sess.injected >= len(self.ops_up[sess.n] if sess.n < len(self.ops_up) else ()))

    def remote(self, sess):
        sess.reads += 1
        if sess.reads == 1:
            if sess.cut == 'open-eof':
                sess.cut_done = 'open-eof'
                return ('eof',)
            if self.early_fams is not None and sess.n < len(self.plan) - 1:
                # an earlier attempt: the remote offers fewer families than the last (judged) one will
                self.ctx.cover('earlier-session-negotiated-fewer-families')
                return ('msg', 1, S.peer_open_body(asn=PEER_AS, hold=180, families=self.early_fams, asn4=True))
            return self.open
        if sess.reads == 2:
            if sess.cut == 'ka-eof':
                sess.cut_done = 'ka-eof'
                return ('eof',)
            sess.established = True     # the peer reads this KEEPALIVE and enters ESTABLISHED
            return ('msg', 4, b'')
        if sess.cut == 'read' and bool(sess.nupd >= sess.j):
            # the remote end closes while we are sending: seen at the next read, with the generator possibly live
            sess.cut_done = 'read-%d' % sess.nupd
            return ('eof',)
        wrote = len(sess.written) != sess.seen_written     # a generator may still be live (rate-limited neighbor)
        sess.seen_written = len(sess.written)
        if sess.reads >= 4 and not wrote and not self.nb.rib.outgoing.pending():
            sess.calm += 1
        else:
            sess.calm = 0
        if self.idle(sess):
            sess.quiet += 1
        else:
            sess.quiet = 0
        if sess.quiet >= 2:
            if sess.cut == 'none':
                self.done = True
            elif sess.cut == 'idle-notification':
                sess.cut_done = 'idle-notification'
                return ('msg', 3, bytes([6, 4]))
            else:
                # 'idle-eof', or a write cut whose index lies beyond what this session had to write
                sess.cut_done = 'idle-eof'
                return ('eof',)
        return ('nothing',)

    # ---- local events, at scheduling points
    def step(self):
        peer = self.peer
        if self.sessions:
            sess = self.sessions[-1]
            if sess.established and peer.proto is not None and peer.fsm.state.name == 'ESTABLISHED' and sess.n < len(self.ops_up):
                plan = self.ops_up[sess.n]
                while sess.injected < len(plan):
                    at, kind = plan[sess.injected][:2]
                    if at == 'idle':
                        ready = sess.calm >= 1 and not self.nb.rib.outgoing.pending()
                    else:
                        ready = sess.nupd >= at
                    if not ready:
                        break
                    if sess.nupd >= 1 and sess.neor == 0:
                        self.ctx.cover('operation-while-first-batch-in-flight')
                    self.api(kind, 'up', 's%d.u%d' % (sess.n, sess.injected))
                    sess.injected += 1
            if peer.proto is None and not sess.ended:
                # the attempt is over (Peer._reset ran)
                sess.ended = True
                self.epoch += 1
                k = sess.n
                if k < len(self.ops_down):
                    for i, kind in enumerate(self.ops_down[k]):
                        self.api(kind, 'down', 's%d.d%d' % (k, i))
        return self.done

    def api(self, kind, phase, name):
        ctx = self.ctx
        if kind == 'flush':
            # `flush adj-rib out` (reactor.neighbor_rib_resend -> Peer.resend): the whole Adj-RIB-Out is to be sent again.  It
            # changes nothing in what the peer is MEANT to hold
            self.peer.resend(False)
            ctx.cover('flush-%s' % phase)
            self.log.append('%s:flush' % phase)
            self.nop += 1
            return
        fam = V6 if kind.endswith('6') else V4
        base = kind[:-1] if kind.endswith('6') else kind
        p = ctx.int(name + '.p', 0, self.dom - 1)
        key = (fam, p)
        names = [self.nb.name()]
        prev = self.intent.find(key)
        if base.startswith('announce:'):
            sel = base.split(':')[1]
            route = mk_route(ctx, self.pool, fam, sel, p)
            if prev is not None and prev['sel'] is not None:
                ctx.cover('announce-over-existing' if prev['sel'] != sel else 'announce-identical')
            if prev is not None and prev['sel'] is None:
                ctx.cover('announce-after-withdraw')
            self.route_epoch[id(route)] = self.epoch
            ok = self.cfg.announce_route(names, route)
            self.intent.op(key, sel, route, phase, self.epoch)
        else:
            route = mk_route(ctx, self.pool, fam, 'x', p)
            if prev is not None and prev['sel'] is not None:
                ctx.cover('withdraw-present-%s' % phase)
                if prev['configured'] and not prev['api']:
                    ctx.cover('withdraw-configured-%s' % phase)
            ok = self.cfg.withdraw_route(names, route)
            self.intent.op(key, None, None, phase, self.epoch)
        self.log.append('%s:%s' % (phase, kind))
        self.nop += 1
        if not ok:
            raise RuntimeError('C11 harness: the API operation did not reach the neighbor')


# ----------------------------------------------------------------------------- the peer's view (oracle side)


def wire_key(afi, safi, mask, prefix, d):
    """(family, prefix octet) of an NLRI on the wire, None when it is not one of the prefixes this check uses"""
    if (afi, safi) == V4:
        if mask == 24 and len(prefix) == 3 and d.b(prefix[0] == 10) and d.b(prefix[1] == 0):
            return (V4, prefix[2])
        return None
    if (afi, safi) == V6:
        if mask == 48 and len(prefix) == 6 and all(d.b(prefix[i] == v) for i, v in enumerate((0x20, 0x01, 0x0d, 0xb8, 0x00))):
            return (V6, prefix[5])
        return None
    return None


class Wire:
    """what the remote peer holds after applying, in order, every message of ONE session (RFC 4271 3.1, 9)"""

    def __init__(self):
        self.rows = []     # (key, med, nexthop)
        self.order = []    # 'routes' | ('eor', family)
        self.bad = []      # anything the reference decoder refuses or that is foreign to the check
        self.ever = []     # every key announced at some point of the session

    def find(self, key):
        for r in self.rows:
            if same(r[0], key):
                return r
        return None

    def delete(self, key):
        self.rows = [r for r in self.rows if not same(r[0], key)]

    def render(self):
        return [[r[0][0][0], r[0][1], r[1], r[2]] for r in self.rows]


def decode_session(ctx, sess):
    d = OU.Dec(bool, ctx.concretize)
    w = Wire()
    for raw in sess.written:
        if raw[18] != 2:
            w.order.append('type-%d' % raw[18])
            continue
        n = len(raw)
        if not (raw[:16] == b'\xff' * 16 and d.b(raw[16] * 256 + raw[17] == n) and n <= 4096):
            w.bad.append('header')
            continue
        try:
            res = OU.decode_update(raw[19:], True, lambda a, s: False, d)
        except OU.Malformed as exc:
            w.bad.append('malformed:%s' % exc.what)
            continue
        if res['eor'] is not None:
            w.order.append(('eor', res['eor']))
            continue
        w.order.append('routes')
        for afi, safi, pid, mask, prefix in res['withdraw']:
            key = wire_key(afi, safi, mask, prefix, d)
            if key is None:
                w.bad.append('foreign-withdraw')
            else:
                w.delete(key)
        by = {code: value for flags, code, value in res['attrs']}
        for afi, safi, pid, mask, prefix, nh in res['announce']:
            key = wire_key(afi, safi, mask, prefix, d)
            if key is None:
                w.bad.append('foreign-announce')
                continue
            if OU.ORIGIN not in by or OU.AS_PATH not in by or OU.MED not in by or len(by[OU.MED]) != 4:
                w.bad.append('attributes')
                continue
            if not (d.b(by[OU.ORIGIN][0] == 0) and by[OU.AS_PATH] == bytes([2, 1]) + LOCAL_AS.to_bytes(4, 'big')):
                w.bad.append('origin-or-as-path')
            med = ctx.concretize(OU.u32(by[OU.MED]))
            nhb = bytes(ctx.concretize(x) for x in nh) if nh is not None else b''
            w.delete(key)
            w.rows.append((key, med, nhb))
            w.ever.append(key)
    return w


def cached_rows(nb):
    """cached_routes() as (key, MED, next hop) read from the Route objects ExaBGP holds"""
    out = []
    for route in nb.rib.outgoing.cached_routes():
        fam = tuple(int(x) for x in route.nlri.family().afi_safi())
        packed = route.nlri._packed
        p = packed[3] if fam == V4 else packed[6]
        from exabgp.bgp.message.update.attribute.attribute import Attribute
        med = int(route.attributes[Attribute.CODE.MED].med)
        out.append(((fam, p), med, bytes(route.nexthop.pack_ip())))
    return out


def stale_routes(rib):
    """Diagnostic only (names the root cause in a signature, never decides a verdict): pending announce entries that
    `_new_nlri` no longer maps to (kits.rib.stale_pending_entries, returning the routes)."""
    out = []
    try:
        for per_family in rib._new_attr_af_nlri.values():
            for routes in per_family.values():
                for idx, route in routes.items():
                    if rib._new_nlri.get(idx) is not route:
                        out.append(route)
    except AttributeError:
        pass
    return out


# ----------------------------------------------------------------------------- harness

UP_AT = {'start': 0, 'mid': 1, 'idle': 'idle'}
AT_ORDER = {'start': 0, 'mid': 1, 'idle': 2}


def h_resync(ctx, *a, **k):
    try:
        return _h_resync(ctx, *a, **k)
    except Exception as exc:   # the real code raised outside what Peer._run absorbs, or the harness is wrong
        ctx.check('resync-does-not-fail', False, sig='C11:exception:%s' % type(exc).__name__, info={'exception': repr(exc)})
        return ['exception', type(exc).__name__]


def _h_resync(ctx, fams, aro, cuts, n_up, n_down, up_kinds, down_kinds, losses=1, dom=3, jmax=5, up_at=('start', 'mid', 'idle'),
              first_up=None, first_down=None, later_cuts=None, rate=False, n_up_later=None, later_down_kinds=None, early_fams=None):
    fams = tuple(fams)
    nb, cfg, pool = shape(fams, aro, rate)
    # ---- configured routes: symbolic prefixes, the parsed attributes
    configured = []
    p0 = ctx.int('cfg0.p', 0, dom - 1)
    p1 = ctx.int('cfg1.p', 0, dom - 1)
    ctx.assume(p0 != p1, 'the configuration lists every prefix once')
    configured.append((V4, 'x', p0))
    configured.append((V4, 'y', p1))
    if V6 in fams:
        configured.append((V6, 'x', ctx.int('cfg2.p', 0, dom - 1)))
    routes = [mk_route(ctx, pool, fam, sel, p) for fam, sel, p in configured]
    fresh_neighbor(nb, routes)
    rib = nb.rib.outgoing
    watch = K.StaleWatch(rib)   # diagnostic: which RIB primitive left a superseded pending entry (F2 = _update_rib)

    # ---- the plan: cut of every lost attempt, operations while up / while down
    plan, ops_up, ops_down = [], [], []
    for k in range(losses):
        cut = ctx.pick('s%d.cut' % k, cuts if (k == 0 or later_cuts is None) else later_cuts)
        j = ctx.int('s%d.cut.j' % k, 0, jmax) if cut in ('write', 'read') else None
        plan.append((cut, j))
        ups = []
        if cut in LIVE_CUTS + ('read',):
            for i in range(n_up if (k == 0 or n_up_later is None) else n_up_later):
                kinds = first_up if (first_up is not None and k == 0 and i == 0) else up_kinds
                kind = kinds if isinstance(kinds, str) else ctx.pick('s%d.u%d' % (k, i), kinds)
                if kind == 'none':
                    break
                # operations are numbered in the order they arrive: a later one is not injected earlier
                allowed = [a for a in up_at if AT_ORDER[a] >= (AT_ORDER[ups[-1][2]] if ups else 0)]
                at = ctx.pick('s%d.u%d.at' % (k, i), allowed) if len(allowed) > 1 else allowed[0]
                ups.append((UP_AT[at], kind, at))
        ops_up.append(ups)
        downs = []
        for i in range(n_down):
            kinds = first_down if (first_down is not None and k == 0 and i == 0) else (down_kinds if (k == 0 or later_down_kinds is None) else later_down_kinds)
            kind = kinds if isinstance(kinds, str) else ctx.pick('s%d.d%d' % (k, i), kinds)
            if kind == 'none':
                break
            downs.append(kind)
        ops_down.append(downs)
    plan.append(('none', None))

    run = Run(ctx, nb, cfg, pool, fams, plan, ops_up, ops_down, dom)
    run.early_fams = early_fams
    for (fam, sel, p), r in zip(configured, routes):
        run.intent.op((fam, p), sel, r, 'config', 0)
        run.route_epoch[id(r)] = 0

    # diagnostic only (names the root cause in a signature, never decides a verdict): superseded pending entries present
    # when a batch is generated for the wire
    real_updates, real_reset = rib.updates, rib.reset
    state = {'reset': False}

    def updates(grouped, paths_limit=None):
        if not state['reset'] and len(run.sessions) == losses + 1:
            for route in stale_routes(rib):
                run.stale_seen += 1
                if run.route_epoch.get(id(route)) != run.epoch:
                    # queued before the last reset: OutgoingRIB.reset() should have drained it - not the known root cause
                    continue
                fam = tuple(int(x) for x in route.nlri.family().afi_safi())
                run.stale_keys.append((fam, route.nlri._packed[3] if fam == V4 else route.nlri._packed[6]))
        return real_updates(grouped, paths_limit)

    def rib_reset():
        state['reset'] = True
        try:
            return real_reset()
        finally:
            state['reset'] = False
    rib.updates = updates
    rib.reset = rib_reset

    peer = P.new_peer(nb, None)
    peer._c11 = run
    run.peer = peer
    coro = peer.run()
    steps = 0
    finished = False
    try:
        while steps < 4000:
            try:
                coro.send(None)
            except StopIteration:
                finished = True
                break
            steps += 1
            if run.step():
                break
    finally:
        coro.close()
        try:
            del rib.updates, rib.reset
        except AttributeError:
            pass

    cutnames = [s.cut_done or s.cut for s in run.sessions]
    info = {'attempts': cutnames, 'operations': run.log, 'adj-rib-out': aro, 'families': [list(f) for f in fams], 'steps': steps}
    ctx.check('last-attempt-establishes', run.done and not finished and len(run.sessions) == losses + 1, sig='C11:harness:last-attempt-did-not-settle', info=info)
    if not run.done:
        return ['unsettled', cutnames, run.log]
    for s in run.sessions[:-1]:
        done = s.cut_done or 'none'
        ctx.cover('cut:' + (done.split('-')[0] if done.startswith(('write', 'read')) else done))
        if s.cut_done and s.cut_done.startswith(('write', 'read')):
            before = [x for x in s.written if x[18] == 2]
            if 0 < len(before) and s.neor == 0:
                ctx.cover('cut-inside-a-batch')
            if s.neor == 0 and done.startswith('read') and 0 < len(before):
                ctx.cover('remote-closes-while-generator-live')
    last = run.sessions[-1]
    wire = decode_session(ctx, last)
    earlier = [decode_session(ctx, s) for s in run.sessions[:-1]]
    intent = run.intent
    mode = 'resync' if aro else 'no-adj-rib-out'
    # the root cause named in the signature of the TABLE obligations (decided the way C04 does: a superseded pending
    # entry was present when a batch of the judged session was generated - known finding F2)
    info.update({'peer': wire.render(), 'intended': intent.render(), 'order': [o if isinstance(o, str) else 'eor' for o in wire.order],
                 'stale_pending_entries_seen': run.stale_seen})

    ctx.check('session-messages-are-wellformed', not wire.bad, sig='C11:%s:message-not-decodable:%s' % (mode, (wire.bad or ['-'])[0]), info=info)

    # ---- End-of-RIB (RFC 4724 2): exactly one marker per negotiated family, after the routes of the first batch
    upd = [o for o in wire.order if not (isinstance(o, str) and o.startswith('type-'))]
    eors = [o[1] for o in upd if o != 'routes']
    first_eor = min([i for i, o in enumerate(upd) if o != 'routes'], default=len(upd))
    fname = lambda f: '%d-%d' % f
    missing_eor = [f for f in fams if f not in eors]
    repeated_eor = sorted(set(f for f in eors if eors.count(f) > 1 and f in fams))
    foreign_eor = sorted(set(f for f in eors if f not in fams))
    ctx.check('eor-for-every-family', not missing_eor, sig='C11:%s:eor-missing:%s' % (mode, fname(missing_eor[0]) if missing_eor else '-'), info=info)
    ctx.check('eor-once-per-family', not repeated_eor, sig='C11:%s:eor-repeated:%s' % (mode, fname(repeated_eor[0]) if repeated_eor else '-'), info=info)
    ctx.check('eor-only-for-negotiated-families', not foreign_eor, sig='C11:%s:eor-for-family-not-negotiated' % mode, info=info)
    ctx.check('eor-after-the-routes', all(o != 'routes' for o in upd[first_eor:]),
              sig='C11:%s:eor-before-routes:%s' % (mode, fname(upd[first_eor][1]) if first_eor < len(upd) else '-'), info=info)
    if len(eors) == len(fams) and wire.rows:
        ctx.cover('routes-then-eor')

    # ---- the table
    want = intent.table()
    extra, differs, missing = [], [], []
    for r in wire.rows:
        g = intent.find(r[0])
        if g is None or g['sel'] is None:
            extra.append((r, g))
        elif attrs_of(r[0][0], g['sel']) != (r[1], r[2]):
            differs.append((r, g))
    for g in want:
        if wire.find(g['key']) is None:
            missing.append(g)

    def why(rows):
        """signature prefix for a table symptom: the known root cause (F2: _update_rib leaves the superseded pending
        announce in its old attribute bucket) only when EVERY offending prefix had, in a batch of the judged session, a
        superseded pending entry that was queued since the last reset - decided per prefix, so that another defect on
        the same path, or an entry that survived a reset, is still reported under its own signature"""
        if rows and all(any(same(k, r[0][0]) for k in run.stale_keys) for r in rows):
            return watch.cause(run.stale_seen, mode)
        return mode
    res_down = [x for x in extra if x[1] is not None and x[1]['phase'] == 'down']
    res_up = [x for x in extra if x[1] is not None and x[1]['phase'] != 'down']
    ctx.check('withdrawn-while-down-not-announced', not res_down, sig='C11:%s:route-withdrawn-while-down-announced' % why(res_down), info=info)
    ctx.check('withdrawn-not-announced', not res_up, sig='C11:%s:withdrawn-route-announced' % why(res_up), info=info)
    ctx.check('nothing-unintended', not [x for x in extra if x[1] is None], sig='C11:%s:peer-holds-unintended-route' % mode, info=info)
    if aro:
        ctx.check('last-announcement-wins', not differs, sig='C11:%s:stale-attributes-after-resync' % why(differs), info=info)
        ctx.check('complete', not missing, sig='C11:%s:intended-route-not-readvertised' % mode, info=info)
        cached = cached_rows(nb)
        bad = []
        for c in cached:
            g = intent.find(c[0])
            if g is None or g['sel'] is None or attrs_of(c[0][0], g['sel']) != (c[1], c[2]):
                bad.append(c)
        bad += [g for g in want if not any(same(c[0], g['key']) for c in cached)]
        dup = any(same(a[0], b[0]) for i, a in enumerate(cached) for b in cached[i + 1:])
        ctx.check('adj-rib-out-equals-intent', not bad and not dup, sig='C11:%s:adj-rib-out-differs-from-intent' % mode,
                  info=dict(info, cached=[[c[0][0][0], c[0][1], c[1]] for c in cached]))
    else:
        # what the tree documents without the cache: routes sent or queued before the last loss are lost; operations
        # issued since the last loss are in the queue and nothing says they may be dropped
        recent = [g for g in want if g['epoch'] == run.epoch and g['phase'] != 'config']
        lost = [g for g in missing if any(g is x for x in recent)]
        wrong = [x for x in differs if any(x[1] is y for y in recent)]
        ctx.check('operations-since-the-loss-honoured', not lost, sig='C11:%s:operation-issued-while-down-lost' % mode, info=info)
        ctx.check('operations-since-the-loss-win', not wrong, sig='C11:%s:operation-issued-while-down-superseded' % why(wrong), info=info)
        ctx.check('no-adj-rib-out-kept', not list(rib.cached_routes()), sig='C11:%s:cache-not-empty' % mode, info=info)
        never = []
        untouched = [g for g in want if g['configured'] and not g['api']]
        for g in untouched:
            on_wire = any(same(g['key'], k) for e in earlier for k in e.ever)
            if not on_wire and wire.find(g['key']) is None:
                never.append(g)
        if untouched:
            ctx.cover('configured-route-untouched')
        ctx.check('configured-route-advertised-at-least-once', not never,
                  sig='C11:%s:configured-route-never-advertised:%s' % (mode, cutnames[0].split('-')[0]), info=info)

    if wire.rows:
        ctx.cover('final-nonempty')
    if run.nop:
        ctx.cover('api-operations')
    if any(g['phase'] == 'down' for g in intent.rows):
        ctx.cover('operation-while-down')
    ctx.note('class', '+'.join(c.split('-')[0] for c in cutnames[:-1]))
    return [cutnames, run.log, len(wire.rows), len(want), [o if isinstance(o, str) else 'eor' for o in wire.order]]


# ----------------------------------------------------------------------------- units

EST_CUTS = ('refused', 'open-eof', 'ka-eof')
LIVE_CUTS = ('write', 'idle-eof', 'idle-notification')
KINDS4 = ('announce:x', 'announce:y', 'announce:x2', 'withdraw')
KINDS46 = ('announce:x', 'announce:y', 'withdraw', 'announce:x6', 'announce:y6', 'withdraw6')


def _u(name, must=(), weight=10, max_paths=400000, max_seconds=1100, **kw):
    return Unit(name, lambda ctx, kw=kw: h_resync(ctx, **kw), must_cover=must, hash_const=True, reset=reset,
                max_paths=max_paths, max_seconds=max_seconds, weight=weight)


def units(tier):
    th = tier == 'thorough'
    us = []
    none4 = ('none',) + KINDS4
    none46 = ('none',) + KINDS46
    short = lambda k: k.replace('announce:', 'a.')
    live_must = ('cut:write', 'cut:idle-eof', 'cut:idle-notification', 'cut-inside-a-batch', 'operation-while-down',
                 'operation-while-first-batch-in-flight', 'withdraw-present-down', 'withdraw-configured-down', 'routes-then-eor')
    for aro in (True, False):
        tag = 'kept' if aro else 'off'
        us.append(_u('resync/%s/v4/establishment' % tag, ('cut:refused', 'cut:open-eof', 'cut:ka-eof', 'operation-while-down', 'final-nonempty'),
                     fams=(V4,), aro=aro, cuts=EST_CUTS, n_up=0, n_down=2, up_kinds=(), down_kinds=none4, weight=20))
        us.append(_u('resync/%s/v4/live/u1d1' % tag, live_must, fams=(V4,), aro=aro, cuts=LIVE_CUTS, n_up=1, n_down=1, jmax=4,
                     up_kinds=none4, down_kinds=none4, weight=90))
        for k in KINDS4:
            us.append(_u('resync/%s/v4/live/u2d0/%s' % (tag, short(k)), ('cut:write', 'cut-inside-a-batch'), fams=(V4,), aro=aro, cuts=LIVE_CUTS,
                         n_up=2, n_down=0, up_kinds=KINDS4, first_up=k, down_kinds=(), weight=50))
    # two families: one End-of-RIB per family, MP_REACH / MP_UNREACH on the wire
    us.append(_u('resync/kept/v46/establishment', ('cut:refused', 'routes-then-eor'), fams=(V4, V6), aro=True, cuts=EST_CUTS, n_up=0, n_down=1,
                 up_kinds=(), down_kinds=none46, weight=5))
    us.append(_u('resync/kept/v46/live/u1d1', ('cut:write', 'cut-inside-a-batch', 'routes-then-eor'), fams=(V4, V6), aro=True, cuts=LIVE_CUTS,
                 n_up=1, n_down=1, jmax=6, up_kinds=('none', 'announce:y6', 'withdraw6', 'withdraw'), down_kinds=none46, up_at=('mid', 'idle'), weight=100))
    # the sessions of one neighbor need not negotiate the same families: the lost one had ipv4 only (the remote offered no ipv6),
    # the next one has both; what is in the Adj-RIB-Out for ipv6 (configured, or announced through the API meanwhile) goes out then
    us.append(_u('resync/kept/v46/fewer-families-first', ('earlier-session-negotiated-fewer-families', 'routes-then-eor'), fams=(V4, V6), aro=True,
                 early_fams=(V4,), cuts=('write', 'idle-eof', 'ka-eof'), n_up=1, n_down=1, jmax=3,
                 up_kinds=('none', 'announce:y6', 'withdraw6', 'announce:y'), down_kinds=none46, up_at=('mid', 'idle'), weight=60))
    # `flush adj-rib out` among the operations (while up, and while down: the refresh list is filled after Peer._reset emptied it)
    us.append(_u('resync/kept/v4/flush', ('flush-down', 'withdraw-present-down'), fams=(V4,), aro=True, cuts=('write', 'idle-eof', 'refused'), n_up=1, n_down=2, jmax=3,
                 up_kinds=('none', 'flush', 'announce:y'), down_kinds=('flush', 'withdraw', 'announce:y'), up_at=('mid', 'idle'), weight=70))
    # rate-limited neighbor: one message per loop iteration, so the remote end can close (seen at the next read) while the
    # update generator is partially consumed, and operations arrive between two messages of one batch
    us.append(_u('resync/kept/v4/rate/u1d1', ('cut:read', 'cut:write', 'remote-closes-while-generator-live', 'operation-while-first-batch-in-flight'),
                 fams=(V4,), aro=True, rate=True, cuts=('read', 'write'), n_up=1, n_down=1, jmax=4, up_kinds=none4, down_kinds=none4, up_at=('mid', 'idle'), weight=80))
    # three operations while down: enough for a superseded pending entry (known finding F2 of C04) to reach the next session
    us.append(_u('resync/kept/v4/down3', ('announce-over-existing',), fams=(V4,), aro=True, cuts=('refused',), n_up=0, n_down=3, up_kinds=(),
                 down_kinds=('announce:x', 'announce:y', 'withdraw'), weight=30))
    if th:
        for aro in (True, False):
            tag = 'kept' if aro else 'off'
            for k in none4:
                us.append(_u('resync/%s/v4/live/u1d2/%s' % (tag, short(k)), (), fams=(V4,), aro=aro, cuts=LIVE_CUTS, n_up=1, n_down=2, jmax=4,
                             up_kinds=none4, first_up=k, down_kinds=KINDS4, weight=300, max_seconds=2400))
            # a second loss: attempt 1 and attempt 2 are both lost (any pair of cut points), attempt 3 is judged
            up2 = ('none', 'announce:y', 'withdraw')
            for c in EST_CUTS + LIVE_CUTS:
                for gname, later in (('then-establishment', EST_CUTS), ('then-live', LIVE_CUTS)):
                    # the largest ones are partitioned by the operation that arrives while up (load balance only)
                    parts = [(None, '')] if not (c == 'write' and gname == 'then-live') else [(k, '/' + short(k)) for k in up2]
                    for first, suffix in parts:
                        us.append(_u('resync/%s/v4/two-losses/%s/%s%s' % (tag, c, gname, suffix), ('operation-while-down',), fams=(V4,), aro=aro,
                                     cuts=(c,), later_cuts=later, losses=2, n_up=1, n_up_later=0, n_down=1, jmax=4, up_kinds=up2, first_up=first,
                                     down_kinds=('none', 'announce:x', 'announce:y', 'withdraw'), later_down_kinds=none4, up_at=('mid', 'idle'),
                                     weight=250, max_seconds=2400))
        us.append(_u('resync/kept/v4/down3/dom4', (), fams=(V4,), aro=True, cuts=EST_CUTS, n_up=0, n_down=3, up_kinds=(), dom=4,
                     down_kinds=KINDS4, weight=200))
        us.append(_u('resync/off/v4/down3', (), fams=(V4,), aro=False, cuts=('refused',), n_up=0, n_down=3, up_kinds=(),
                     down_kinds=('announce:x', 'announce:y', 'withdraw'), weight=30))
        us.append(_u('resync/kept/v46/live/u1d1/full', (), fams=(V4, V6), aro=True, cuts=LIVE_CUTS, n_up=1, n_down=1, jmax=6,
                     up_kinds=none46, down_kinds=none46, weight=200))
        us.append(_u('resync/off/v46/live/u1d1', (), fams=(V4, V6), aro=False, cuts=LIVE_CUTS, n_up=1, n_down=1, jmax=6,
                     up_kinds=('none', 'announce:y6', 'withdraw6', 'withdraw'), down_kinds=none46, up_at=('mid', 'idle'), weight=100))
    return us
