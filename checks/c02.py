"""C02 — reported routes are exactly what the peer sent.

shaped/*   : UPDATE bodies whose TLV skeleton is concrete and whose every VALUE byte (attribute values, flags
             PARTIAL/EXTENDED_LENGTH bits, masks, prefixes, next hops, path ids) is symbolic, decoded by the real
             Message.unpack(UPDATE) -> Update.parse -> AttributeCollection.unpack -> attribute decoders ->
             INET.unpack_nlri / MPRNLRI / MPURNLRI, then the real UpdateHandler into the real Adj-RIB-In;
             compared, for ALL byte values (z3), with the RFC reference decoder oracle/update.py.
unshaped/* : every byte of the body free at small length (nothing depends on the skeleton grammar).
JSON       : the rendered JSON event is text (sampled by the engine) and is compared with the oracle on each path's
             model in the clean replay interpreter (witness obligation).
"""
from __future__ import annotations

import json

from sx.run import Unit
from sx.core import sx_eq, s_and, SBytes
from oracle import update as O
from kits import session as S
from kits import updates as K

from exabgp.bgp.message import Message, Notify, Update
from exabgp.bgp.message.update.eor import EOR
from exabgp.bgp.message.update.attribute import Attribute
from exabgp.reactor.api.response import Response
from exabgp.reactor.peer.handlers.update import UpdateHandler
from exabgp.version import json as json_version
from exabgp.rib import RIB
import exabgp.bgp.message.update as _um
import exabgp.bgp.message.update.collection as _uc
import exabgp.bgp.message.update.attribute.collection as _ac
import exabgp.reactor.peer.handlers.update as _hu

ID = 'C02'
LEVEL = 'model_checking'
TECHNIQUE = 'symbolic execution of the real UPDATE decode path (z3 over all value bytes of shaped messages, all bytes of short ones) against an RFC reference decoder; JSON compared on one solver model per path'
ASSUMPTIONS = [
    'sessions come from kits/session.py: real Neighbor from a generated configuration, Negotiated through the real sent()/received()',
    'logging (log, lazymsg, lazyformat, lazyattribute) has an empty body',
    'UpdateHandler driven with a stand-in PeerContext holding the real neighbor, negotiated and RIB',
    'shaped units assume the oracle classifies the bytes as well-formed (malformed value combinations are C08)',
    'address-to-text (inet_ntop) is sampled: routes/next hops are compared on packed bytes, text only in the JSON witness',
]
BOUNDS = {'quick': {'shaped': '14 skeletons x 3 session shapes, <= 2 NLRI per section, <= 48 symbolic value bytes', 'unshaped': 'body <= 6 bytes, all free'},
          'thorough': {'shaped': 'same skeletons + attribute order permutations + 3 NLRI', 'unshaped': 'body <= 7 bytes'}}
OUTSIDE = ['families other than IPv4/IPv6 unicast+multicast in MP attributes (labelled/VPN/flow/EVPN round trips are C15/C16)',
           'bodies longer than the bound except through the shaped skeletons', 'JSON text is checked on one model per path, not for all values']


class _Log:
    def __getattr__(self, name):
        return lambda *a, **k: None


for _m in (_um, _uc, _ac, _hu):
    _m.log = _Log()
    for _n in ('lazymsg', 'lazyformat', 'lazyattribute'):
        if hasattr(_m, _n):
            setattr(_m, _n, lambda *a, **k: None)


SESSIONS = {
    'asn4': dict(families=('ipv4 unicast', 'ipv6 unicast'), adj_rib_in=True),
    'asn2': dict(families=('ipv4 unicast', 'ipv6 unicast'), asn4=False, adj_rib_in=True),
    'addpath': dict(families=('ipv4 unicast', 'ipv6 unicast'), addpath='send/receive', addpath_families=('ipv4 unicast', 'ipv6 unicast'), adj_rib_in=True),
}

# ---- skeletons: name -> (function(ctx, sess) -> body items, sessions it applies to)


def _base(ctx, asn4=True):
    return [K.a_origin(ctx, ext=False), K.a_aspath(ctx, segs=((2, 1),), asn4=asn4, ext=False), K.a_nexthop(ctx, ext=False)]


def sk_basic(ctx, s):
    pid = s == 'addpath'
    return K.body([], [K.a_origin(ctx), K.a_aspath(ctx, segs=((None, 2),), asn4=s != 'asn2'), K.a_nexthop(ctx), K.a_med(ctx)],
                  [K.prefix(ctx, 'n0', 3, pid), K.prefix(ctx, 'n1', 1, pid)])


def sk_withdraw(ctx, s):
    pid = s == 'addpath'
    return K.body([K.prefix(ctx, 'w0', 2, pid), K.prefix(ctx, 'w1', 4, pid)], [], [])


def sk_mixed(ctx, s):
    pid = s == 'addpath'
    return K.body([K.prefix(ctx, 'w0', 3, pid)], _base(ctx, s != 'asn2') + [K.a_localpref(ctx, ext=False)], [K.prefix(ctx, 'n0', 2, pid)])


def sk_attrs1(ctx, s):
    a4 = s != 'asn2'
    return K.body([], _base(ctx, a4) + [K.a_localpref(ctx), K.a_atomic(ctx), K.a_aggregator(ctx, asn4=a4), K.a_community(ctx, 2)],
                  [K.prefix(ctx, 'n0', 3, s == 'addpath')])


def sk_attrs2(ctx, s):
    return K.body([], _base(ctx, s != 'asn2') + [K.a_originator(ctx), K.a_cluster(ctx, 2), K.a_extcomm(ctx, 1), K.a_large(ctx, 1)],
                  [K.prefix(ctx, 'n0', 3, s == 'addpath')])


def sk_unknown(ctx, s):
    return K.body([], _base(ctx, s != 'asn2') + [K.a_unknown(ctx, 99, 2, True), K.a_unknown(ctx, 98, 2, False)],
                  [K.prefix(ctx, 'n0', 2, s == 'addpath')])


def sk_aspath2(ctx, s):
    """two segments, SEQUENCE then SET"""
    return K.body([], [K.a_origin(ctx, ext=False), K.a_aspath(ctx, segs=((2, 2), (1, 1)), asn4=s != 'asn2'), K.a_nexthop(ctx, ext=False)],
                  [K.prefix(ctx, 'n0', 3, s == 'addpath')])


def sk_as4(ctx, s):
    """2-byte session: AS_PATH + AS4_PATH to be merged (RFC 6793)"""
    return K.body([], [K.a_origin(ctx, ext=False), K.a_aspath(ctx, segs=((2, 3),), asn4=False, ext=False), K.a_nexthop(ctx, ext=False),
                       K.a_aspath(ctx, segs=((2, 2),), asn4=True, code=17, name='as4path', flags=0xC0, partial=True, ext=False)],
                  [K.prefix(ctx, 'n0', 3, False)])


def sk_as4_first(ctx, s):
    """as sk_as4 with AS4_PATH sent BEFORE AS_PATH: RFC 4271 5 'the receiver MUST be prepared to handle path attributes in any
    order'; RFC 6793 4.2.3 merges whatever the order"""
    return K.body([], [K.a_origin(ctx, ext=False), K.a_nexthop(ctx, ext=False),
                       K.a_aspath(ctx, segs=((2, 2),), asn4=True, code=17, name='as4path', flags=0xC0, partial=True, ext=False),
                       K.a_aspath(ctx, segs=((2, 3),), asn4=False, ext=False)],
                  [K.prefix(ctx, 'n0', 3, False)])


def sk_as4_longer(ctx, s):
    """AS4_PATH longer than AS_PATH: must be ignored"""
    return K.body([], [K.a_origin(ctx, ext=False), K.a_aspath(ctx, segs=((2, 1),), asn4=False, ext=False), K.a_nexthop(ctx, ext=False),
                       K.a_aspath(ctx, segs=((2, 2),), asn4=True, code=17, name='as4path', flags=0xC0, partial=True, ext=False)],
                  [K.prefix(ctx, 'n0', 3, False)])


def sk_as4_equal(ctx, s):
    """AS4_PATH as long as AS_PATH: every AS comes from AS4_PATH"""
    return K.body([], [K.a_origin(ctx, ext=False), K.a_aspath(ctx, segs=((2, 2),), asn4=False, ext=False), K.a_nexthop(ctx, ext=False),
                       K.a_aspath(ctx, segs=((2, 2),), asn4=True, code=17, name='as4path', flags=0xC0, partial=True, ext=False)],
                  [K.prefix(ctx, 'n0', 3, False)])


def sk_dup(ctx, s):
    """RFC 7606 3.g: a repeated attribute keeps its FIRST occurrence, the others are ignored"""
    return K.body([], _base(ctx, s != 'asn2') + [K.a_med(ctx, ext=False), K.attr(ctx, 'med2', 0x80, 4, K.sym(ctx, 'med2', 4), ext=False),
                                               K.attr(ctx, 'origin2', 0x40, 1, K.sym(ctx, 'origin2', 1), ext=False)],
                  [K.prefix(ctx, 'n0', 3, False)])


def sk_mpreach(ctx, s):
    pid = s == 'addpath'
    return K.body([], [K.a_origin(ctx, ext=False), K.a_aspath(ctx, segs=(), asn4=s != 'asn2', ext=False), K.a_mp_reach(ctx, 2, 1, 16, (8, 6), pid)], [])


def sk_mpreach32(ctx, s):
    """link-local pair: 32-byte next hop"""
    return K.body([], [K.a_origin(ctx, ext=False), K.a_aspath(ctx, segs=(), asn4=s != 'asn2', ext=False), K.a_mp_reach(ctx, 2, 1, 32, (4,), s == 'addpath', ext=False)], [])


def sk_mpunreach(ctx, s):
    return K.body([], [K.a_mp_unreach(ctx, 2, 1, (6, 16), s == 'addpath')], [])


def sk_mpboth(ctx, s):
    pid = s == 'addpath'
    return K.body([K.prefix(ctx, 'w0', 3, pid)], _base(ctx, s != 'asn2') + [K.a_mp_unreach(ctx, 2, 1, (6,), pid, ext=False), K.a_mp_reach(ctx, 2, 1, 16, (8,), pid, ext=False)],
                  [K.prefix(ctx, 'n0', 3, pid)])


def sk_eor4(ctx, s):
    return [0, 0, 0, 0]


def sk_eor_mp(ctx, s):
    afi = ctx.pick('eor.afi', [1, 2])  # negotiated families only: ipv4/ipv6 unicast
    safi = 1
    return K.body([], [K.attr(ctx, 'mpu', 0x80, 15, K.be(afi, 2) + [safi])], [])


def sk_seq_mp(ctx, s):
    """sequence units: fixed ORIGIN and AS_PATH, free MED, one IPv6 prefix of 6 octets and a free 16-octet next hop in MP_REACH_NLRI"""
    return K.body([], [K.attr(ctx, 'origin', 0x40, 1, [0], ext=False), K.a_aspath(ctx, segs=(), asn4=s != 'asn2', ext=False), K.a_med(ctx, ext=False),
                       K.a_mp_reach(ctx, 2, 1, 16, (6,), s == 'addpath', ext=False)], [])


def sk_seq_v4(ctx, s):
    return K.body([], [K.attr(ctx, 'origin', 0x40, 1, [0], ext=False), K.a_aspath(ctx, segs=(), asn4=s != 'asn2', ext=False), K.a_nexthop(ctx, ext=False),
                       K.a_med(ctx, ext=False)], [K.prefix(ctx, 'n0', 3, s == 'addpath')])


def sk_seq_mpun(ctx, s):
    return K.body([], [K.a_mp_unreach(ctx, 2, 1, (6,), s == 'addpath', ext=False)], [])


def sk_seq_wd(ctx, s):
    return K.body([K.prefix(ctx, 'w0', 3, s == 'addpath')], [], [])


SKELETONS = {
    'basic': (sk_basic, ('asn4', 'asn2', 'addpath')), 'withdraw': (sk_withdraw, ('asn4', 'addpath')), 'mixed': (sk_mixed, ('asn4', 'addpath')),
    'attrs1': (sk_attrs1, ('asn4', 'asn2')), 'attrs2': (sk_attrs2, ('asn4',)), 'unknown': (sk_unknown, ('asn4',)),
    'aspath2': (sk_aspath2, ('asn4', 'asn2')), 'as4': (sk_as4, ('asn2',)), 'as4-first': (sk_as4_first, ('asn2',)), 'dup': (sk_dup, ('asn4',)), 'as4-longer': (sk_as4_longer, ('asn2',)), 'as4-equal': (sk_as4_equal, ('asn2',)),
    'mpreach': (sk_mpreach, ('asn4', 'addpath')), 'mpreach32': (sk_mpreach32, ('asn4',)), 'mpunreach': (sk_mpunreach, ('asn4', 'addpath')),
    'mpboth': (sk_mpboth, ('asn4', 'addpath')), 'eor4': (sk_eor4, ('asn4',)), 'eor-mp': (sk_eor_mp, ('asn4',)),
}
SEQ_SKELETONS = {'mp': sk_seq_mp, 'v4': sk_seq_v4, 'mpun': sk_seq_mpun, 'wd': sk_seq_wd}


# ---- comparison ---------------------------------------------------------------------------


class Ctx2:
    """stand-in PeerContext for UpdateHandler"""

    def __init__(self, neighbor, negotiated):
        from collections import defaultdict
        self.neighbor = neighbor
        self.negotiated = negotiated
        self.stats = defaultdict(int)
        self.peer_id = 'peer'


def fresh_rib(neighbor):
    RIB._cache.clear() if hasattr(RIB, '_cache') else None
    neighbor.rib = None
    neighbor.make_rib() if hasattr(neighbor, 'make_rib') else None
    return neighbor.rib


def addpath_of(neg):
    return lambda afi, safi: bool(neg.addpath.receive(afi, safi))


def reset_state():
    from exabgp.bgp.message.update.attribute.collection import AttributeCollection
    AttributeCollection.cached = None
    AttributeCollection.previous = b''


def nh_of(nh):
    """the next hop reported for a route: RFC 2545 3 - a 32-byte MP next hop is global address + link-local address,
    the route's next hop is the global one"""
    if nh is None:
        return b''
    if len(nh) == 32:
        return nh[:16]
    return nh


def exa_aspath(a):
    return [(int(seg.ID), list(seg)) for seg in a.aspath]


def compare(ctx, want, msg, neg, name):
    """obligations: ExaBGP's decode == oracle decode"""
    d = O.Dec(bool, ctx.concretize)
    if want['eor'] is not None:
        ctx.cover('eor')
        ok = isinstance(msg, EOR)
        ctx.check('eor-recognised', ok, sig='C02:%s:eor-not-recognised' % name)
        if ok:
            n = msg.nlris[0]
            ctx.check('eor-family', (int(n.afi), int(n.safi)) == want['eor'], sig='C02:%s:eor-wrong-family' % name,
                      info={'got': (int(n.afi), int(n.safi)), 'want': want['eor']})
        return 'eor'
    if isinstance(msg, EOR) and not want['withdraw'] and not want['announce'] and not any(code in (O.MP_REACH, O.MP_UNREACH) for _, code, _ in want['attrs']):
        # RFC 4724 2: "an UPDATE message with no reachable NLRI and empty withdrawn NLRI is specified as the End-of-RIB
        # marker".  Attributes without any NLRI say nothing about any route: reading such a message as the IPv4 End-of-RIB
        # (ExaBGP does when every attribute is one it ignores) fits that text as well as reporting an empty UPDATE does.
        ctx.cover('attributes-without-nlri-read-as-eor')
        n = msg.nlris[0]
        ctx.check('eor-family', (int(n.afi), int(n.safi)) == (1, 1), sig='C02:%s:eor-wrong-family' % name)
        return 'eor'
    ok = isinstance(msg, Update)
    ctx.check('is-update', ok, sig='C02:%s:not-an-update:%s' % (name, type(msg).__name__))
    if not ok:
        return 'other'
    uc = msg.data
    got_a = [(K.got_nlri(r.nlri), K.nexthop_bytes(r.nexthop)) for r in uc.announces]
    got_w = [K.got_nlri(n) for n in uc.withdraws]
    want_a = [(K.want_nlri(a, s, pid, m, p, ctx), nh_of(nh)) for a, s, pid, m, p, nh in want['announce']]
    want_w = [K.want_nlri(a, s, pid, m, p, ctx) for a, s, pid, m, p in want['withdraw']]
    ctx.check('announce-set', sx_eq(got_a, want_a), sig='C02:%s:announce-differs' % name, info={'got': got_a, 'want': want_a})
    ctx.check('withdraw-set', sx_eq(got_w, want_w), sig='C02:%s:withdraw-differs' % name, info={'got': got_w, 'want': want_w})
    if want_a:
        ctx.cover('announce')
    if want_w:
        ctx.cover('withdraw')
    if len(want_a) > 1:
        ctx.cover('two-announces')
    # attributes
    by = {code: (flags, value) for flags, code, value in want['attrs']}
    attrs = uc.attributes
    have = set(int(k) for k in attrs.keys())
    expect = set()
    for code, (flags, value) in by.items():
        if code in (O.MP_REACH, O.MP_UNREACH):
            continue
        if code in O.FLAGS:
            expect.add(code)
        elif (flags // 64) % 2 == 1 if not hasattr(flags, 'e') else bool((flags // 64) % 2 == 1):
            expect.add(code)  # unknown transitive is kept (and relayed with PARTIAL)
    if O.AS_PATH in by and O.AS4_PATH in by and not neg.asn4:
        expect.discard(O.AS4_PATH)
    ctx.check('attribute-set', have == expect, sig='C02:%s:attribute-set-differs' % name, info={'got': sorted(have), 'want': sorted(expect)})
    for code in sorted(expect & have):
        flags, value = by[code]
        obj = attrs[code]
        if code == O.AS_PATH:
            segs = O.as_path(value, bool(neg.asn4), d)
            if O.AS4_PATH in by and not neg.asn4:
                ctx.cover('as4-merge')
                seq, st = O.merge_as4(segs, O.as_path(by[O.AS4_PATH][1], True, d))
                wantp = ([(O.AS_SEQUENCE, seq)] if seq else []) + ([(O.AS_SET, st)] if st else [])
            else:
                wantp = segs
            ctx.check('as-path', sx_eq(exa_aspath(obj), wantp), sig='C02:%s:as-path-differs' % name, info={'got': exa_aspath(obj), 'want': wantp})
            continue
        if code == O.AS4_PATH:
            ctx.check('as4-path', sx_eq(exa_aspath(obj), O.as_path(value, True, d)), sig='C02:%s:as4-path-differs' % name)
            continue
        ctx.check('attr-%d-bytes' % code, sx_eq(obj._packed, value), sig='C02:%s:attribute-%d-value-differs' % (name, code), info={'got': obj._packed, 'want': value})
        if code == O.ORIGIN:
            ctx.check('origin', sx_eq(obj.origin, value[0]), sig='C02:%s:origin-differs' % name)
        elif code == O.MED:
            ctx.check('med', sx_eq(obj.med, O.u32(value)), sig='C02:%s:med-differs' % name)
        elif code == O.LOCAL_PREF:
            ctx.check('local-pref', sx_eq(obj.localpref, O.u32(value)), sig='C02:%s:local-pref-differs' % name)
        elif code == O.AGGREGATOR:
            asn = O.u32(value) if len(value) == 8 else O.u16(value)
            ctx.check('aggregator', s_and(sx_eq(obj.asn, asn), sx_eq(obj.speaker._packed, value[-4:])), sig='C02:%s:aggregator-differs' % name)
        elif code == O.COMMUNITY:
            ctx.check('communities', sx_eq([c._packed for c in obj.communities], [value[i:i + 4] for i in range(0, len(value), 4)]),
                      sig='C02:%s:communities-differ' % name)
        elif code not in O.FLAGS:
            ctx.cover('unknown-transitive-kept')
    return 'update'


def rib_in(ctx, want, msg, neg, name):
    """real UpdateHandler into the real Adj-RIB-In == oracle announces minus withdraws"""
    if not isinstance(msg, Update):
        return
    neighbor = neg.neighbor
    from exabgp.rib.incoming import IncomingRIB
    fams = set(neg.families)
    rib = type('R', (), {})()
    rib.incoming = IncomingRIB(True, fams, True)
    holder = type('N', (), {})()
    holder.rib = rib
    holder.session = neighbor.session
    c = Ctx2(holder, neg)
    h = UpdateHandler()
    coro = h.handle_async(c, msg)
    try:
        coro.send(None)
    except StopIteration:
        pass
    got = [(K.got_nlri(r.nlri), K.nexthop_bytes(r.nexthop)) for r in rib.incoming.cached_routes()]
    # oracle: announces in order (later overwrite earlier for the same NLRI), then withdraws delete
    table = []
    for a, s, pid, m, p, nh in want['announce']:
        key = K.want_nlri(a, s, pid, m, p, ctx)
        table = [(k, v) for k, v in table if not bool(sx_eq(k, key))]
        table.append((key, nh_of(nh)))
    for a, s, pid, m, p in want['withdraw']:
        key = K.want_nlri(a, s, pid, m, p, ctx)
        table = [(k, v) for k, v in table if not bool(sx_eq(k, key))]

    def inside(x, lst):
        return any(bool(sx_eq(x, y)) for y in lst)
    ok = len(got) == len(table) and all(inside(g, table) for g in got) and all(inside(t, got) for t in table)
    ctx.check('adj-rib-in', ok, sig='C02:%s:adj-rib-in-differs' % name, info={'got': got, 'want': table})
    ctx.cover('rib-in')


class Pfx:
    """ctx wrapper giving every symbolic name a prefix, so the messages of a sequence get independent variables"""

    def __init__(self, ctx, p):
        self._c = ctx
        self._p = p
        self.sym = ctx.sym

    def bytes(self, name, n):
        return self._c.bytes(self._p + name, n)

    def byte(self, name):
        return self._c.byte(self._p + name)

    def int(self, name, lo=None, hi=None):
        return self._c.int(self._p + name, lo, hi)

    def bool(self, name):
        return self._c.bool(self._p + name)


def h_sequence(ctx, skels, sess):
    """SEVERAL UPDATEs of one session into ONE Adj-RIB-In through the real UpdateHandler (what `adj-rib-in` keeps and
    `show adj-rib in` reports).  Every message has its own symbolic values: whether the second names the same prefix, the
    same attributes, the same next hop as the first is the solver's choice.  After the last one the Adj-RIB-In equals what
    the reference decoder says the peer announced and did not withdraw since - the LAST announcement of a prefix counts,
    with its own next hop."""
    neg = S.session('in', **SESSIONS[sess])
    d = O.Dec(bool, ctx.concretize)
    from exabgp.rib.incoming import IncomingRIB
    rib = type('R', (), {})()
    rib.incoming = IncomingRIB(True, set(neg.families), True)
    holder = type('N', (), {})()
    holder.rib = rib
    holder.session = neg.neighbor.session
    c = Ctx2(holder, neg)
    table = []
    name = 'sequence:' + '>'.join(skels)
    for i, skel in enumerate(skels):
        items = SEQ_SKELETONS[skel](Pfx(ctx, 'm%d.' % i), sess)
        data = K.mk(ctx, items)
        try:
            want = O.decode_update(data, bool(neg.asn4), addpath_of(neg), d)
        except O.Malformed:
            ctx.assume(False, 'the oracle classifies every message of the sequence as well-formed')
        try:
            msg = Message.unpack(2, data, neg)
            if isinstance(msg, Update):
                msg.data
        except Notify as n:
            ctx.check('well-formed-accepted', False, sig='C02:%s:well-formed-refused:%d/%d' % (name, n.code, n.subcode), info={'message': i, 'notify': str(n)})
            return ('refused', i)
        if not isinstance(msg, Update):
            continue
        coro = UpdateHandler().handle_async(c, msg)
        try:
            coro.send(None)
        except StopIteration:
            pass
        for a, s_, pid, m, p, nh in want['announce']:
            key = K.want_nlri(a, s_, pid, m, p, ctx)
            if any(bool(sx_eq(k, key)) for k, _ in table):
                ctx.cover('prefix-announced-again')
            table = [(k, v) for k, v in table if not bool(sx_eq(k, key))]
            table.append((key, nh_of(nh)))
        for a, s_, pid, m, p in want['withdraw']:
            key = K.want_nlri(a, s_, pid, m, p, ctx)
            if any(bool(sx_eq(k, key)) for k, _ in table):
                ctx.cover('held-prefix-withdrawn')
            table = [(k, v) for k, v in table if not bool(sx_eq(k, key))]
    got = [(K.got_nlri(r.nlri), K.nexthop_bytes(r.nexthop)) for r in rib.incoming.cached_routes()]

    def inside(x, lst):
        return any(bool(sx_eq(x, y)) for y in lst)
    ok = len(got) == len(table) and all(inside(g, table) for g in got) and all(inside(t, got) for t in table)
    ctx.check('adj-rib-in-after-the-sequence', ok, sig='C02:%s:adj-rib-in-differs' % name, info={'got': got, 'want': table})
    ctx.cover('rib-in')
    return ('ok', len(table))


def json_witness(want, msg, neg, values_d):
    """concrete only: the JSON event agrees with the oracle"""
    import socket
    if isinstance(msg, EOR):
        txt = Response.JSON(json_version).update(neg.neighbor, 'receive', msg, b'', b'', neg) if hasattr(msg, 'announces') else None
        return True
    txt = Response.JSON(json_version).update(neg.neighbor, 'receive', msg.data, b'', b'', neg)
    ev = json.loads(txt)
    upd = ev['neighbor']['message']['update']
    fam_name = {(1, 1): 'ipv4 unicast', (2, 1): 'ipv6 unicast', (1, 2): 'ipv4 multicast', (2, 2): 'ipv6 multicast'}

    def ptxt(afi, mask, p):
        size = 4 if afi == 1 else 16
        return '%s/%d' % (socket.inet_ntop(socket.AF_INET if afi == 1 else socket.AF_INET6, bytes(p) + bytes(size - len(p))), mask)

    def nhtxt(nh):
        if len(nh) == 4:
            return socket.inet_ntop(socket.AF_INET, bytes(nh))
        return socket.inet_ntop(socket.AF_INET6, bytes(nh[:16]))
    wa = {}
    for a, s, pid, m, p, nh in want['announce']:
        e = {'nlri': ptxt(a, m, p)}
        if pid is not None:
            e['path-information'] = socket.inet_ntop(socket.AF_INET, bytes(pid))
        wa.setdefault(fam_name[(a, s)], {}).setdefault(nhtxt(nh) if nh else 'null', []).append(e)
    ww = {}
    for a, s, pid, m, p in want['withdraw']:
        e = {'nlri': ptxt(a, m, p)}
        if pid is not None:
            e['path-information'] = socket.inet_ntop(socket.AF_INET, bytes(pid))
        ww.setdefault(fam_name[(a, s)], []).append(e)
    ga = upd.get('announce', {})
    gw = upd.get('withdraw', {})
    if ga != wa or gw != ww:
        raise AssertionError('json routes differ: got announce=%s withdraw=%s want announce=%s withdraw=%s' % (ga, gw, wa, ww))
    by = {code: (flags, value) for flags, code, value in want['attrs']}
    at = upd.get('attribute', {})
    if O.ORIGIN in by and at.get('origin') != ['igp', 'egp', 'incomplete'][by[O.ORIGIN][1][0]]:
        raise AssertionError('json origin %r' % at.get('origin'))
    if O.MED in by and at.get('med') != O.u32(by[O.MED][1]):
        raise AssertionError('json med %r' % at.get('med'))
    if O.LOCAL_PREF in by and at.get('local-preference') != O.u32(by[O.LOCAL_PREF][1]):
        raise AssertionError('json local-preference %r' % at.get('local-preference'))
    if O.COMMUNITY in by:
        v = by[O.COMMUNITY][1]
        wantc = [[O.u16(v, i), O.u16(v, i + 2)] for i in range(0, len(v), 4)]
        if at.get('community') != wantc:
            raise AssertionError('json community %r want %r' % (at.get('community'), wantc))
    if O.ORIGINATOR_ID in by and at.get('originator-id') != nhtxt(by[O.ORIGINATOR_ID][1]):
        raise AssertionError('json originator-id')
    if O.AS_PATH in by:
        d = O.Dec()
        segs = O.as_path(by[O.AS_PATH][1], bool(neg.asn4), d)
        if O.AS4_PATH in by and not neg.asn4:
            seq, st = O.merge_as4(segs, O.as_path(by[O.AS4_PATH][1], True, d))
            segs = ([(2, seq)] if seq else []) + ([(1, st)] if st else [])
        names = {1: 'as-set', 2: 'as-sequence', 3: 'as-confed-sequence', 4: 'as-confed-set'}
        wantp = {str(i): {'element': names[t], 'value': [int(x) for x in asns]} for i, (t, asns) in enumerate(segs)}
        if at.get('as-path', {}) != wantp:
            raise AssertionError('json as-path %r want %r' % (at.get('as-path'), wantp))
    return True


def h_shaped(ctx, skel, sess, order=None):
    neg = S.session('in', **SESSIONS[sess])
    fn = SKELETONS[skel][0]
    items = fn(ctx, sess)
    data = K.mk(ctx, items)
    name = skel
    d = O.Dec(bool, ctx.concretize)
    try:
        want = O.decode_update(data, bool(neg.asn4), addpath_of(neg), d)
    except O.Malformed as m:
        ctx.assume(False, 'the oracle classifies the message as well-formed')
    ctx.cover('well-formed')
    try:
        msg = Message.unpack(2, data, neg)
        if isinstance(msg, Update):
            msg.data
    except Notify as n:
        ctx.check('well-formed-accepted', False, sig='C02:%s:well-formed-refused:%d/%d' % (name, n.code, n.subcode), info={'notify': str(n)})
        return ('refused', int(n.code), int(n.subcode))
    if isinstance(msg, Update) and Attribute.CODE.INTERNAL_TREAT_AS_WITHDRAW in msg.data.attributes:
        ctx.check('well-formed-not-treat-as-withdraw', False, sig='C02:%s:well-formed-treated-as-withdraw' % name)
        return 'taw'
    r = compare(ctx, want, msg, neg, name)
    rib_in(ctx, want, msg, neg, name)
    ctx.witness_check('json', lambda: json_witness(want, msg, neg, None), sig='C02:%s:json-differs' % name)
    return r


EXA_ONLY_CODES = {int(code) for (code, _flag) in Attribute.registered_attributes} - set(O.FLAGS)


def h_unshaped(ctx, L, sess):
    neg = S.session('in', **SESSIONS[sess])
    data = ctx.bytes('u', L)
    d = O.Dec(bool, ctx.concretize)
    try:
        want = O.decode_update(data, bool(neg.asn4), addpath_of(neg), d)
    except O.Malformed:
        ctx.assume(False, 'the oracle classifies the message as well-formed')
    except IndexError:
        ctx.assume(False)
    for _, code, _ in want['attrs']:
        c = ctx.concretize(code)
        if c not in O.FLAGS and c in EXA_ONLY_CODES:
            # an attribute ExaBGP decodes and the reference decoder does not model (PMSI, tunnel encapsulation, AIGP, BGP-LS,
            # prefix-SID ...): its syntax is not this oracle's to judge (round trip: C15, refusal: C03/C08)
            ctx.assume(False, 'unshaped: every attribute present is one the reference decoder models, or one nobody knows')
    ctx.cover('well-formed')
    try:
        msg = Message.unpack(2, data, neg)
        if isinstance(msg, Update):
            msg.data
    except Notify as n:
        ctx.check('well-formed-accepted', False, sig='C02:unshaped:well-formed-refused:%d/%d' % (n.code, n.subcode), info={'notify': str(n), 'body': data})
        return ('refused', int(n.code), int(n.subcode))
    if isinstance(msg, Update) and Attribute.CODE.INTERNAL_TREAT_AS_WITHDRAW in msg.data.attributes:
        if any(bool(ctx.concretize(flags & 0x20)) and code in (O.ORIGIN, O.AS_PATH, O.NEXT_HOP, O.LOCAL_PREF, O.ATOMIC_AGGREGATE) for flags, code, _ in want['attrs']):
            # Partial bit set on a WELL-KNOWN attribute: RFC 4271 4.3 says it MUST be 0 there, RFC 7606 3.c only names the
            # Optional and Transitive bits as making an attribute malformed.  Either reading is defensible; ExaBGP treats
            # the routes as withdrawn (the stricter one).  No obligation on this input.
            ctx.cover('partial-bit-on-a-well-known-attribute')
            return 'taw-partial-bit'
        ctx.check('well-formed-not-treat-as-withdraw', False, sig='C02:unshaped:well-formed-treated-as-withdraw', info={'body': data})
        return 'taw'
    r = compare(ctx, want, msg, neg, 'unshaped')
    rib_in(ctx, want, msg, neg, 'unshaped')
    ctx.witness_check('json', lambda: json_witness(want, msg, neg, None), sig='C02:unshaped:json-differs')
    return r


def sk_wfree(n):
    def f(ctx, s):
        return K.be(n, 2) + K.sym(ctx, 'w', n) + [0, 0]
    return f


def sk_nfree(n):
    def f(ctx, s):
        return K.body([], _base(ctx, True), [K.sym(ctx, 'n', n)])
    return f


for _n in (4, 6, 8, 10):
    SKELETONS['wfree%d' % _n] = (sk_wfree(_n), ('asn4', 'addpath') if _n > 4 else ('asn4',))
    SKELETONS['nfree%d' % _n] = (sk_nfree(_n), ('asn4', 'addpath') if _n > 4 else ('asn4',))


def units(tier):
    us = []
    for skel, (fn, sessions) in SKELETONS.items():
        if skel in ('wfree10', 'nfree10', 'wfree8', 'nfree8') and tier != 'thorough':
            continue
        for s in sessions:
            cov = ['well-formed', 'rib-in'] if not skel.startswith('eor') else ['well-formed', 'eor']
            if skel in ('as4', 'as4-equal', 'as4-first'):
                cov.append('as4-merge')
            if skel == 'unknown':
                cov.append('unknown-transitive-kept')
            us.append(Unit('shaped/%s/%s' % (skel, s), lambda ctx, k=skel, s=s: h_shaped(ctx, k, s), must_cover=cov, hash_const=True,
                           reset=reset_state, weight=10, max_seconds=400))
    seqs = [(('mp', 'mp'), 'asn4'), (('v4', 'v4'), 'asn4'), (('mp', 'mpun'), 'asn4'), (('v4', 'wd'), 'asn4')]
    if tier == 'thorough':
        seqs += [(('mp', 'mp'), 'addpath'), (('v4', 'v4'), 'addpath'), (('mp', 'mpun', 'mp'), 'asn4'), (('mp', 'mp', 'mp'), 'asn4'), (('v4', 'wd', 'v4'), 'asn4')]
    for skels, sess in seqs:
        cov = ['rib-in'] + (['prefix-announced-again'] if skels[0] == skels[1] else ['held-prefix-withdrawn'])
        us.append(Unit('sequence/%s/%s' % ('-'.join(skels), sess), lambda ctx, k=skels, s=sess: h_sequence(ctx, k, s), must_cover=cov, hash_const=True,
                       reset=reset_state, weight=30, max_seconds=600))
    for L in ((4, 5, 6, 7) if tier == 'thorough' else (4, 5, 6)):
        us.append(Unit('unshaped/L%d' % L, lambda ctx, L=L: h_unshaped(ctx, L, 'asn4'), must_cover=('well-formed',), hash_const=True,
                       reset=reset_state, weight=40 * L, max_seconds=1500 if tier == 'thorough' else 400, max_paths=200000))
    return us
