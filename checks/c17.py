"""C17 — configuration reload applies the difference, or nothing at all.

delta/*  (obligation a): the RIB side of a successful reload.  Old and new configuration are sets of <=3 routes with a
         SYMBOLIC prefix byte and an attribute/next-hop selector (so "same prefix, changed attributes" is an aliasing
         pattern the solver produces), API-announced / API-withdrawn routes are present, part of the queue may still
         be unsent.  The reload runs the REAL pieces in their real order:
           1. configuration parse: ParseNeighbor._init_neighbor(new neighbor)  -> add_to_rib_watchdog per route on the
              RIB the new Neighbor shares with the old one (RIB.enable reuses the cached RIB of the same name),
           2. Reactor.reload -> real Peer.reconfigure(new)  (session down: replace_reload at once;
              session up: the `_neighbor` hand-over, i.e. replace_reload at the top of the _main loop)
              or Peer.reestablish (neighbor changed): teardown, reset_rib, replace_restart(previous, current).
         After the drain: peer table == cached_routes() == new configuration + still-valid API routes.
         NOTE (design finding F4a): replace_reload() alone keys on the prefix and would not re-announce a route whose
         attributes changed; in the real flow step 1 already queued it (not in_cache), so F4a does not occur.  The
         mutation "skip step 1" makes the check report C17:delta:changed-attributes-not-reannounced.
fault/*  (obligation b) is appended by units() below.
"""
from __future__ import annotations

from sx.run import Unit

from kits import rib as K
from kits import session as S
from kits.rib import Pool, PeerTable, Table, Sender, mk_route, mk_rib, cached_table, diff, same, StaleWatch
from sx.core import sx_eq, s_not

import exabgp.rib as ribpkg
import exabgp.reactor.peer.peer as peermod
from exabgp.reactor.peer.peer import Peer
from exabgp.bgp.fsm import FSM
from exabgp.configuration.configuration import Configuration
import exabgp.configuration.neighbor as cnm
from exabgp.configuration.neighbor import ParseNeighbor

ID = 'C17'
LEVEL = 'model_checking'
TECHNIQUE = ('(a) symbolic execution of the real reload delta (ParseNeighbor._init_neighbor -> add_to_rib_watchdog, Peer.reconfigure, '
             'OutgoingRIB.replace_reload/replace_restart) over symbolic route sets (rib kit: z3 decides which old/new/API routes '
             'share a prefix), peer-table oracle vs cached_routes() vs the intended table')
ASSUMPTIONS = [
    'logging in exabgp.rib.outgoing / reactor.peer.peer / configuration.neighbor has an empty body',
    'the two Neighbor objects come from the real Configuration parser (same neighbor name); their `routes` lists are then '
    'replaced by rib-kit routes and both share one fresh OutgoingRIB, as RIB.enable() arranges for a reload; '
    'new.previous = old as Configuration._commit_reload does',
    'Peer is built with object.__new__ and carries only neighbor/_neighbor/fsm (the fields Peer.reconfigure/reestablish use)',
    'the three statements of Peer._main that hand a reloaded neighbor to the RIB (replace_reload(previous.routes, routes); '
    'previous = None; _neighbor = None) and the session-start statement replace_restart(previous.routes, routes) are '
    'replayed by the harness in the order _main executes them (they sit inside a coroutine)',
    'session loss = generator abandoned, Neighbor.reset_rib(), peer table emptied',
    'ownership rule for the expected table: configuration routes win over API routes of the same prefix at reload time, and a '
    'prefix the old configuration carried and the new one does not is withdrawn even if the API re-announced it '
    '(replace_reload/replace_restart key on the prefix); API routes on other prefixes are "still valid" and must survive',
    'sender model and peer semantics as in C04',
]
BOUNDS = {
    'quick': {'delta': '(old,new,API ops) in {(0,1,0),(1,0,1),(1,1,1),(2,1,1),(1,2,1),(2,2,0)}, prefix octet symbolic in 0..2, '
                       '3 attribute sets (MED 10 / MED 20 / MED 10 with another next hop); session up / down / re-established; '
                       'queue flushed / unsent / one message sent before the reload; delta/watchdog: 1 old + 2 new routes '
                       '(distinct prefixes), each new route optionally declared `watchdog w1 withdraw`'},
    'thorough': {'delta': 'adds (2,2,1),(1,1,2),(3,2,0),(2,3,0) and (3,3,0) with 2 attribute sets'},
}
OUTSIDE = [
    'the configuration file parser (concrete), process/API section changes, listener changes of Reactor.reload',
    'watchdog groups toggled through the API before the reload (delta/watchdog/* only covers routes the NEW configuration '
    'declares `watchdog <name> withdraw`: they must be as withdrawn after the reload as after a cold start)',
    'families other than IPv4 unicast; multi-session neighbors (one RIB per family)',
]

K.quiet()


class _Log:
    def __getattr__(self, name):
        return lambda *a, **k: None


for _m in (peermod, cnm):
    _m.log = _Log()
    _m.lazymsg = lambda *a, **k: None


def reset():
    ribpkg.RIB._cache.clear()


_CONF = S.mk_conf(routes=())
_PAIR = []


def neighbor_pair():
    """(old, new): two real Neighbor objects of the same name, as two successive parses of one file produce."""
    if not _PAIR:
        for _ in range(2):
            ribpkg.RIB._cache.clear()
            cfg = Configuration([_CONF], text=True)
            if not cfg.reload():
                raise RuntimeError('configuration refused: %s' % (cfg.error,))
            _PAIR.append(list(cfg.neighbors.values())[0])
    return _PAIR


class _ParseSelf:
    def __init__(self):
        self.neighbors = {}
        self._uncommitted = []


def parse_step(neighbor):
    """what the configuration parser does with the routes of a neighbor it just built: ParseNeighbor._init_neighbor while
    parsing and, where the tree defers the RIB work to the acceptance of the whole file, ParseNeighbor.commit
    (called by Configuration._commit_reload) — a SUCCESSFUL reload runs both"""
    ps = _ParseSelf()
    ParseNeighbor._init_neighbor(ps, neighbor, {})
    commit = getattr(ParseNeighbor, 'commit', None)
    if commit is not None:
        commit(ps)


class HarnessDrift(Exception):
    """the statements of Peer this check runs could not be located in the current source"""


class _Stub:
    def __getattr__(self, name):
        return lambda *a, **k: None


def mk_peer(neighbor, established):
    p = object.__new__(Peer)
    p.neighbor = neighbor
    p._neighbor = None
    p.fsm = FSM(p, FSM.ESTABLISHED if established else FSM.IDLE)
    p._teardown = None
    p._restart = True
    p._restarted = False
    p._delay = _Stub()
    p.fsm_runner = _Stub()
    p.proto = None
    p.stats = {}
    return p


_BLOCKS = {}


def _peer_blocks():
    """The statements of the REAL Peer._main which deal with a reload, cut out of the current source and compiled as they are:
      'session-start' : from `previous = ...` to `self.neighbor.previous = None` ("Initialize RIB with previous routes")
      'loop-top'      : the `if self._neighbor:` statement at the top of the message loop ("Handle configuration reload")
    They run with `self` bound to the check's Peer and the globals of exabgp.reactor.peer.peer."""
    if _BLOCKS:
        return _BLOCKS
    import ast
    import inspect
    import textwrap
    fn = ast.parse(textwrap.dedent(inspect.getsource(Peer._main))).body[0]

    def assigns(node, name):
        return isinstance(node, ast.Assign) and any(isinstance(t, ast.Name) and t.id == name for t in node.targets)

    def is_test_neighbor(node):
        return isinstance(node, ast.If) and isinstance(node.test, ast.Attribute) and node.test.attr == '_neighbor'

    body = fn.body
    first = [i for i, n in enumerate(body) if assigns(n, 'previous')]
    if not first:
        raise HarnessDrift('Peer._main: no `previous = ...` statement at function level')
    i = first[0]
    j = i
    while j < len(body) and not (isinstance(body[j], ast.Assign) and isinstance(body[j].targets[0], ast.Attribute) and body[j].targets[0].attr == 'previous'):
        j += 1
    if j >= len(body) or j - i > 6:
        raise HarnessDrift('Peer._main: `self.neighbor.previous = None` does not follow `previous = ...`')
    start_stmts = body[i:j + 1]
    loop = None
    for node in ast.walk(fn):
        if isinstance(node, ast.While):
            for st in node.body:
                if is_test_neighbor(st):
                    loop = st
                    break
        if loop is not None:
            break
    if loop is None:
        raise HarnessDrift('Peer._main: no `if self._neighbor:` at the top of the message loop')
    for name, stmts in (('session-start', start_stmts), ('loop-top', [loop])):
        mod = ast.Module(body=[ast.FunctionDef(name='block', args=ast.arguments(posonlyargs=[], args=[ast.arg(arg='self')], kwonlyargs=[], kw_defaults=[], defaults=[]),
                                               body=stmts, decorator_list=[], type_params=[])], type_ignores=[])
        ast.fix_missing_locations(mod)
        ns = {}
        exec(compile(mod, '<Peer._main:%s>' % name, 'exec'), vars(peermod), ns)
        _BLOCKS[name] = ns['block']
    return _BLOCKS


def main_session_start(peer):
    """Peer._main, 'Initialize RIB with previous routes' - the real statements"""
    _peer_blocks()['session-start'](peer)


def main_loop_top(peer):
    """Peer._main, 'Handle configuration reload' at the top of every loop iteration - the real statement"""
    _peer_blocks()['loop-top'](peer)


def session_lost(peer, tx, table):
    """the real Peer._reset of a restarting peer (the transport is already gone: proto is None)"""
    tx.abandon()
    table.session_reset()
    Peer._reset(peer, 'session lost')
    peer.fsm.state = FSM.IDLE


MODES = ('up', 'down', 'reestablish')
PRE = ('flushed', 'unsent', 'one-sent')
API = ('announce:x', 'announce:y', 'announce:x2', 'withdraw')


def h_delta(ctx, *a, **k):
    try:
        return _h_delta(ctx, *a, **k)
    except Exception as exc:  # the reload path raised, or the queue never drains
        ctx.check('reload-does-not-fail', False, sig='C17:delta:exception:%s' % type(exc).__name__, info={'exception': repr(exc)})
        return ['exception', type(exc).__name__]


def _h_delta(ctx, n_old, n_new, n_api, mode, dom=3, grouped=False, pool_names=('x', 'y', 'x2'), wd=False):
    pool = Pool(pool_names)
    old_n, new_n = neighbor_pair()
    rib = mk_rib(True)
    for nb in (old_n, new_n):
        nb.rib.outgoing = rib
        nb.rib.enabled = True
        nb.routes = []
        nb.previous = None
    table = PeerTable()
    tx = Sender(rib, table, grouped)
    ghost = Table()

    # ---- old configuration, session established, everything sent
    old = []
    for i in range(n_old):
        sel = ctx.choice('old%d.attr' % i, len(pool))
        old.append(mk_route(ctx, 'old%d.p' % i, dom, pool, sel))
    old_n.routes = list(old)
    watch = StaleWatch(rib)
    parse_step(old_n)
    watch.after('parse')
    peer = mk_peer(old_n, True)
    main_session_start(peer)
    watch.after('session-start')
    for r in old:
        ghost.set_route(r)
    tx.send(None)

    # ---- API activity, part of which may still be queued when the reload arrives
    api_kinds = []
    for j in range(n_api):
        kind = ctx.pick('api%d' % j, tuple(k for k in API if k == 'withdraw' or k.split(':')[1] in pool.names))
        api_kinds.append(kind)
        if kind == 'withdraw':
            r = mk_route(ctx, 'api%d.p' % j, dom, pool, 0)
            rib.del_from_rib(r)
            ghost.delete(r.nlri.index())
            watch.after('api-withdraw')
        else:
            r = mk_route(ctx, 'api%d.p' % j, dom, pool, pool.names.index(kind.split(':')[1]))
            rib.add_to_rib(r)
            ghost.set_route(r)
            watch.after('api-announce')
    pre = ctx.pick('pre', PRE)
    if pre == 'flushed':
        tx.send(None)
    elif pre == 'one-sent':
        tx.send(1)
    if mode == 'down':
        # the session is down when the reload arrives
        session_lost(peer, tx, table)

    # ---- reload: parse the new configuration, then Reactor.reload tells the peer
    new = []
    new_wd = []   # configured `watchdog w1 withdraw`: present in the configuration, withdrawn until `announce watchdog w1`
    for i in range(n_new):
        sel = ctx.choice('new%d.attr' % i, len(pool))
        wdw = bool(ctx.bool('new%d.watchdog-withdrawn' % i)) if wd else False
        new.append(mk_route(ctx, 'new%d.p' % i, dom, pool, sel, watchdog='w1' if wdw else None, withdrawn=wdw))
        new_wd.append(wdw)
        if wd:
            for other in new[:-1]:
                ctx.assume(s_not(sx_eq(other.nlri.index(), new[-1].nlri.index())),
                           'delta/watchdog: the new configuration lists every prefix once (a prefix listed both as a plain route and as a withdrawn watchdog route has no defined meaning)')
        if wdw:
            ctx.cover('watchdog-withdrawn-route-in-new-configuration')
    new_n.routes = list(new)
    new_n.previous = old_n               # Configuration._commit_reload
    parse_step(new_n)
    watch.after('parse')
    for r in new:
        g = ghost.get(r.nlri.index())
        if g is not None and any(same(o.nlri.index(), r.nlri.index()) for o in old):
            if g[1] != r.attributes.index():
                ctx.cover('changed-attributes')
            elif not same(g[2], r.nexthop.index()):
                ctx.cover('changed-nexthop')
            else:
                ctx.cover('unchanged-route')
        elif g is None:
            ctx.cover('added-route')
    for r, w in zip(new, new_wd):
        if w:
            ghost.delete(r.nlri.index())
        else:
            ghost.set_route(r)
    for o in old:
        if not any(same(o.nlri.index(), r.nlri.index()) for r in new):
            ctx.cover('removed-route')
            ghost.delete(o.nlri.index())
    api_survivor = [row for row in ghost.rows if not any(same(row[0], r.nlri.index()) for r in new)]
    if api_survivor:
        ctx.cover('api-route-still-valid')
    if tx.live:
        ctx.cover('reload-while-generator-live')

    if mode == 'reestablish':
        Peer.reestablish(peer, new_n)          # neighbor definition changed
        session_lost(peer, tx, table)          # teardown -> _reset -> neighbor = _neighbor
        peer.fsm.state = FSM.ESTABLISHED
        main_session_start(peer)               # replace_restart(previous.routes, routes)
    else:
        Peer.reconfigure(peer, new_n)
        if mode == 'up':
            main_loop_top(peer)                # replace_reload(previous.routes, routes)
        else:
            # reconfigure applied the delta at once (GitHub #1126); later the session comes up
            peer.fsm.state = FSM.ESTABLISHED
            main_session_start(peer)           # replace_restart([], routes)
    watch.after('reload')
    ctx.check('reload-handed-over', peer.neighbor is new_n and peer._neighbor is None and new_n.previous is None,
              sig='C17:delta:neighbor-not-handed-over:%s' % mode)

    # ---- drain and compare
    tx.send(None)
    cached = cached_table(rib)
    info = {'mode': mode, 'pre': pre, 'api': api_kinds, 'old': [K.row_of_route(r) for r in old], 'new': [K.row_of_route(r) for r in new],
            'peer': table.render(), 'adj-rib-out': cached.render(), 'expected': ghost.render(), 'stale_pending_entries_seen': tx.stale_seen}
    # F2 (known): an announce (API announce, the parser queueing a configured route, replace_reload force-adding one)
    # supersedes a still-queued announce of the same prefix inside _update_rib.  A stale entry left inside the withdraw
    # primitive or outside both primitives is something else and keeps its own signature.
    cause = watch.cause(tx.stale_seen, 'delta')

    d = diff(table, ghost)
    wd_extra = [x for x in d if x[0] == 'extra' and any(w and same(x[1][0], r.nlri.index()) for r, w in zip(new, new_wd))]
    ctx.check('watchdog-withdrawn-routes-stay-withdrawn', not wd_extra, sig='C17:%s:watchdog-withdrawn-route-announced-after-reload' % cause, info=info)
    d = [x for x in d if x not in wd_extra]
    removed_present = [x for x in d if x[0] == 'extra' and any(same(x[1][0], o.nlri.index()) for o in old)]
    ctx.check('removed-routes-withdrawn', not removed_present, sig='C17:%s:removed-route-not-withdrawn' % cause, info=info)
    ctx.check('nothing-unintended', not [x for x in d if x[0] == 'extra' and x not in removed_present],
              sig='C17:%s:peer-holds-unintended-route' % cause, info=info)
    changed = [x for x in d if x[0] == 'differs']
    ctx.check('changed-routes-reannounced', not [x for x in changed if any(same(x[1][0], r.nlri.index()) for r in new)],
              sig='C17:%s:changed-attributes-not-reannounced' % cause, info=info)
    ctx.check('api-routes-keep-their-attributes', not [x for x in changed if not any(same(x[1][0], r.nlri.index()) for r in new)],
              sig='C17:%s:api-route-altered' % cause, info=info)
    missing = [x for x in d if x[0] == 'missing']
    ctx.check('new-routes-announced', not [x for x in missing if any(same(x[1][0], r.nlri.index()) for r in new)],
              sig='C17:%s:new-route-not-announced' % cause, info=info)
    ctx.check('api-routes-survive', not [x for x in missing if not any(same(x[1][0], r.nlri.index()) for r in new)],
              sig='C17:%s:valid-api-route-lost' % cause, info=info)
    ctx.check('peer-equals-adj-rib-out', not diff(table, cached) and not cached.duplicate_keys,
              sig='C17:%s:peer-differs-from-adj-rib-out' % cause, info=info)

    if len(table):
        ctx.cover('final-nonempty')
    ctx.note('class', '%s/%s' % (mode, pre))
    return [mode, pre, api_kinds, len(table), len(cached), len(ghost)]


# ----------------------------------------------------------------------------- units


def delta_units(tier):
    th = tier == 'thorough'
    us = []
    # (old routes, new routes, API operations, attribute pool)
    full = ('x', 'y', 'x2')
    sizes = [(0, 1, 0, full), (1, 0, 1, full), (1, 1, 1, full), (2, 1, 1, full), (1, 2, 1, full), (2, 2, 0, full)]
    if th:
        sizes += [(2, 2, 1, full), (1, 1, 2, full), (3, 2, 0, full), (2, 3, 0, full), (3, 3, 0, ('x', 'y'))]
    for mode in MODES:
        if mode != 'reestablish':
            us.append(Unit('delta/watchdog-toggled-after/%s' % mode, lambda ctx, mode=mode: h_watchdog_after_reload(ctx, mode),
                           must_cover=('old-route-in-the-group', 'a-route-left-the-configuration'), hash_const=True, reset=reset, weight=30))
        # the new configuration may carry routes configured `watchdog w1 withdraw` (initially withdrawn)
        us.append(Unit('delta/watchdog/%s' % mode, lambda ctx, mode=mode: h_delta(ctx, 1, 2, 0, mode, pool_names=('x', 'y'), wd=True),
                       must_cover=('watchdog-withdrawn-route-in-new-configuration',), hash_const=True, reset=reset, weight=30))
    for (no, nn, na, pool) in sizes:
        for mode in MODES:
            must = ()
            if no >= 1 and nn >= 1:
                must = ('changed-attributes', 'changed-nexthop', 'unchanged-route', 'removed-route', 'added-route', 'final-nonempty')
                if len(pool) < 3:
                    must = tuple(m for m in must if m != 'changed-nexthop')
                if na:
                    must += ('api-route-still-valid',)
                    if mode != 'down':
                        must += ('reload-while-generator-live',)
            grouped = (no + nn) % 2 == 1
            us.append(Unit('delta/%s/o%d-n%d-a%d' % (mode, no, nn, na),
                           lambda ctx, no=no, nn=nn, na=na, mode=mode, g=grouped, pool=pool: h_delta(ctx, no, nn, na, mode, grouped=g, pool_names=pool),
                           must_cover=must, hash_const=True, reset=reset, max_paths=400000, max_seconds=1100,
                           weight=(3 ** (no + nn)) * (5 ** na)))
    return us


def h_watchdog_after_reload(ctx, mode):
    """Watchdog groups across a reload.  The old configuration has two routes, each optionally a member of the group w1
    (`watchdog w1`); the new configuration keeps, drops or changes them (solver-chosen prefixes and memberships).  After the
    reload the API toggles the group: `withdraw watchdog w1`, then `announce watchdog w1`.  The peer ends up holding exactly
    the routes of the NEW configuration: a route which left the configuration does not come back through the group."""
    pool = Pool(('x', 'y'))
    old_n, new_n = neighbor_pair()
    rib = mk_rib(True)
    for nb in (old_n, new_n):
        nb.rib.outgoing = rib
        nb.rib.enabled = True
        nb.routes = []
        nb.previous = None
    table = PeerTable()
    tx = Sender(rib, table, False)
    dom = 3
    old = []
    for i in range(2):
        member = bool(ctx.bool('old%d.in-w1' % i))
        old.append(mk_route(ctx, 'old%d.p' % i, dom, pool, 0, watchdog='w1' if member else None))
        if member:
            ctx.cover('old-route-in-the-group')
    ctx.assume(s_not(sx_eq(old[0].nlri.index(), old[1].nlri.index())), 'the configuration lists every prefix once')
    old_n.routes = list(old)
    parse_step(old_n)
    peer = mk_peer(old_n, True)
    main_session_start(peer)
    tx.send(None)
    if mode == 'down':
        session_lost(peer, tx, table)
    n_new = ctx.choice('new-routes', 2) + 1
    new = []
    for i in range(n_new):
        member = bool(ctx.bool('new%d.in-w1' % i))
        new.append(mk_route(ctx, 'new%d.p' % i, dom, pool, ctx.choice('new%d.attr' % i, 2), watchdog='w1' if member else None))
        for other in new[:-1]:
            ctx.assume(s_not(sx_eq(other.nlri.index(), new[-1].nlri.index())), 'the configuration lists every prefix once')
    new_n.routes = list(new)
    new_n.previous = old_n
    parse_step(new_n)
    if mode == 'down':
        peer.reconfigure(new_n)
        peer.fsm.state = FSM.ESTABLISHED
        main_session_start(peer)
    else:
        peer.reconfigure(new_n)
        main_loop_top(peer)
    tx.send(None)
    if any(not any(same(o.nlri.index(), r.nlri.index()) for r in new) for o in old):
        ctx.cover('a-route-left-the-configuration')
    rib.withdraw_watchdog('w1')
    tx.send(None)
    rib.announce_watchdog('w1')
    tx.send(None)
    ghost = Table()
    for r in new:
        ghost.set_route(r)
    d = diff(table, ghost)
    info = {'mode': mode, 'old': [K.row_of_route(r) for r in old], 'new': [K.row_of_route(r) for r in new], 'peer': table.render(), 'expected': ghost.render()}
    ctx.check('removed-routes-stay-removed', not [x for x in d if x[0] == 'extra'], sig='C17:watchdog:removed-route-announced-again-through-the-group', info=info)
    ctx.check('new-routes-announced', not [x for x in d if x[0] == 'missing'], sig='C17:watchdog:route-of-the-new-configuration-missing', info=info)
    ctx.check('changed-routes-reannounced', not [x for x in d if x[0] == 'differs'], sig='C17:watchdog:route-with-old-values-at-peer', info=info)
    return [mode, len(table)]


def units(tier):
    us = []
    us += delta_units(tier)
    from checks import c17b   # fault/*, seq/*: obligation (b) and the end-to-end reload histories
    us += c17b.units(tier)
    return us
