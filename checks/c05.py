"""C05 — the session state machine only takes RFC 4271 transitions.

session/* : the real Peer._run() (real _establish, _main, _close, _reset, Protocol.read_open/read_keepalive/
            read_message/validate_open, Negotiated.validate, FSM.change) over the peer kit's scripted remote speaker.
            The KIND of every remote event is chosen by the solver when the peer actually reads; local events
            (incoming connection, API teardown, reestablish) are injected at a solver-chosen scheduling point.
            Obligations on every path: each FSM (from,to) is in the RFC 4271 8.2.2 relation (and in ExaBGP's own
            FSM.transition table, so a change of the table is noticed); ESTABLISHED only after our OPEN was written,
            a valid peer OPEN and a KEEPALIVE were read; no UPDATE / End-of-RIB / ROUTE-REFRESH byte is written in
            any other state; leaving a connected state closes the transport; API up/down alternate.
The same exploration is reused by C10 (checks/c10.py) with the NOTIFICATION obligations.
"""
from __future__ import annotations

import struct

from sx.run import Unit
from kits import session as S
from kits import peer as P

from exabgp.bgp.fsm import FSM

ID = 'C05'
LEVEL = 'model_checking'
TECHNIQUE = 'exhaustive exploration (solver-chosen event kinds and injection points) of the real Peer coroutine over a scripted remote speaker under a virtual clock; trace obligations checked on every path'
ASSUMPTIONS = [
    'asyncio and time are replaced inside exabgp.reactor.peer.peer / exabgp.bgp.timer by a virtual clock and a hand-driven scheduler (coro.send(None)); every await sleep() is a scheduling point',
    'the transport is kits/peer.py FakeConn: reader_async delivers framed messages / header faults / EOF / silence from the script, writer_async records bytes; Protocol.connect is stubbed',
    'event DATA is concrete per event kind (OPEN variants, a valid UPDATE, ...): the data spaces are the business of C06/C07/C08; here the ORDER is what is explored',
    'one Peer coroutine (no second peer, no real Reactor/Listener); generator-mode twin not explored',
]
BOUNDS = {'quick': {'remote events': '<= 4 after the connection (OPEN phase included)', 'local injections': '<= 1', 'hold time': '9 s'},
          'thorough': {'remote events': '<= 6', 'local injections': '<= 2', 'hold time': '9 s and 0'}}
OUTSIDE = ['Reactor scheduling of several peers, real sockets, Listener', 'reload while connected is C17', 'message data (symbolic) is C06/C07/C08']

LOCAL_AS, PEER_AS = 65000, 65001

OPEN_KINDS = {
    'open': dict(),
    'open-bad-as': dict(asn=65099),
    'open-hold-1': dict(hold=1),
    'open-rid-0': dict(router_id=b'\x00\x00\x00\x00'),
    'open-v3': dict(version=3),
}

UPDATE_OK = bytes.fromhex('0000' + '0014' + '40010100' + '4002060201' + '0000fde9' + '400304c0000201' + '180a0000')
UPDATE_BAD = bytes.fromhex('0000' + '0004' + '400101ff' + '180a0000')[:4] + b'\xff\xff'  # attribute length overrun -> 3/1
EOR = b'\x00\x00\x00\x00'
NOTIF = bytes([6, 2])
REFRESH = struct.pack('!HBB', 1, 0, 1)


def open_body(asn=PEER_AS, hold=9, router_id=b'\x05\x06\x07\x08', version=4):
    b = S.peer_open_body(asn=asn, hold=hold, router_id=router_id, families=((1, 1),), asn4=True)
    return bytes([version]) + b[1:]


REMOTE_KINDS = ['open', 'keepalive', 'update', 'eor', 'notification', 'refresh', 'unknown', 'badmarker', 'badlen', 'eof', 'idle', 'idle-long',
                'open-bad-as', 'open-hold-1', 'open-rid-0', 'open-v3', 'update-bad']


def event_of(kind, hold):
    if kind in OPEN_KINDS:
        return ('msg', 1, open_body(**OPEN_KINDS[kind]))
    return {
        'keepalive': ('msg', 4, b''), 'update': ('msg', 2, UPDATE_OK), 'eor': ('msg', 2, EOR), 'notification': ('msg', 3, NOTIF),
        'refresh': ('msg', 5, REFRESH), 'unknown': ('msg', 7, b''), 'badmarker': ('hdr', 1, 1), 'badlen': ('hdr', 1, 2, 5000),
        'eof': ('eof',), 'idle': ('idle', 1.0), 'idle-long': ('idle', float(hold + 1)), 'update-bad': ('msg', 2, UPDATE_BAD),
    }[kind]


class Run:
    """one explored session: the trace that C05 and C10 both judge"""

    def __init__(self):
        self.events = []      # (kind, fsm state when read)
        self.injected = []    # (what, step, fsm state)
        self.result = None


def explore_session(ctx, n_events, n_inject, hold=9, kinds=None, inject_kinds=('incoming', 'teardown', 'reestablish'), attempts=1, auto_as=False):
    conf = S.mk_conf(local_as=LOCAL_AS, peer_as=PEER_AS, hold=hold, families=('ipv4 unicast',), routes=('route 10.9.0.0/24 next-hop 192.0.2.9',), route_refresh=True)
    if auto_as:
        # `local-as auto`: ExaBGP mirrors the peer's AS, so it READS the peer's OPEN first, still in CONNECT, and sends its own after
        conf = conf.replace('local-as %d;' % LOCAL_AS, 'local-as auto;')
    neighbor = S.neighbor_from(conf)
    neighbor.api = dict(neighbor.api)
    neighbor.api['neighbor-changes'] = True
    neighbor.reset_rib() if hasattr(neighbor, 'reset_rib') and neighbor.rib else None
    run = Run()
    kinds = list(kinds or REMOTE_KINDS)
    count = [0]

    def script():
        i = count[0]
        count[0] += 1
        if i >= n_events:
            kind = 'eof'
        else:
            kind = ctx.pick('ev%d' % i, kinds)
        run.events.append((kind, peer.fsm.state.name))
        return event_of(kind, hold)

    peer = P.new_peer(neighbor, script)
    # local injections: at which scheduling point (solver-chosen, bounded) and what
    plan = []
    for j in range(n_inject):
        what = ctx.pick('inj%d' % j, ['none'] + list(inject_kinds))
        if what != 'none':
            at = ctx.choice('inj%d.at' % j, 8) + 1
            plan.append((at, what))

    def between(step):
        for at, what in plan:
            if at == step:
                run.injected.append((what, step, peer.fsm.state.name))
                if what == 'teardown':
                    peer.teardown(4)
                elif what == 'reestablish':
                    peer.reestablish()
                elif what == 'remove':
                    peer.remove()          # the neighbor left the configuration (Reactor.reload) or `peer delete`
                elif what == 'incoming':
                    class Incoming(P.FakeConn):
                        direction = 'incoming'
                    inc = Incoming(peer, script)
                    peer.handle_connection(inc)

    run.result = P.drive(peer._run(), max_steps=6000, between=between)
    # Peer.run() calls _run() again for as long as the peer is to restart: further connection attempts of the SAME Peer
    # object (its stats, timers and API state survive), fed by the rest of the script
    run.attempts = 1
    while run.attempts < attempts and run.result[0] == 'done' and peer._restart and count[0] < n_events:
        run.attempts += 1
        run.result = P.drive(peer._run(), max_steps=6000 * run.attempts, between=between)
    run.peer = peer
    run.world = P.WORLD
    run.hold = hold
    return run


def summary(run):
    w = run.world
    return {'events': [k for k, _ in run.events], 'fsm': ['%s>%s' % t for t in w.fsm], 'written': ['%s:%d' % t for t in P.written_types()],
            'closed': w.closed, 'api': [a[0] for a in w.api if a[0] in ('up', 'down')], 'result': run.result[0]}


def judge_fsm(ctx, run):
    w = run.world
    peer = run.peer
    ctx.check('coroutine-finished', run.result[0] == 'done', sig='C05:session-did-not-finish', info=summary(run))
    table = set()
    for to, froms in FSM.transition.items():
        for fr in froms:
            table.add((fr.name, to.name))
    for i, (fr, to) in enumerate(w.fsm):
        ctx.check('rfc-transition', (fr, to) in P.RFC_FSM, sig='C05:transition-outside-rfc:%s>%s' % (fr, to), info=summary(run))
        ctx.check('table-transition', (fr, to) in table, sig='C05:transition-outside-exabgp-table:%s>%s' % (fr, to), info=summary(run))
    # ESTABLISHED only after OPEN sent, valid OPEN + KEEPALIVE received
    if ('OPENCONFIRM', 'ESTABLISHED') in w.fsm or any(to == 'ESTABLISHED' for _, to in w.fsm):
        ctx.cover('established')
        kinds = [k for k, _ in run.events]
        sent_open = any(t == 1 for _, t in P.written_types())
        ok = sent_open and 'open' in kinds and 'keepalive' in kinds[kinds.index('open') + 1:] if 'open' in kinds else False
        ctx.check('established-needs-handshake', ok, sig='C05:established-without-handshake', info=summary(run))
        path = [to for _, to in w.fsm]
        i = path.index('ESTABLISHED')
        ctx.check('established-via-openconfirm', path[:i][-2:] == ['OPENSENT', 'OPENCONFIRM'], sig='C05:established-skipped-states', info=summary(run))
    else:
        ctx.cover('never-established')
    # routing messages only in ESTABLISHED
    for st, t in P.written_types():
        if t in (2, 5):
            ctx.cover('update-written')
            ctx.check('updates-only-when-established', st == 'ESTABLISHED', sig='C05:update-or-refresh-written-in-%s' % st, info=summary(run))
    # transport closed when the attempt ends, and the peer holds no protocol
    if run.result[0] == 'done':
        had_conn = any(t for t in w.fsm if t[1] in ('CONNECT',))
        if had_conn:
            ctx.check('transport-closed', w.closed >= 1 and peer.proto is None, sig='C05:transport-left-open', info=summary(run))
        ctx.check('ends-idle', peer.fsm.state.name == 'IDLE', sig='C05:attempt-ends-in-%s' % peer.fsm.state.name, info=summary(run))
    # API up/down alternate
    last = 'down'
    for a in w.api:
        if a[0] in ('up', 'down'):
            if a[0] == 'up':
                ctx.cover('api-up')
                ctx.check('up-after-down', last == 'down', sig='C05:api-two-ups-without-down', info=summary(run))
            last = a[0]
    ctx.check('down-after-last-up', last == 'down', sig='C05:api-up-not-followed-by-down', info=summary(run))


CORE_KINDS = ['open', 'keepalive', 'update', 'notification', 'eof']


def h_session(ctx, n_events, n_inject, hold=9, attempts=1, kinds=None, auto_as=False, inject_kinds=None):
    kw = {'inject_kinds': inject_kinds} if inject_kinds else {}
    run = explore_session(ctx, n_events, n_inject, hold, kinds=kinds, attempts=attempts, auto_as=auto_as, **kw)
    if any(what == 'remove' and st == 'ESTABLISHED' for what, _, st in run.injected):
        ctx.cover('removed-while-established')
    if run.attempts > 1:
        ctx.cover('reconnected')
        if [t for t in run.world.fsm].count(('OPENCONFIRM', 'ESTABLISHED')) > 1:
            ctx.cover('established-twice')
    judge_fsm(ctx, run)
    s = summary(run)
    ctx.note('class', s['fsm'][-2] if len(s['fsm']) > 1 else 'none')
    return s


def units(tier):
    th = tier == 'thorough'
    us = [Unit('session/e4-i0', lambda ctx: h_session(ctx, 4, 0), must_cover=('established', 'never-established', 'update-written', 'api-up'), max_paths=300000, max_seconds=600, weight=50),
          Unit('session/e3-i1', lambda ctx: h_session(ctx, 3, 1), must_cover=('established', 'never-established'), max_paths=300000, max_seconds=600, weight=80)]
    # negotiated Hold Time 0 (no keepalive timers): the OPENCONFIRM -> ESTABLISHED step must still wait for the peer's KEEPALIVE
    us.append(Unit('session/e3-i0-h0', lambda ctx: h_session(ctx, 3, 0, hold=0), must_cover=('established', 'never-established'), max_paths=300000, max_seconds=600, weight=30))
    us.append(Unit('session/auto-as-e3-i0', lambda ctx: h_session(ctx, 3, 0, auto_as=True), must_cover=('established', 'never-established'), max_paths=300000, max_seconds=600, weight=30))
    # the neighbor is removed (de-configured) at a solver-chosen point: the session ends like any other (transport closed, API told)
    us.append(Unit('session/e3-remove', lambda ctx: h_session(ctx, 3, 1, kinds=CORE_KINDS, inject_kinds=('remove',)), must_cover=('established', 'removed-while-established'),
                   max_paths=300000, max_seconds=600, weight=30))
    # several connection attempts of one Peer (what Peer.run() does): state that outlives a session (stats, API up/down)
    us.append(Unit('attempts/e6-a3', lambda ctx: h_session(ctx, 6, 0, attempts=3, kinds=CORE_KINDS), must_cover=('established', 'reconnected', 'established-twice'),
                   max_paths=300000, max_seconds=600, weight=60))
    if th:
        us.append(Unit('attempts/e8-a4', lambda ctx: h_session(ctx, 8, 0, attempts=4, kinds=CORE_KINDS), must_cover=('established', 'reconnected', 'established-twice'),
                       max_paths=2000000, max_seconds=1500, weight=300))
    if th:
        us.append(Unit('session/e5-i0', lambda ctx: h_session(ctx, 5, 0), must_cover=('established',), max_paths=2000000, max_seconds=1500, weight=200))
        us.append(Unit('session/e4-i1-h0', lambda ctx: h_session(ctx, 4, 1, hold=0), must_cover=('established',), max_paths=2000000, max_seconds=1500, weight=200))
    return us
