"""C12 — hold and keepalive timers keep their RFC promises.

kernel/* : one call of the real ReceiveTimer.check_ka_timer / check_ka / SendTimer.need_ka / HoldTime.keepalive
           with time.time() a symbolic REAL instant (whole seconds n : Int, fraction f : Real in [0,1)), the
           negotiated hold time H symbolic over 0 and 3..65535, timer state built by the real constructors at
           a symbolic earlier instant.  Unbounded in time, complete in H.
lemma/*  : int(h / 3) == h // 3 for every 16-bit h under IEEE-754 binary64 (QF_FP/BV query), the cut that lets the
           kernel units floor the exact ratio.
loop/*   : (peer kit, see checks/peerkit.py) the real Peer._main loop under a virtual clock.
"""
from __future__ import annotations

from fractions import Fraction

from sx.run import Unit
from sx import core
from sx.core import SInt, SBool, s_and, s_or, s_not, s_implies, sx_eq

import exabgp.bgp.timer as tm
from exabgp.bgp.timer import ReceiveTimer, SendTimer
from exabgp.bgp.message import Notify, KeepAlive, _NOP, Update
from exabgp.bgp.message.open.holdtime import HoldTime

ID = 'C12'
LEVEL = 'model_checking'
TECHNIQUE = 'symbolic execution of the real timer code with time as a z3 Real (n + f) and the hold time symbolic; obligations decided by z3 for all instants'
ASSUMPTIONS = [
    'time.time() replaced (module global of exabgp.bgp.timer) by a stub returning arbitrary non-decreasing real instants n+f, 0<=f<1',
    'int(h/3) == h//3 for 0<=h<=65535 under IEEE-754 binary64 (discharged by the lemma unit)',
    'logging has an empty body',
    'granularity g = 1 s (int(time.time()) truncation) is part of the claim: "silence > H" is detected at the latest at H+1',
]
BOUNDS = {'quick': {'H': '0 and 3..65535 symbolic (complete)', 'time': 'unbounded reals', 'steps': 'one timer call from an arbitrary reachable state', 'loop': 'H in {3,9,0}, 2-3 peer behaviours out of 8 after the handshake; open wait early/late'},
          'thorough': {'H': 'same', 'time': 'same', 'steps': 'two consecutive calls (message then silence)'}}
OUTSIDE = ['wall-clock jumps backwards (time is assumed non-decreasing)', 'scheduling delay of the event loop beyond the stated granularity']


class _Log:
    def __getattr__(self, name):
        return lambda *a, **k: None


tm.log = _Log()
tm.lazymsg = lambda *a, **k: None


class Instant:
    """A real instant n + f.  int(instant) == n (through the engine's int shim) ; float for the clean replay."""

    def __init__(self, n, f):
        self.n = n
        self.f = f

    def __sx_int__(self):
        return self.n


class Clock:
    def __init__(self):
        self.now = None

    def time(self):
        n, f = self.now
        if isinstance(f, Fraction):
            return float(n) + float(f)
        return Instant(n, f)


CLOCK = Clock()
tm.time = CLOCK


def gap_ge(t0, t1, k):
    """(t1 - t0) >= k  for instants (n, f) and integer k (int|SInt) -> bool | SBool"""
    (n0, f0), (n1, f1) = t0, t1
    if isinstance(f0, Fraction):
        return (n1 + f1) - (n0 + f0) >= k
    import z3
    return SBool(z3.ToReal(core.lift(n1)) + f1 - z3.ToReal(core.lift(n0)) - f0 >= z3.ToReal(core.lift(k)))


def gap_gt(t0, t1, k):
    (n0, f0), (n1, f1) = t0, t1
    if isinstance(f0, Fraction):
        return (n1 + f1) - (n0 + f0) > k
    import z3
    return SBool(z3.ToReal(core.lift(n1)) + f1 - z3.ToReal(core.lift(n0)) - f0 > z3.ToReal(core.lift(k)))


def two_instants(ctx):
    t0 = ctx.real_time('t0', 0)
    t1 = ctx.real_time('t1', 0)
    ctx.assume(t1[0] <= 4000000000, 'instants below 4e9 s (so that the concrete replay is exact in binary64)')
    ctx.assume(gap_ge(t0, t1, 0), 'time is non-decreasing')
    return t0, t1


def holdtime(ctx, zero_ok=False):
    h = ctx.int('H', 0 if zero_ok else 3, 65535)
    if zero_ok:
        ctx.assume(s_or(h == 0, h >= 3), 'negotiated hold time is 0 or >= 3 (RFC 4271 4.2; 1 and 2 are refused at OPEN)')
    return HoldTime(h)


def h_receive(ctx):
    """Hold timer: armed at t0 (last message), consulted at t1 with nothing / with a message."""
    t0, t1 = two_instants(ctx)
    H = holdtime(ctx)
    CLOCK.now = t0
    rt = ReceiveTimer(lambda: 's', H, 4, 0)
    CLOCK.now = t1
    kind = ctx.pick('message', ['none', 'keepalive', 'update'])
    msg = {'none': _NOP, 'keepalive': KeepAlive(), 'update': Update(b'')}[kind]
    try:
        rt.check_ka_timer(msg)
        fired = None
    except Notify as n:
        fired = (n.code, n.subcode)
    if fired:
        ctx.cover('fired')
        ctx.check('code-4-0', fired == (4, 0), sig='C12:recv:wrong-code')
        ctx.check('not-on-a-message', kind == 'none', sig='C12:recv:fired-on-message', info={'kind': kind})
        ctx.check('never-early', gap_gt(t0, t1, H), sig='C12:recv:fired-before-H')
    else:
        ctx.cover('quiet')
        if kind == 'none':
            ctx.check('not-late', s_not(gap_ge(t0, t1, H + 1)), sig='C12:recv:silence-of-H+1-not-detected')
        else:
            ctx.cover('refreshed')
            # the message re-arms the timer: a following silence is measured from t1
            t2 = ctx.real_time('t2', 0)
            ctx.assume(t2[0] <= 4000000000)
            ctx.assume(gap_ge(t1, t2, 0))
            CLOCK.now = t2
            try:
                rt.check_ka_timer(_NOP)
                f2 = False
            except Notify:
                f2 = True
            if f2:
                ctx.check('refresh-never-early', gap_gt(t1, t2, H), sig='C12:recv:message-did-not-refresh')
            else:
                ctx.check('refresh-not-late', s_not(gap_ge(t1, t2, H + 1)), sig='C12:recv:late-after-refresh')
    return (kind, fired)


def h_receive_zero(ctx):
    """H == 0: the hold timer never fires; a KEEPALIVE is tolerated once, then refused with 2/6."""
    t0, t1 = two_instants(ctx)
    CLOCK.now = t0
    rt = ReceiveTimer(lambda: 's', HoldTime(0), 4, 0)
    CLOCK.now = t1
    kinds = [ctx.pick('m%d' % i, ['none', 'keepalive', 'update']) for i in range(3)]
    out = []
    kas = 0
    for kind in kinds:
        msg = {'none': _NOP, 'keepalive': KeepAlive(), 'update': Update(b'')}[kind]
        try:
            rt.check_ka(msg)
            out.append('ok')
            if kind == 'keepalive':
                kas += 1
                ctx.check('second-keepalive-refused', kas <= 1, sig='C12:zero:second-keepalive-accepted')
        except Notify as n:
            out.append((n.code, n.subcode))
            ctx.check('never-hold-timer', (n.code, n.subcode) != (4, 0), sig='C12:zero:hold-timer-fired')
            ctx.check('only-2-6-on-second-keepalive', (n.code, n.subcode) == (2, 6) and kind == 'keepalive' and kas >= 1,
                      sig='C12:zero:unexpected-notify', info={'kinds': kinds, 'out': out})
            ctx.cover('2-6')
            break
    return out


def h_send(ctx):
    """KEEPALIVE sender: armed at t0, consulted at t1."""
    t0, t1 = two_instants(ctx)
    H = holdtime(ctx, zero_ok=True)
    CLOCK.now = t0
    st = SendTimer(lambda: 's', H)
    CLOCK.now = t1
    need = st.need_ka()
    ka = st.keepalive
    if H == 0:
        ctx.cover('H0')
        ctx.check('no-keepalive-when-H0', not need, sig='C12:send:keepalive-with-H0')
        return ('H0', need)
    ctx.check('interval-at-most-H/3', ka * 3 <= H, sig='C12:send:interval-longer-than-H/3', info={'ka': ka})
    ctx.check('interval-positive', ka >= 1, sig='C12:send:interval-zero')
    if need:
        ctx.cover('due')
        # re-armed: the next one is measured from now
        ctx.check('rearmed', sx_eq(st.last_sent, t1[0]), sig='C12:send:not-rearmed')
    else:
        ctx.cover('not-due')
        # never lets more than H/3 pass: a real gap above floor(H/3) means the (truncated) timer is due
        ctx.check('due-on-time', s_not(gap_gt(t0, t1, H // 3)), sig='C12:send:keepalive-late')
    return ('H', need)


def h_lemma(ctx):
    """int(h / 3) == h // 3 for all 0 <= h <= 65535 in binary64 round-to-nearest-even."""
    ctx.cover('lemma')
    if not ctx.sym:
        return 'lemma'
    import z3
    eng = core.engine()
    h = z3.BitVec('h16', 16)
    f = z3.fpToFP(z3.RNE(), z3.ZeroExt(16, h), z3.Float64())  # exact: unsigned 32-bit int to double
    hf = z3.fpUnsignedToFP(z3.RNE(), z3.ZeroExt(16, h), z3.Float64())
    q = z3.fpDiv(z3.RNE(), hf, z3.FPVal(3.0, z3.Float64()))
    qi = z3.fpToUBV(z3.RTZ(), q, z3.BitVecSort(32))
    s = z3.Solver()
    s.set('timeout', 240000)
    s.add(qi != z3.UDiv(z3.ZeroExt(16, h), z3.BitVecVal(3, 32)))
    r = s.check()
    eng.queries[str(r)] = eng.queries.get(str(r), 0) + 1
    if r == z3.unknown:
        raise core.SolverUnknown('lemma int(h/3)')
    ctx.check('int(h/3)==h//3', r == z3.unsat, sig='C12:lemma:float-division', info=str(s.model()) if r == z3.sat else None)
    return 'lemma'


def units(tier):
    def kernel(fn):
        def run(ctx):
            tm.time = CLOCK     # the loop units install the peer kit's virtual clock in the same module global
            return fn(ctx)
        return run
    us = [
        Unit('kernel/receive', kernel(h_receive), must_cover=('fired', 'quiet', 'refreshed')),
        Unit('kernel/receive-H0', kernel(h_receive_zero), must_cover=('2-6',)),
        Unit('kernel/send', kernel(h_send), must_cover=('H0', 'due', 'not-due')),
        Unit('lemma/int-div3', h_lemma, must_cover=('lemma',), weight=100),
    ]
    from checks import c12_loop
    us += c12_loop.units(tier)
    return us
