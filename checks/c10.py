"""C10 — every protocol error is answered with the right NOTIFICATION, once.

Same exploration as C05 (real Peer._run over the scripted remote speaker, event kinds and injection points chosen by the
solver), judged on the bytes written from the fault to the close:
  * the session-ending event determines the expected NOTIFICATION through a table written from RFC 4271 6.1-6.8,
    RFC 6608 (FSM error subcodes) and RFC 4486 (cease);
  * exactly one NOTIFICATION with that code/subcode is written and it is the last thing written;
  * a received NOTIFICATION is never answered; a lost connection gets no NOTIFICATION;
  * the catch-all 1/0 never appears.
"""
from __future__ import annotations

from sx.run import Unit
from kits import peer as P
from checks import c05 as C5

ID = 'C10'
LEVEL = 'model_checking'
TECHNIQUE = C5.TECHNIQUE + '; bytes written after the session-ending event compared with an RFC 4271/6608/4486 table'
ASSUMPTIONS = C5.ASSUMPTIONS + ['the session-ending event is the last event the peer read (or the injected local event); silence shorter than the hold time never ends a session']
BOUNDS = {t: dict(b, wire='12 header faults x {OPENSENT, OPENCONFIRM, ESTABLISHED} and 2 body faults (ESTABLISHED), each delivered whole, cut inside the header, '
                             'or cut after the header and half of the body with 0.35 s of silence between the two segments') for t, b in C5.BOUNDS.items()}
OUTSIDE = C5.OUTSIDE + ['two faults racing in the same scheduling step', 'NOTIFICATION data field content (only code/subcode are judged)']

OPEN_FAULT = {'open-bad-as': (2, 2), 'open-hold-1': (2, 6), 'open-rid-0': (2, 3), 'open-v3': (2, 1)}
HEADER_FAULT = {'badmarker': (1, 1), 'badlen': (1, 2), 'unknown': (1, 3)}
MESSAGES = ('open', 'keepalive', 'update', 'eor', 'refresh', 'update-bad') + tuple(OPEN_FAULT)


DECODE_FAULT = dict(OPEN_FAULT)
DECODE_FAULT['update-bad'] = (3, 1)


def expected(kind, state, hold):
    """-> ('notify', {acceptable (code, sub)}) | ('silent',) | ('continue',)   per RFC 4271 6 / RFC 6608 / RFC 4486.
    A message that is both unexpected for the state and malformed may be answered with either error class."""
    if kind in HEADER_FAULT:
        return ('notify', {HEADER_FAULT[kind]})
    if kind == 'notification':
        return ('silent',)          # RFC 4271 6.4: never answer a NOTIFICATION
    if kind == 'eof':
        return ('silent',)          # transport gone
    also = {DECODE_FAULT[kind]} if kind in DECODE_FAULT else set()
    if state in ('CONNECT', 'OPENSENT'):     # waiting for the peer OPEN
        if kind == 'open':
            return ('continue',)
        if kind in OPEN_FAULT:
            return ('notify', {OPEN_FAULT[kind]})
        if kind in ('idle', 'idle-long'):
            return ('continue',)    # far below the 60 s open wait
        return ('notify', {(5, 1)} | also)     # RFC 6608: unexpected message in OpenSent
    if state == 'OPENCONFIRM':
        if kind == 'keepalive':
            return ('continue',)
        if kind == 'idle':
            return ('continue',)
        if kind == 'idle-long':
            return ('notify', {(4, 0)}) if hold else ('continue',)
        return ('notify', {(5, 2)} | also)     # RFC 6608: unexpected message in OpenConfirm
    if state == 'ESTABLISHED':
        if kind == 'update-bad':
            return ('notify', {(3, 1)})  # RFC 4271 6.3: malformed attribute list
        if kind in OPEN_FAULT:
            return ('notify', {(5, 3)} | also)  # RFC 6608: unexpected message in Established
        if kind == 'idle-long':
            return ('notify', {(4, 0)}) if hold else ('continue',)
        return ('continue',)
    return ('continue',)


def judge_notifications(ctx, run):
    w = run.world
    s = C5.summary(run)
    notes = P.notifications()
    written = P.written_types()
    ctx.check('coroutine-finished', run.result[0] == 'done', sig='C10:session-did-not-finish', info=s)
    # nothing after a NOTIFICATION, never two
    idx = [i for i, (_, t) in enumerate(written) if t == 3]
    ctx.check('at-most-one-notification', len(idx) <= 1, sig='C10:more-than-one-notification', info=s)
    if idx:
        ctx.cover('notified')
        ctx.check('notification-is-last', idx[0] == len(written) - 1, sig='C10:written-after-notification', info=s)
    for _, c, sc in notes:
        ctx.check('no-catch-all', (c, sc) != (1, 0), sig='C10:catch-all-1/0', info=s)
    if run.injected:
        what, step, st = run.injected[-1]
        if what in ('teardown', 'reestablish') and any(to == 'ESTABLISHED' for _, to in w.fsm) and w.fsm[-1] == ('ESTABLISHED', 'IDLE'):
            # an administrative reset of an established session is a Cease (RFC 4486) unless the session ended for
            # another reason first (judged below)
            pass
    # the ending event
    if not run.events:
        return
    last_kind, last_state = run.events[-1]
    ended_by_remote = True
    for what, step, st in run.injected:
        if what in ('teardown', 'reestablish', 'incoming'):
            ended_by_remote = False
    if not ended_by_remote:
        ctx.cover('local-event')
        if notes and run.injected[-1][0] in ('teardown', 'reestablish'):
            code, sub = notes[-1][1], notes[-1][2]
            exp = expected(last_kind, last_state, run.hold)
            if exp[0] != 'notify':
                ctx.check('cease-on-admin-reset', code == 6, sig='C10:admin-reset-answered-%d/%d' % (code, sub), info=s)
        return
    exp = expected(last_kind, last_state, run.hold)
    if exp[0] == 'continue' and run.hold == 0 and last_kind == 'keepalive' and last_state == 'ESTABLISHED' and [(c, sc) for _, c, sc in notes] == [(2, 6)]:
        # RFC 4271 4.4: with a negotiated Hold Time of zero periodic KEEPALIVEs MUST NOT be sent.  ExaBGP tolerates one and
        # answers the next with 2/6 (Unacceptable Hold Time): a defined code for a peer breaking a MUST NOT; accepted.
        ctx.cover('keepalive-on-hold-0-session-refused')
        return
    ctx.note('class', '%s@%s->%s' % (last_kind, last_state, exp[0]))
    if exp[0] == 'notify':
        got = [(c, sc) for _, c, sc in notes]
        for c, _ in got:
            ctx.cover('fault-%d' % c)
        ctx.check('right-notification', len(got) == 1 and got[0] in exp[1],
                  sig='C10:%s-in-%s:want=%s:got=%s' % (last_kind, last_state, '|'.join('%d/%d' % e for e in sorted(exp[1])), ','.join('%d/%d' % g for g in got) or 'none'), info=s)
    elif exp[0] == 'silent':
        ctx.cover('silent')
        ctx.check('no-notification', not notes, sig='C10:%s-in-%s:answered-with-notification' % (last_kind, last_state), info=s)
    else:
        # the last event read did not end the session: the script ran out (EOF is appended by the kit) - cannot happen
        ctx.check('session-ended-by-an-ending-event', False, sig='C10:%s-in-%s:ended-the-session-unexpectedly' % (last_kind, last_state), info=s)


def h_session(ctx, n_events, n_inject, hold=9, auto_as=False):
    run = C5.explore_session(ctx, n_events, n_inject, hold, auto_as=auto_as)
    judge_notifications(ctx, run)
    return C5.summary(run)


WIRE_FAULTS = {
    # name: (header bytes after the 16-octet marker are built from (length, type); marker override), expected (code, subcode)
    'bad-marker': ((19, 4, b'\xff' * 15 + b'\x00'), (1, 1)),
    'length-18': ((18, 4, None), (1, 2)),
    'length-4097': ((4097, 2, None), (1, 2)),
    'keepalive-20': ((20, 4, None), (1, 2)),        # RFC 4271 4.4: a KEEPALIVE is exactly 19 octets
    'open-28': ((28, 1, None), (1, 2)),             # 4.2: an OPEN is at least 29 octets
    'update-22': ((22, 2, None), (1, 2)),           # 4.3: an UPDATE is at least 23 octets
    'notification-20': ((20, 3, None), (1, 2)),     # 4.5: a NOTIFICATION is at least 21 octets
    'refresh-24': ((24, 5, None), (1, 2)),          # RFC 2918 3: a ROUTE-REFRESH is exactly 23 octets
    'type-9': ((19, 9, None), (1, 3)),
    # the same classes with a Length whose octets are no text (RFC 4271 6.1: the erroneous Length is the NOTIFICATION data)
    'keepalive-200': ((200, 4, None), (1, 2)),
    'refresh-511': ((511, 5, None), (1, 2)),
}
# faults found only once the BODY is read (ESTABLISHED; Adj-RIB-In on so that the UPDATE is decoded): name -> (type, body), expected
BODY_FAULTS = {
    # RFC 4271 6.3: Withdrawn Routes Length + Total Attribute Length + 23 exceeds the message Length -> Malformed Attribute List
    'update-attribute-length-overrun': ((2, bytes([0, 0, 1, 0]) + bytes([0x40, 1, 1, 0] * 5)), (3, 1)),
    # 6.3: the same with a Withdrawn Routes Length which runs past the end of the message
    'update-withdrawn-length-overrun': ((2, bytes([0, 200]) + bytes(20)), (3, 1)),
}
# how the octets of the erroneous message reach the reader: at once, or in two TCP segments with a silence between them which is
# longer than two of the established loop's read timeouts (0.1 s each): the cut inside the header, or after the header and part of the body
SPLITS = ('whole', 'cut-in-header', 'cut-in-body')


def h_wire_fault(ctx, hold=9):
    """Header faults as BYTES through the real Connection.reader_async (kits/peer.py ByteConn) under the real Peer: the
    report the real reader builds, Protocol.read_message / read_open turning it into Notify, Notify being encoded and written.
    One fault per path, in OPENSENT, OPENCONFIRM or ESTABLISHED."""
    import struct
    from kits import session as S
    state = ctx.pick('state', ['OPENSENT', 'OPENCONFIRM', 'ESTABLISHED'])
    fault = ctx.pick('fault', sorted(WIRE_FAULTS) + (sorted(BODY_FAULTS) if state == 'ESTABLISHED' else []))
    split = ctx.pick('split', SPLITS)
    if fault in BODY_FAULTS:
        (mtype, body), want = BODY_FAULTS[fault]
        length, marker = 19 + len(body), None
    else:
        (length, mtype, marker), want = WIRE_FAULTS[fault]
        body = bytes(min(max(length - 19, 0), 64))
    conf = S.mk_conf(local_as=C5.LOCAL_AS, peer_as=C5.PEER_AS, hold=hold, families=('ipv4 unicast',), adj_rib_in=fault in BODY_FAULTS)
    neighbor = S.neighbor_from(conf)
    neighbor.api = dict(neighbor.api)
    neighbor.reset_rib()
    good = {'OPENSENT': [], 'OPENCONFIRM': [P.msg(1, C5.open_body(hold=hold))],
            'ESTABLISHED': [P.msg(1, C5.open_body(hold=hold)), P.KEEPALIVE]}[state]
    bad = (marker or b'\xff' * 16) + struct.pack('!HB', length, mtype) + body
    cut = {'whole': len(bad), 'cut-in-header': 17, 'cut-in-body': 19 + len(body) // 2}[split]
    if cut >= len(bad) and split != 'whole':
        ctx.assume(False, 'the message has no octet after the cut')
    ctx.cover('split-' + split)
    feeder = P.ByteFeeder([('data', b''.join(good) + bad[:cut])] + ([('pause', 0.35), ('data', bad[cut:])] if cut < len(bad) else []) + [('pause', 0.35), ('eof',)])
    peer = P.new_peer(neighbor, feeder)
    result = P.drive(peer._run(), max_steps=4000)
    w = P.WORLD
    notes = [(c, sc) for _, c, sc in P.notifications()]
    written = P.written_types()
    info = {'state': state, 'fault': fault, 'split': split, 'notifications': notes, 'written': ['%s:%d' % t for t in written], 'fsm': ['%s>%s' % t for t in w.fsm], 'result': result[0]}
    reached = {'OPENSENT': ('CONNECT', 'OPENSENT'), 'OPENCONFIRM': ('OPENSENT', 'OPENCONFIRM'), 'ESTABLISHED': ('OPENCONFIRM', 'ESTABLISHED')}[state]
    ctx.check('state-reached', reached in w.fsm, sig='C10:wire:harness:state-%s-not-reached' % state, info=info)
    ctx.cover('wire-fault-%d-%d' % want)
    ctx.check('right-notification', notes == [want],
              sig='C10:wire:%s-in-%s%s:want=%d/%d:got=%s' % (fault, state, '' if split == 'whole' else ':' + split, want[0], want[1], ','.join('%d/%d' % g for g in notes) or 'none'), info=info)
    ctx.check('notification-is-last', not written or written[-1][1] == 3, sig='C10:wire:written-after-notification', info=info)
    ctx.check('transport-closed', w.closed >= 1, sig='C10:wire:transport-left-open', info=info)
    return [state, fault, notes]


SECOND_FAULTS = ('update-bad', 'open', 'unknown', 'badmarker', 'badlen', 'idle-long', 'notification', 'eof')
FIRST_ENDS = ('teardown', 'reestablish', 'eof', 'notification', 'update-bad')


def h_sessions_in_a_row(ctx, hold=9):
    """Two sessions of ONE Peer object.  The first is established and ended (an API teardown / reestablish - silent by
    design when graceful restart was announced -, or by the remote end); the second starts from a connection the peer
    opened (Peer.handle_connection) or from our own connect, is established, and then meets a fault.  The fault of the
    SECOND session is answered as the RFC table says: how the first session ended plays no part."""
    from kits import session as S
    gr = ctx.pick('graceful-restart', [True, False])
    first_end = ctx.pick('first-session-ends-by', FIRST_ENDS)
    second_from = ctx.pick('second-session-from', ['incoming', 'outgoing'])
    fault = ctx.pick('fault', SECOND_FAULTS)
    conf = S.mk_conf(local_as=C5.LOCAL_AS, peer_as=C5.PEER_AS, hold=hold, families=('ipv4 unicast',), graceful_restart=120 if gr else None)
    neighbor = S.neighbor_from(conf)
    neighbor.api = dict(neighbor.api)
    neighbor.reset_rib()
    run = C5.Run()
    remote_end = first_end if first_end not in ('teardown', 'reestablish') else None
    phases = [['open', 'keepalive'] + ([remote_end] if remote_end else ['idle'] * 12) + ['eof'], ['open', 'keepalive', fault, 'eof']]
    state = {'phase': 0, 'i': 0}

    def script():
        seq = phases[state['phase']]
        kind = seq[min(state['i'], len(seq) - 1)]
        state['i'] += 1
        run.events.append((kind, peer.fsm.state.name))
        return C5.event_of(kind, hold)

    peer = P.new_peer(neighbor, script)
    fired = []

    def between(step):
        if remote_end is None and not fired and peer.fsm.state.name == 'ESTABLISHED' and state['i'] >= 4:
            fired.append(step)
            run.injected.append((first_end, step, 'ESTABLISHED'))
            peer.teardown(4) if first_end == 'teardown' else peer.reestablish()

    r1 = P.drive(peer._run(), max_steps=3000, between=between)
    w = P.WORLD
    first = {'result': r1[0], 'fsm': ['%s>%s' % t for t in w.fsm], 'written': ['%s:%d' % t for t in P.written_types()], 'notifications': [(c, sc) for _, c, sc in P.notifications()]}
    ok1 = r1[0] == 'done' and ('OPENCONFIRM', 'ESTABLISHED') in w.fsm and peer.fsm.state.name == 'IDLE'
    ctx.check('first-session-established-and-ended', ok1, sig='C10:two-sessions:harness:first-session:%s' % first_end, info=first)
    if not ok1:
        return ['first', first]
    if remote_end is None and gr:
        ctx.cover('graceful-restart-teardown')
    # ---- the second session of the same Peer
    mark_written = len(w.written)
    mark_fsm = len(w.fsm)
    state['phase'], state['i'] = 1, 0
    run.events = []
    if second_from == 'incoming':
        class Incoming(P.FakeConn):
            direction = 'incoming'
        peer.handle_connection(Incoming(peer, script))
        ctx.cover('second-session-incoming')
    r2 = P.drive(peer._run(), max_steps=6000)
    fsm2 = w.fsm[mark_fsm:]
    written2 = [(st, x[18]) for st, _, x in w.written[mark_written:] if len(x) >= 19]
    notes2 = [(x[19], x[20]) for st, _, x in w.written[mark_written:] if len(x) >= 21 and x[18] == 3]
    info = {'graceful-restart': gr, 'first-session-ended-by': first_end, 'second-session-from': second_from, 'fault': fault, 'result': r2[0],
            'fsm': ['%s>%s' % t for t in fsm2], 'written': ['%s:%d' % t for t in written2], 'notifications': notes2, 'events': [k for k, _ in run.events]}
    ctx.check('second-session-finished', r2[0] == 'done', sig='C10:two-sessions:second-session-did-not-finish', info=info)
    if not ctx.check('second-session-established', ('OPENCONFIRM', 'ESTABLISHED') in fsm2, sig='C10:two-sessions:second-session-not-established:%s-after-%s' % (second_from, first_end), info=info):
        return ['second-not-established', info]
    exp = expected(fault, 'ESTABLISHED', hold)
    if exp[0] == 'notify':
        ctx.cover('notified')
        ctx.check('right-notification', len(notes2) == 1 and notes2[0] in exp[1],
                  sig='C10:two-sessions:%s-in-second-session:want=%s:got=%s' % (fault, '|'.join('%d/%d' % e for e in sorted(exp[1])), ','.join('%d/%d' % g for g in notes2) or 'none'), info=info)
        ctx.check('notification-is-last', bool(written2) and written2[-1][1] == 3, sig='C10:two-sessions:written-after-notification', info=info)
    else:
        ctx.cover('silent')
        ctx.check('no-notification', not notes2, sig='C10:two-sessions:%s-in-second-session:answered-with-notification' % fault, info=info)
    return [gr, first_end, second_from, fault, notes2]


def units(tier):
    th = tier == 'thorough'
    cov = ('notified', 'silent', 'fault-1', 'fault-2', 'fault-3', 'fault-4', 'fault-5')
    us = [Unit('faults/e4-i0', lambda ctx: h_session(ctx, 4, 0), must_cover=cov, max_paths=300000, max_seconds=600, weight=50),
          Unit('faults/e3-i1', lambda ctx: h_session(ctx, 3, 1), must_cover=('notified', 'local-event'), max_paths=300000, max_seconds=600, weight=80)]
    # `local-as auto`: the first message is read in CONNECT, before our OPEN goes out — a fault there is still answered
    us.append(Unit('faults/auto-as-e3-i0', lambda ctx: h_session(ctx, 3, 0, auto_as=True), must_cover=('notified', 'silent', 'fault-1', 'fault-2', 'fault-5'), max_paths=300000, max_seconds=600, weight=30))
    # our own hold time 0 (no timers): the faults of the OPEN exchange are answered all the same (the acceptance test is on the RECEIVED hold time)
    us.append(Unit('faults/e2-i0-h0', lambda ctx: h_session(ctx, 2, 0, hold=0), must_cover=('notified', 'fault-2'), max_paths=300000, max_seconds=600, weight=30))
    us.append(Unit('two-sessions/fault-in-the-second', h_sessions_in_a_row, weight=40, max_seconds=600,
                   must_cover=('notified', 'silent', 'graceful-restart-teardown', 'second-session-incoming')))
    us.append(Unit('wire/header-faults', h_wire_fault, must_cover=('wire-fault-1-1', 'wire-fault-1-2', 'wire-fault-1-3', 'wire-fault-3-1', 'split-cut-in-header', 'split-cut-in-body'), weight=20, max_seconds=600))
    if th:
        us.append(Unit('faults/e5-i0', lambda ctx: h_session(ctx, 5, 0), must_cover=cov, max_paths=2000000, max_seconds=1500, weight=200))
        us.append(Unit('faults/e4-i1-h0', lambda ctx: h_session(ctx, 4, 1, hold=0), must_cover=('notified',), max_paths=2000000, max_seconds=1500, weight=200))
    return us
