"""C19 — decoding does not depend on what was decoded before.

pair/* : two UPDATEs m1, m2 with independent symbolic value bytes (so "same attribute bytes" is a SOLVER branch inside
         AttributeCollection.unpack's `data == cls.previous`), arriving on sessions N1, N2 whose negotiated parameters
         may differ (4-byte vs 2-byte AS, ADD-PATH).  Run A: process-wide state reset, decode m2 on N2.  Run B: reset,
         decode m1 on N1 (every lazy part forced, JSON rendered, UpdateHandler run), then m2 on N2.  The decoded content
         of m2 must be equal in A and B (z3, for all bytes), and what was decoded for m1 must be unchanged by m2.
         Both Attribute.caching settings.
"""
from __future__ import annotations

from sx.run import Unit
from sx.core import sx_eq, s_and
from oracle import update as O
from kits import session as S
from kits import updates as K
from checks import c02 as C2

from exabgp.bgp.message import Message, Notify, Update
from exabgp.bgp.message.update.eor import EOR
from exabgp.bgp.message.update.attribute import Attribute
from exabgp.bgp.message.update.attribute.collection import AttributeCollection
from exabgp.reactor.api.response import Response
from exabgp.version import json as json_version

ID = 'C19'
LEVEL = 'model_checking'
TECHNIQUE = 'symbolic execution of the real decode path on message pairs with independent symbolic bytes (z3 decides byte equality between messages); A/B equivalence of the second decode proved per path'
ASSUMPTIONS = C2.ASSUMPTIONS + [
    'process-wide state reset between runs A and B: AttributeCollection.cached/previous, Attribute.cache contents, UpdateCollection._EOR_CACHE; class registries are not reset (they are static after import)',
]
BOUNDS = {'quick': {'messages': '2 per history', 'shapes': '6 skeleton pairs x 4 session pairs', 'caching': 'on and off'},
          'thorough': {'messages': '3 per history (m1, m1b, m2)', 'shapes': 'same + MP/EOR pairs'}}
OUTSIDE = ['histories longer than 3 messages', 'capability/OPEN decoding history (Capability.klass ID rewriting) - exercised by C07 in a single process only',
           'concurrency is sequential interleaving of whole messages (the reactor decodes one message at a time)']


def reset_all():
    AttributeCollection.cached = None
    AttributeCollection.previous = b''
    AttributeCollection.previous_asn4 = False
    AttributeCollection.previous_aigp = False
    for code, cache in list(Attribute.cache.items()):
        try:
            cache.clear()
        except Exception:
            pass
    from exabgp.bgp.message.update.collection import UpdateCollection
    if hasattr(UpdateCollection, '_EOR_CACHE'):
        UpdateCollection._EOR_CACHE.clear()


class Pfx:
    """ctx wrapper giving every symbolic name a prefix, so two messages get independent variables"""

    def __init__(self, ctx, p):
        self._c = ctx
        self._p = p
        self.sym = ctx.sym

    def byte(self, name):
        return self._c.byte(self._p + name)

    def int(self, name, lo=None, hi=None):
        return self._c.int(self._p + name, lo, hi)

    def bool(self, name):
        return self._c.bool(self._p + name)


def sk_aspath(ctx, asn4_bytes=True):
    """ORIGIN, AS_PATH as one raw 6-byte value (valid one-AS 4-byte path; on a 2-byte session the same bytes parse
    differently), NEXT_HOP, MED + one prefix"""
    return K.body([], [K.a_origin(ctx, ext=False), K.attr(ctx, 'aspath', 0x40, 2, [2, 1] + K.sym(ctx, 'asn', 3) + [ctx.int('asn[3]', 0, 3)], ext=False),
                       K.a_nexthop(ctx, ext=False), K.a_med(ctx, ext=False)], [K.prefix(ctx, 'n0', 3, False)])


def sk_aspath_wd(ctx):
    """the attributes of sk_aspath with one withdrawn prefix in front: the JSON encoder renders the attribute block differently
    (next-hop inside it) when the UPDATE also withdraws"""
    return K.body([K.prefix(ctx, 'w0', 2, False)],
                  [K.a_origin(ctx, ext=False), K.attr(ctx, 'aspath', 0x40, 2, [2, 1] + K.sym(ctx, 'asn', 3) + [ctx.int('asn[3]', 0, 3)], ext=False),
                   K.a_nexthop(ctx, ext=False), K.a_med(ctx, ext=False)], [K.prefix(ctx, 'n0', 3, False)])


def sk_mpunreach(ctx):
    """an UPDATE which only withdraws, through MP_UNREACH_NLRI, beside one ordinary attribute: the withdrawn routes live INSIDE
    the attribute block, so a remembered attribute set must not be handed out for the next identical block"""
    return K.body([], [K.a_origin(ctx, ext=False), K.a_mp_unreach(ctx, 2, 1, (6,), False, ext=False)], [])


def sk_as4(ctx):
    """AS_PATH whose 10 value octets are well formed BOTH as 2-octet (two segments) and as 4-octet (one segment of two)
    AS numbers, plus AS4_PATH: what the merge gives depends on the session, the bytes do not"""
    raw = [2, 2] + K.sym(ctx, 'p', 4) + [ctx.int('p.type', 1, 2), 1] + K.sym(ctx, 'q', 2)
    return K.body([], [K.a_origin(ctx, ext=False), K.attr(ctx, 'aspath', 0x40, 2, raw, ext=False), K.a_nexthop(ctx, ext=False),
                       K.attr(ctx, 'as4path', 0xC0, 17, [2, 1] + K.sym(ctx, 'r', 4), ext=False)], [K.prefix(ctx, 'n0', 3, False)])


def sk_comm(ctx):
    return K.body([], [K.a_origin(ctx, ext=False), K.a_aspath(ctx, segs=(), ext=False), K.a_nexthop(ctx, ext=False), K.a_community(ctx, 1, ext=False),
                       K.a_aggregator(ctx, asn4=True, ext=False)], [K.prefix(ctx, 'n0', 2, False)])


def sk_withdraw(ctx):
    return K.body([K.prefix(ctx, 'w0', 3, False)], [], [])


def sk_bad_origin(ctx, asn4=True):
    """may be malformed (origin value free): treat-as-withdraw must not leak into / out of the cache"""
    return K.body([], [K.a_origin(ctx, ext=False), K.a_aspath(ctx, segs=((2, 1),), asn4=asn4, ext=False), K.a_nexthop(ctx, ext=False)], [K.prefix(ctx, 'n0', 3, False)])


def sk_aigp(ctx):
    """ORIGIN, empty AS_PATH, NEXT_HOP, AIGP (RFC 7311: optional non-transitive, one TLV type 1 length 11, metric free) + one
    prefix.  Whether AIGP is accepted depends on the SESSION (capability aigp): the same bytes must be discarded on a session
    without it whatever was decoded before."""
    return K.body([], [K.a_origin(ctx, ext=False), K.a_aspath(ctx, segs=(), ext=False), K.a_nexthop(ctx, ext=False),
                       K.attr(ctx, 'aigp', 0x80, 26, [1, 0, 11] + K.sym(ctx, 'metric', 8), ext=False)], [K.prefix(ctx, 'n0', 3, False)])


def sk_ident(ctx):
    """attributes whose VALUES may coincide with the identity of a session (its router-id, its AS numbers, its addresses):
    AS_PATH of one free 4-octet AS, free NEXT_HOP, ORIGINATOR_ID and one CLUSTER_LIST entry.  Anything a decoder derives
    from such a coincidence belongs to that session's result only."""
    return K.body([], [K.a_origin(ctx, ext=False), K.attr(ctx, 'aspath', 0x40, 2, [2, 1] + K.sym(ctx, 'asn', 4), ext=False), K.a_nexthop(ctx, ext=False),
                       K.a_localpref(ctx, ext=False), K.a_originator(ctx, ext=False), K.a_cluster(ctx, 1, ext=False)], [K.prefix(ctx, 'n0', 3, False)])


SHAPES = {'ident': sk_ident, 'aspath': sk_aspath, 'aspath-wd': sk_aspath_wd, 'mpunreach': sk_mpunreach, 'as4': sk_as4, 'comm': sk_comm, 'withdraw': sk_withdraw, 'origin': sk_bad_origin, 'aigp': sk_aigp}
PAIRS = [('aspath', 'aspath'), ('comm', 'comm'), ('origin', 'origin'), ('aspath', 'comm'), ('withdraw', 'aspath'), ('origin', 'aspath'),
         ('aspath-wd', 'aspath'), ('aspath', 'aspath-wd')]
SESSION_PAIRS = [('asn4', 'asn4'), ('asn4', 'asn2'), ('asn2', 'asn4'), ('asn2', 'asn2')]
# every session parameter an attribute decoder reads must be a dimension here (read from the source on every run: SESSION_DEPENDENCE)
SESSIONS = dict(C2.SESSIONS, aigp=dict(families=('ipv4 unicast', 'ipv6 unicast'), adj_rib_in=True, aigp=True))
AIGP_SESSION_PAIRS = [('aigp', 'asn4'), ('asn4', 'aigp'), ('aigp', 'aigp')]
# a session with another IDENTITY (router-id, both AS numbers, both addresses), same capabilities: IBGP so that ORIGINATOR_ID /
# CLUSTER_LIST are at home on it
SESSIONS['other-identity'] = dict(families=('ipv4 unicast', 'ipv6 unicast'), adj_rib_in=True, local_as=65010, peer_as=65010, router_id='9.8.7.6',
                                  local='127.0.0.9', peer='127.0.0.10')
SESSIONS['ibgp'] = dict(families=('ipv4 unicast', 'ipv6 unicast'), adj_rib_in=True, local_as=65000, peer_as=65000)
IDENTITY_SESSION_PAIRS = [('ibgp', 'other-identity'), ('other-identity', 'ibgp'), ('asn4', 'other-identity')]


def decode(data, neg, force=True):
    """-> summary of what ExaBGP decodes (terms, not text)"""
    try:
        msg = Message.unpack(2, data, neg)
        if isinstance(msg, EOR):
            n = msg.nlris[0]
            return ('eor', int(n.afi), int(n.safi)), msg
        uc = msg.data
    except Notify as n:
        return ('notify', int(n.code), int(n.subcode)), None
    return summarize(uc), msg


def summarize(uc):
    ann = [(K.got_nlri(r.nlri), K.nexthop_bytes(r.nexthop)) for r in uc.announces]
    wd = [K.got_nlri(n) for n in uc.withdraws]
    attrs = []
    for code in sorted(int(k) for k in uc.attributes.keys()):
        a = uc.attributes[code]
        if code == O.AS_PATH or code == O.AS4_PATH:
            attrs.append((code, [(int(s.ID), list(s)) for s in a.aspath], bool(getattr(a, '_asn4', False))))
        elif code >= 0xFFF0:
            attrs.append((code, 'marker'))
        else:
            attrs.append((code, getattr(a, '_packed', None)))
    return ('update', ann, wd, attrs)


def render(msg, neg):
    """force the lazy parts and the JSON/text renderings (their cached strings are process state too)"""
    if msg is None:
        return
    if isinstance(msg, Update):
        uc = msg.data
        uc.attributes.json()
        repr(uc.attributes)
        uc.attributes.index()
        Response.JSON(json_version).update(neg.neighbor, 'receive', uc, b'', b'', neg)


def h_pair(ctx, shape1, shape2, s1, s2, caching, third=False):
    n1 = S.session('in', **SESSIONS[s1])
    n2 = S.session('in', **SESSIONS[s2])
    def build(shape, pfx, sess):
        if shape == 'origin':
            return SHAPES[shape](Pfx(ctx, pfx), asn4=sess != 'asn2')  # a well-formed path for ITS session
        return SHAPES[shape](Pfx(ctx, pfx))
    m1 = K.mk(ctx, build(shape1, 'a.', s1))
    m2 = K.mk(ctx, build(shape2, 'b.', s2))
    Attribute.caching = caching
    # ---- run A: m2 alone in a fresh process state
    reset_all()
    a, _ = decode(m2, n2)
    # ---- run B: m1 first (fully rendered), then m2
    reset_all()
    b1, msg1 = decode(m1, n1)
    render(msg1, n1)
    if third:
        decode(m1, n2)
    b2, msg2 = decode(m2, n2)
    same = sx_eq(a, b2)
    if a[0] == 'update':
        ctx.cover('decoded')
    if a[0] == 'notify':
        ctx.cover('refused')
    ctx.note('class', '%s|%s' % (a[0], b2[0]))
    ctx.check('second-decode-independent-of-first', same, sig='C19:%s>%s:%s>%s:history-dependent-decode' % (shape1, shape2, s1, s2),
              info={'alone': a, 'after-m1': b2, 'm1': b1, 'caching': caching})
    # m1's decoded content unchanged by the processing of m2
    if msg1 is not None and isinstance(msg1, Update):
        after = summarize(msg1.data)
        ctx.check('first-result-unaltered', sx_eq(after, b1), sig='C19:%s>%s:%s>%s:earlier-result-altered' % (shape1, shape2, s1, s2), info={'before': b1, 'after': after})
    # text renderings of m2 are the same in both runs (witness on the model)
    def event(msg, neg):
        """the JSON event the API process receives for the message (time, counter and pids are not functions of the message)"""
        if not isinstance(msg, Update):
            return ''
        import re
        text = Response.JSON(json_version).update(neg.neighbor, 'receive', msg.data, b'', b'', neg)
        text = re.sub(r'"(time|counter|pid|ppid)": ?[0-9.]+', r'"\\1": 0', text)
        return text + '|' + msg.data.attributes.json()

    def texts():
        reset_all()
        _, x = decode(m2, n2)
        ja = event(x, n2)
        reset_all()
        _, y1 = decode(m1, n1)
        render(y1, n1)
        _, y = decode(m2, n2)
        jb = event(y, n2)
        return ja == jb
    ctx.witness_check('json-independent-of-history', texts, sig='C19:%s>%s:%s>%s:history-dependent-json' % (shape1, shape2, s1, s2))
    Attribute.caching = False
    return (a[0], b2[0])


def h_abb(ctx, shape_a, shape_b, s1, s2, caching):
    """Histories of three: a first UPDATE A (decoded, rendered), then B, then B' of the same shape as B with independent
    symbolic bytes — so "B' has exactly the attribute bytes of B" is a solver branch inside the cache test, and B may be
    malformed (treat-as-withdraw / session reset) or well formed.  B' decoded after A and B must equal B' decoded alone.
    This is the history a one-entry cache needs to go wrong: the key moves to B while the value still belongs to A."""
    n1 = S.session('in', **SESSIONS[s1])
    n2 = S.session('in', **SESSIONS[s2])

    def build(shape, pfx, sess):
        if shape == 'origin':
            return SHAPES[shape](Pfx(ctx, pfx), asn4=sess != 'asn2')
        return SHAPES[shape](Pfx(ctx, pfx))
    ma = K.mk(ctx, build(shape_a, 'a.', s1))
    mb = K.mk(ctx, build(shape_b, 'b.', s2))
    mc = K.mk(ctx, build(shape_b, 'c.', s2))
    Attribute.caching = caching
    reset_all()
    alone, _ = decode(mc, n2)
    reset_all()
    ra, msga = decode(ma, n1)
    render(msga, n1)
    rb, msgb = decode(mb, n2)
    render(msgb, n2)
    rc, _ = decode(mc, n2)
    if alone[0] == 'update' and any(c >= 0xFFF0 for c, *_ in alone[3]):
        ctx.cover('third-is-treat-as-withdraw')
    elif alone[0] == 'update':
        ctx.cover('third-decodes')
    ctx.note('class', '%s|%s|%s' % (ra[0], rb[0], alone[0]))
    ctx.check('third-decode-independent-of-history', sx_eq(alone, rc),
              sig='C19:%s>%s>%s:%s>%s:history-dependent-decode' % (shape_a, shape_b, shape_b, s1, s2),
              info={'alone': alone, 'after-a-and-b': rc, 'a': ra, 'b': rb, 'caching': caching})
    Attribute.caching = False
    return (ra[0], rb[0], alone[0], rc[0])


def h_open_pair(ctx):
    """Two OPENs (two sessions of one process), each announcing route refresh under the RFC 2918 code (2) or the pre-standard
    code (128): what the FIRST decoded to - its capabilities as the API prints them - is the same before and after the SECOND is
    decoded (`Capability.klass` hands out one class per capability; nothing a later OPEN does may write to it)."""
    from exabgp.bgp.message.open.capability.capability import Capability
    from exabgp.bgp.message.open.capability.capabilities import Capabilities
    from exabgp.bgp.message.open.capability.refresh import RouteRefresh
    RouteRefresh.ID = Capability.CODE.ROUTE_REFRESH  # the state of a fresh process
    first = ctx.pick('first-code', [2, 128])
    second = ctx.pick('second-code', [2, 128])

    def printed(caps):
        return sorted((int(k), v.json()) for k, v in caps.items())
    a = Capabilities.unpack(bytes([4, 2, 2, first, 0]))
    before = printed(a)
    fresh = before  # decoded first in a fresh process
    Capabilities.unpack(bytes([4, 2, 2, second, 0]))
    after = printed(a)
    ctx.cover('decoded')
    ctx.check('first-open-unchanged-by-the-second', before == after, sig='C19:open:capability-of-an-earlier-open-altered:%d-then-%d' % (first, second),
              info={'first': first, 'second': second, 'before': before, 'after': after})
    RouteRefresh.ID = Capability.CODE.ROUTE_REFRESH
    return [first, second, fresh, after]


def units(tier):
    us = []
    th = tier == 'thorough'
    us.append(Unit('open/route-refresh-codes', h_open_pair, must_cover=('decoded',), reset=reset_all, weight=1, max_seconds=60))
    for (pa, pb) in ([('comm', 'origin'), ('aspath', 'origin')] + ([('origin', 'origin'), ('comm', 'comm')] if th else [])):
        for (s1, s2) in ([('asn4', 'asn4')] + ([('asn2', 'asn4'), ('asn4', 'asn2')] if th else [])):
            for caching in ((False, True) if th else (True,)):
                us.append(Unit('abb/%s-%s/%s-%s/%s' % (pa, pb, s1, s2, 'cache' if caching else 'nocache'),
                               lambda ctx, pa=pa, pb=pb, s1=s1, s2=s2, c=caching: h_abb(ctx, pa, pb, s1, s2, c),
                               # the `comm` shape carries a 4-octet AGGREGATOR: on a 2-octet session it never decodes
                               must_cover=(('third-decodes', 'third-is-treat-as-withdraw') if pb == 'origin' else ('third-decodes',) if s2 == 'asn4' else ()),
                               hash_const=True, reset=reset_all, weight=20, max_seconds=600))
    for (p1, p2) in PAIRS:
        for (s1, s2) in SESSION_PAIRS:
            if p1 != p2 and (s1, s2) not in (('asn4', 'asn4'), ('asn4', 'asn2')) and not th:
                continue
            if (p1, p2, s1, s2) == ('aspath', 'aspath', 'asn2', 'asn2') and not th:
                continue  # ~9000 paths (both raw paths re-parsed as 2-byte): thorough only
            for caching in (False, True):
                us.append(Unit('pair/%s-%s/%s-%s/%s' % (p1, p2, s1, s2, 'cache' if caching else 'nocache'),
                               lambda ctx, p1=p1, p2=p2, s1=s1, s2=s2, c=caching: h_pair(ctx, p1, p2, s1, s2, c),
                               must_cover=('decoded',) if p2 != 'withdraw' else (), hash_const=True, reset=reset_all, weight=5, max_seconds=300))
            if th:
                us.append(Unit('triple/%s-%s/%s-%s' % (p1, p2, s1, s2), lambda ctx, p1=p1, p2=p2, s1=s1, s2=s2: h_pair(ctx, p1, p2, s1, s2, True, third=True),
                               hash_const=True, reset=reset_all, weight=8, max_seconds=300))
    # round-2 seeds: an attribute set holding MP_UNREACH_NLRI remembered (the withdraws of the second identical block vanish);
    # the AS_PATH/AS4_PATH merge remembered under a key that forgets the AS number size of the session
    for (p, pairs) in (('mpunreach', [('asn4', 'asn4')]), ('as4', [('asn2', 'asn4'), ('asn4', 'asn2'), ('asn2', 'asn2')])):
        for (s1, s2) in pairs:
            for caching in (False, True):
                us.append(Unit('pair/%s-%s/%s-%s/%s' % (p, p, s1, s2, 'cache' if caching else 'nocache'),
                               lambda ctx, p=p, s1=s1, s2=s2, c=caching: h_pair(ctx, p, p, s1, s2, c),
                               must_cover=('decoded',), hash_const=True, reset=reset_all, weight=8, max_seconds=400))
    # round-3 seed: a verdict derived from the identity of ONE session (ORIGINATOR_ID equal to its router-id) written on the shared attribute set
    for (s1, s2) in IDENTITY_SESSION_PAIRS:
        for caching in (False, True):
            us.append(Unit('pair/ident-ident/%s-%s/%s' % (s1, s2, 'cache' if caching else 'nocache'),
                           lambda ctx, s1=s1, s2=s2, c=caching: h_pair(ctx, 'ident', 'ident', s1, s2, c),
                           must_cover=('decoded',), hash_const=True, reset=reset_all, weight=8, max_seconds=400))
    for (s1, s2) in AIGP_SESSION_PAIRS:
        for caching in (False, True):
            us.append(Unit('pair/aigp-aigp/%s-%s/%s' % (s1, s2, 'cache' if caching else 'nocache'),
                           lambda ctx, s1=s1, s2=s2, c=caching: h_pair(ctx, 'aigp', 'aigp', s1, s2, c),
                           must_cover=('decoded',), hash_const=True, reset=reset_all, weight=5, max_seconds=300))
    return us
