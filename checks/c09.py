"""C09 — generated UPDATEs fit the negotiated size and lose nothing.

size/*  : the real UpdateCollection.messages() (with MPNLRICollection.packed_reach_attributes / packed_unreach_attributes,
          AttributeCollection.pack_attribute, Attribute._attribute, INET.pack_nlri) on route sets built by the real
          factories, session from kits.session (real OPEN flow).  The SIZE LIMIT is the symbolic variable: on a shallow
          copy of the negotiated object `msg_size` is an unconstrained z3 integer M in [19, L] (L = the legal maximum the
          session really negotiated, 4096 or 65535), so every alignment of the limit against the content is one
          solver branch.  Per path z3 shows FOR ALL M on the path: every message <= M, and the zone obligations
          (nothing produced when not even the smallest route fits; everything produced when every route fits alone).
          Messages are concrete bytes on a path and are decoded by the RFC oracle (oracle/update.py) one by one.

LEGAL SIZES ONLY.  The concrete run of the same harness (replay of every path, replay of every counterexample, and
`vf C09 --replay`) never overrides anything: it uses the negotiated object as negotiated (msg_size = L) and instead
grows the filler attribute by L - M bytes, which gives messages() the same `room`.  That this translation is sound is
(a) checked on the source every run (messages() reads negotiated.msg_size once, in `msg_size = negotiated.msg_size - c -
len(attr)`, nothing else on the encode path mentions msg_size) and (b) validated on every explored path: the legal-size
run must produce the same message structure as the symbolic run, else the unit is an engine-divergence.  So a violation
is always reported as a concrete input at msg_size 4096 / 65535, with its filler length in `info`.
"""
from __future__ import annotations

import ast
import copy
import inspect
import struct
import textwrap

from sx.run import Unit
from sx.core import s_or
from oracle import update as O
from kits.session import session

import exabgp.bgp.message.update.collection as ucm
import exabgp.bgp.message.update.nlri.collection as ncm
import exabgp.bgp.message.update.nlri.inet as inetm
import exabgp.bgp.message.update.nlri.cidr as cidrm
import exabgp.bgp.message.update.attribute.collection as acm
import exabgp.bgp.message.update.attribute.attribute as attm
import exabgp.bgp.message.update.attribute.generic as genm
import exabgp.bgp.message.update.attribute.pmsi as pmsim
import exabgp.bgp.message.update.attribute.origin as orim
import exabgp.bgp.message.update.attribute.aspath as aspm
import exabgp.bgp.message.update.attribute.nexthop as nhm
from exabgp.bgp.message.update.collection import UpdateCollection, RoutedNLRI
from exabgp.bgp.message.update.nlri.inet import INET
from exabgp.bgp.message.update.nlri.qualifier import PathInfo
from exabgp.bgp.message.update.attribute.collection import AttributeCollection
from exabgp.bgp.message.update.attribute.origin import Origin
from exabgp.bgp.message.update.attribute.nexthop import NextHop
from exabgp.bgp.message.update.attribute.aspath import ASPath, SEQUENCE
from exabgp.bgp.message.update.attribute.generic import GenericAttribute
from exabgp.bgp.message.update.attribute.pmsi import PMSI
from exabgp.bgp.message.open.asn import ASN
from exabgp.protocol.family import AFI, SAFI
from exabgp.protocol.ip import IP

ID = 'C09'
LEVEL = 'model_checking'
TECHNIQUE = ('symbolic execution of the real UpdateCollection.messages()/MPNLRICollection/pack_attribute with the negotiated '
             'maximum message size as an unconstrained z3 integer (every alignment of the limit against the content), messages '
             'decoded one by one by an RFC 4271/4760/7911 reference decoder; every path and counterexample rebuilt and replayed '
             'at a legal size (4096/65535)')
ASSUMPTIONS = [
    'size lemma: messages() depends on negotiated.msg_size only through room = msg_size - c - len(packed attributes) (checked on the '
    'AST/source every run; validated on every path by the legal-size replay), so M symbolic with a fixed filler == legal size with a filler '
    'grown by L - M bytes; M = L + tlv0 - 259 is excluded for fillers <= 255 bytes (no attribute TLV is 259 bytes long; the same room is '
    'reached from the fillers >= 256)',
    'negotiated.msg_size is the one Negotiated field overridden (symbolic run only, on a copy.copy of the kits.session object)',
    'IPv4 routes of one UpdateCollection share the NEXT_HOP attribute and it equals their RoutedNLRI.nexthop (how rib/outgoing groups them)',
    'no-room contract read from the code: room for not even the smallest route => nothing is produced (log.critical + return); the only '
    "exception accepted is RuntimeError('NLRI too large for attribute size limit') and only when some MP route does not fit alone",
    'when the smallest route fits but some route does not fit alone, only size / parse / nothing-else / no-duplicate are required (completeness is not)',
    'attribute encoding is required to be canonical (extended length iff value > 255 bytes), the form room is computed for',
    'logging (log.critical, lazymsg) has an empty body',
]
BOUNDS = {
    'quick': {'routes': 'IPv4 unicast 3 announces | 3 withdraws | 2+2 (also with ADD-PATH); IPv6 unicast 3 | 2+2 | 2+1 with ADD-PATH, two next hops; '
                        '15+15 IPv6 /128 with one next hop (MP attributes > 255 bytes); mixed 1+1 IPv4 with 2+1 IPv6; IPv6 routes on an IPv4-only session. '
                        'Every mask sequence over IPv4 {0,8,16,24,32} (packed 1..5 bytes, +4 with ADD-PATH) and IPv6 {16,48,128} (subsets in the larger units), '
                        'in wire order (ExaBGP sorts by mask when ADD-PATH is off)',
              'attributes': 'ORIGIN + AS_PATH (+ NEXT_HOP when IPv4 is announced) + one filler: PMSI (packed by Attribute._attribute) or unknown transitive 99 '
                            '(GenericAttribute), 250/255/256 bytes in the symbolic run and every length the translation gives (up to the whole message) in the legal-size replays',
              'msg_size': 'symbolic over 19..4096 (4096 sessions) and len(attributes)..65535 (extended-message sessions)',
              'sessions': 'ipv4 | ipv4+ipv6, ADD-PATH send/receive on|off, extended message on|off, ASN4'},
    'thorough': {'routes': 'up to 6 announces + 6 withdraws per family (6, 5+5, 4+4, 6+6 on fewer mask classes), mixed up to 3+3 IPv4 with 3+3 IPv6, three next hops',
                 'attributes': 'fillers 5, 250, 254, 255, 256, 257, 300', 'msg_size': 'same', 'sessions': 'same'},
}
OUTSIDE = [
    'thousands of routes (loop counts are concrete); FlowSpec / EVPN / VPN / labelled NLRI sizes; IPv4 NLRI with an IPv6 next hop (RFC 8950)',
    'include_withdraw=False; attributes-only UPDATE (Empty NLRI); End-of-RIB',
    'attribute VALUES other than the four above (C01); default attribute generation',
    'how the RIB groups routes into UpdateCollections (C04) and Protocol.new_update writing the messages (C10/C12)',
]


class _Log:
    def __getattr__(self, name):
        return lambda *a, **k: None


ucm.log = _Log()
ucm.lazymsg = lambda *a, **k: None


# ----------------------------------------------------------------------------- the size lemma, checked on the source


def _linear(node):
    """(coefficient of negotiated.msg_size, coefficient of len(attr), constant) of an Add/Sub expression, or None."""
    if isinstance(node, ast.BinOp) and isinstance(node.op, (ast.Add, ast.Sub)):
        a, b = _linear(node.left), _linear(node.right)
        if a is None or b is None:
            return None
        s = 1 if isinstance(node.op, ast.Add) else -1
        return (a[0] + s * b[0], a[1] + s * b[1], a[2] + s * b[2])
    if isinstance(node, ast.Constant) and type(node.value) is int:
        return (0, 0, node.value)
    if isinstance(node, ast.Attribute) and node.attr == 'msg_size' and isinstance(node.value, ast.Name) and node.value.id == 'negotiated':
        return (1, 0, 0)
    if (isinstance(node, ast.Call) and isinstance(node.func, ast.Name) and node.func.id == 'len' and len(node.args) == 1
            and isinstance(node.args[0], ast.Name) and node.args[0].id == 'attr'):
        return (0, 1, 0)
    return None


def size_lemma():
    """None when the translation M <-> filler length is justified by the current source, else the reason."""
    try:
        tree = ast.parse(textwrap.dedent(inspect.getsource(UpdateCollection.messages)))
    except Exception as exc:  # pragma: no cover
        return 'source of messages() not available: %r' % (exc,)
    reads = [n for n in ast.walk(tree) if isinstance(n, ast.Attribute) and n.attr == 'msg_size']
    if len(reads) != 1:
        return 'messages() reads .msg_size %d times' % len(reads)
    found = None
    for n in ast.walk(tree):
        if isinstance(n, ast.Assign) and any(x is reads[0] for x in ast.walk(n.value)):
            found = n
    if found is None or len(found.targets) != 1 or not isinstance(found.targets[0], ast.Name):
        return 'negotiated.msg_size is not read in a plain assignment'
    lin = _linear(found.value)
    if lin is None or lin[0] != 1 or lin[1] != -1:
        return 'room is not negotiated.msg_size - c - len(attr): %s' % ast.unparse(found.value)
    # `negotiated` itself must not escape into something that reads msg_size
    for mod in (ncm, inetm, cidrm, acm, attm, genm, pmsim, orim, aspm, nhm):
        try:
            src = inspect.getsource(mod)
        except Exception as exc:  # pragma: no cover
            return 'source of %s not available: %r' % (mod.__name__, exc)
        if 'msg_size' in src:
            return '%s mentions msg_size' % mod.__name__
    return None


LEMMA = size_lemma()


# ----------------------------------------------------------------------------- request builder (harness side, RFC sizes)

NH4 = '192.0.2.1'
NH6 = ('2001:db8::1', '2001:db8::2', '2001:db8::3')
AS_PATH_VALUE = bytes([2, 2]) + (65000).to_bytes(4, 'big') + (65010).to_bytes(4, 'big')  # RFC 6793: 4-byte ASNs on an ASN4 session
PATTERN = bytes(range(1, 252)) * 300


def tlv_size(n):
    """RFC 4271 4.3: flags, code, 1-byte length (2 when the value is longer than 255) + value."""
    return n + 3 if n <= 255 else n + 4


def filler_value(kind, n):
    if kind == 'pmsi':
        # RFC 6514 5: flags(1) tunnel type(1) label(3) tunnel identifier
        return bytes([0, 9]) + (16).to_bytes(3, 'big') + PATTERN[:n - 5]
    return PATTERN[:n]


def mk_attributes(kind, n, with_nh):
    a = AttributeCollection()
    a.add(Origin.from_int(0))
    a.add(ASPath.make_aspath([SEQUENCE([ASN(65000), ASN(65010)])]))
    if with_nh:
        a.add(NextHop.from_string(NH4))
    if kind == 'pmsi':
        a.add(PMSI.make_pmsi(9, 0, 1, PATTERN[:n - 5]))
        code = 22
    else:
        a.add(GenericAttribute.make_generic(99, 0xC0, PATTERN[:n]))
        code = 99
    want = {1: (0x40, bytes([0])), 2: (0x40, AS_PATH_VALUE)}
    if with_nh:
        want[3] = (0x40, bytes([192, 0, 2, 1]))
    want[code] = (0xC0 | (0x10 if n > 255 else 0), filler_value(kind, n))
    return a, want


def pick_masks(ctx, name, n, classes, ordered):
    """n masks; without ADD-PATH ExaBGP sorts by (mask, address) so only non-decreasing sequences are distinct inputs.
    Mask 0 only for the first route (two /0 are the same NLRI)."""
    out = []
    lo = 0
    for i in range(n):
        opts = [m for m in classes if (m > 0 or i == 0) and (not ordered or m >= lo)]
        m = ctx.pick('%s%d' % (name, i), opts)
        if ordered:
            lo = max(m, 1)
        out.append(m)
    return out


def build(ctx, sp):
    """-> announces, withdraws, E_ann, E_wd (expected wire tuples of the NEGOTIATED families), needs [(kind, bytes)]."""
    ap = sp['addpath']
    mp_neg = sp['mp']
    ann, wd, e_ann, e_wd, needs = [], [], [], [], []

    def pid(k, has):
        if not ap:
            return PathInfo.DISABLED, None
        if not has:
            return PathInfo.DISABLED, bytes(4)  # RFC 7911: ADD-PATH in force, ExaBGP sends path id 0 for a route without one
        return PathInfo.make_from_integer(k), k.to_bytes(4, 'big')

    extra = 4 if ap else 0
    nh4 = bytes([192, 0, 2, 1])
    m4a = pick_masks(ctx, 'a4m', sp['a4'], sp['c4'], not ap)
    m4w = pick_masks(ctx, 'w4m', sp['w4'], sp['c4'], not ap)
    m6a = pick_masks(ctx, 'a6m', sp['a6'], sp['c6'], not ap)
    m6w = pick_masks(ctx, 'w6m', sp['w6'], sp['c6'], not ap)
    for i, m in enumerate(m4a):
        ip = bytes([10 + i, 1 + i, 2, 3])
        pi, pb = pid(40 - i, i != 1)
        ann.append(RoutedNLRI(INET.make_route(AFI.ipv4, SAFI.unicast, ip, m, path_info=pi), IP.from_string(NH4)))
        size = O.prefix_size(m)
        e_ann.append((1, 1, pb, m, ip[:size], nh4))
        needs.append(('a4', 1 + size + extra))
    for i, m in enumerate(m4w):
        ip = bytes([20 + i, 1 + i, 2, 3])
        pi, pb = pid(60 - i, i != 1)
        wd.append(INET.make_route(AFI.ipv4, SAFI.unicast, ip, m, path_info=pi))
        size = O.prefix_size(m)
        e_wd.append((1, 1, pb, m, ip[:size]))
        needs.append(('w4', 1 + size + extra))
    for i, m in enumerate(m6a):
        ip = bytes([0x20 + i, 1, 0x0d, 0xb8, i + 1]) + bytes(10) + bytes([i + 1])
        pi, pb = pid(80 - i, i != 1)
        nh = NH6[i % sp['nhs']]
        ann.append(RoutedNLRI(INET.make_route(AFI.ipv6, SAFI.unicast, ip, m, path_info=pi), IP.from_string(nh)))
        if mp_neg:
            size = O.prefix_size(m)
            nhb = bytes([0x20, 1, 0x0d, 0xb8]) + bytes(11) + bytes([1 + i % sp['nhs']])
            e_ann.append((2, 1, pb, m, ip[:size], nhb))
            needs.append(('a6', tlv_size(2 + 1 + 1 + 16 + 1 + 1 + size + extra)))  # RFC 4760 3
    for i, m in enumerate(m6w):
        ip = bytes([0x30 + i, 1, 0x0d, 0xb8, i + 1]) + bytes(10) + bytes([i + 1])
        pi, pb = pid(90 - i, i != 1)
        wd.append(INET.make_route(AFI.ipv6, SAFI.unicast, ip, m, path_info=pi))
        if mp_neg:
            size = O.prefix_size(m)
            e_wd.append((2, 1, pb, m, ip[:size]))
            needs.append(('w6', tlv_size(2 + 1 + 1 + size + extra)))  # RFC 4760 4
    return ann, wd, e_ann, e_wd, needs


def describe(e_ann, e_wd):
    def pfx(t):
        afi, safi, pb, m, p = t[:5]
        full = bytes(p) + bytes((4 if afi == 1 else 16) - len(p))
        txt = '.'.join(str(b) for b in full) if afi == 1 else full.hex()
        return '%s/%d%s' % (txt, m, '' if pb is None else ' path-id %d' % int.from_bytes(pb, 'big'))
    return {'announce': [pfx(t) for t in e_ann], 'withdraw': [pfx(t) for t in e_wd]}


# ----------------------------------------------------------------------------- the harness


def h_size(ctx, sp):
    L = sp['L']
    fams = ('ipv4 unicast', 'ipv6 unicast') if sp['mp'] else ('ipv4 unicast',)
    kw = dict(families=fams, extended_message=(L == 65535))
    if sp['addpath']:
        kw.update(addpath='send/receive', addpath_families=fams)
    legal = session('out', **kw)
    ctx.check('legal-size-negotiated', legal.msg_size == L, sig='C09:harness:session-size', info={'got': legal.msg_size, 'want': L})
    ctx.check('size-lemma', LEMMA is None, sig='C09:harness:size-lemma', info={'reason': LEMMA})

    kind = sp['filler']
    f0 = ctx.pick('filler0', sp['fillers'])
    with_nh = sp['a4'] > 0
    t0 = tlv_size(f0)
    # the translated attribute block must itself be encodable (total path attribute length is a 16-bit field): below
    # M = len(attributes) room is already negative, every smaller M takes the same branch
    lo = 19 if L == 4096 else tlv_size(1) + tlv_size(len(AS_PATH_VALUE)) + (tlv_size(4) if with_nh else 0) + t0
    M = ctx.int('msg_size', lo, L)
    if t0 < 259:
        ctx.assume(M != L + t0 - 259, 'no attribute TLV is 259 bytes long: M = L + tlv0 - 259 is reached from the fillers >= 256 instead')
    ann, wd, e_ann, e_wd, needs = build(ctx, sp)

    if ctx.sym:
        neg = copy.copy(legal)
        neg.msg_size = M          # the ONE overridden field, on a copy
        limit = M
        f = f0
    else:
        neg = legal               # nothing overridden: legal size, filler grown by L - M
        limit = L
        t = t0 + (L - M)
        f = t - 3 if t <= 258 else t - 4
    attrs, want_attrs = mk_attributes(kind, f, with_nh)
    attr_len = len(attrs.pack_attribute(neg, True))
    room = limit - 23 - attr_len  # RFC 4271 4.3: 19 header + 2 withdrawn length + 2 attribute length

    out = []
    exc = None
    overflow = False
    try:
        for m in UpdateCollection(ann, wd, attrs).messages(neg):
            if ctx.sym and L == 65535 and len(m) > limit:
                # (forks) a message longer than the limit has no legal-size twin at 65535: its 16-bit length field cannot be
                # written, Message._message raises struct.error there.  Model exactly that so both runs agree.
                overflow = True
                exc = struct.error('length field overflow (modelled)')
                break
            out.append(bytes(m))
    except Exception as e:  # noqa: BLE001  (SymexUnsupported / PathAbort are BaseException)
        exc = e
        overflow = isinstance(e, struct.error) and L == 65535

    def addpath_of(afi, safi):
        return sp['addpath']

    base = {'msg_size': limit, 'filler': '%s %d bytes' % (kind, f), 'attributes_bytes': attr_len, 'session': '%s%s' % ('+'.join(fams), ' add-path' if sp['addpath'] else ''),
            'lengths': [len(m) for m in out], 'raised': None if exc is None else '%s: %s' % (type(exc).__name__, exc)}
    base.update(describe(e_ann, e_wd))

    d_ann, d_wd = [], []
    shape = []
    seen_first = {}
    e_ann_set, e_wd_set = set(e_ann), set(e_wd)
    for i, m in enumerate(out):
        ctx.check('header', m[:16] == b'\xff' * 16 and m[18] == 2 and O.u16(m, 16) == len(m), sig='C09:header:marker-type-length',
                  info=dict(base, message=i, header=m[:19].hex()))
        try:
            d = O.decode_update(m[19:], True, addpath_of, O.Dec())
        except O.Malformed as bad:
            ctx.check('parses-standalone', False, sig='C09:unparseable:%s' % bad.what, info=dict(base, message=i, hex=m.hex()[:200]))
            shape.append(['?'])
            continue
        n4w = sum(1 for x in d['withdraw'] if x[0] == 1)
        n4a = sum(1 for x in d['announce'] if x[0] == 1)
        n6w = len(d['withdraw']) - n4w
        n6a = len(d['announce']) - n4a
        shape.append([n4w, n4a, n6w, n6a])
        # ---- size
        if i > 0 and n4w + n4a == 1 and n6w + n6a == 0:
            osig = 'C09:oversize:carried-nlri-not-rechecked'
        elif i > 0 and n4w + n4a == 0 and n6w + n6a == 1:
            osig = 'C09:oversize:mp-carried-nlri-not-rechecked'
        else:
            osig = 'C09:oversize:%s' % ('mixed' if (n4w + n4a and n6w + n6a) else 'mp' if n6w + n6a else 'ipv4')
        ctx.check('fits-negotiated-size', len(m) <= limit, sig=osig, info=dict(base, message=i, length=len(m)))
        # ---- attributes
        got = {}
        for flags, code, value in d['attrs']:
            if code not in (O.MP_REACH, O.MP_UNREACH):
                got[code] = (flags, bytes(value))
        if n4a or n6a:
            need = dict(want_attrs)
            if not n4a and 3 in need and 3 not in got:
                del need[3]  # RFC 4760 3: NEXT_HOP is not needed beside MP_REACH_NLRI alone
            ok = got == need
        else:
            ok = all(want_attrs.get(c) == v for c, v in got.items())  # withdrawals need no attributes
        ctx.check('requested-attributes', s_or(ok, M != L) if ctx.sym else ok,
                  sig='C09:attributes:%s' % ('announce' if (n4a or n6a) else 'withdraw-only'),
                  info=dict(base, message=i, got={c: (v[0], len(v[1])) for c, v in got.items()}, want={c: (v[0], len(v[1])) for c, v in want_attrs.items()}))
        if any(code in (O.MP_REACH, O.MP_UNREACH) and len(value) > 255 for flags, code, value in d['attrs']):
            ctx.cover('mp-attribute-extended-length')
        if any(code in (O.MP_REACH, O.MP_UNREACH) and len(value) == 256 for flags, code, value in d['attrs']):
            ctx.cover('mp-attribute-256')
        if any(code == O.MP_REACH and len(value) == 255 for flags, code, value in d['attrs']):
            ctx.cover('mp-reach-255')          # the last value of the one-octet attribute length
        if any(code == O.MP_UNREACH and len(value) == 255 for flags, code, value in d['attrs']):
            ctx.cover('mp-unreach-255')
        # ---- content
        for x in d['announce']:
            d_ann.append((x, i, bool(n6w + n6a)))
        for x in d['withdraw']:
            d_wd.append((x, i, bool(n6w + n6a)))
        for key, items in (('a', d['announce']), ('w', d['withdraw'])):
            for x in items:
                cat = (key, x[0], x[5] if key == 'a' else None)
                if (key, x) not in seen_first:
                    seen_first[(key, x)] = i
                    seen_first.setdefault(('cat', cat), set()).add(i)
    if any(len(v) >= 2 for k, v in seen_first.items() if k[0] == 'cat'):
        ctx.cover('split-into-2+')
    if any(s != ['?'] and (s[0] + s[1]) for s in shape) and any(s != ['?'] and (s[2] + s[3]) for s in shape):
        ctx.cover('mp-and-ipv4-mixed')
    if f0 > 255 and any(s != ['?'] and (s[1] + s[3]) for s in shape):
        ctx.cover('extended-length-attr')
    if f0 <= 255 and any(s != ['?'] and (s[1] + s[3]) for s in shape):
        ctx.cover('short-length-attr')

    # ---- nothing else, nothing twice
    for what, got_list, want_set in (('announce', d_ann, e_ann_set), ('withdraw', d_wd, e_wd_set)):
        extra = [x for x, i, mp in got_list if x not in want_set]
        ctx.check('nothing-else-%s' % what, not extra, sig='C09:extra:%s' % what, info=dict(base, extra=[repr(x) for x in extra[:3]]))
        seen = {}
        dup = None
        for x, i, mp in got_list:
            if x in seen:
                dup = (x, seen[x], i, mp)
                break
            seen[x] = i
        if dup is None:
            ctx.check('nothing-twice-%s' % what, True)
        else:
            x, i0, i1, mp = dup
            dsig = 'C09:duplicate:ipv4-repeated-in-mp-message' if (x[0] == 1 and mp) else 'C09:duplicate:%s' % what
            ctx.check('nothing-twice-%s' % what, False, sig=dsig, info=dict(base, twice=repr(x), messages=[i0, i1]))

    # ---- zones (room is symbolic in M)
    sizes = [n for k, n in needs]
    requested = bool(sizes)
    if not requested:
        ctx.check('nothing-requested-nothing-sent', not out and exc is None, sig='C09:extra:message-for-unnegotiated-family', info=base)
        return {'msgs': shape, 'exc': None if exc is None else type(exc).__name__}
    need_min, need_max = min(sizes), max(sizes)
    mp_sizes = [n for k, n in needs if k in ('a6', 'w6')]
    if out:
        ctx.check('no-message-without-room', room >= need_min, sig='C09:no-room:message-produced', info=base)
    else:
        ctx.cover('no-room')
    if exc is not None:
        documented = isinstance(exc, RuntimeError) and str(exc) == 'NLRI too large for attribute size limit' and bool(mp_sizes)
        if documented:
            ctx.cover('no-room-raise')
            has4 = any(k in ('a4', 'w4') for k, n in needs)
            where = 'after-ipv4-content' if has4 else 'unreach-beside-reach' if (sp['a6'] and sp['w6']) else 'mp-only'
            ctx.check('raise-only-without-room', room < max(mp_sizes), sig='C09:exception:RuntimeError:every-route-fits-alone:%s' % where, info=base)
        elif overflow:
            # the message after a full one cannot even be framed: its length does not fit the 16-bit length field
            in_mp = any(s != ['?'] and (s[2] + s[3]) for s in shape) or not any(k in ('a4', 'w4') for k, n in needs)
            ctx.check('no-exception', False, sig='C09:oversize:%scarried-nlri-not-rechecked:length-field-overflow' % ('mp-' if in_mp else ''), info=base)
        else:
            ctx.check('no-exception', False, sig='C09:exception:%s' % type(exc).__name__, info=base)
    else:
        got_a = set(x for x, i, mp in d_ann)
        got_w = set(x for x, i, mp in d_wd)
        lost_a = [x for x in e_ann if x not in got_a]
        lost_w = [x for x in e_wd if x not in got_w]
        ctx.check('every-announce-sent', s_or(room < need_max, not lost_a), sig='C09:lost:announce', info=dict(base, lost=[repr(x) for x in lost_a[:3]]))
        ctx.check('every-withdraw-sent', s_or(room < need_max, not lost_w), sig='C09:lost:withdraw', info=dict(base, lost=[repr(x) for x in lost_w[:3]]))
        # a withdrawal needs no path attribute (RFC 4271 4.3): however large the attributes of the routes it travels with, it fits a
        # message of its own as soon as 23 octets and the NLRI do ("no message is produced for THOSE routes" is about the announces)
        w_sizes = [n for k, n in needs if k in ('w4', 'w6')]
        if w_sizes:
            if lost_w:
                ctx.cover('withdraw-lost-for-want-of-room-for-attributes')
            ctx.check('withdraws-need-no-attributes', s_or(limit - 23 - 10 < max(w_sizes), not lost_w), sig='C09:lost:withdraw:attributes-leave-no-room',
                      info=dict(base, lost=[repr(x) for x in lost_w[:3]]))
        if not lost_a and not lost_w:
            ctx.cover('complete')
    return {'msgs': shape, 'exc': None if exc is None else type(exc).__name__}


# ----------------------------------------------------------------------------- units

C4 = (0, 8, 16, 24, 32)
C6 = (16, 48, 128)


def spec(a4=0, w4=0, a6=0, w6=0, mp=True, addpath=False, L=4096, filler='pmsi', fillers=(250, 256), c4=C4, c6=C6, nhs=2):
    return dict(a4=a4, w4=w4, a6=a6, w6=w6, mp=mp, addpath=addpath, L=L, filler=filler, fillers=tuple(fillers), c4=tuple(c4), c6=tuple(c6), nhs=nhs)


def units(tier):
    th = tier == 'thorough'
    us = []
    kw = dict(max_paths=150000, max_seconds=1100) if th else {}

    def add(name, sp, cover, weight=10):
        us.append(Unit('size/' + name, lambda ctx, sp=sp: h_size(ctx, sp), must_cover=cover, weight=weight, **kw))

    base_cover = ('split-into-2+', 'no-room', 'complete')
    both = ('extended-length-attr', 'short-length-attr')
    raises = ('no-room-raise',)
    mixed = ('mp-and-ipv4-mixed', 'no-room', 'complete')
    small4 = (0, 16, 32)
    add('v4/a3', spec(a4=3, fillers=(250, 255, 256)), base_cover + both, 30)
    add('v4/w3', spec(w4=3, fillers=(255, 256)), base_cover, 20)
    add('v4/a2w2', spec(a4=2, w4=2, fillers=(255, 256), c4=small4), base_cover + both, 40)
    add('v4/a2w2-addpath', spec(a4=2, w4=2, addpath=True, fillers=(256,), c4=small4), base_cover, 40)
    add('v4/a3-generic-65535', spec(a4=3, L=65535, filler='generic', fillers=(255, 256), c4=small4), base_cover + both, 20)
    add('v4only/a1w1-mp-dropped', spec(a4=1, w4=1, a6=1, w6=1, mp=False, fillers=(256,), c4=small4, c6=(48,)), ('complete', 'no-room'), 5)
    add('mp/a3', spec(a6=3, fillers=(255, 256)), base_cover + both + raises, 20)
    add('mp/a2w2', spec(a6=2, w6=2, fillers=(256,)), base_cover + raises, 30)
    add('mp/a2w1-addpath', spec(a6=2, w6=1, addpath=True, fillers=(256,)), ('no-room', 'complete') + raises, 30)
    add('mp/a15w15-one-nexthop', spec(a6=15, w6=15, fillers=(256,), c6=(128,), nhs=1), base_cover + ('mp-attribute-extended-length',), 10)
    add('mix/a1w1+a2w1', spec(a4=1, w4=1, a6=2, w6=1, fillers=(256,), c4=small4, c6=(16, 128)), mixed, 40)
    add('mp/a15-around-256', spec(a6=15, fillers=(256,), c6=(48, 128), nhs=1), base_cover + ('mp-attribute-extended-length', 'mp-attribute-256'), 40)
    # an MP attribute of exactly 255 octets (the last one-octet length): 21 + 13 x 17 + 13 (a /96), and 3 + 14 x 17 + 14 (a /104)
    add('mp/a14-at-255', spec(a6=14, fillers=(256,), c6=(96, 128), nhs=1), base_cover + ('mp-reach-255', 'mp-attribute-extended-length'), 40)
    add('mp/a1w15-at-255', spec(a6=1, w6=15, fillers=(256,), c6=(104, 128), nhs=1), base_cover + ('mp-unreach-255', 'mp-attribute-extended-length'), 40)
    if not th:
        return us
    add('v4/a4-all-fillers', spec(a4=4, fillers=(5, 250, 254, 255, 256, 257, 300)), base_cover + both, 300)
    add('v4/a6-f255', spec(a4=6, fillers=(255,)), base_cover, 300)
    add('v4/a6-f256', spec(a4=6, fillers=(256,)), base_cover, 300)
    add('v4/w6', spec(w4=6, fillers=(256,)), base_cover, 300)
    add('v4/a3w3', spec(a4=3, w4=3, fillers=(256,), c4=(0, 8, 24, 32)), base_cover, 400)
    add('v4/a6w6', spec(a4=6, w4=6, fillers=(256,), c4=(8, 32)), base_cover, 200)
    add('v4/a3w2-addpath', spec(a4=3, w4=2, addpath=True, fillers=(256,), c4=(8, 16, 32)), base_cover, 400)
    add('v4/a4-pmsi-65535', spec(a4=4, L=65535, fillers=(255, 256)), base_cover + both, 100)
    add('v4/a2w2-addpath-65535', spec(a4=2, w4=2, addpath=True, L=65535, filler='generic', fillers=(256,), c4=small4), base_cover, 60)
    add('mp/a6', spec(a6=6, fillers=(255, 256)), base_cover + both + raises, 200)
    add('mp/a4w3', spec(a6=4, w6=3, fillers=(256,)), base_cover + raises, 400)
    add('mp/a3w3-addpath', spec(a6=3, w6=3, addpath=True, fillers=(256,), c6=(16, 128)), base_cover + raises, 200)
    add('mp/a3w3-65535', spec(a6=3, w6=3, L=65535, fillers=(256,), c6=(16, 128)), base_cover + raises, 50)
    add('mp/a3w3-three-nexthops-generic', spec(a6=3, w6=3, filler='generic', fillers=(255, 256), c6=(16, 128), nhs=3), base_cover + raises, 100)
    add('mix/a2w2+a3w2', spec(a4=2, w4=2, a6=3, w6=2, fillers=(256,), c4=(0, 32), c6=(16, 128)), mixed, 300)
    add('mix/a1w1+a2w1-addpath', spec(a4=1, w4=1, a6=2, w6=1, addpath=True, fillers=(256,), c4=(0, 32), c6=(16, 128)), mixed, 150)
    add('mix/a2w1+a2w2-65535', spec(a4=2, w4=1, a6=2, w6=2, L=65535, fillers=(255,), c4=(0, 32), c6=(16, 128)), mixed, 150)
    add('v4/a6-f250', spec(a4=6, fillers=(250,)), base_cover, 300)
    add('v4/a6-f257', spec(a4=6, fillers=(257,)), base_cover, 300)
    add('v4/a4w4', spec(a4=4, w4=4, fillers=(256,), c4=(0, 8, 16, 32)), base_cover, 900)
    add('v4/a5w5', spec(a4=5, w4=5, fillers=(256,), c4=(8, 16, 32)), base_cover, 900)
    add('mp/a6w6', spec(a6=6, w6=6, fillers=(256,), c6=(16, 128)), base_cover + raises, 300)
    add('mp/a6-generic-addpath', spec(a6=6, addpath=True, filler='generic', fillers=(255, 256), c6=(16, 128)), base_cover + both + raises, 300)
    add('mix/a3w3+a3w3', spec(a4=3, w4=3, a6=3, w6=3, fillers=(256,), c4=(8, 32), c6=(16, 128)), mixed, 700)
    add('mix/a2w2+a2w2-generic', spec(a4=2, w4=2, a6=2, w6=2, filler='generic', fillers=(255, 256), c4=(0, 32), c6=(16, 128)), mixed, 300)
    add('v4only/a2w2-mp-dropped-addpath', spec(a4=2, w4=2, a6=2, w6=2, mp=False, addpath=True, fillers=(256,), c4=small4, c6=(48,)), ('complete', 'no-room'), 30)
    return us
