"""C03 — no peer input can crash or wedge the speaker.

free/<type>/L<n>        the whole body of a message of every type (OPEN, UPDATE, NOTIFICATION, KEEPALIVE, ROUTE-REFRESH,
                        OPERATIONAL, an unregistered type) as n fully symbolic bytes through the real
                        Message.unpack(type, body, negotiated), then every lazy part forced and every rendering made.
dec/...                 registry driven (read LIVE at start): one unit per registered decoder - attribute code, NLRI family
                        and route type, BGP-LS attribute TLV, prefix-SID TLV / SRv6 sub-TLV, tunnel-encapsulation sub-TLV,
                        extended-community (type, subtype), PMSI tunnel type, capability code, operational sub type: the
                        enclosing headers are concrete and well-formed (an UPDATE with ORIGIN, AS_PATH and either the
                        attribute under test + one IPv4 NLRI, or MP_REACH/MP_UNREACH of the family with a valid next hop),
                        the decoder's own payload is l symbolic bytes for several l; same entry point, same obligations.
proto/...               the same bodies through the real Protocol.read_message: the catch-all that launders an unexpected
                        exception into Notify(1,0) must never be what answers.
unusual/...             valid-but-unusual UPDATEs (k unknown optional / optional-transitive attributes): recursion depth of
                        AttributeCollection.parse proved equal to d0 + k on symbolic contents for small k, then z3 is asked
                        for a k that fits the negotiated message size and whose depth passes the interpreter's limit; the
                        model is rebuilt and decoded for real.

Obligations on every path (z3 decides the path, the outcome is a fact of the path):
  only-notify-escapes   nothing but Notify leaves Message.unpack / the lazy parts / the renderings
  notify-code-defined   its (code, subcode) is defined by RFC 4271 6 / 4486 / 5492 / 6608 / 7313 (table below)
  bounded-work          exabgp function entries + loop iterations <= STEPS_PER_BYTE * len(body) + STEPS_BASE; every path
                        is cut at STEP_CAP so a loop that does not advance is reported, not waited for
"""
from __future__ import annotations

import sys

from sx.run import Unit
from sx.core import sx_eq, s_and, s_or, s_not, s_implies, SBytes, SInt, SBool, SDict
from kits import session as S
from kits import updates as K
from kits.work import Meter, StepBudget

import exabgp.bgp.message.update  # noqa: F401  (registers every NLRI and attribute)
from exabgp.bgp.message import Message, Notify, Update
from exabgp.bgp.message.notification import Notification
from exabgp.bgp.message.direction import Direction
from exabgp.bgp.message.update.eor import EOR
from exabgp.bgp.message.update.nlri.nlri import NLRI
from exabgp.bgp.message.update.attribute import Attribute
from exabgp.bgp.message.update.attribute.collection import AttributeCollection
from exabgp.protocol.family import AFI, SAFI

ID = 'C03'
LEVEL = 'model_checking'
TECHNIQUE = ('symbolic execution of the real Message.unpack and of everything it hands back (z3 over every body byte at small '
             'sizes, over every payload byte of each registered decoder behind concrete well-formed headers), outcome class, '
             'NOTIFICATION code and interpreter-step count checked per path; registry-driven sweep')
ASSUMPTIONS = []
BOUNDS = {}
OUTSIDE = []

# ---------------------------------------------------------------------------------------------------- RFC tables
#
# (code, subcode) pairs a NOTIFICATION may carry.  RFC 4271 4.5: "If no appropriate Error Subcode is defined, then a zero
# (Unspecific) value is used" - so subcode 0 is defined for the codes whose faults are open-ended (OPEN, UPDATE, FSM,
# Cease, Hold Timer); for Message Header Error the three faults of 6.1 are exhaustive and each has its subcode.
DEFINED = {
    1: {1, 2, 3},                                  # RFC 4271 6.1 Message Header Error
    2: {0, 1, 2, 3, 4, 6, 7, 11},                  # RFC 4271 6.2, 7 = RFC 5492, 11 = RFC 9234 (5 deprecated: RFC 4271 app. A)
    3: {0, 1, 2, 3, 4, 5, 6, 8, 9, 10, 11},        # RFC 4271 6.3 (7 deprecated)
    4: {0},                                        # RFC 4271 6.5
    5: {0, 1, 2, 3},                               # RFC 4271 6.6, RFC 6608
    6: {0, 1, 2, 3, 4, 5, 6, 7, 8, 9, 10},         # RFC 4486, 9 = RFC 8538, 10 = RFC 9384
    7: {1},                                        # RFC 7313 5: Invalid Message Length
}
# what each message type may be refused with (the fault is in THAT message)
BY_TYPE = {
    1: {2}, 2: {3}, 3: set(), 4: {1}, 5: {7, 1}, 6: {5, 1},
}


def defined(code, subcode):
    return int(code) in DEFINED and int(subcode) in DEFINED[int(code)]


# ---------------------------------------------------------------------------------------------------- plumbing


class _Log:
    def __getattr__(self, name):
        return lambda *a, **k: None


def _silence():
    """logging has an empty body, in every loaded exabgp module that logs"""
    for name, mod in list(sys.modules.items()):
        if not name.startswith('exabgp') or mod is None:
            continue
        if name.startswith('exabgp.logger') or name.startswith('exabgp.configuration') or name.startswith('exabgp.environment'):
            continue
        d = vars(mod)
        if 'log' in d and not isinstance(d['log'], _Log) and hasattr(d['log'], 'debug'):
            d['log'] = _Log()
        for n in ('lazymsg', 'lazyformat', 'lazyattribute', 'lazynlri'):
            if n in d:
                d[n] = _nothing


def _nothing(*a, **k):
    return None


_silence()

STEP_CAP = 60000
STEPS_PER_BYTE = 400
STEPS_BASE = 3000


def reset_state():
    AttributeCollection.cached = None
    AttributeCollection.previous = b''
    AttributeCollection.previous_asn4 = False
    for c in Attribute.cache.values():
        try:
            c.clear()
        except Exception:
            pass
    from exabgp.bgp.message.update.collection import UpdateCollection
    if hasattr(UpdateCollection, '_EOR_CACHE'):
        UpdateCollection._EOR_CACHE.clear()
    _ls_reset()
    _silence()


_LS_SNAPSHOT = None


def _ls_reset():
    """LinkState.get_ls_class registers a synthetic class for every unknown TLV code it meets: process-wide, undone"""
    global _LS_SNAPSHOT
    from exabgp.bgp.message.update.attribute.bgpls.linkstate import LinkState
    reg = LinkState.registered_lsids
    if _LS_SNAPSHOT is None:
        _LS_SNAPSHOT = dict(reg)
    for k in [k for k in list(dict.keys(reg)) if k not in _LS_SNAPSHOT]:
        dict.__delitem__(reg, k)


# ---------------------------------------------------------------------------------------------------- sessions

UNCONFIGURABLE = {(2, 2), (1, 132)}   # ipv6 multicast, ipv4 rtc: registered decoders the configuration grammar cannot name
_SESS = {}


def families():
    out = []
    for a, s in NLRI.registered_families:
        if (int(a), int(s)) not in [(int(x), int(y)) for x, y in out]:
            out.append((a, s))
    return out


def session(addpath=False, asn4=True, extended=False):
    """every configurable family negotiated; aigp enabled (AIGP answers Discard otherwise)"""
    key = (bool(addpath), bool(asn4), bool(extended))
    if key not in _SESS:
        fams = [(a, s) for a, s in families() if (int(a), int(s)) not in UNCONFIGURABLE]
        names = ['%s %s' % (a, s) for a, s in fams]
        codes = [(int(a), int(s)) for a, s in fams]
        if addpath:
            conf = S.mk_conf(families=names, addpath='send/receive', addpath_families=names, asn4=asn4, extended_message=extended)
            body = S.peer_open_body(families=codes, addpath={c: 3 for c in codes}, layout='extended', asn4=asn4, extended_message=extended)
        else:
            conf = S.mk_conf(families=names, asn4=asn4, extended_message=extended)
            body = S.peer_open_body(families=codes, asn4=asn4, extended_message=extended)
        conf = conf.replace('    capability {\n', '    capability {\n        aigp enable;\n', 1)
        _SESS[key] = S.negotiated_for(S.neighbor_from(conf), Direction.IN, body)
    return _SESS[key]


SESSIONS = {'asn4': dict(), 'asn2': dict(asn4=False), 'addpath': dict(addpath=True)}


# ---------------------------------------------------------------------------------------------------- the observation


def force(msg, neg):
    """everything a decoded message hands back lazily, and every text the product renders from it"""
    out = [type(msg).__name__]
    if isinstance(msg, Update):
        uc = msg.data
        for r in uc.announces:
            n = r.nlri
            n.json()
            n.json(compact=True)
            str(n)
            n.extensive()
            repr(n)
            n.index()
            str(r.nexthop)
        for n in uc.withdraws:
            n.json(announced=False)
            str(n)
            n.extensive()
            n.index()
        at = uc.attributes
        at.json()
        at.json(generic=True)
        str(at)
        at.index()
        for code in list(at):
            a = at[code]
            str(a)
            repr(a)
        out += [len(uc.announces), len(uc.withdraws), sorted(int(c) for c in at)]
    elif isinstance(msg, EOR):
        str(msg)
        out += [int(msg.nlris[0].afi), int(msg.nlris[0].safi)]
    else:
        str(msg)
        if hasattr(msg, 'extensive'):
            msg.extensive()
        if isinstance(msg, Notification):
            msg.data
            out += []
    return out


def api_render(msg, neg):
    """the JSON and text events the API process receives (concrete replay only: one model per path)"""
    from exabgp.reactor.api.response import Response
    from exabgp.version import json as json_version, text as text_version
    nb = neg.neighbor
    J = Response.JSON(json_version)
    T = Response.Text(text_version)
    if isinstance(msg, Update):
        J.update(nb, 'receive', msg.data, b'', b'', neg)
        T.update(nb, 'receive', msg.data, b'', b'', neg)
    elif isinstance(msg, EOR):
        J.update(nb, 'receive', msg, b'', b'', neg) if hasattr(msg, 'announces') else None
    return True


def observe(ctx, mtype, body, neg, name, L=None):
    """Message.unpack + force + render under the meter; returns the outcome summary and files the obligations"""
    L = len(body) if L is None else L
    stage = 'decode'
    msg = None
    exc = None
    meter = Meter(cap=STEP_CAP)
    try:
        with meter:
            msg = Message.unpack(mtype, body, neg)
            stage = 'force'
            shape = force(msg, neg)
    except Notify as n:
        exc = n
    except StepBudget as b:
        exc = b
    except Exception as e:
        exc = e
    if isinstance(exc, StepBudget):
        ctx.note('class', 'wedged')
        ctx.check('bounded-work', False, sig='C03:%s:unbounded-work:%s' % (name, stage), info={'body': body, 'steps': meter.steps, 'top': meter.top(4)})
        return ('wedged', stage)
    if isinstance(exc, Notify):
        code, sub = int(exc.code), int(exc.subcode)
        ctx.cover('refused')
        ctx.note('class', 'notify-%d/%d' % (code, sub))
        if stage != 'decode':
            ctx.check('only-notify-escapes', False, sig='C03:%s:notify-after-decode:%d/%d' % (name, code, sub), info={'body': body, 'notify': str(exc)[:200]})
        ok = defined(code, sub) and (mtype not in BY_TYPE or code in BY_TYPE[mtype])
        ctx.check('notify-code-defined', ok, sig='C03:%s:undefined-notification:%d/%d' % (name, code, sub), info={'body': body, 'notify': str(exc)[:200]})
        out = ('notify', code, sub)
    elif exc is not None:
        kind = type(exc).__name__
        ctx.cover('refused')
        ctx.note('class', 'raises-%s' % kind)
        ctx.check('only-notify-escapes', False, sig='C03:%s:%s:raises-%s:%s' % (name, stage, kind, _site(exc)), info={'body': body, 'raised': '%s: %s' % (kind, str(exc)[:200])})
        out = ('raises', stage, kind)
    else:
        ctx.cover('decoded')
        ctx.note('class', 'decoded:%s' % shape[0])
        out = ('decoded', shape)
        if not ctx.sym:
            ctx.witness_check('api-renders', lambda: api_render(msg, neg), sig='C03:%s:api-render-raises' % name, info={'body': body})
    limit = STEPS_PER_BYTE * L + STEPS_BASE
    ctx.check('bounded-work', meter.steps <= limit, sig='C03:%s:work-not-linear' % name, info={'body': body, 'steps': meter.steps, 'limit': limit, 'top': meter.top(4)})
    return out


def _site(exc):
    """file:function of the innermost exabgp frame the exception passed through"""
    site = '?'
    t = exc.__traceback__
    while t is not None:
        fn = t.tb_frame.f_code.co_filename
        if '/src/exabgp/' in fn:
            site = '%s:%s' % (fn.split('/src/exabgp/')[-1], t.tb_frame.f_code.co_name)
        t = t.tb_next
    return site


# ---------------------------------------------------------------------------------------------------- free bodies

TYPES = {'open': 1, 'update': 2, 'notification': 3, 'keepalive': 4, 'route-refresh': 5, 'operational': 6, 'unregistered': 7}


def h_free(ctx, tname, L, sess='asn4'):
    neg = session(**SESSIONS[sess])
    body = ctx.bytes('b', L)
    mtype = TYPES[tname]
    if tname == 'unregistered':
        mtype = ctx.int('type', 7, 255)
    return observe(ctx, mtype, body, neg, 'free:' + tname)


def units(tier):
    th = tier == 'thorough'
    us = []
    T = 1500 if th else 240
    top = {'open': 12, 'update': 6, 'notification': 6, 'keepalive': 3, 'route-refresh': 6, 'operational': 8, 'unregistered': 3}
    for tname in TYPES:
        for L in range(0, top[tname] + 1):
            us.append(Unit('free/%s/L%d' % (tname, L), lambda ctx, t=tname, L=L: h_free(ctx, t, L), reset=reset_state, hash_const=True,
                           max_seconds=T, weight=1 + L * L))
    return us
