"""C03 — no peer input can crash or wedge the speaker.

free/<type>/L<n>        the whole body of a message of every type (OPEN, UPDATE, NOTIFICATION, KEEPALIVE, ROUTE-REFRESH,
                        OPERATIONAL, an unregistered type) as n fully symbolic bytes through the real
                        Message.unpack(type, body, negotiated), then every lazy part forced and every rendering made.
dec/...                 registry driven (read LIVE at start): one unit per registered decoder - attribute code, NLRI family
                        and route type, BGP-LS attribute TLV, prefix-SID TLV / SRv6 sub-TLV, tunnel-encapsulation sub-TLV,
                        extended-community (type, subtype), PMSI tunnel type, capability code, operational sub type: the
                        enclosing headers are concrete and well-formed (an UPDATE with ORIGIN, AS_PATH and either the
                        attribute under test + one IPv4 NLRI, or MP_REACH/MP_UNREACH of the family with a valid next hop),
                        the decoder's own payload is l symbolic bytes for several l; same entry point, same obligations.
proto/...               the same bodies through the real Protocol.read_message: the catch-all that launders an unexpected
                        exception into Notify(1,0) must never be what answers.
unusual/...             valid-but-unusual UPDATEs (k unknown optional / optional-transitive attributes): recursion depth of
                        AttributeCollection.parse proved equal to d0 + k on symbolic contents for small k, then z3 is asked
                        for a k that fits the negotiated message size and whose depth passes the interpreter's limit; the
                        model is rebuilt and decoded for real.

Obligations on every path (z3 decides the path, the outcome is a fact of the path):
  only-notify-escapes   nothing but Notify leaves Message.unpack / the lazy parts / the renderings
  notify-code-defined   its (code, subcode) is defined by RFC 4271 6 / 4486 / 5492 / 6608 / 7313 (table below)
  bounded-work          exabgp function entries + loop iterations <= STEPS_PER_BYTE * len(body) + STEPS_BASE; every path
                        is cut at STEP_CAP so a loop that does not advance is reported, not waited for
"""
from __future__ import annotations

import os
import sys

from sx.run import Unit
from sx import core as _core
from sx.core import sx_eq, s_and, s_or, s_not, s_implies, SBytes, SInt, SBool, SDict
from kits import session as S
from kits import updates as K
from kits.work import Meter, StepBudget

import exabgp.bgp.message.update  # noqa: F401  (registers every NLRI and attribute)
from exabgp.bgp.message import Message, Notify, Update
from exabgp.bgp.message.notification import Notification
from exabgp.bgp.message.direction import Direction
from exabgp.bgp.message.update.eor import EOR
from exabgp.bgp.message.update.nlri.nlri import NLRI
from exabgp.bgp.message.update.attribute import Attribute
from exabgp.bgp.message.update.attribute.collection import AttributeCollection
from exabgp.protocol.family import AFI, SAFI

ID = 'C03'
LEVEL = 'model_checking'
TECHNIQUE = ('symbolic execution of the real Message.unpack and of everything it hands back (z3 over every body byte at small '
             'sizes, over every payload byte of each registered decoder behind concrete well-formed headers), outcome class, '
             'NOTIFICATION code and interpreter-step count checked per path; registry-driven sweep')
ASSUMPTIONS = [
    'sessions: real Neighbor from a generated configuration naming every family the grammar can name, Negotiated through the real sent()/received() '
    'of two OPENs (kits/session.py); variants: 4-byte AS, 2-byte AS, ADD-PATH send/receive on every family, extended message, extended next hop '
    '(RFC 8950) for ipv4 unicast / ipv4 mpls-vpn / ipv6 unicast; aigp enabled',
    'logging (log, lazymsg, lazyformat, lazyattribute, lazynlri) has an empty body in every exabgp module',
    'process-wide state reset before every path: AttributeCollection.cached/previous, Attribute.cache, UpdateCollection._EOR_CACHE, the BGP-LS '
    'classes LinkState.get_ls_class registers on the fly, and the class attribute ID that Attribute.klass()/Capability.klass() overwrite with the looked-up code',
    'registries pruned to what a plain interpreter registers: the import hook loads every module under exabgp.bgp, including '
    'community/extended/bandwidth.py which the product never imports (its decoder is registered in the symbolic worker only)',
    'bytes.decode(utf-8|ascii): ONE fork on well-formedness (RFC 3629 automaton as a z3 formula) when errors=strict, none otherwise; the text is the '
    'decoding of the model octets (sampled)',
    'struct.unpack of an IEEE-754 field: fork on {NaN, infinity, finite}, then the model octets; symbolic integer * float takes the model value (formatting)',
    'IteDict.get memoised per key term (same z3 term as the engine builds)',
    'work is counted in interpreter steps (exabgp function entries + backward jumps, sys.monitoring local events on exabgp code objects), not seconds; '
    'bound %d*len(body)+%d: measured worst well-formed case 121 steps/octet (UPDATE made of 1-octet /0 NLRI, decoded then rendered 4 ways), margin x3.3; '
    'every path is cut at %d steps' % (400, 3000, 60000),
    'renderings forced symbolically: json()/str()/extensive()/index() of every NLRI, json()/json(generic)/str()/index() of the attribute collection, '
    'str()/repr() of every attribute, str()/extensive() of the other messages; the API encoders (v6 JSON, v4 JSON, v4 text) on the concrete replay of each path',
    'the sizes explored per decoder are chosen by a concrete probe (constant fillers 00/01/FF at every size up to the cap; a size is kept when the '
    'refusal wording or the decoded shape changes there): the probe selects bounds, it decides nothing',
    'ADD-PATH path identifier concrete (00 00 00 01) and only for the INET family of NLRI classes (the others do not read one)',
    'per (decoder, variant, size) path budget (quick 120, thorough 600; free bodies 3000 / 20000 per size; safety net: a decoder of a group gets at most its share of 80 % of the unit time limit): beyond it the remaining paths of that size '
    'are cut, recorded as class budget-cut:* and the unit is reported truncated',
]
BOUNDS = {
    'quick': {'free bodies': 'OPEN <= 16, UPDATE <= 7, NOTIFICATION <= 5, KEEPALIVE <= 2, ROUTE-REFRESH <= 6, OPERATIONAL <= 10 octets, type 7..255 <= 2; '
                             'UPDATE with a free path-attribute block of 3..4 octets',
              'decoders': 'every registered attribute code, AS_PATH segment type, extended-community (type, subtype), PMSI tunnel type, tunnel-encap tunnel / '
                          'sub-TLV / segment type, AIGP TLV, BGP-LS attribute TLV (+ sub-TLV), prefix-SID TLV, NLRI family (free <= 5..6 octets; one prefix-like '
                          'NLRI <= 44), EVPN / MVPN / MUP / BGP-LS route type (+ descriptor TLV), FlowSpec component (payload <= 1), MP next hop per family, '
                          'capability code (+ RFC 9072 layout), OPEN parameter type, OPERATIONAL sub type, shutdown communication: <= 8 probe-chosen payload '
                          'sizes each (cap 12..72 octets), declared length L or L+1; TLV / NLRI loops with 2 and 3 well-sized elements',
              'unusual': 'k = 1, 3, 6 symbolic unknown attributes (depth law); k solved by z3 for msg_size 4096 and 65535; k = 64, 200, 400 concrete'},
    'thorough': {'free bodies': 'OPEN <= 20, UPDATE <= 9, NOTIFICATION <= 7, ROUTE-REFRESH <= 8, OPERATIONAL <= 14; attribute block 3..6',
                 'decoders': 'same sweep and size caps, <= 24 sizes per decoder, all four MP_REACH/MP_UNREACH x ADD-PATH variants at every size, path budget 600',
                 'unusual': 'k = 1..6, 8 symbolic; k = 64..1356 concrete'},
}
OUTSIDE = [
    'bodies longer than the free bound are covered only through the per-decoder sweep (one decoder payload symbolic, the rest of the message concrete and well-formed)',
    'decoders whose path budget is hit are explored, not exhausted (listed as budget-cut:* in the outcome census; FlowSpec operators beyond 1 payload octet are C16)',
    'CPU time in seconds; memory',
    'the families the configuration grammar cannot name (ipv6 multicast, ipv4 rtc) cannot be negotiated: their MP_REACH is checked to be refused, their decoders are not reachable',
    'what the reactor does with a decoded message (Adj-RIB-In, timers): C02, C08, C12; the content of API events: C13',
    'ROUTE-REFRESH semantic handling of subtypes (BoRR/EoRR trigger a resend in RouteRefreshHandler) is not a decode fault and is not judged here',
]

# ---------------------------------------------------------------------------------------------------- engine adjustments (this check's processes only)
#
# (1) The import hook loads EVERY module under exabgp.bgp (import_tree), also the ones nothing imports in the product
# (community/extended/bandwidth.py today): their decoders would be registered in the symbolic worker and nowhere else.
# The registries are pruned back to what a plain interpreter registers after importing what the application imports.


def _production_modules():
    from sx import hook as _hook
    if not getattr(_hook, '_INSTALLED', False):
        return None
    import subprocess
    code = ("import sys; from kits import session; import exabgp.bgp.message.update, exabgp.reactor.protocol; "
            "print(' '.join(m for m in sys.modules if m.startswith('exabgp.')))")
    env = dict(os.environ)
    env['exabgp_log_enable'] = 'false'
    out = subprocess.run([sys.executable, '-c', code], env=env, capture_output=True, text=True, cwd=os.path.dirname(os.path.dirname(os.path.abspath(__file__))))
    mods = set(out.stdout.split())
    if len(mods) < 50:
        raise RuntimeError('C03: cannot list the modules of a plain interpreter: %s' % out.stderr[-400:])
    return mods


PRUNED = []


def _prune_registries():
    prod = _production_modules()
    if prod is None:
        return
    for name, mod in list(sys.modules.items()):
        if not name.startswith('exabgp.') or mod is None:
            continue
        for c in list(vars(mod).values()):
            if not isinstance(c, type) or not getattr(c, '__module__', '').startswith('exabgp'):
                continue
            for an, reg in list(vars(c).items()):
                if not isinstance(reg, dict) or not (an.startswith('registered') or an in ('_pmsi_known', '_DISPATCH')):
                    continue
                for k in list(dict.keys(reg)):
                    v = dict.__getitem__(reg, k)
                    kl = v if isinstance(v, type) else (v[-1] if isinstance(v, tuple) and v and isinstance(v[-1], type) else getattr(v, '__self__', None))
                    m = getattr(kl, '__module__', None)
                    if isinstance(m, str) and m.startswith('exabgp.') and m not in prod:
                        dict.__delitem__(reg, k)
                        PRUNED.append('%s.%s[%s] (%s)' % (c.__name__, an, k, m))


_prune_registries()

# ---------------------------------------------------------------------------------------------------- RFC tables
#
# (code, subcode) pairs a NOTIFICATION may carry.  RFC 4271 4.5: "If no appropriate Error Subcode is defined, then a zero
# (Unspecific) value is used" - so subcode 0 is defined for the codes whose faults are open-ended (OPEN, UPDATE, FSM,
# Cease, Hold Timer); for Message Header Error the three faults of 6.1 are exhaustive and each has its subcode.
DEFINED = {
    1: {1, 2, 3},                                  # RFC 4271 6.1 Message Header Error
    2: {0, 1, 2, 3, 4, 6, 7, 11},                  # RFC 4271 6.2, 7 = RFC 5492, 11 = RFC 9234 (5 deprecated: RFC 4271 app. A)
    3: {0, 1, 2, 3, 4, 5, 6, 8, 9, 10, 11},        # RFC 4271 6.3 (7 deprecated)
    4: {0},                                        # RFC 4271 6.5
    5: {0, 1, 2, 3},                               # RFC 4271 6.6, RFC 6608
    6: {0, 1, 2, 3, 4, 5, 6, 7, 8, 9, 10},         # RFC 4486, 9 = RFC 8538, 10 = RFC 9384
    7: {1},                                        # RFC 7313 5: Invalid Message Length
}
# what the body of each message type may be refused with: the error code of that message type (RFC 4271 6.2 / 6.3,
# RFC 7313 5; OPERATIONAL is a draft without an error code of its own: FSM Error), or Bad Message Length (6.1: "if the
# Length field of an OPEN/UPDATE/KEEPALIVE/NOTIFICATION message is less than the minimum length ...").  A NOTIFICATION is
# never answered (RFC 4271 6.4 "any error detected in a NOTIFICATION ... can not be [reported]").  An unrecognised type is
# Bad Message Type and nothing else.
BY_TYPE = {1: {2}, 2: {3}, 3: set(), 4: set(), 5: {7}, 6: {5}}


def allowed(mtype, code, subcode):
    code, subcode = int(code), int(subcode)
    if not isinstance(mtype, int) or mtype not in BY_TYPE:
        return (code, subcode) == (1, 3)
    if mtype == 3:
        return False
    if (code, subcode) == (1, 2):
        return True
    return code in BY_TYPE[mtype] and subcode in DEFINED[code]


# ---------------------------------------------------------------------------------------------------- plumbing


class _Log:
    def __getattr__(self, name):
        return lambda *a, **k: None


def _silence():
    """logging has an empty body, in every loaded exabgp module that logs"""
    for name, mod in list(sys.modules.items()):
        if not name.startswith('exabgp') or mod is None:
            continue
        if name.startswith('exabgp.logger') or name.startswith('exabgp.configuration') or name.startswith('exabgp.environment'):
            continue
        d = vars(mod)
        if 'log' in d and not isinstance(d['log'], _Log) and hasattr(d['log'], 'debug'):
            d['log'] = _Log()
        for n in ('lazymsg', 'lazyformat', 'lazyattribute', 'lazynlri'):
            if n in d:
                d[n] = _nothing


def _nothing(*a, **k):
    return None


_silence()


# bytes.decode on symbolic octets, as this property needs it: the TEXT is formatting (sampled), what matters is whether
# decoding RAISES.  errors != 'strict' cannot raise: no fork.  errors == 'strict': ONE fork on "the octets are well-formed
# UTF-8 / ASCII" (RFC 3629 automaton unrolled over the positions as one z3 formula), then the real decoder runs on the
# model's octets - it returns text on the well-formed side and raises its own UnicodeDecodeError on the other.
_UTF8_CLASSES = ((0xC2, 0xDF, 1, (0x80, 0xBF)), (0xE0, 0xE0, 2, (0xA0, 0xBF)), (0xE1, 0xEC, 2, (0x80, 0xBF)), (0xEE, 0xEF, 2, (0x80, 0xBF)),
                 (0xED, 0xED, 2, (0x80, 0x9F)), (0xF0, 0xF0, 3, (0x90, 0xBF)), (0xF1, 0xF3, 3, (0x80, 0xBF)), (0xF4, 0xF4, 3, (0x80, 0x8F)))


def _between(x, lo, hi):
    if type(x) is int:
        return lo <= x <= hi
    return s_and(x >= lo, x <= hi)


def _well_formed(items, ascii_only):
    n = len(items)
    memo = {n: True}

    def ok(i):
        if i in memo:
            return memo[i]
        b = items[i]
        alts = [s_and(_between(b, 0, 0x7F), ok(i + 1))]
        if not ascii_only:
            for lo, hi, need, first in _UTF8_CLASSES:
                if i + need < n:
                    conds = [_between(b, lo, hi), _between(items[i + 1], *first)] + [_between(items[i + k], 0x80, 0xBF) for k in range(2, need + 1)]
                    alts.append(s_and(*(conds + [ok(i + need + 1)])))
        memo[i] = s_or(*alts)
        return memo[i]
    for i in range(n - 1, -1, -1):   # bottom-up: no deep recursion
        ok(i)
    return ok(0)


_decode_engine = _core.SBytes.decode


def _decode(self, encoding='utf-8', errors='strict'):
    enc = str(encoding).lower().replace('_', '-')
    if self.is_concrete() or enc not in ('utf-8', 'utf8', 'ascii'):
        return _decode_engine(self, encoding, errors)
    if errors == 'strict':
        bool(_well_formed(self.items, enc == 'ascii'))     # the fork; the model now sits on the side taken
    return _core.SampledStr(self.sampled().decode(encoding, errors))


_core.SBytes.decode = _decode

# IteDict.get builds its If-chain (129 z3 terms for CIDR._mask_to_bytes) on every call; the decoders and the renderings
# ask CIDR.size(mask) dozens of times per NLRI with the same mask term: memoised per (table, key term, bounds, default).
# Same term as the engine would build; the tables are static after import.
_ite_get = _core.IteDict.get
_ITE_MEMO = {}


def _ite_get_memo(self, k, d=None):
    if isinstance(k, SInt):
        key = (id(self), len(self), k.e.get_id(), k.lo, k.hi, d if isinstance(d, int) else None)
        hit = _ITE_MEMO.get(key)
        if hit is not None and isinstance(d, int):
            return hit[1]
        r = _ite_get(self, k, d)
        if isinstance(d, int) and isinstance(r, SInt):
            if len(_ITE_MEMO) > 5000:
                _ITE_MEMO.clear()
            _ITE_MEMO[key] = (k.e, r)     # the key term is kept alive: its id cannot be reused
        return r
    return _ite_get(self, k, d)


_core.IteDict.get = _ite_get_memo

# struct.unpack of a symbolic IEEE-754 field ('!f', '!d': BGP-LS bandwidths, link-bandwidth community).  The engine has no
# model (SymexUnsupported).  For this property the VALUE is formatting, what can matter is its class: int() of an infinity
# raises OverflowError, of a NaN ValueError.  So: fork on {NaN, infinity, finite} (conditions on the exponent / mantissa
# octets), then the field takes the octets of the path's model (sampled, like every rendered value).
import types as _types
from sx import shims as _shims


def _float_fields(fmt, data):
    fields = _shims._parse_fmt(fmt)
    if not any(ch in 'fd' for ch, _ in fields) or sum(sz for _, sz in fields) != len(data.items):
        return data
    items = list(data.items)
    pos = 0
    for ch, sz in fields:
        chunk = items[pos:pos + sz]
        if ch in 'fd' and not all(type(c) is int for c in chunk):
            if ch == 'f':
                exp_ones = s_and(chunk[0] % 128 == 127, chunk[1] >= 128)
                man_zero = s_and(chunk[1] % 128 == 0, *[c == 0 for c in chunk[2:]])
            else:
                exp_ones = s_and(chunk[0] % 128 == 127, chunk[1] >= 240)
                man_zero = s_and(chunk[1] % 16 == 0, *[c == 0 for c in chunk[2:]])
            if bool(exp_ones):
                bool(man_zero)
            eng = _core.engine()
            items[pos:pos + sz] = [eng.sample(c) if isinstance(c, SInt) else c for c in chunk]
        pos += sz
    return SBytes(items)


# float arithmetic on a symbolic integer (24-bit loss * 0.000003 ...): the value is formatting, it takes the model's value
_sint_mul = SInt.__mul__


def _mul_float(self, o):
    if isinstance(o, float):
        return float(_core.engine().sample(self)) * o
    return _sint_mul(self, o)


SInt.__mul__ = _mul_float
SInt.__rmul__ = _mul_float

if not hasattr(_shims, '_c03_orig_unpack'):
    _shims._c03_orig_unpack = _types.FunctionType(_shims.sym_unpack.__code__, _shims.sym_unpack.__globals__, 'sym_unpack_orig')
    _shims._c03_float_fields = _float_fields

    def _unpack_with_floats(fmt, data):
        if _isinstance(data, SBytes):
            data = _c03_float_fields(fmt, data)   # noqa: F821  (names of the shims module, where this code runs)
        return _c03_orig_unpack(fmt, data)        # noqa: F821
    _shims.sym_unpack.__code__ = _unpack_with_floats.__code__

_DEBUG = bool(os.environ.get('C03_DEBUG'))
STEP_CAP = 60000
STEPS_PER_BYTE = 400
STEPS_BASE = 3000


def reset_state():
    AttributeCollection.cached = None
    AttributeCollection.previous = b''
    AttributeCollection.previous_asn4 = False
    for c in Attribute.cache.values():
        try:
            c.clear()
        except Exception:
            pass
    from exabgp.bgp.message.update.collection import UpdateCollection
    if hasattr(UpdateCollection, '_EOR_CACHE'):
        UpdateCollection._EOR_CACHE.clear()
    _ls_reset()
    _id_reset()
    global _NMODS
    if len(sys.modules) != _NMODS:
        _NMODS = len(sys.modules)
        _silence()


_LS_SNAPSHOT = None
_NMODS = 0
_ID_SNAPSHOT = None


def _id_reset():
    """Attribute.klass() and Capability.klass() write the looked-up code into the class (`kls.ID = what`): with a symbolic
    code that leaves a term of one path in a class attribute read by the next.  The registered IDs are restored."""
    global _ID_SNAPSHOT
    from exabgp.bgp.message.open.capability.capability import Capability
    if _ID_SNAPSHOT is None:
        _ID_SNAPSHOT = []
        for reg in (Attribute.registered_attributes, Capability.registered_capability):
            for k in list(dict.keys(reg)):
                kl = dict.__getitem__(reg, k)
                if 'ID' in vars(kl):
                    _ID_SNAPSHOT.append((kl, vars(kl)['ID']))
        uk = getattr(Capability, 'unknown_capability', None)
        if uk is not None and 'ID' in vars(uk):
            _ID_SNAPSHOT.append((uk, vars(uk)['ID']))
    for kl, v in _ID_SNAPSHOT:
        if vars(kl).get('ID') is not v:
            setattr(kl, 'ID', v)


def _ls_reset():
    """LinkState.get_ls_class registers a synthetic class for every unknown TLV code it meets: process-wide, undone"""
    global _LS_SNAPSHOT
    from exabgp.bgp.message.update.attribute.bgpls.linkstate import LinkState
    reg = LinkState.registered_lsids
    if _LS_SNAPSHOT is None:
        _LS_SNAPSHOT = dict(reg)
    for k in [k for k in list(dict.keys(reg)) if k not in _LS_SNAPSHOT]:
        dict.__delitem__(reg, k)


# ---------------------------------------------------------------------------------------------------- sessions

UNCONFIGURABLE = {(2, 2), (1, 132)}   # ipv6 multicast, ipv4 rtc: registered decoders the configuration grammar cannot name
_SESS = {}


def families():
    out = []
    for a, s in NLRI.registered_families:
        if (int(a), int(s)) not in [(int(x), int(y)) for x, y in out]:
            out.append((a, s))
    return out


EXTNH = ((1, 1, 2), (1, 128, 2), (2, 1, 1))   # RFC 8950 (nlri afi, safi, next-hop afi) both sides announce


def session(addpath=False, asn4=True, extended=False, extnh=False):
    """every configurable family negotiated; aigp enabled (AIGP answers Discard otherwise)"""
    key = (bool(addpath), bool(asn4), bool(extended), bool(extnh))
    if key not in _SESS and extnh:
        fams = [(a, s) for a, s in families() if (int(a), int(s)) not in UNCONFIGURABLE]
        names = ['%s %s' % (a, s) for a, s in fams]
        codes = [(int(a), int(s)) for a, s in fams]
        block = '    nexthop {\n%s    }\n' % ''.join('        %s %s %s;\n' % (AFI.from_int(a), SAFI.from_int(s_), AFI.from_int(n)) for a, s_, n in EXTNH)
        conf = S.mk_conf(families=names, nexthop=True, extra=block)
        body = S.peer_open_body(families=codes, nexthop=EXTNH, layout='extended')
        _SESS[key] = S.negotiated_for(S.neighbor_from(conf), Direction.IN, body)
        if not _SESS[key].nexthop:
            raise RuntimeError('C03: extended next-hop was not negotiated')
    if key not in _SESS:
        fams = [(a, s) for a, s in families() if (int(a), int(s)) not in UNCONFIGURABLE]
        names = ['%s %s' % (a, s) for a, s in fams]
        codes = [(int(a), int(s)) for a, s in fams]
        if addpath:
            conf = S.mk_conf(families=names, addpath='send/receive', addpath_families=names, asn4=asn4, extended_message=extended)
            body = S.peer_open_body(families=codes, addpath={c: 3 for c in codes}, layout='extended', asn4=asn4, extended_message=extended)
        else:
            conf = S.mk_conf(families=names, asn4=asn4, extended_message=extended)
            body = S.peer_open_body(families=codes, asn4=asn4, extended_message=extended)
        conf = conf.replace('    capability {\n', '    capability {\n        aigp enable;\n', 1)
        _SESS[key] = S.negotiated_for(S.neighbor_from(conf), Direction.IN, body)
    return _SESS[key]


SESSIONS = {'asn4': dict(), 'asn2': dict(asn4=False), 'addpath': dict(addpath=True), 'extnh': dict(extnh=True)}


# ---------------------------------------------------------------------------------------------------- the observation


def force(msg, neg):
    """everything a decoded message hands back lazily, and every text the product renders from it"""
    out = [type(msg).__name__]
    if isinstance(msg, Update):
        uc = msg.data
        for r in uc.announces:
            n = r.nlri
            n.json()
            str(n)
            n.extensive()
            n.index()
            str(r.nexthop)
        for n in uc.withdraws:
            n.json(announced=False)
            str(n)
            n.extensive()
            n.index()
        at = uc.attributes
        at.json()
        at.json(generic=True)
        str(at)
        at.index()
        for code in list(at):
            a = at[code]
            str(a)
            repr(a)
        out += [len(uc.announces), len(uc.withdraws), sorted(int(c) for c in at)]
    elif isinstance(msg, EOR):
        str(msg)
        out += [int(msg.nlris[0].afi), int(msg.nlris[0].safi)]
    else:
        str(msg)
        if hasattr(msg, 'extensive'):
            msg.extensive()
        if isinstance(msg, Notification):
            msg.data
            out += []
    return out


def api_render(msg, neg, body):
    """the events every API encoder (v6 JSON, legacy v4 JSON and text) writes for the message, as Processes.message
    dispatches them (concrete replay only: one model per path; the content of the events is C13)"""
    from exabgp.reactor.api.response import Response
    from exabgp.version import json as json_version, json_v4, text_v4
    from exabgp.bgp.message.open import Open
    from exabgp.bgp.message.keepalive import KeepAlive
    from exabgp.bgp.message.refresh import RouteRefresh
    from exabgp.bgp.message.operational import Operational
    nb = neg.neighbor
    header = b'\xff' * 16 + (19 + len(body)).to_bytes(2, 'big') + bytes([int(msg.ID)])
    for enc in (Response.JSON(json_version), Response.V4.JSON(json_v4), Response.V4.Text(text_v4)):
        for h, b in ((b'', b''), (header, bytes(body))):
            if isinstance(msg, Update):
                enc.update(nb, 'receive', msg.data, h, b, neg)
            elif isinstance(msg, EOR):
                enc.update(nb, 'receive', msg, h, b, neg)
            elif isinstance(msg, Open):
                enc.open(nb, 'receive', msg, h, b, neg)
            elif isinstance(msg, Notification):
                enc.notification(nb, 'receive', msg, h, b, neg)
            elif isinstance(msg, KeepAlive):
                enc.keepalive(nb, 'receive', h, b, neg)
            elif isinstance(msg, RouteRefresh):
                enc.refresh(nb, 'receive', msg, h, b, neg)
            elif isinstance(msg, Operational):
                enc.operational(nb, 'receive', msg.category, msg, h, b, neg)
    return True


def observe(ctx, mtype, body, neg, name, L=None):
    """Message.unpack + force + render under the meter; returns the outcome summary and files the obligations"""
    L = len(body) if L is None else L
    stage = 'decode'
    msg = None
    exc = None
    limit = STEPS_PER_BYTE * L + STEPS_BASE
    meter = Meter(cap=min(STEP_CAP, limit))     # a path is cut as soon as it passes the linear bound
    try:
        with meter:
            msg = Message.unpack(mtype, body, neg)
            stage = 'force'
            shape = force(msg, neg)
    except Notify as n:
        exc = n
    except StepBudget as b:
        exc = b
    except Exception as e:
        exc = e
    if isinstance(exc, StepBudget):
        ctx.note('class', 'wedged')
        ctx.check('bounded-work', False, sig='C03:%s:unbounded-work:%s' % (name, stage), info={'body': body, 'steps': meter.steps, 'top': meter.top(4)})
        return ('wedged', stage)
    if isinstance(exc, Notify):
        code, sub = int(exc.code), int(exc.subcode)
        ctx.cover('refused')
        ctx.note('class', 'notify-%d/%d' % (code, sub))
        if stage != 'decode':
            ctx.check('only-notify-escapes', False, sig='C03:%s:notify-after-decode:%d/%d' % (name, code, sub), info={'body': body, 'notify': str(exc)[:200]})
        ok = allowed(mtype, code, sub)
        ctx.check('notify-code-defined', ok, sig='C03:%s:undefined-notification:%d/%d' % (name, code, sub), info={'body': body, 'notify': str(exc)[:200]})
        out = ('notify', code, sub)
    elif exc is not None:
        kind = type(exc).__name__
        ctx.cover('refused')
        ctx.note('class', 'raises-%s' % kind)
        ctx.check('only-notify-escapes', False, sig='C03:%s:%s:raises-%s:%s' % (name, stage, kind, _site(exc)), info={'body': body, 'raised': '%s: %s' % (kind, str(exc)[:200])})
        out = ('raises', stage, kind)
    else:
        ctx.cover('decoded')
        ctx.note('class', 'decoded:%s' % shape[0])
        out = ('decoded', shape)
        if not ctx.sym:
            ctx.witness_check('api-renders', lambda: api_render(msg, neg, body), sig='C03:%s:api-render-raises' % name, info={'body': body})
    if not ctx.sym:
        # what Connection.reader_async hands to Protocol.read_message is a memoryview, not bytes: the same octets decode to the same outcome
        def as_memoryview():
            try:
                m2 = Message.unpack(mtype, memoryview(bytes(body)), neg)
                force(m2, neg)
                return 'decoded'
            except Notify as n2:
                return 'notify-%d/%d' % (int(n2.code), int(n2.subcode))
            except Exception as e2:
                return 'raises-' + type(e2).__name__
        want = 'decoded' if out[0] == 'decoded' else 'notify-%d/%d' % (out[1], out[2]) if out[0] == 'notify' else 'raises-' + str(out[2])
        ctx.witness_check('same-outcome-from-a-memoryview', lambda: as_memoryview() == want, sig='C03:%s:memoryview-body-decodes-differently' % name,
                          info={'body': body, 'bytes': want})
    ctx.check('bounded-work', meter.steps <= limit, sig='C03:%s:work-not-linear' % name, info={'body': body, 'steps': meter.steps, 'limit': limit, 'top': meter.top(4)})
    return out


def _site(exc):
    """file:function of the innermost exabgp frame the exception passed through"""
    site = '?'
    t = exc.__traceback__
    while t is not None:
        fn = t.tb_frame.f_code.co_filename
        if '/src/exabgp/' in fn:
            site = '%s:%s' % (fn.split('/src/exabgp/')[-1], t.tb_frame.f_code.co_name)
        t = t.tb_next
    return site


# ---------------------------------------------------------------------------------------------------- free bodies

BUDGET_FREE = {'quick': 3000, 'thorough': 20000}
_TIER = ['quick']
TYPES = {'open': 1, 'update': 2, 'notification': 3, 'keepalive': 4, 'route-refresh': 5, 'operational': 6, 'unregistered': 7}


def h_free(ctx, tname, lengths, sess='asn4'):
    neg = session(**SESSIONS[sess])
    L = lengths[0] if len(lengths) == 1 else ctx.pick('L', lengths)
    if over_budget(ctx, ('free', tname, L), BUDGET_FREE[_TIER[0]]):
        ctx.note('class', 'budget-cut:free:%s L=%d' % (tname, L))
        return ('budget-cut', L)
    body = ctx.bytes('b', L)
    mtype = TYPES[tname]
    if tname == 'unregistered':
        mtype = ctx.int('type', 7, 255)
    return observe(ctx, mtype, body, neg, 'free:' + tname)


def h_free_attrs(ctx, lengths, sess='asn4'):
    """UPDATE whose two length fields are concrete and whose path-attribute block is n free bytes (+ one IPv4 NLRI)"""
    neg = session(**SESSIONS[sess])
    n = lengths[0] if len(lengths) == 1 else ctx.pick('n', lengths)
    items = [0, 0] + be(n, 2) + K.sym(ctx, 'a', n) + [24, 10, 0, 0]
    return observe(ctx, 2, K.mk(ctx, items), neg, 'free:update-attributes')


# ---------------------------------------------------------------------------------------------------- builders
#
# A builder makes the items of one message body from a SOURCE F: F.sym(name, n) n payload bytes, F.near(name, n, size)
# a length field in n..n+1 (the declared length may overrun what follows), F.pick(name, options).
# With the harness' source the payload is symbolic; with a Probe it is a constant filler: the probe decodes the body
# concretely for every candidate size and keeps the sizes at which the outcome class changes (the boundaries of the
# decoder's own length checks) - that only CHOOSES the sizes explored, every verdict is the symbolic run's.


def be(n, size):
    return list(int(n).to_bytes(size, 'big'))


class Src:
    def __init__(self, ctx):
        self.ctx = ctx

    def sym(self, name, n):
        return K.sym(self.ctx, name, n)

    def near(self, name, n, size=1, slack=1):
        top = 256 ** size - 1
        # never BELOW n: a shorter declared length only re-reads the tail as one more TLV of symbolic type (the decoder
        # itself sees what it sees at the smaller size L), which enumerates type codes instead of deciding anything
        lo, hi = min(top, max(0, n)), min(top, max(0, n) + slack)
        v = self.ctx.int(name, lo, hi)
        if size == 1:
            return [v]
        return [v // 256, v % 256] if self.ctx.sym else be(v, 2)

    def pick(self, name, options):
        return self.ctx.pick(name, options)

    def byte(self, name):
        return self.ctx.byte(name)

    def int(self, name, lo, hi):
        return self.ctx.int(name, lo, hi)


class Probe:
    def __init__(self, fill):
        self.fill = fill

    def sym(self, name, n):
        return [self.fill] * n

    def near(self, name, n, size=1, slack=2):
        return be(min(n, 256 ** size - 1), size)

    def pick(self, name, options):
        return list(options)[0]

    def byte(self, name):
        return self.fill

    def int(self, name, lo, hi):
        return lo


def tlv(flag, code, value):
    n = len(value)
    if n > 255:
        return [flag | 0x10, code] + be(n, 2) + list(value)
    return [flag & 0xEF, code, n] + list(value)


BASE_ATTRS = [[0x40, 1, 1, 0], [0x40, 2, 0]]
NEXT_HOP = [0x40, 3, 4, 192, 0, 2, 1]


def upd_attr(flag, code, value):
    """well-formed UPDATE: ORIGIN, empty AS_PATH, NEXT_HOP, the attribute under test, one IPv4 NLRI"""
    skip = {1: 0, 2: 1}.get(code)
    base = [a for i, a in enumerate(BASE_ATTRS) if i != skip] + ([NEXT_HOP] if code != 3 else [])
    return K.body([], base + [tlv(flag, code, value)], [[24, 10, 0, 0]])


def family_nexthop(afi, safi):
    """a next hop MP_REACH accepts for the family (Family.size read live): zero RD + address"""
    from exabgp.protocol.family import Family
    lengths, rd = Family.size[(AFI.from_int(afi), SAFI.from_int(safi))]
    n = [x for x in lengths if x][0]
    addr = n - rd
    ip = [192, 0, 2, 1] if addr == 4 else ([0x20, 1, 0x0d, 0xb8] + [0] * 11 + [1]) * (addr // 16)
    return [0] * rd + ip


def upd_reach(afi, safi, nlri, nh=None):
    nh = family_nexthop(afi, safi) if nh is None else nh
    v = be(afi, 2) + [safi, len(nh)] + list(nh) + [0] + list(nlri)
    return K.body([], BASE_ATTRS + [tlv(0x80, 14, v)], [])


def upd_unreach(afi, safi, nlri):
    return K.body([], [tlv(0x80, 15, be(afi, 2) + [safi] + list(nlri))], [])


def open_body(params):
    return [4] + be(65001, 2) + be(180, 2) + [5, 6, 7, 8, len(params)] + list(params)


import re as _re
_DIGITS = _re.compile(r'[0-9]+')


class Plan:
    """one decoder: build(F, L) -> (message type, body items); candidates: payload sizes probed; sessions it runs on"""

    def __init__(self, name, build, top=40, sess=('asn4',), mtype=2, keep=None, cover=(), weight=10, base=(0, 1, 2),
                 group=None, variants=None):
        self.name, self.build, self.top, self.mtype, self.keep, self.cover, self.weight, self.base = name, build, top, mtype, keep, cover, weight, base
        # variants: (tag, session) - the builder receives the tag when it takes three arguments
        self.variants = list(variants) if variants else [('' if x == 'asn4' else x, x) for x in sess]
        self.group = group or name

    def make(self, F, L, tag):
        return self.build(F, L, tag) if self.build.__code__.co_argcount - len(self.build.__defaults__ or ()) >= 3 else self.build(F, L)

    _sizes = {}

    def sizes(self, tier, variant=0):
        """sizes explored; the secondary variants (other wrapper, same decoder) run at three sizes only: a small one, the
        smallest the decoder accepts and the largest explored"""
        key = (self.name, tier)
        if key not in Plan._sizes:
            Plan._sizes[key] = (self._probe(tier), self.accepted)
        sizes, accepted = Plan._sizes[key]
        if variant == 0 or tier == 'thorough':
            return sizes
        ok = [x for x in sizes if x in accepted]
        return sorted(set([sizes[min(2, len(sizes) - 1)], ok[0] if ok else sizes[-1], sizes[-1]]))

    def _probe(self, tier):
        th = tier == 'thorough'
        top = self.top      # same caps in both tiers: thorough takes three times as many sizes below them
        tag, sess = self.variants[0]
        neg = session(**SESSIONS[sess])
        cls = {}
        for L in range(0, top + 1):
            out = []
            for fill in (0, 1, 0xFF):
                reset_state()
                body = bytes(self.make(Probe(fill), L, tag))
                try:
                    with Meter(cap=STEP_CAP):
                        m = Message.unpack(self.mtype, body, neg)
                        what = type(m).__name__
                        if isinstance(m, Update):
                            d = m.data
                            what += ':%d:%d:%s' % (len(d.announces), len(d.withdraws), sorted(int(c) for c in d.attributes))
                    out.append('ok:' + what)
                except Notify as n:
                    # the wording of the refusal with its numbers struck out: a different sentence is a different check
                    out.append('n%d/%d %s' % (n.code, n.subcode, _DIGITS.sub('#', str(n))[:90]))
                except StepBudget:
                    out.append('wedged')
                except Exception as e:
                    out.append('x%s %s' % (type(e).__name__, _DIGITS.sub('#', str(e))[:60]))
            cls[L] = tuple(out)
        reset_state()
        self.accepted = [L for L in range(0, top + 1) if any(o.startswith('ok') and '65535' not in o and '65534' not in o for o in cls[L])]
        # runs of consecutive sizes with one outcome class; a run of one size is a length the decoder singles out
        runs = []
        for L in range(0, top + 1):
            if runs and cls[L] == cls[runs[-1][0]]:
                runs[-1].append(L)
            else:
                runs.append([L])
        keep = (self.keep or 8) * (3 if th else 1)
        base = [x for x in self.base if x <= top]
        single = [r[0] for r in runs if len(r) == 1]
        first = [r[0] for r in runs if len(r) > 1]
        last = [r[-1] for r in runs if len(r) > 2]
        want = []
        for group in (single, base, first, last):
            for x in group:
                if x not in want and len(want) < keep:
                    want.append(x)
        return sorted(want)


_SPENT = {}
BUDGET = {'quick': 120, 'thorough': 600}
_PLAN_T0 = {}


def over_budget(ctx, key, limit, share=None):
    """at most `limit` paths per (decoder, variant, size) - and, as a safety net, at most `share` seconds per decoder of a
    group so that the last decoder of a group is still reached before the unit's time limit: a decoder whose fan-out explodes (flow operators, name tables
    enumerated value by value) is cut there, the cut is a path of class budget-cut and the unit is reported TRUNCATED
    (engine.cut), never as exhausted.  The decision rides on the input `cut` so that the replay takes the same way."""
    cut = ctx.int('cut', 0, 1)
    if not ctx.sym:
        return bool(cut)
    n = _SPENT.get(key, 0)
    over = n >= limit
    if share is not None:
        import time as _time
        t0 = _PLAN_T0.setdefault(key[0], _time.time())
        over = over or (_time.time() - t0 > share)
    ctx.assume(cut == (1 if over else 0))
    if over:
        _core.engine().cut = True
    else:
        _SPENT[key] = n + 1
    return over


def h_group(ctx, plans, tier, seconds=None):
    plan = plans[0] if len(plans) == 1 else ctx.pick('decoder', plans)
    vi = 0 if len(plan.variants) == 1 else ctx.choice('variant', len(plan.variants))
    tag, sess = plan.variants[vi]
    neg = session(**SESSIONS[sess])
    sizes = plan.sizes(tier, vi)
    L = sizes[0] if len(sizes) == 1 else ctx.pick('L', sizes)
    if over_budget(ctx, (plan.name, tag, L), BUDGET[tier], None if seconds is None else 0.8 * seconds / len(plans)):
        ctx.note('class', 'budget-cut:%s%s L=%d' % (plan.name, ':' + tag if tag else '', L))
        return (plan.name, tag, L, 'budget-cut')
    items = plan.make(Src(ctx), L, tag)
    body = K.mk(ctx, items)
    ctx.cover('reached:' + plan.name)
    out = observe(ctx, plan.mtype, body, neg, plan.name + (':' + tag if tag else ''))
    if _DEBUG:
        ctx.note('class', '%s%s L=%d %s' % (plan.name, ':' + tag if tag else '', L, ctx.notes.get('class')))
    return (plan.name, tag, L, out)


# ---------------------------------------------------------------------------------------------------- plans (registries read LIVE)


class Sfx:
    """a source whose variable names carry a suffix: a second copy of a shape gets its own symbolic octets"""

    def __init__(self, F, sfx):
        self.F, self.sfx = F, sfx

    def sym(self, name, n):
        return self.F.sym(name + self.sfx, n)

    def near(self, name, n, size=1, slack=1):
        return self.F.near(name + self.sfx, n, size, slack)

    def pick(self, name, options):
        return self.F.pick(name + self.sfx, options)

    def byte(self, name):
        return self.F.byte(name + self.sfx)

    def int(self, name, lo, hi):
        return self.F.int(name + self.sfx, lo, hi)


def first_accepted(plan):
    """the smallest payload size at which the probe saw the plan's decoder accept something (0 when none)"""
    plan.sizes('quick')
    acc = Plan._sizes[(plan.name, 'quick')][1]
    return acc[0] if acc else 0


def tlv_plans(plans, name, wrap, mk, repeat_group=None, **kw):
    """one TLV: wrap(mk(F, L)) over the sizes; and the loop around it: two and three TLVs of the size the decoder accepts,
    back to back (a loop which does not advance, or advances wrongly, shows here)"""
    single = Plan(name, lambda F, L: wrap(mk(F, L)), **kw)
    plans.append(single)

    def b_repeated(F, L):
        n = first_accepted(single)
        return wrap(mk(Sfx(F, '.a'), n) + mk(Sfx(F, '.b'), n) + (mk(Sfx(F, '.c'), n) if L else []))
    plans.append(Plan(name + ':repeated', b_repeated, top=1, keep=2, base=(0, 1), group=repeat_group or (name + ':repeated')))
    return single


def attribute_plans():
    from exabgp.bgp.message.update.attribute.aspath import ASPath
    from exabgp.bgp.message.update.attribute.community.extended.community import ExtendedCommunity, ExtendedCommunityIPv6
    from exabgp.bgp.message.update.attribute.bgpls.linkstate import LinkState
    from exabgp.bgp.message.update.attribute.sr.prefixsid import PrefixSid
    from exabgp.bgp.message.update.attribute.pmsi import PMSI
    from exabgp.bgp.message.update.attribute.tunnel_encap.tlv import TunnelTypeTLV, SubTLV
    import exabgp.bgp.message.update.attribute.tunnel_encap.sr_policy.segment_list as seglist
    plans = []
    for (code, kflag), klass in sorted(Attribute.registered_attributes.items()):
        flag = kflag & 0xEF
        both = ('asn4', 'asn2') if code in (2, 7, 17, 18) else ('asn4',)
        if code in (14, 15):
            # the value after a concrete family: every truncation of the next hop / reserved octet / NLRI (the NLRI
            # decoders themselves are the nlri: plans)
            for a_, s_ in ((1, 1), (2, 1), (1, 128), (25, 70)):
                plans.append(Plan('attr:%d:%s-%s' % (code, AFI.from_int(a_), SAFI.from_int(s_)), lambda F, L, flag=flag, code=code, a_=a_, s_=s_:
                                  K.body([], BASE_ATTRS + [tlv(flag, code, be(a_, 2) + [s_] + F.sym('v', L))], []), top=30, keep=8, group='attr:%d' % code))
            plans.append(Plan('attr:%d:short' % code, lambda F, L, flag=flag, code=code: K.body([], BASE_ATTRS + [tlv(flag, code, [0, 1, 1][:L])], []), top=3, keep=4, base=(0, 1, 2, 3), group='attr:%d' % code))
            continue
        plans.append(Plan('attr:%d' % code, lambda F, L, flag=flag, code=code: upd_attr(flag, code, F.sym('v', L)), sess=both, top=40, weight=30))
        if code in (2, 17):
            for t in sorted(ASPath._DISPATCH) + [9]:
                for a4 in both:
                    size = 4 if (a4 == 'asn4' or code == 17) else 2
                    plans.append(Plan('attr:%d:segment-%d' % (code, t), lambda F, L, flag=flag, code=code, t=t, size=size:
                                      upd_attr(flag, code, [t] + F.near('count', L // size) + F.sym('v', L)), sess=(a4,), top=12, keep=8))
        elif code in (16, 25):
            reg, size = (ExtendedCommunity, 8) if code == 16 else (ExtendedCommunityIPv6, 20)
            keys = sorted(reg.registered_extended) + [(5, 99)]

            def b_ext(F, L, flag=flag, code=code, keys=keys, size=size):
                """one community of each registered (type, subtype): the high nibble of the type octet (IANA authority /
                transitive bits, not part of the registry key) and the value symbolic"""
                t, sub = F.pick('type', keys)
                return upd_attr(flag, code, [F.int('hi', 0, 15) * 16 + t, sub] + F.sym('v', size - 2))
            plans.append(Plan('attr:%d:types' % code, b_ext, top=0, keep=1, base=(0,), cover=('decoded',), weight=60))
        elif code == 22:
            for t in sorted(PMSI._pmsi_known) + [99]:
                plans.append(Plan('attr:22:tunnel-%d' % t, lambda F, L, flag=flag, t=t: upd_attr(flag, 22, F.sym('fl', 1) + [t] + F.sym('label', 3) + F.sym('v', L)), top=20, keep=8))
        elif code == 23:
            for tt in sorted(TunnelTypeTLV.registered_tunnel_types) + [8]:
                plans.append(Plan('attr:23:tunnel-%d' % tt, lambda F, L, flag=flag, tt=tt: upd_attr(flag, 23, be(tt, 2) + F.near('tl', L, 2) + F.sym('v', L)), top=12, keep=8))
            tt = sorted(TunnelTypeTLV.registered_tunnel_types)[0]
            for sub in sorted(SubTLV.registered_subtypes) + [77, 200]:
                tlv_plans(plans, 'attr:23:sub-%d' % sub, lambda items, flag=flag, tt=tt: upd_attr(flag, 23, be(tt, 2) + be(len(items), 2) + items),
                          lambda F, L, sub=sub: [sub] + F.near('sl', L, 1 if sub < 128 else 2) + F.sym('v', L), top=30, keep=10, repeat_group='attr:23:repeated')
            if 128 in SubTLV.registered_subtypes:
                subs = sorted(set(int(k.SUBTYPE) for k in vars(seglist).values() if isinstance(k, type) and isinstance(getattr(k, 'SUBTYPE', None), int)
                                  and not issubclass(k, SubTLV) and k.__module__ == seglist.__name__))
                for sst in subs + [99]:
                    def w_seg(items, flag=flag, tt=tt):
                        inner = [128] + be(1 + len(items), 2) + [0] + items
                        return upd_attr(flag, 23, be(tt, 2) + be(len(inner), 2) + inner)
                    tlv_plans(plans, 'attr:23:segment-%d' % sst, w_seg, lambda F, L, sst=sst: [sst] + F.near('ssl', L) + F.sym('v', L), top=44, keep=8,
                              group='attr:23:segments-%d' % (subs.index(sst) // 4 if sst in subs else 9), repeat_group='attr:23:segments-repeated')
        elif code == 26:
            for t in (1, 2):
                tlv_plans(plans, 'attr:26:tlv-%d' % t, lambda items, flag=flag: upd_attr(flag, 26, items), lambda F, L, t=t: [t] + F.near('tl', L + 3, 2) + F.sym('v', L),
                          top=12, keep=6, group='attr:26:tlvs', repeat_group='attr:26:repeated')
        elif code == 29:
            for t, k in sorted(LinkState.registered_lsids.items()) + [(4242, None)]:
                n29 = len([p for p in plans if p.name.startswith('attr:29:tlv-') and ':sub-' not in p.name and not p.name.endswith(':repeated')])
                tlv_plans(plans, 'attr:29:tlv-%d' % t, lambda items, flag=flag: upd_attr(flag, 29, items), lambda F, L, t=t: be(t, 2) + F.near('tl', L, 2) + F.sym('v', L),
                          top=40, keep=10, group='attr:29:tlvs-%d' % (n29 // 6), repeat_group='attr:29:repeated-%d' % (n29 // 12))
                subs = getattr(k, 'registered_subsubtlvs', None)
                if subs:
                    for st in sorted(subs) + [9999]:
                        plans.append(Plan('attr:29:tlv-%d:sub-%d' % (t, st), lambda F, L, flag=flag, t=t, st=st, k=k: b_ls_sub(F, L, flag, t, st), top=16, keep=8, group='attr:29:sub-tlvs'))
        elif code == 40:
            for t in sorted(set(PrefixSid.registered_srids) | {5, 6, 77}):
                tlv_plans(plans, 'attr:40:tlv-%d' % t, lambda items, flag=flag: upd_attr(flag, 40, items), lambda F, L, t=t: [t] + F.near('tl', L, 2) + F.sym('v', L),
                          top=30, keep=10, repeat_group='attr:40:repeated')
            # the nested SRv6 service TLVs (RFC 9252): service TLV > SID information sub-TLV > SID structure sub-sub-TLV of L octets
            # (6 is the only legal size) and an unknown sub-sub-TLV of L octets - free octets never spell this nesting within the budget
            for t in (5, 6):
                for sst in (1, 9):
                    plans.append(Plan('attr:40:tlv-%d:sid-information:sub-sub-%d' % (t, sst),
                                      lambda F, L, flag=flag, t=t, sst=sst: upd_attr(flag, 40, b_srv6_nested(F, L, t, sst)), top=9, keep=10, group='attr:40:srv6-nested'))
    return plans


def b_srv6_nested(F, L, t, sst):
    inner = F.sym('rsv', 1) + [1] + be(21 + 3 + L, 2) + F.sym('sid', 21) + [sst] + be(L, 2) + F.sym('st', L)
    return [t] + be(len(inner), 2) + inner


_LS_FIXED = {}


def b_ls_sub(F, L, flag, t, st):
    """a BGP-LS attribute TLV holding sub-TLVs: the fixed part (its size is found by probing: the shortest all-zero value
    the TLV accepts) then one sub-TLV of type st"""
    if t not in _LS_FIXED:
        neg = session()
        n = 0
        for n in range(0, 65):
            reset_state()
            try:
                Message.unpack(2, bytes(upd_attr(flag, 29, be(t, 2) + be(n, 2) + [0] * n)), neg).data.attributes.json()
                break
            except Exception:
                continue
        _LS_FIXED[t] = n
        reset_state()
    n = _LS_FIXED[t]
    inner = F.sym('fixed', n) + be(st, 2) + F.near('sl', L, 2) + F.sym('v', L)
    return upd_attr(flag, 29, be(t, 2) + be(len(inner), 2) + inner)


def b_one(F, L):
    """ONE prefix-like NLRI of L octets after its length octet: the length octet is symbolic inside the range that needs
    exactly these L octets (8L-7 .. 8L bits), so the octets are not re-read as further NLRI (that is the free plan)"""
    if L == 0:
        return [0]
    return [F.int('bits', min(255, 8 * L - 7), min(255, 8 * L))] + F.sym('n', L)


def nlri_plans(th=False):
    from exabgp.bgp.message.update.nlri.evpn.nlri import EVPN
    from exabgp.bgp.message.update.nlri.mup.nlri import MUP
    from exabgp.bgp.message.update.nlri.mvpn.nlri import MVPN
    from exabgp.bgp.message.update.nlri.bgpls.nlri import BGPLS
    import exabgp.bgp.message.update.nlri.flow as flow
    from exabgp.bgp.message.update.nlri.inet import INETBase
    plans = []

    variants = [('reach', 'asn4'), ('unreach', 'asn4'), ('addpath-reach', 'addpath')] + ([('addpath-unreach', 'addpath')] if th else [])

    def add(name, nlri, afi, safi, inner=False, two=False, **kw):
        """through MP_REACH (announce) and MP_UNREACH (withdraw); with ADD-PATH the path identifier precedes the NLRI
        (inner: a sub-TLV of the NLRI, the wrappers were varied by the plan of the NLRI itself: MP_REACH only)"""
        def build(F, L, tag):
            # the path identifier is four opaque octets: concrete (a decoder which ignores ADD-PATH reads them as its own header)
            n = ([0, 0, 0, 1] if tag.startswith('addpath') else []) + nlri(F, L)
            return upd_reach(afi, safi, n) if tag.endswith('unreach') is False else upd_unreach(afi, safi, n)
        # the ADD-PATH variants only where the decoder reads a path identifier (the INET family of classes): the others
        # would re-read the four octets as their own header
        klass = NLRI.registered_nlri.get('%s/%s' % (AFI.from_int(afi), SAFI.from_int(safi)))
        vs = variants if (klass is not None and issubclass(klass, INETBase)) else [v for v in variants if not v[0].startswith('addpath')]
        single = Plan(name, build, variants=vs[:1] if inner and not th else vs, **kw)
        plans.append(single)
        if two:
            def build2(F, L):
                n = first_accepted(single)
                return upd_reach(afi, safi, nlri(Sfx(F, '.a'), n) + nlri(Sfx(F, '.b'), n) + (nlri(Sfx(F, '.c'), n) if L else []))
            plans.append(Plan(name + ':repeated', build2, top=1, keep=2, base=(0, 1), group='nlri:%s-%s:repeated' % (AFI.from_int(afi), SAFI.from_int(safi))))

    for afi_, safi_ in families():
        a, s = int(afi_), int(safi_)
        if (a, s) in UNCONFIGURABLE:
            continue   # cannot be negotiated: MP_REACH/MP_UNREACH of the family is refused before its decoder runs (free:not-negotiated)
        fam = '%s-%s' % (afi_, safi_)
        routed = (a, s) == (25, 70) or s in (5, 85, 133, 134) or a == 16388
        add('nlri:%s' % fam, lambda F, L: F.sym('n', L), a, s, top=5 if not routed else 6, keep=6, weight=40)
        if not routed:
            add('nlri:%s:one' % fam, lambda F, L: b_one(F, L), a, s, top=44, keep=8, weight=30, two=True)
        if (a, s) == (25, 70):
            for code in sorted(EVPN.registered_evpn) + [0x7f]:
                add('nlri:%s:type-%d' % (fam, code), lambda F, L, code=code: [code] + F.near('len', L) + F.sym('n', L), a, s, top=64, weight=30, two=True)
        elif s == 5:
            for code in sorted(MVPN.registered_mvpn) + [0x7f]:
                add('nlri:%s:type-%d' % (fam, code), lambda F, L, code=code: [code] + F.near('len', L) + F.sym('n', L), a, s, top=52, weight=30, two=True)
        elif s == 85:
            for key in sorted(MUP.registered_mup) + ['1:99']:
                arch, code = [int(x) for x in key.split(':')]
                add('nlri:%s:type-%d-%d' % (fam, arch, code), lambda F, L, arch=arch, code=code: [arch] + be(code, 2) + F.near('len', L) + F.sym('n', L), a, s, top=72, weight=30, two=True)
        elif a == 16388:
            vpn = s == 72
            for code in sorted(BGPLS.registered_bgpls) + [0x7f]:
                def b_ls(F, L, code=code, vpn=vpn):
                    rd = F.sym('rd', 8) if vpn else []
                    return be(code, 2) + F.near('len', L + len(rd), 2) + rd + F.sym('n', L)
                add('nlri:%s:type-%d' % (fam, code), b_ls, a, s, top=24, weight=30, two=True)
                klass = BGPLS.registered_bgpls.get(code)
                if klass is None:
                    continue
                mod = sys.modules[klass.__module__]
                codes = sorted(set(v for n, v in vars(mod).items() if n.startswith('TLV_') and isinstance(v, int) and v > 255))
                for t in codes + [999]:
                    def b_desc(F, L, code=code, vpn=vpn, t=t):
                        """protocol-id, identifier, a well-formed local node descriptor, then the descriptor TLV under test"""
                        rd = F.sym('rd', 8) if vpn else []
                        node = be(512, 2) + be(4, 2) + F.sym('as', 4) + be(515, 2) + be(4, 2) + F.sym('rid', 4)
                        first = be(256, 2) + be(len(node), 2) + node if t != 256 else []
                        body = [3] + F.sym('ident', 8) + first + be(t, 2) + F.near('tl', L, 2) + F.sym('v', L)
                        return be(code, 2) + be(len(rd) + len(body), 2) + rd + body
                    add('nlri:%s:type-%d:tlv-%d' % (fam, code, t), b_desc, a, s, inner=True, top=24, keep=6, weight=20, group='nlri:%s:type-%d:tlvs' % (fam, code))
        elif s in (133, 134):
            comps = sorted(flow.decode[AFI.from_int(a)]) + [0, 99]
            for comp in comps:
                def b_flow(F, L, comp=comp, vpn=(s == 134)):
                    rd = F.sym('rd', 8) if vpn else []
                    return F.near('len', L + 1 + len(rd)) + rd + [comp] + F.sym('n', L)
                add('nlri:%s:component-%d' % (fam, comp), b_flow, a, s, inner=True, top=1, keep=3, weight=60, group='nlri:%s:components-%d' % (fam, comps.index(comp) // 5))
    # IPv4 unicast in the sections of the UPDATE itself
    plans.append(Plan('nlri:ipv4-unicast:withdrawn', lambda F, L: be(L, 2) + F.sym('n', L) + [0, 0], top=12))
    plans.append(Plan('nlri:ipv4-unicast:announced', lambda F, L: K.body([], BASE_ATTRS + [NEXT_HOP], [F.sym('n', L)]), top=12))
    plans.append(Plan('nlri:ipv4-unicast:withdrawn-addpath', lambda F, L: be(L, 2) + F.sym('n', L) + [0, 0], top=12, sess=('addpath',)))
    # the next hop of MP_REACH, per family
    for afi_, safi_ in families():
        a, s = int(afi_), int(safi_)
        if (a, s) in UNCONFIGURABLE:
            continue
        one = {1: [24, 10, 0, 0], 2: [32, 0x20, 1, 0x0d, 0xb8]}.get(a) if s in (1, 2) else []
        for sess in ('asn4', 'extnh'):
            plans.append(Plan('nexthop:%s-%s%s' % (afi_, safi_, '' if sess == 'asn4' else ':extended-next-hop-session'),
                              lambda F, L, a=a, s=s, one=one: upd_reach(a, s, one, F.sym('nh', L)), top=44, keep=8, sess=(sess,),
                              cover=('refused',) if not one else ('decoded', 'refused'), group='nexthop:%s%s' % (afi_, '' if sess == 'asn4' else ':extended')))
    # a well-formed MP_REACH of every family (next hop symbolic) cut after every octet of its value
    for afi_, safi_ in families():
        a, s = int(afi_), int(safi_)
        if (a, s) in UNCONFIGURABLE:
            continue
        nhc = family_nexthop(a, s)
        one = {1: [24, 10, 0, 0], 2: [32, 0x20, 1, 0x0d, 0xb8]}.get(a) if s in (1, 2) else [0, 0, 0]
        full_len = 4 + len(nhc) + 1 + len(one)

        def b_cut(F, L, a=a, s=s, nhc=nhc, one=one):
            rd = len(nhc) - len([x for x in nhc[8:]]) if len(nhc) in (12, 24) else 0
            full = be(a, 2) + [s, len(nhc)] + nhc[:rd] + F.sym('nh', len(nhc) - rd) + [0] + one
            return K.body([], BASE_ATTRS + [tlv(0x80, 14, full[:L])], [])
        plans.append(Plan('mp-reach-cut:%s-%s' % (afi_, safi_), b_cut, top=full_len, keep=64, base=tuple(range(0, full_len + 1)), group='mp-reach-cut:%s' % afi_))
    # a family that is registered but not negotiated, and one that is not registered at all
    plans.append(Plan('family:not-negotiated', lambda F, L: upd_reach(*F.pick('fam', sorted(UNCONFIGURABLE)), F.sym('n', L), nh=[192, 0, 2, 1]), top=6, cover=('refused',)))
    # a family nobody registered (AFI/SAFI concrete: the registry key is a rendered name, a symbolic one would be sampled)
    plans.append(Plan('family:unknown', lambda F, L: (lambda v: K.body([], BASE_ATTRS + [tlv(0x80, F.pick('code', (14, 15)), v)], []))(
        list(F.pick('fam', ((0, 3, 1), (0, 1, 99), (255, 255, 255), (0, 0, 0)))) + F.sym('n', L)), top=8, keep=6, cover=('refused',)))
    return plans


def open_plans():
    from exabgp.bgp.message.open.capability.capability import Capability
    plans = []
    codes = sorted(int(k) for k in Capability.registered_capability)
    for code in codes + [200]:
        def b_cap(F, L, code=code):
            cap = [code] + F.near('cl', L) + F.sym('v', L)
            return open_body([2, len(cap)] + cap)
        plans.append(Plan('capability:%d' % code, b_cap, mtype=1, top=24, keep=10, group='capabilities-%d' % ((codes + [200]).index(code) // 4)))

        def b_cap_ext(F, L, code=code):
            cap = [code] + F.near('cl', L) + F.sym('v', L)
            params = [2] + be(len(cap), 2) + cap
            return [4] + be(65001, 2) + be(180, 2) + [5, 6, 7, 8, 255, 255] + be(len(params), 2) + params
        if code in (1, 5, 64, 69, 73):
            plans.append(Plan('capability:%d:rfc9072' % code, b_cap_ext, mtype=1, top=24, keep=6, group='capabilities-rfc9072'))
    plans.append(Plan('open:parameter', lambda F, L: open_body([F.pick('type', (0, 1, 2, 3, 255))] + F.near('pl', L) + F.sym('v', L)), mtype=1, top=8))
    plans.append(Plan('open:two-capabilities', lambda F, L: open_body([2, 6 + L, 1, 4, 0, 1, 0, 1] + [F.pick('code', (1, 2, 64, 65, 69, 70))] + F.near('cl', L) + F.sym('v', L)), mtype=1, top=10))
    return plans


def operational_plans():
    from exabgp.bgp.message.operational import Operational
    plans = []
    for t in sorted(Operational.registered_operational) + [0, 0xFFFF]:
        plans.append(Plan('operational:%d' % t, lambda F, L, t=t: be(t, 2) + F.near('len', L, 2) + F.sym('v', L), mtype=6, top=24, keep=10, group='operational-%d' % (t % 2)))
    return plans


def notification_plans():
    return [Plan('notification:shutdown', lambda F, L: [6, F.pick('sub', (2, 4))] + F.near('len', L - 1 if L else 0) + F.sym('v', max(0, L - 1)), mtype=3, top=5, keep=6, cover=('decoded',), base=(0, 1, 2, 3))]


def all_plans(tier='quick'):
    return attribute_plans() + nlri_plans(tier == 'thorough') + open_plans() + operational_plans() + notification_plans()


# ---------------------------------------------------------------------------------------------------- through Protocol.read_message


def h_proto(ctx, tname, lengths):
    """the same free bodies handed to the real Protocol.read_message by a fake connection: whatever answers, it is never
    the catch-all's Notify(1,0)"""
    from checks import c06 as C6
    neg = session()
    L = ctx.pick('L', lengths)
    body = ctx.bytes('b', L)
    mtype = TYPES[tname]
    header = K.mk(ctx, [0xFF] * 16 + be(19 + L, 2) + [mtype])
    c = C6.mk_connection(4096)

    async def reader_async():
        return 19 + L, mtype, header, body, None
    c.reader_async = reader_async
    c.session = lambda: 's'
    p = C6.mk_protocol(c)
    p.negotiated = neg
    p.neighbor.adj_rib_in = True
    name = 'proto:' + tname
    try:
        with Meter(cap=STEP_CAP):
            m = C6.drive(p.read_message())
    except Notification as n:
        if not isinstance(n, Notify):
            ctx.cover('peer-notification')
            return ('peer-notification',)
        code, sub = int(n.code), int(n.subcode)
        ctx.cover('refused')
        ctx.check('not-the-catch-all', (code, sub) != (1, 0), sig='C03:%s:answered-by-catch-all-1/0' % name, info={'body': body, 'notify': str(n)[:200]})
        ctx.check('notify-code-defined', allowed(mtype, code, sub) or (code, sub) == (1, 0), sig='C03:%s:undefined-notification:%d/%d' % (name, code, sub), info={'body': body})
        return ('notify', code, sub)
    except StepBudget:
        ctx.check('bounded-work', False, sig='C03:%s:unbounded-work' % name, info={'body': body})
        return ('wedged',)
    except Exception as e:
        ctx.check('only-notify-escapes', False, sig='C03:%s:raises-%s:%s' % (name, type(e).__name__, _site(e)), info={'body': body})
        return ('raises', type(e).__name__)
    ctx.cover('decoded')
    return ('message', type(m).__name__)


# ---------------------------------------------------------------------------------------------------- valid but unusual

UNREGISTERED_CODES = None


def unregistered_codes():
    global UNREGISTERED_CODES
    if UNREGISTERED_CODES is None:
        known = set(int(c) for c, _ in Attribute.registered_attributes) | set(int(x) for x in getattr(Attribute, 'attributes_known', ()))
        UNREGISTERED_CODES = [c for c in range(41, 255) if c not in known]
    return UNREGISTERED_CODES


def unusual_body(k, transitive, values=None, flags=None, vlen=0, one_code=False):
    """ORIGIN, AS_PATH, NEXT_HOP, then k attributes of unregistered type codes (optional, or optional transitive), each
    with vlen value bytes, and one IPv4 NLRI.  The codes cycle through the unregistered ones: beyond ~200 attributes a
    type code repeats, which RFC 7606 3.g settles as 'all but the first discarded, the UPDATE continues to be processed'."""
    codes = unregistered_codes()
    attrs = list(BASE_ATTRS) + [NEXT_HOP]
    for i in range(k):
        f = (0xC0 if transitive else 0x80) if flags is None else flags[i]
        v = [0] * vlen if values is None else values[i]
        attrs.append([f, codes[0] if one_code else codes[i % len(codes)], len(v)] + list(v))
    return K.body([], attrs, [[24, 10, 0, 0]])


def parse_depth(body, neg):
    """(outcome, recursion depth of AttributeCollection.parse, exabgp stack depth) decoding body for real"""
    reset_state()
    m = Meter(cap=50_000_000, track='AttributeCollection.parse')
    try:
        with m:
            msg = Message.unpack(2, body, neg)
            msg.data
        out = 'decoded'
    except Notify as n:
        out = 'notify-%d/%d' % (n.code, n.subcode)
    except Exception as e:
        out = type(e).__name__
    return out, m.tdepth, m.depth


def h_depth(ctx, k, transitive):
    """k unknown attributes with symbolic flags (optional / partial / extended-length bits), symbolic values: decoded, and
    AttributeCollection.parse nests exactly once per attribute (3 mandatory + k) plus the final empty call"""
    neg = session()
    flags, values = [], []
    items = list(BASE_ATTRS) + [NEXT_HOP]
    codes = unregistered_codes()
    for i in range(k):
        partial = ctx.int('partial%d' % i, 0, 1)
        f = (0xC0 if transitive else 0x80) + 0x20 * partial
        v = K.sym(ctx, 'v%d' % i, 2)
        items.append([f, codes[i % len(codes)], 2] + v)
    body = K.mk(ctx, K.body([], items, [[24, 10, 0, 0]]))
    reset_state()
    m = Meter(cap=STEP_CAP, track='AttributeCollection.parse')
    try:
        with m:
            msg = Message.unpack(2, body, neg)
            n_ann = len(msg.data.announces)
    except Exception as e:
        ctx.check('valid-message-accepted', False, sig='C03:unusual:%d-unknown-attributes:refused-%s' % (k, type(e).__name__), info={'body': body})
        return ('refused', type(e).__name__)
    ctx.cover('decoded')
    ctx.check('valid-message-accepted', n_ann == 1, sig='C03:unusual:%d-unknown-attributes:route-lost' % k, info={'body': body})
    # the law the solver query of unusual/limit relies on: depth(k) = t0 + per*k, the two constants measured on the real
    # decoder with concrete contents (per = 1 while AttributeCollection.parse recurses once per attribute, 0 for a loop);
    # proved here for ALL contents of the k attributes
    per, t0, _ = depth_law(neg, transitive)
    ctx.check('depth-is-linear', m.tdepth == t0 + per * k, sig='C03:unusual:parse-depth-not-the-measured-law', info={'k': k, 'depth': m.tdepth, 'law': '%d + %d*k' % (t0, per)})
    return ('decoded', k, m.tdepth)


_LAW = {}


def depth_law(neg, transitive):
    """(frames of AttributeCollection.parse per unknown attribute, its depth at k = 0, exabgp frames that do not depend on k)"""
    key = (id(neg), transitive)
    if key not in _LAW:
        o1, t1, d1 = parse_depth(bytes(unusual_body(2, transitive)), neg)
        o2, t2, d2 = parse_depth(bytes(unusual_body(12, transitive)), neg)
        per = (t2 - t1) // 10
        _LAW[key] = (per, t2 - 12 * per, d2 - 12 * per)
    return _LAW[key]


def h_limit(ctx, msg_size, transitive):
    """z3 is asked for a number k of unknown optional attributes such that the UPDATE is legal for the session
    (19 + 4 + 14 + 3k + 4 <= msg_size) and the recursion of AttributeCollection.parse (measured: d0 + d1*k frames below
    the frames already on the stack) passes the interpreter's recursion limit.  unsat = the clause holds; a model is
    rebuilt as a real UPDATE and decoded for real (the replay decides)."""
    neg = session(extended=msg_size > 4096)
    import inspect
    # the law, measured on the real decoder at two sizes (and proved for symbolic contents by unusual/depth/*)
    per, _, base = depth_law(neg, transitive)
    fixed = 19 + len(unusual_body(0, transitive))
    here = len(inspect.stack(0))
    limit = sys.getrecursionlimit()
    k = ctx.int('k', 0, 65535)
    if ctx.sym:
        fits = fixed + 3 * k <= msg_size
        deep = here + base + per * k > limit + 50     # 50 frames of margin: the replay process has another stack below the harness
        ok = ctx.check('valid-unusual-message-decoded', s_implies(fits, s_not(deep)) if per else True,
                       sig='C03:unusual:unknown-optional-attributes:%s:RecursionError' % ('transitive' if transitive else 'non-transitive'),
                       info={'law': 'depth = %d + %d*k' % (base, per), 'stack': here, 'limit': limit, 'msg_size': msg_size})
        ctx.cover('asked')
        return ('asked', msg_size)
    # concrete: k comes from the model (or 0): decode the real message
    ctx.cover('asked')
    if fixed + 3 * k > msg_size:
        return ('asked', msg_size)
    body = bytes(unusual_body(k, transitive))
    out, t, d = parse_depth(body, neg)
    ctx.check('valid-unusual-message-decoded', out == 'decoded',
              sig='C03:unusual:unknown-optional-attributes:%s:%s' % ('transitive' if transitive else 'non-transitive', out),
              info={'k': k, 'message-length': 19 + len(body), 'msg_size': msg_size, 'outcome': out, 'parse-depth': t})
    return ('asked', msg_size)


def h_many(ctx, ks, transitive, msg_size=4096, one_code=False):
    """concrete sizes (k is the only variable): the largest UPDATEs the session allows decode, in linear work.
    one_code: the SAME unknown attribute k times in a row (RFC 7606 3.g: all but the first are discarded, the UPDATE goes on)"""
    neg = session(extended=msg_size > 4096)
    k = ctx.pick('k', ks)
    body = bytes(unusual_body(k, transitive, one_code=one_code))
    if 19 + len(body) > msg_size:
        ctx.assume(False)
    reset_state()
    m = Meter(cap=50_000_000)
    try:
        with m:
            msg = Message.unpack(2, body, neg)
            n_ann = len(msg.data.announces)
            force(msg, neg)
        out = 'decoded'
    except Exception as e:
        out = type(e).__name__
        n_ann = 0
    ctx.cover('ran')
    kind = 'transitive' if transitive else 'non-transitive'
    ctx.check('valid-unusual-message-decoded', out == 'decoded' and n_ann == 1, sig='C03:unusual:unknown-optional-attributes:%s:%s' % (kind, out),
              info={'k': k, 'message-length': 19 + len(body), 'outcome': out})
    limit = STEPS_PER_BYTE * len(body) + STEPS_BASE
    ctx.check('bounded-work', m.steps <= limit, sig='C03:unusual:work-not-linear', info={'k': k, 'steps': m.steps, 'limit': limit})
    return (k, out)


def h_long_paths(ctx):
    """valid-but-unusual: AS_PATHs around the 255-ASN limit of one segment (RFC 4271 4.3: the segment length is one octet), in
    one or two AS_SEQUENCE segments, with and without an AS4_PATH beside them, on a 2-octet and on a 4-octet AS session.
    On a 2-octet session with AS4_PATH the two are merged (RFC 6793 4.2.3) and the result is re-encoded: sizes are concrete,
    the ASNs are symbolic.  The UPDATE is valid: it decodes, and only Notify may ever escape."""
    asn4 = bool(ctx.choice('asn4-session', 2))
    total = ctx.pick('asns', (254, 255, 256, 300, 510))
    split = ctx.pick('segments', ('one', 'two'))
    with_as4 = bool(ctx.choice('as4-path', 2))
    if split == 'one' and total > 255:
        ctx.assume(False, 'one segment holds at most 255 ASNs')
    if asn4 and with_as4:
        ctx.assume(False, 'AS4_PATH is not sent on a 4-octet session')
    neg = session(asn4=asn4)
    width = 4 if asn4 else 2
    sizes = [total] if split == 'one' else [total - 56, 56] if total - 56 <= 255 else [255, total - 255]
    path = []
    first = ctx.bytes('asn0', width)
    for si, n in enumerate(sizes):
        path += [2, n]
        for i in range(n):
            path += list(first) if (si == 0 and i == 0) else list(((64512 + i) % 65000).to_bytes(width, 'big'))
    attrs = [[0x40, 1, 1, 0], [0x50, 2] + list(len(path).to_bytes(2, 'big')) + path, NEXT_HOP]
    if with_as4:
        attrs.append([0xC0, 17, 6, 2, 1] + list(ctx.bytes('as4', 4)))
        ctx.cover('merge')
    body = K.mk(ctx, K.body([], attrs, [[24, 10, 0, 0]]))
    reset_state()
    try:
        msg = Message.unpack(2, body, neg)
        n_ann = len(msg.data.announces)
        force(msg, neg)
        out = 'decoded'
    except Notify as n:
        out = 'notify-%d/%d' % (n.code, n.subcode)
        n_ann = 0
    except Exception as e:
        out = type(e).__name__
        n_ann = 0
    ctx.cover('ran')
    if total > 255:
        ctx.cover('more-than-255-asns')
    ctx.check('valid-unusual-message-decoded', out == 'decoded' and n_ann == 1, sig='C03:unusual:long-as-path:%s:%s' % ('merge' if with_as4 else 'plain', out),
              info={'asns': total, 'segments': sizes, 'as4-path': with_as4, 'asn4-session': asn4, 'outcome': out})
    return (total, split, with_as4, asn4, out)


# ---------------------------------------------------------------------------------------------------- units


def units(tier):
    th = tier == 'thorough'
    _TIER[0] = tier
    us = []
    T = 900 if th else 300
    top = {'open': (16, 20), 'update': (7, 9), 'notification': (5, 7), 'keepalive': (2, 3), 'route-refresh': (6, 8), 'operational': (10, 14), 'unregistered': (2, 3)}
    for tname in TYPES:
        n = top[tname][1 if th else 0]
        if tname == 'update':
            us.append(Unit('free/update/L0-4', lambda ctx: h_free(ctx, 'update', [0, 1, 2, 3, 4]), reset=reset_state, hash_const=True, max_seconds=T, must_cover=('decoded', 'refused')))
            for L in range(5, n + 1):
                us.append(Unit('free/update/L%d' % L, lambda ctx, L=L: h_free(ctx, 'update', [L]), reset=reset_state, hash_const=True, max_seconds=T,
                               max_paths=300000, weight=40 * L, must_cover=('decoded', 'refused')))
        else:
            cov = {'keepalive': ('decoded', 'refused'), 'notification': ('decoded',), 'unregistered': ('refused',)}.get(tname, ('decoded', 'refused'))
            us.append(Unit('free/%s' % tname, lambda ctx, t=tname, n=n: h_free(ctx, t, list(range(0, n + 1))), reset=reset_state, hash_const=True,
                           max_seconds=T, max_paths=300000, weight=30, must_cover=cov))
    for n in ((3, 4, 5, 6) if th else (3, 4)):
        us.append(Unit('free/update-attributes/n%d' % n, lambda ctx, n=n: h_free_attrs(ctx, [n]), reset=reset_state, hash_const=True, max_seconds=T,
                       max_paths=300000, weight=30 * n, must_cover=('decoded',)))
    groups = {}
    for plan in all_plans(tier):
        groups.setdefault(plan.group, []).append(plan)
    for g, plans in groups.items():
        cover = tuple('reached:' + p.name for p in plans) + tuple(sorted(set(c for p in plans for c in p.cover)))
        us.append(Unit('dec/' + g.replace(':', '/'), lambda ctx, plans=plans: h_group(ctx, plans, tier, T), reset=reset_state, hash_const=True,
                       max_seconds=T, max_paths=100000, weight=sum(p.weight for p in plans), must_cover=cover))
    for tname in ('open', 'update', 'notification', 'keepalive', 'route-refresh', 'operational'):
        n = min(top[tname][0], 5 if th else 4)
        us.append(Unit('proto/%s' % tname, lambda ctx, t=tname, n=n: h_proto(ctx, t, list(range(0, n + 1))), reset=reset_state, hash_const=True, max_seconds=T, weight=20))
    for tr in (False, True):
        kind = 'transitive' if tr else 'optional'
        for k in ((1, 3, 6) if not th else (1, 2, 3, 4, 5, 6, 8)):
            us.append(Unit('unusual/depth/%s/k%d' % (kind, k), lambda ctx, k=k, tr=tr: h_depth(ctx, k, tr), reset=reset_state, hash_const=True, must_cover=('decoded',), weight=5))
        for size in (4096, 65535):
            us.append(Unit('unusual/limit/%s/%d' % (kind, size), lambda ctx, size=size, tr=tr: h_limit(ctx, size, tr), reset=reset_state, must_cover=('asked',), weight=5))
        us.append(Unit('unusual/repeated/%s' % kind, lambda ctx, tr=tr: h_many(ctx, (2, 300, 1100, 1340), tr, one_code=True), reset=reset_state, must_cover=('ran',), weight=5))
        if kind == 'transitive':
            us.append(Unit('unusual/long-as-path', h_long_paths, reset=reset_state, hash_const=True, must_cover=('ran', 'merge', 'more-than-255-asns'), weight=20))
        us.append(Unit('unusual/many/%s' % kind, lambda ctx, tr=tr: h_many(ctx, (64, 200, 400) if not th else (64, 200, 400, 800, 1356), tr), reset=reset_state, must_cover=('ran',), weight=5))
    return us
