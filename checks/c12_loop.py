"""C12 loop/* — the real Peer._main loop (and _read_open) under the peer kit's virtual clock.

The kernel units prove the timer arithmetic for ALL instants and hold times; these units check the COMPOSITION: that the
real loop consults the timers on every iteration with the right inputs, whatever the peer does.  The remote speaker's
behaviour after the handshake is a solver-chosen sequence over
    keepalive | update | route-refresh | a BURST of UPDATEs 50 ms apart lasting longer than H/3 + 2 s |
    silence of H/3 + 0.5 s | silence just below H | silence of H + 1.3 s | end of file
(times are the kit's virtual clock: each choice is one concrete schedule; the universality over time is the kernel's).
Obligations per path, from the timestamps of what was written and delivered:
  cadence   while ESTABLISHED with H > 0, never more than floor(H/3) + G seconds between two KEEPALIVEs ExaBGP writes (nor from
            ESTABLISHED to the first, nor from the last to the end of the session), G = 1 s (whole-second timers) + 0.1 s
            (read timeout of the loop) + 0.05 s (message spacing) + 0.05 s; with H = 0 no KEEPALIVE after the handshake
  hold      NOTIFICATION 4/0 is written only when nothing was delivered for more than H seconds, and IS written (before
            H + 1 + G) whenever nothing is delivered for that long; any message kind re-arms the timer; never with H = 0
  open      a peer OPEN arriving after the configured open wait ends the attempt with 5/1; one arriving before does not
"""
from __future__ import annotations

import math

from sx.run import Unit
from kits import session as S
from kits import peer as P
from checks import c05 as C5

import exabgp.bgp.timer as tm
from exabgp.environment import getenv

SPACING = 0.05
G = 1.0 + 0.1 + SPACING + 0.05

KINDS = ('keepalive', 'update', 'refresh', 'burst', 'idle-third', 'idle-near', 'idle-over', 'eof')


def expand(kind, hold):
    """-> list of kit events; `hold` is the time base of the silences (the negotiated hold time, or with a negotiated 0 the
    larger of the two offers: a speaker that wrongly ran its timers would run them on that one)"""
    h3 = hold // 3
    if kind == 'keepalive':
        return [('msg', 4, b'', SPACING)]
    if kind == 'update':
        return [('msg', 2, C5.UPDATE_OK, SPACING)]
    if kind == 'refresh':
        return [('msg', 5, C5.REFRESH, SPACING)]
    if kind == 'burst':
        n = int(math.ceil((h3 + 2.5) / SPACING))
        return [('msg', 2, C5.UPDATE_OK, SPACING)] * n
    if kind == 'idle-third':
        return [('idle', h3 + 0.5)]
    if kind == 'idle-near':
        return [('idle', max(hold - 0.6, 0.4))]
    if kind == 'idle-over':
        return [('idle', hold + 1.3)]
    if kind == 'eof':
        return [('eof',)]
    raise AssertionError(kind)


def h_loop(ctx, hold, n_events, ours=None, theirs=None):
    """hold: the NEGOTIATED hold time (min of the two OPENs); ours/theirs: what each side offers (default: we offer `hold`,
    the peer offers max(hold, 9))"""
    tm.time = P.FakeTime
    ours = hold if ours is None else ours
    theirs = (hold if hold else 9) if theirs is None else theirs
    assert min(ours, theirs) == hold
    conf = S.mk_conf(local_as=C5.LOCAL_AS, peer_as=C5.PEER_AS, hold=ours, families=('ipv4 unicast',), route_refresh=True,
                     routes=('route 10.9.0.0/24 next-hop 192.0.2.9',))
    neighbor = S.neighbor_from(conf)
    neighbor.api = dict(neighbor.api)
    neighbor.reset_rib()
    queue = [('msg', 1, C5.open_body(hold=theirs)), ('msg', 4, b'')]
    kinds = []
    count = [0]

    def script():
        while not queue:
            i = count[0]
            count[0] += 1
            kind = 'eof' if i >= n_events else ctx.pick('ev%d' % i, KINDS)
            kinds.append(kind)
            queue.extend(expand(kind, hold or max(ours, theirs)))
        return queue.pop(0)

    peer = P.new_peer(neighbor, script)
    result = P.drive(peer._run(), max_steps=200000)
    return judge_loop(ctx, hold, kinds, result)


def judge_loop(ctx, hold, kinds, result, deliveries=None, last_octet=None):
    """deliveries: instants at which a COMPLETE message had arrived (default: what the message-level transport recorded);
    last_octet: instants at which any octet arrived (byte-level transport: a silence is also counted from the last octet)"""
    w = P.WORLD
    est = [t for t, fr, to in w.fsm_t if to == 'ESTABLISHED']
    info = {'hold': hold, 'events': kinds, 'result': result[0], 'notifications': P.notifications(),
            'fsm': ['%s>%s@%.2f' % (fr, to, t) for t, fr, to in w.fsm_t]}
    ctx.check('coroutine-finished', result[0] == 'done', sig='C12:loop:session-did-not-finish', info=info)
    ctx.check('established', bool(est), sig='C12:loop:harness:not-established', info=info)
    if not est:
        return ['not-established', kinds]
    t_est = est[0]
    ended = [t for t, fr, to in w.fsm_t if fr == 'ESTABLISHED' and to != 'ESTABLISHED']
    t_end = ended[0] if ended else w.now
    kas = [t for st, t, data in w.written if st == 'ESTABLISHED' and len(data) >= 19 and data[18] == 4 and t_est <= t <= t_end]
    notes = [(t, data[19], data[20]) for st, t, data in w.written if len(data) >= 21 and data[18] == 3]
    deliveries = [t for t, ty in w.delivered if t >= t_est - 1e-9] if deliveries is None else [t for t in deliveries if t >= t_est - 1e-9]
    info.update({'keepalives-at': ['%.2f' % (t - t_est) for t in kas], 'delivered-at': ['%.2f' % (t - t_est) for t in deliveries][:12] + (['...'] if len(deliveries) > 12 else []),
                 'session-length': '%.2f' % (t_end - t_est), 'notified': [('%.2f' % (t - t_est), c, sc) for t, c, sc in notes]})
    for k in kinds:
        ctx.cover('kind-' + k)

    # ---- cadence
    if hold == 0:
        ctx.check('no-periodic-keepalive-with-hold-0', not kas, sig='C12:loop:keepalive-sent-with-hold-time-0', info=info)
    else:
        limit = hold // 3 + G
        marks = [t_est] + kas + [t_end]
        worst = max(b - a for a, b in zip(marks, marks[1:]))
        if 'burst' in kinds:
            ctx.cover('burst-longer-than-keepalive-interval')
        ctx.check('keepalive-cadence', worst <= limit, sig='C12:loop:keepalive-gap-exceeds-a-third-of-the-hold-time' + (':during-inbound-burst' if 'burst' in kinds else ''),
                  info=dict(info, worst_gap='%.2f' % worst, allowed='%.2f' % limit))
        if kas:
            ctx.cover('keepalive-written')

    # ---- hold timer
    expired = [(t, c, sc) for t, c, sc in notes if (c, sc) == (4, 0)]
    if hold == 0:
        ctx.check('hold-timer-off-with-hold-0', not expired, sig='C12:loop:hold-timer-fired-with-hold-time-0', info=info)
    else:
        reads = [t_est] + deliveries
        if expired:
            ctx.cover('hold-timer-expired')
            t = expired[0][0]
            last = max(x for x in reads if x <= t + 1e-9)
            ctx.check('not-closed-for-a-short-silence', t - last > hold, sig='C12:loop:closed-after-a-silence-shorter-than-the-hold-time',
                      info=dict(info, silence='%.2f' % (t - last)))
        # every silence that long is answered
        if last_octet is not None:
            reads = sorted(set([t_est] + [t for t in last_octet if t >= t_est - 1e-9]))
        ends = reads[1:] + [t_end]
        for a, b in zip(reads, ends):
            if b - a >= hold + 1 + G:
                ctx.check('silence-ends-the-session', any(a < t <= a + hold + 1 + G for t, c, sc in expired), sig='C12:loop:silence-longer-than-the-hold-time-not-closed',
                          info=dict(info, silence_from='%.2f' % (a - t_est), silence='%.2f' % (b - a)))
        if 'idle-near' in kinds and not expired:
            ctx.cover('survived-a-silence-just-below-the-hold-time')
    return [kinds, len(kas), [(c, sc) for _, c, sc in notes]]


PARTIAL_KINDS = ('whole', 'split-short', 'split-third', 'split-silent', 'idle-third')


def h_partial(ctx, hold, n_events):
    """The same obligations over the BYTE-level transport (the real Connection.reader_async under the real Peer._main): a
    message may arrive in two pieces with a stall in between - shorter than the read poll, longer than H/3, or for ever.
    A half-received message is not a received message: KEEPALIVEs keep their cadence during the stall and the hold timer
    still closes the session with 4/0."""
    tm.time = P.FakeTime
    conf = S.mk_conf(local_as=C5.LOCAL_AS, peer_as=C5.PEER_AS, hold=hold, families=('ipv4 unicast',), route_refresh=True)
    neighbor = S.neighbor_from(conf)
    neighbor.api = dict(neighbor.api)
    neighbor.reset_rib()
    items = [('data', P.msg(1, C5.open_body(hold=hold)) + P.KEEPALIVE)]
    offset = len(items[0][1])
    bounds = []                 # stream offsets at which a message is complete
    kinds = []
    h3 = hold // 3
    for i in range(n_events):
        kind = ctx.pick('ev%d' % i, PARTIAL_KINDS)
        kinds.append(kind)
        ctx.cover('kind-' + kind)
        if kind == 'idle-third':
            items.append(('pause', h3 + 0.5))
            continue
        what = ctx.pick('ev%d.message' % i, ('keepalive', 'update'))
        m = P.KEEPALIVE if what == 'keepalive' else P.msg(2, C5.UPDATE_OK)
        if kind == 'whole':
            items.append(('data', m))
        else:
            cut = ctx.pick('ev%d.cut' % i, (1, 18) if what == 'keepalive' else (5, 19, len(m) - 1))
            stall = {'split-short': 0.35, 'split-third': h3 + 1.5, 'split-silent': hold + 3.5}[kind]
            items += [('data', m[:cut]), ('pause', stall), ('data', m[cut:])]
        offset += len(m)
        bounds.append(offset)
        items.append(('pause', 0.05))
        if kind == 'split-silent':
            break
    items += [('pause', hold + 3.5), ('eof',)]
    feeder = P.ByteFeeder(items)
    peer = P.new_peer(neighbor, feeder)
    result = P.drive(peer._run(), max_steps=200000)
    complete = []
    for b in bounds:
        at = [t for t, n in feeder.log if n >= b]
        if at:
            complete.append(at[0])
    return judge_loop(ctx, hold, kinds, result, deliveries=complete, last_octet=[t for t, n in feeder.log])


def h_second_session(ctx):
    """Two sessions of the SAME Peer object (what Peer.run() does after a loss) whose negotiated hold times differ: the
    timers of the second session run on the second negotiation.  The solver picks the order (short then long, long then
    short) and what the peer does in the second session (silence beyond the new hold time / messages spaced between the two
    hold times)."""
    tm.time = P.FakeTime
    order = ctx.pick('order', ('long-then-short', 'short-then-long'))
    h1, h2 = (30, 3) if order == 'long-then-short' else (3, 30)
    second = ctx.pick('second-session', ('silence', 'slow-keepalives'))
    conf = S.mk_conf(local_as=C5.LOCAL_AS, peer_as=C5.PEER_AS, hold=90, families=('ipv4 unicast',))
    neighbor = S.neighbor_from(conf)
    neighbor.api = dict(neighbor.api)
    neighbor.reset_rib()
    s1 = [('msg', 1, C5.open_body(hold=h1)), ('msg', 4, b''), ('msg', 4, b'', SPACING), ('eof',)]
    if second == 'silence':
        s2 = [('msg', 1, C5.open_body(hold=h2)), ('msg', 4, b''), ('idle', h2 + 1.3), ('eof',)]
    else:
        gap = (min(h1, h2) + max(h1, h2)) / 2.0     # longer than the short hold time, shorter than the long one
        s2 = [('msg', 1, C5.open_body(hold=h2)), ('msg', 4, b'')] + [('idle', gap), ('msg', 4, b'', SPACING)] * 2 + [('eof',)]
    queue = list(s1)
    sessions = [0]

    def script():
        if not queue:
            return ('eof',)
        return queue.pop(0)
    peer = P.new_peer(neighbor, script)
    r1 = P.drive(peer._run(), max_steps=200000)
    n1 = len(P.WORLD.written)
    t_split = P.WORLD.now
    queue.extend(s2)
    r2 = P.drive(peer._run(), max_steps=400000)
    w = P.WORLD
    est = [t for t, fr, to in w.fsm_t if to == 'ESTABLISHED']
    info = {'order': order, 'second-session': second, 'hold-1': h1, 'hold-2': h2, 'results': [r1[0], r2[0]],
            'fsm': ['%s>%s@%.2f' % (fr, to, t) for t, fr, to in w.fsm_t]}
    ctx.check('both-sessions-established', len(est) == 2, sig='C12:second-session:harness:not-two-sessions', info=info)
    if len(est) != 2:
        return ['harness', order, second]
    t2 = est[1]
    notes = [(t, data[19], data[20]) for st, t, data in w.written[n1:] if len(data) >= 21 and data[18] == 3]
    kas = [t for st, t, data in w.written[n1:] if st == 'ESTABLISHED' and len(data) >= 19 and data[18] == 4 and t >= t2]
    ended = [t for t, fr, to in w.fsm_t if fr == 'ESTABLISHED' and to != 'ESTABLISHED' and t > t2]
    t_end = ended[0] if ended else w.now
    expired = [(t, c, sc) for t, c, sc in notes if (c, sc) == (4, 0)]
    info.update({'notified': [('%.2f' % (t - t2), c, sc) for t, c, sc in notes], 'keepalives-at': ['%.2f' % (t - t2) for t in kas], 'session-2-length': '%.2f' % (t_end - t2)})
    ctx.cover('%s/%s' % (order, second))
    if second == 'silence':
        ctx.check('second-hold-time-in-force', any(t - t2 <= h2 + 1 + G + SPACING for t, c, sc in expired),
                  sig='C12:second-session:silence-longer-than-the-new-hold-time-not-closed', info=info)
    elif h2 > h1:
        ctx.check('second-hold-time-in-force', not expired, sig='C12:second-session:closed-after-a-silence-shorter-than-the-new-hold-time', info=info)
    else:
        ctx.check('second-hold-time-in-force', bool(expired), sig='C12:second-session:silence-longer-than-the-new-hold-time-not-closed', info=info)
    marks = [t2] + kas + [t_end]
    worst = max(b - a for a, b in zip(marks, marks[1:]))
    ctx.check('keepalive-cadence-of-the-second-negotiation', worst <= h2 // 3 + G, sig='C12:second-session:keepalive-gap-exceeds-a-third-of-the-new-hold-time',
              info=dict(info, worst_gap='%.2f' % worst, allowed='%.2f' % (h2 // 3 + G)))
    return [order, second, [(c, sc) for _, c, sc in notes]]


def h_open_wait(ctx, hold=9):
    tm.time = P.FakeTime
    wait = getenv().bgp.openwait
    conf = S.mk_conf(local_as=C5.LOCAL_AS, peer_as=C5.PEER_AS, hold=hold, families=('ipv4 unicast',))
    neighbor = S.neighbor_from(conf)
    neighbor.api = dict(neighbor.api)
    neighbor.reset_rib()
    when = ctx.pick('open-arrives', ('early', 'late'))
    queue = [('idle', wait - 1.5 if when == 'early' else wait + 1.5), ('msg', 1, C5.open_body(hold=hold)), ('msg', 4, b''), ('eof',)]

    def script():
        return queue.pop(0) if queue else ('eof',)
    peer = P.new_peer(neighbor, script)
    result = P.drive(peer._run(), max_steps=200000)
    w = P.WORLD
    notes = [(c, sc) for _, c, sc in P.notifications()]
    info = {'open-wait': wait, 'open-arrives': when, 'notifications': notes, 'fsm': ['%s>%s' % t for t in w.fsm], 'result': result[0]}
    ctx.cover('open-' + when)
    if when == 'late':
        ctx.check('late-open-ends-the-attempt', notes == [(5, 1)] and ('OPENCONFIRM', 'ESTABLISHED') not in w.fsm,
                  sig='C12:open-wait:late-open-not-answered-5/1', info=info)
    else:
        ctx.check('timely-open-accepted', ('OPENCONFIRM', 'ESTABLISHED') in w.fsm and (5, 1) not in notes,
                  sig='C12:open-wait:timely-open-refused', info=info)
    return [when, notes]


def units(tier):
    th = tier == 'thorough'
    us = []
    cov = ('keepalive-written', 'hold-timer-expired', 'burst-longer-than-keepalive-interval', 'survived-a-silence-just-below-the-hold-time') + tuple('kind-' + k for k in KINDS)
    for hold, n in (((3, 3), (9, 2)) if not th else ((3, 4), (9, 3), (30, 2))):
        us.append(Unit('loop/h%d-e%d' % (hold, n), lambda ctx, hold=hold, n=n: h_loop(ctx, hold, n), must_cover=cov, weight=100 * n, max_seconds=1200, max_paths=200000))
    us.append(Unit('loop/h0-e%d' % (3 if th else 2), lambda ctx: h_loop(ctx, 0, 3 if th else 2), must_cover=tuple('kind-' + k for k in KINDS), weight=60, max_seconds=900))
    # the peer offers hold time 0 while ours is not: the NEGOTIATED value is 0 (RFC 4271 4.2: the smaller of the two)
    us.append(Unit('loop/h0-peer-offers-0-e2', lambda ctx: h_loop(ctx, 0, 2, ours=180, theirs=0), must_cover=tuple('kind-' + k for k in KINDS), weight=60, max_seconds=900))
    us.append(Unit('loop/second-session', h_second_session, weight=40, max_seconds=600,
                   must_cover=('long-then-short/silence', 'long-then-short/slow-keepalives', 'short-then-long/silence', 'short-then-long/slow-keepalives')))
    us.append(Unit('loop/partial-message/h%d' % (9 if th else 3), lambda ctx: h_partial(ctx, 9 if th else 3, 2), weight=60, max_seconds=900,
                   must_cover=tuple('kind-' + k for k in PARTIAL_KINDS) + ('keepalive-written', 'hold-timer-expired')))
    us.append(Unit('loop/open-wait', h_open_wait, must_cover=('open-early', 'open-late'), weight=10))
    return us
