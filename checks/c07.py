"""C07 — negotiated session parameters are the RFC function of the two OPENs.

Units
  nego/caps/<conf>     OUR side: a real Neighbor parsed from a generated configuration (capability toggles, families,
                       add-path mode, local AS incl. 4-byte); PEER side structured-symbolic: a presence bit per capability
                       (fork), MP families a symbolic subset of the pool, ASN4 value / 2-byte AS field / hold time /
                       router-id / per-family ADD-PATH mode symbolic.  The peer OPEN is encoded by the kit encoder
                       (kits.session.peer_open_body), decoded by the REAL Open.unpack_message, negotiated by the REAL
                       Negotiated.sent()/received(); every Negotiated field must equal oracle.openmsg.negotiate, which
                       works from ITS OWN decoding of the two byte strings (ours: the real pack_message output).
  nego/refusal         the real Protocol.validate_open (Negotiated.validate) on fully symbolic fixed fields, one
                       configuration per fork (eBGP/iBGP, 2-byte/4-byte AS, ASN4 on/off): refused iff the
                       RFC 4271 6.2 / RFC 6286 table says so, and with that code/subcode.
  nego/layout/<conf>   order permutations, duplicated capabilities, one/many optional parameters, RFC 9072 extended
                       format for the PEER's OPEN, an unknown capability: the result does not change.
  roundtrip/all        our OPEN from each configuration: Message.unpack(OPEN, pack_message()[19:]) equals the original,
                       the bytes decode under the oracle to exactly what the configuration enables; the optional parameters
                       are swept across 255 bytes by the host name length (RFC 9072 on pack and unpack).
  raw/L<n>             the peer OPEN body as n free symbolic bytes through the real Open.unpack_message vs
                       oracle.decode_open: same accept/refuse class, same fields, only Notify escapes.
  capvalue/all         one capability (code and length concrete) with a free symbolic VALUE through each real
                       <Capability>.unpack_capability: the decoded object says what the oracle reads.
  requirepath/modes    RequirePath.setup with both send/receive modes symbolic (all 16 combinations proven at once).
  proto/read-open      Protocol.read_open: anything but an OPEN first is refused 5/1.

Signatures of the defects of the pinned tree (see known_findings.json / the fix commits):
  C07:nego:local-as-is-as-trans                         F9   local AS > 65535: Negotiated.local_as is AS_TRANS
  C07:*:peer-as-ignores-asn4-capability*                     the AS of the peer's ASN4 capability is used only when its field is AS_TRANS
  C07:refusal:router-id-collision-missed:4-byte-as-ibgp      iBGP test compares the 2-byte field with the configured local AS
  C07:raw:wrong-notification:want=2/4:got=2/0 (got=2/5)      unknown optional parameter answered with Unspecific / Authentication Failure
  C07:raw:rfc9072-non-ext-length-not-ignored                 extended format recognised only when Non-Ext OP Len is 255
"""
from __future__ import annotations

from sx.run import Unit
from sx.core import sx_eq, s_and, s_or, s_not, s_implies, s_ite, SBytes, SInt, SBool
from oracle import openmsg as O
from kits import session as K

import exabgp.bgp.message.open.capability.mp as mp_mod
import exabgp.bgp.message.open.capability.addpath as addpath_mod
import exabgp.bgp.message.open.capability.nexthop as nexthop_mod
import exabgp.bgp.message.open.capability.refresh as refresh_mod
import exabgp.reactor.protocol as proto_mod
from exabgp.bgp.message import Message, Notify, KeepAlive, Update, _NOP
from exabgp.bgp.message.open import Open, Version, RouterID, HoldTime
from exabgp.bgp.message.open.asn import ASN
from exabgp.bgp.message.open.capability import Capabilities
from exabgp.bgp.message.open.capability.addpath import AddPath
from exabgp.bgp.message.open.capability.negotiated import Negotiated, RequirePath
from exabgp.bgp.message.open.capability.refresh import REFRESH
from exabgp.bgp.message.direction import Direction
from exabgp.reactor.protocol import Protocol

ID = 'C07'
LEVEL = 'model_checking'
TECHNIQUE = ('symbolic execution of the real Open.unpack_message / Capabilities.unpack / Negotiated._negotiate / validate / '
             'RequirePath.setup on a peer OPEN whose values are z3 terms and whose structure is enumerated by forks, against an '
             'RFC oracle that decodes the same bytes itself; our side from real parsed configurations; per-path concrete replay')
ASSUMPTIONS = [
    'logging (log.debug/warning, lazymsg) has an empty body in the capability decoders and in reactor.protocol',
    'Protocol is built with object.__new__ (no Peer, no connection); its api dict disables the negotiated callback',
    'read_message is a stub returning a scripted message in proto/read-open',
    'the dotted-quad text of a symbolic router-id is kept invertible by the engine (sx.shims.sx_dotted): inet_pton of the text of four '
    'bytes gives those four bytes back for every value',
    'capability CODES, families and the TLV structure of the peer OPEN are concrete per path (enumerated by forks) in nego/*; they are '
    'symbolic only in raw/*',
]
BOUNDS = {
    'quick': {'nego/caps': '10 configurations x (2^3 MP subsets of a pool of 3 families x 2^5 capability presence bits x 4 next-hop sets), '
                           'all values symbolic (ASN4 32 bit, AS field 16 bit, hold time 16 bit, router-id 32 bit, ADD-PATH mode 0..3 per family)',
              'nego/refusal': '9 configurations (incl. our hold time 0 and 3), every fixed field symbolic (AS 16+32 bit, hold 16 bit, router-id 32 bit), ASN4 presence forked',
              'nego/layout': '2 configurations x 4 orders x 5 duplications x 4 layouts', 'roundtrip': '22 configurations + 255-byte sweep 250..260',
              'raw': 'OPEN bodies of 0..14 free symbolic bytes', 'capvalue': '8 capability codes x 2-5 value lengths, value bytes free',
              'requirepath': 'both modes symbolic 0..3'},
    'thorough': {'nego/caps': '28 configurations, pool of 4 families (2^4 MP subsets)', 'nego/refusal': '14 configurations',
                 'nego/layout': '4 configurations', 'raw': 'OPEN bodies of 0..15 free symbolic bytes', 'roundtrip': '45 configurations + sweep 240..270',
                 'capvalue': 'same', 'requirepath': 'same'},
}
OUTSIDE = [
    'graceful restart, multisession, operational, software-version, paths-limit, link-local next hop capabilities (not in the property text)',
    'a peer that announces no multiprotocol capability at all: the check demands the plain intersection (empty), the implicit '
    'IPv4-unicast of RFC 4271 is not modelled',
    'bytes after the declared optional parameters of an OPEN (RFC silent): either acceptance ignoring them or 2/0 is allowed',
    'capability values whose length is not the one their RFC defines (RFC silent on the reaction): acceptance or 2/0 allowed in raw/*',
    'ADD-PATH send/receive octets outside 0..3 and ASN4 capabilities of length 2',
    'host names longer than 64 octets (truncated by the encoder by design of the draft)',
    'extended next hop entries whose 2-octet NLRI SAFI has a non-zero high octet (ExaBGP reads the low octet only; no such SAFI exists)',
    'collision detection between two connections (RFC 4271 6.8) belongs to C10/C11',
]


class _Log:
    def __getattr__(self, name):
        return lambda *a, **k: None


for _m in (mp_mod, addpath_mod, nexthop_mod, refresh_mod, proto_mod):
    _m.log = _Log()
    if hasattr(_m, 'lazymsg'):
        _m.lazymsg = lambda *a, **k: None

REFRESH_NAME = {REFRESH.ABSENT: 'absent', REFRESH.NORMAL: 'normal', REFRESH.ENHANCED: 'enhanced'}
FC = K.FAMILY_CODE

# ------------------------------------------------------------------------------------------------ configurations


def conf(name, local_as=65000, peer_as=65001, asn4=True, families=('ipv4 unicast',), addpath=None, ap_fams=(), extmsg=False,
         nexthop=(), rr=False, hold=180, host=None, domain=None, rid='1.2.3.4'):
    return dict(name=name, local_as=local_as, peer_as=peer_as, asn4=asn4, families=tuple(families), addpath=addpath, ap_fams=tuple(ap_fams),
                extmsg=extmsg, nexthop=tuple(nexthop), rr=rr, hold=hold, host=host, domain=domain, rid=rid)


def conf_text(c):
    extra = ''
    if c['host'] is not None:
        extra += '    host-name %s;\n' % c['host']
    if c['domain'] is not None:
        extra += '    domain-name %s;\n' % c['domain']
    if c['nexthop']:
        extra += '    nexthop {\n%s    }\n' % ''.join('        %s ipv6;\n' % f for f in c['nexthop'])
    return K.mk_conf(local_as=c['local_as'], peer_as=c['peer_as'], families=c['families'], asn4=c['asn4'], addpath=c['addpath'],
                     addpath_families=c['ap_fams'], extended_message=c['extmsg'], nexthop=bool(c['nexthop']), hold=c['hold'],
                     router_id=c['rid'], route_refresh=c['rr'], extra=extra)


F4, F6, V4, M4, V6 = 'ipv4 unicast', 'ipv6 unicast', 'ipv4 mpls-vpn', 'ipv4 multicast', 'ipv6 mpls-vpn'

CAPS_QUICK = [
    conf('plain'),
    conf('as4', local_as=70000, peer_as=80000, families=(F4, F6)),
    conf('no-asn4', asn4=False, families=(F4, F6), rr=True),
    conf('ap-send', families=(F4, F6), addpath='send', ap_fams=(F4, F6)),
    conf('ap-recv', families=(F4, F6, V4), addpath='receive', ap_fams=(F4,), extmsg=True),
    conf('ap-both', families=(F4, F6, V4), addpath='send/receive', ap_fams=(F4, F6, V4), rr=True, hold=30),
    conf('extmsg-rr', families=(F6,), extmsg=True, rr=True, hold=3),
    conf('nexthop', families=(F4, F6, V4, V6), nexthop=(F4, V4), extmsg=True, hold=65535),
    conf('as4-full', local_as=70000, peer_as=65001, families=(F4, F6, V4), addpath='send/receive', ap_fams=(F4, V4), extmsg=True,
         nexthop=(F4,), rr=True, hold=90),
    conf('hold0', families=(F4,), hold=0, rr=True, addpath='send', ap_fams=(F4,)),
]
CAPS_THOROUGH = CAPS_QUICK + [
    conf('t-as4-no-asn4', local_as=70000, peer_as=80000, asn4=False, families=(F4,)),
    conf('t-ap-send-1', families=(F4,), addpath='send', ap_fams=(F4,)),
    conf('t-ap-recv-3', families=(F4, F6, V4), addpath='receive', ap_fams=(F4, F6, V4)),
    conf('t-ap-both-2', families=(F4, F6), addpath='send/receive', ap_fams=(F4, F6), extmsg=True),
    conf('t-ap-outside-family', families=(F4,), addpath='receive', ap_fams=(F6,)),
    conf('t-ap-default-families', families=(F4, F6), addpath='send/receive'),
    conf('t-mcast', families=(F4, M4, F6), nexthop=(M4, F4), rr=True),
    conf('t-nh-3', families=(F4, V4, M4, V6), nexthop=(F4, V4, M4), extmsg=True),
    conf('t-v4only', families=(V4,), addpath='send', ap_fams=(V4,)),
    conf('t-all', families=(F4, F6, V4, M4, V6), addpath='send/receive', ap_fams=(F4, F6, V4), extmsg=True, nexthop=(F4, V4, M4), rr=True),
    conf('t-none', families=(F4, F6, V4, M4), asn4=False),
    conf('t-as4-ibgp', local_as=70000, peer_as=70000, families=(F4, F6), rr=True),
    conf('t-ibgp', local_as=65000, peer_as=65000, families=(F4, F6), extmsg=True),
    conf('t-as-trans-peer', local_as=65000, peer_as=23456, families=(F4,)),
    conf('t-hold-min', hold=3, families=(F4, F6), addpath='receive', ap_fams=(F6,)),
    conf('t-hold-max', hold=65535, families=(F6,), extmsg=True),
    conf('t-as4-big', local_as=4294967295, peer_as=4200000000, families=(F4,), extmsg=True, rr=True),
    conf('t-as4-ap', local_as=70000, peer_as=80000, families=(F4, F6), addpath='send', ap_fams=(F6,), nexthop=(F4,)),
]
REFUSAL_QUICK = [
    conf('ebgp'),
    conf('ibgp', local_as=65000, peer_as=65000),
    conf('as4-ebgp', local_as=70000, peer_as=80000),
    conf('as4-ibgp', local_as=70000, peer_as=70000),
    conf('as4-peer', local_as=65000, peer_as=80000),
    conf('no-asn4-ibgp', local_as=65000, peer_as=65000, asn4=False),
    conf('as-trans-peer', local_as=65000, peer_as=23456),
    # our own hold time is a dimension too: the acceptance test is on the RECEIVED value (RFC 4271 6.2), not on the minimum
    conf('hold0-ebgp', hold=0),
    conf('hold3-ibgp', local_as=65000, peer_as=65000, hold=3),
]
REFUSAL_THOROUGH = REFUSAL_QUICK + [
    conf('t-no-asn4-ebgp', asn4=False),
    conf('t-as4-local', local_as=70000, peer_as=65001),
    conf('t-as4-no-asn4', local_as=70000, peer_as=65001, asn4=False),
    conf('t-rid-high', local_as=65000, peer_as=65000, rid='255.255.255.255'),
    conf('t-as4-ibgp-big', local_as=4294967295, peer_as=4294967295),
]

def rid_bytes(text):
    return bytes(int(x) for x in text.split('.'))


# ------------------------------------------------------------------------------------------------ shared steps


def real_session(neighbor, direction=Direction.IN):
    """Our side through the real flow: Negotiated, our OPEN from Capabilities().new(neighbor), its wire form."""
    neg = Negotiated.make_negotiated(neighbor, direction)
    ours = K.our_open(neighbor)
    neg.sent(ours)
    wire = ours.pack_message(neg)
    return neg, ours, wire


def oracle_open(ctx, body, what):
    r = O.decode_open(body, bool)
    ok = r[0] == 'open'
    ctx.check('oracle-decodes-%s' % what, ok, sig='C07:harness:oracle-refuses-%s-open' % what, info={'oracle': r if not ok else None})
    return r[1] if ok else None


def decode_peer(ctx, body, neg):
    """The real decoder on the peer OPEN; only Notify may escape."""
    try:
        return Open.unpack_message(body, neg), None
    except Notify as exc:
        return None, (exc.code, exc.subcode)


def negotiated_fields(neg, pool):
    """What is in force, read from the real Negotiated object (never written)."""
    return {
        'families': sorted((int(a), int(s)) for a, s in neg.families),
        'asn4': neg.asn4,
        'peer_as': neg.peer_as,
        'local_as': neg.local_as,
        'addpath_send': {f: neg.addpath.send(f[0], f[1]) for f in pool},
        'addpath_receive': {f: neg.addpath.receive(f[0], f[1]) for f in pool},
        'msg_size': neg.msg_size,
        'holdtime': neg.holdtime,
        'refresh': REFRESH_NAME.get(neg.refresh, 'unknown-%s' % neg.refresh),
        'nexthop': sorted((int(a), int(s), int(n)) for a, s, n in neg.nexthop),
    }


def compare_negotiated(ctx, got, want, c, pool):
    ctx.check('families', got['families'] == want['families'], sig='C07:nego:families', info={'got': got['families'], 'want': want['families']})
    ctx.check('asn4', sx_eq(bool(got['asn4']) if not isinstance(got['asn4'], SBool) else got['asn4'], want['asn4']), sig='C07:nego:asn4',
              info={'got': got['asn4'], 'want': want['asn4']})
    # RFC 6793 4.1: the peer's AS number comes from the capability between two NEW speakers.  Two obligations so that a
    # mismatch that needs a peer whose 2-byte field contradicts its own capability has its own signature.
    fields_agree = want.get('peer_fields_agree', True)
    ok_peer = sx_eq(got['peer_as'], want['peer_as'])
    ctx.check('peer-as', s_implies(fields_agree, ok_peer), sig='C07:nego:peer-as', info={'got': got['peer_as'], 'want': want['peer_as']})
    ctx.check('peer-as-from-capability', s_implies(s_not(fields_agree), ok_peer), sig='C07:nego:peer-as-ignores-asn4-capability',
              info={'got': got['peer_as'], 'want': want['peer_as'], 'rfc': 'RFC 6793 4.1 MUST use the AS number of the capability'})
    la = got['local_as']
    trans = c['local_as'] > 65535 and not isinstance(la, (SInt, SBool)) and int(la) == O.AS_TRANS
    if c['local_as'] > 65535 and not c['asn4']:
        # RFC 6793 4.1: a speaker whose AS number needs four octets MUST advertise the capability.  `asn4 disable` with such
        # a local AS is not a configuration the RFC gives a meaning to (the speaker can only ever present AS_TRANS): what
        # Negotiated.local_as holds then is outside the claim; every other field is still judged.
        ctx.cover('four-octet-local-as-without-the-capability')
    else:
        ctx.check('local-as', sx_eq(la, want['local_as']), sig='C07:nego:local-as-is-as-trans' if trans else 'C07:nego:local-as',
                  info={'got': la, 'want': want['local_as']})
    for f in pool:
        ctx.check('addpath-send', sx_eq(got['addpath_send'][f], want['addpath_send'].get(f, False)), sig='C07:nego:addpath-send',
                  info={'family': f, 'got': got['addpath_send'][f], 'want': want['addpath_send'].get(f, False)})
        ctx.check('addpath-receive', sx_eq(got['addpath_receive'][f], want['addpath_receive'].get(f, False)), sig='C07:nego:addpath-receive',
                  info={'family': f, 'got': got['addpath_receive'][f], 'want': want['addpath_receive'].get(f, False)})
    ctx.check('msg-size', sx_eq(got['msg_size'], want['msg_size']), sig='C07:nego:msg-size', info={'got': got['msg_size'], 'want': want['msg_size']})
    ctx.check('holdtime', sx_eq(got['holdtime'], want['holdtime']), sig='C07:nego:holdtime', info={'got': got['holdtime'], 'want': want['holdtime']})
    ctx.check('refresh', got['refresh'] == want['refresh'], sig='C07:nego:refresh', info={'got': got['refresh'], 'want': want['refresh']})
    ctx.check('nexthop', got['nexthop'] == want['nexthop'], sig='C07:nego:nexthop', info={'got': got['nexthop'], 'want': want['nexthop']})


def fields_agree(asn4_present, asn4_value, as2):
    """The peer's two AS fields tell the same story (RFC 6793 4.1: the field holds the AS number if it fits, else AS_TRANS)."""
    if not asn4_present:
        return True
    return s_or(s_and(asn4_value <= 65535, as2 == asn4_value), s_and(asn4_value > 65535, as2 == O.AS_TRANS))


def summary(got):
    return {'families': got['families'], 'asn4': got['asn4'], 'peer_as': got['peer_as'], 'local_as': got['local_as'],
            'send': {'%d/%d' % f: v for f, v in sorted(got['addpath_send'].items())},
            'receive': {'%d/%d' % f: v for f, v in sorted(got['addpath_receive'].items())},
            'msg_size': got['msg_size'], 'holdtime': got['holdtime'], 'refresh': got['refresh'], 'nexthop': got['nexthop']}


# ------------------------------------------------------------------------------------------------ nego/caps


NH_SETS = [(), ((1, 1, 2),), ((1, 1, 2), (1, 128, 2)), ((1, 128, 2), (1, 2, 2), (2, 1, 1))]


def h_caps(ctx, c, pool_names):
    neighbor = K.neighbor_from(conf_text(c))
    pool = [FC[f] for f in pool_names]
    # ---- peer structure (forks)
    fams = [FC[f] for f in pool_names if ctx.bool('mp:' + f)]
    has_asn4 = bool(ctx.bool('cap:asn4'))
    has_ap = bool(ctx.bool('cap:add-path'))
    has_ext = bool(ctx.bool('cap:extended-message'))
    has_rr = bool(ctx.bool('cap:route-refresh'))
    has_err = bool(ctx.bool('cap:enhanced-route-refresh'))
    nh = ctx.pick('cap:nexthop', NH_SETS)
    # ---- peer values (symbolic)
    asn4_value = ctx.int('peer.asn4', 0, 4294967295)
    as2 = ctx.int('peer.as2', 0, 65535)
    hold = ctx.int('peer.hold', 0, 65535)
    rid = ctx.bytes('peer.rid', 4)
    ap = None
    if has_ap:
        ap = {f: ctx.int('peer.add-path:%d/%d' % f, 0, 3) for f in pool if f[1] in (1, 128)}
    body = K.peer_open_body(asn=asn4_value, as_field=as2, hold=hold, router_id=rid, families=fams, asn4=has_asn4, addpath=ap,
                            extended_message=has_ext, nexthop=nh, route_refresh=has_rr, enhanced_refresh=has_err)
    # ---- the real flow
    neg, ours, wire = real_session(neighbor)
    theirs, refused = decode_peer(ctx, body, neg)
    ctx.check('well-formed-open-decoded', refused is None, sig='C07:nego:well-formed-open-refused', info={'notify': refused})
    if refused is not None:
        return ('refused', refused)
    neg.received(theirs)
    got = negotiated_fields(neg, pool)
    # ---- the oracle, from the two byte strings
    o_ours = oracle_open(ctx, wire[19:], 'our')
    o_theirs = oracle_open(ctx, body, 'peer')
    if o_ours is None or o_theirs is None:
        return 'oracle-refused'
    want = O.negotiate(o_ours, o_theirs, c['local_as'], bool, s_ite)
    want['peer_fields_agree'] = fields_agree(has_asn4 and c['asn4'], asn4_value, as2)
    compare_negotiated(ctx, got, want, c, pool)
    # ---- reachability of the interesting classes
    if want['asn4']:
        ctx.cover('asn4-both')
    elif has_asn4 or c['asn4']:
        ctx.cover('asn4-one-side')
    else:
        ctx.cover('asn4-neither')
    if want['families'] and (len(want['families']) < len(fams) or len(want['families']) < len(c['families'])):
        ctx.cover('families-strict-subset')
    if not want['families']:
        ctx.cover('families-empty')
    if want['families']:
        ctx.cover('families-common')
    if has_ap and c['addpath']:
        ctx.cover('addpath-both-announce')
    if want['msg_size'] == 65535:
        ctx.cover('msg-size-65535')
    else:
        ctx.cover('msg-size-4096')
    ctx.cover('refresh-' + want['refresh'])
    if want['nexthop']:
        ctx.cover('nexthop-common')
    ctx.note('class', 'asn4=%s fam=%d refresh=%s size=%d nh=%d' % (want['asn4'], len(want['families']), want['refresh'], want['msg_size'], len(want['nexthop'])))
    return summary(got)


EARLIER_OPENS = (  # capability TLVs of an OPEN decoded EARLIER in the process (another neighbor, or the previous session of this one)
    ('rr-then-cisco-rr', K.cap(2) + K.cap(128)), ('cisco-rr-only', K.cap(128)), ('cisco-rr-then-rr', K.cap(128) + K.cap(2)),
    ('multisession-cisco', K.cap(0x83, b'\x01')), ('multisession-then-cisco', K.cap(0x44, b'\x01') + K.cap(0x83, b'\x01')),
    ('unknown-code', K.cap(200, b'\x01\x02')), ('enhanced-rr-and-cisco', K.cap(70) + K.cap(128)), ('none', b''),
)


def h_second_session(ctx, confs):
    """Two sessions in one process.  An OPEN with pre-standard / vendor capability codes is decoded first (what the
    previous connection, or another neighbor, received); then the session under test runs.  The OPEN we send on it is,
    octet for octet, the OPEN the same configuration produced before anything was decoded, and the parameters in force
    are the RFC function of the two OPENs of THIS session."""
    c = confs[ctx.choice('conf', len(confs))]
    neighbor = K.neighbor_from(conf_text(c))
    pool = [FC[f] for f in c['families']]
    neg0, ours0, wire0 = real_session(neighbor)
    name, tail = EARLIER_OPENS[ctx.choice('earlier', len(EARLIER_OPENS))]
    early = K.peer_open_body(asn=c['peer_as'], families=pool[:1], asn4=True, extra_caps=tail)
    first, refused = decode_peer(ctx, early, neg0)
    if refused is None:
        neg0.received(first)
        ctx.cover('earlier-open-decoded')
    ctx.cover('earlier:' + name)
    # ---- the session under test
    neg, ours, wire = real_session(neighbor)
    r = O.decode_open(wire[19:], bool)
    if r[0] == 'open':
        # absolute, not relative to the first OPEN of the path: what earlier PATHS left in the process must not hide it
        wantc = sorted((code, canonical(code, v)) for code, v in expected_capabilities(c))
        gotc = sorted((code, canonical(code, bytes(v))) for code, v in r[1]['caps'])
        ctx.check('advertises-exactly-the-configuration', gotc == wantc, sig='C07:second-session:capabilities-not-configured',
                  info={'decoded-before': name, 'got': [(k, v.hex()) for k, v in gotc], 'want': [(k, v.hex()) for k, v in wantc]})
    has_rr = bool(ctx.bool('cap:route-refresh'))
    has_err = bool(ctx.bool('cap:enhanced-route-refresh'))
    hold = ctx.int('peer.hold', 0, 65535)
    body = K.peer_open_body(asn=c['peer_as'], hold=hold, families=pool, asn4=True, route_refresh=has_rr, enhanced_refresh=has_err)
    theirs, refused = decode_peer(ctx, body, neg)
    if refused is not None:
        ctx.cover('refused')
        return ('refused', refused)
    neg.received(theirs)
    got = negotiated_fields(neg, pool)
    o_ours = oracle_open(ctx, wire[19:], 'our')
    o_theirs = oracle_open(ctx, body, 'peer')
    if o_ours is None or o_theirs is None:
        return 'oracle-refused'
    want = O.negotiate(o_ours, o_theirs, c['local_as'], bool, s_ite)
    want['peer_fields_agree'] = True
    compare_negotiated(ctx, got, want, c, pool)
    ctx.cover('refresh-' + want['refresh'])
    return (name, summary(got))


def h_multisession(ctx):
    """A neighbor configured with `multi-session enable` and a peer OPEN which carries the multi-session capability with or
    without the capabilities its session id is made of (RFC draft: the list names capability codes).  Whatever the peer
    sends, the negotiation ends with parameters or with an OPEN error (2/x) - never with another exception."""
    neighbor = K.neighbor_from(K.mk_conf(families=('ipv4 unicast',), multisession=True))
    neg, ours, wire = real_session(neighbor)
    ms = ctx.pick('peer-multisession', ('absent', 'empty', 'lists-mp', 'cisco'))
    with_mp = bool(ctx.choice('peer-multiprotocol', 2))
    extra = {'absent': b'', 'empty': K.cap(0x44, b''), 'lists-mp': K.cap(0x44, b'\x01'), 'cisco': K.cap(0x83, b'\x01')}[ms]
    body = K.peer_open_body(families=((1, 1),) if with_mp else (), asn4=True, extra_caps=extra)
    theirs, refused = decode_peer(ctx, body, neg)
    if refused is not None:
        ctx.cover('refused')
        ctx.check('open-error', refused[0] == 2, sig='C07:multisession:refused-with-%d/%d' % refused, info={'peer': ms, 'mp': with_mp})
        return ('refused', refused)
    try:
        neg.received(theirs)
        verdict = neg.validate(neighbor)
    except Notify as n:
        verdict = (int(n.code), int(n.subcode), str(n))
    except Exception as exc:   # noqa: BLE001
        ctx.check('only-notify-escapes-the-negotiation', False, sig='C07:multisession:negotiation-raises-%s' % type(exc).__name__,
                  info={'peer-multisession': ms, 'peer-multiprotocol': with_mp, 'raised': '%s: %s' % (type(exc).__name__, exc)})
        return ('raises', type(exc).__name__)
    ctx.cover('negotiated' if verdict is None else 'open-refused')
    if verdict is not None:
        ctx.check('open-error', verdict[0] == 2, sig='C07:multisession:refused-with-%d/%d' % (verdict[0], verdict[1]), info={'peer': ms, 'mp': with_mp})
    if not with_mp and ms != 'absent':
        ctx.cover('multisession-without-multiprotocol')
    return (ms, with_mp, None if verdict is None else verdict[:2])


def caps_covers(c):
    tags = ['families-common', 'families-empty', 'msg-size-4096', 'refresh-absent']
    tags += ['asn4-both', 'asn4-one-side'] if c['asn4'] else ['asn4-one-side', 'asn4-neither']
    if len(c['families']) > 0:
        tags.append('families-strict-subset')
    if c['addpath']:
        tags.append('addpath-both-announce')
    if c['extmsg']:
        tags.append('msg-size-65535')
    if c['rr']:
        tags += ['refresh-normal', 'refresh-enhanced']
    if c['nexthop']:
        tags.append('nexthop-common')
    return tuple(tags)


# ------------------------------------------------------------------------------------------------ nego/refusal


def mk_protocol(neighbor, neg):
    p = object.__new__(Protocol)
    peer = type('P', (), {})()
    peer.neighbor = neighbor
    p.peer = peer
    p.neighbor = neighbor
    p.negotiated = neg
    p.connection = None
    return p


def h_refusal(ctx, confs):
    c = ctx.pick('conf', confs)
    cname = c['name'] + ':'
    neighbor = K.neighbor_from(conf_text(c))
    has_asn4 = bool(ctx.bool('cap:asn4'))
    asn4_value = ctx.int('peer.asn4', 0, 4294967295)
    as2 = ctx.int('peer.as2', 0, 65535)
    hold = ctx.int('peer.hold', 0, 65535)
    rid = ctx.bytes('peer.rid', 4)
    body = K.peer_open_body(asn=asn4_value, as_field=as2, hold=hold, router_id=rid, families=[FC[f] for f in c['families']], asn4=has_asn4)
    neg, ours, wire = real_session(neighbor)
    theirs, refused = decode_peer(ctx, body, neg)
    ctx.check('well-formed-open-decoded', refused is None, sig='C07:refusal:well-formed-open-refused-by-decoder', info={'notify': refused})
    if refused is not None:
        return ('refused-by-decoder', refused)
    neg.received(theirs)
    saved_api = neighbor.api
    neighbor.api = {'negotiated': False}
    try:
        mk_protocol(neighbor, neg).validate_open()
        got = None
    except Notify as exc:
        got = (exc.code, exc.subcode)
        text = bytes(exc.data).decode('ascii', 'replace')
    finally:
        neighbor.api = saved_api
    # ---- oracle
    o_ours = oracle_open(ctx, wire[19:], 'our')
    o_theirs = oracle_open(ctx, body, 'peer')
    if o_ours is None or o_theirs is None:
        return 'oracle-refused'
    want = O.negotiate(o_ours, o_theirs, c['local_as'], bool, s_ite)
    table = O.refusal(o_theirs, want['peer_as'], c['local_as'], c['peer_as'], rid_bytes(c['rid']))
    agree = fields_agree(has_asn4 and c['asn4'], asn4_value, as2)
    # (A) a peer whose 2-byte field contradicts its own capability and (B) a 2-byte field that is not the peer's AS number
    # (AS_TRANS) get their own signatures: each obligation is split by an implication, never by a value
    field_is_peer_as = sx_eq(as2, want['peer_as'])
    if got is None:
        ctx.cover(cname + 'accepted')
        # accepted => no fault of the table is present (one obligation per fault so that each has its signature)
        ctx.check('no-bad-peer-as-accepted', s_implies(agree, s_not(table[(2, 2)])), sig='C07:refusal:bad-peer-as-accepted')
        ctx.check('consistent-peer-only', s_implies(s_not(agree), s_not(s_or(table[(2, 2)], table['identifier-collision']))),
                  sig='C07:refusal:peer-as-ignores-asn4-capability:accepted',
                  info={'rfc': 'RFC 6793 4.1: the AS number of the capability is the peer AS; here it is not the configured peer-as, or it is ours '
                               'and the identifier collides'})
        ctx.check('no-zero-identifier-accepted', s_not(table['zero-identifier']), sig='C07:refusal:zero-bgp-identifier-accepted')
        ctx.check('no-identifier-collision-accepted', s_implies(s_and(agree, field_is_peer_as), s_not(table['identifier-collision'])),
                  sig='C07:refusal:router-id-collision-missed')
        ctx.check('no-identifier-collision-accepted-as-trans', s_implies(s_and(agree, s_not(field_is_peer_as)), s_not(table['identifier-collision'])),
                  sig='C07:refusal:router-id-collision-missed:4-byte-as-ibgp',
                  info={'rfc': 'RFC 6286 2.2: same identifier as ours and the peer is in our AS (its AS number is in the capability, the field is AS_TRANS)',
                        'local_as': c['local_as']})
        ctx.check('no-bad-hold-time-accepted', s_not(table[(2, 6)]), sig='C07:refusal:hold-time-1-or-2-accepted')
        return (c['name'], 'accepted')
    ctx.cover(cname + 'refused-%d-%d' % got)
    if got == (2, 3):
        ctx.cover(cname + ('refused-2-3-collision' if text.startswith('BGP Identifier collision') else 'refused-2-3-zero'))
    cond = table.get(got, False)
    ctx.check('refusal-justified', s_implies(agree, cond), sig='C07:refusal:unjustified:%d/%d' % got, info={'got': got})
    ctx.check('refusal-justified-capability', s_implies(s_not(agree), cond), sig='C07:refusal:peer-as-ignores-asn4-capability:refused',
              info={'got': got, 'rfc': 'RFC 6793 4.1: the AS number of the capability is the peer AS'})
    return (c['name'], 'refused', got)


def refusal_covers(confs):
    tags = []
    for c in confs:
        tags += [c['name'] + ':' + t for t in ('accepted', 'refused-2-2', 'refused-2-3', 'refused-2-3-zero', 'refused-2-6')]
        if c['local_as'] == c['peer_as'] and c['local_as'] <= 65535:
            tags.append(c['name'] + ':refused-2-3-collision')
    return tuple(tags)


# ------------------------------------------------------------------------------------------------ nego/layout


ORDERS = ['default', 'reversed', 'rotated', 'asn4-last']
DUPS = ['none', 'mp', 'asn4', 'add-path', 'all']
LAYOUTS = ['per-cap', 'single', 'extended', 'extended-single']


def h_layout(ctx, c):
    neighbor = K.neighbor_from(conf_text(c))
    pool = [FC[F4], FC[F6]]
    asn4_value = ctx.int('peer.asn4', 0, 4294967295)
    as2 = ctx.int('peer.as2', 0, 65535)
    hold = ctx.int('peer.hold', 0, 65535)
    rid = ctx.bytes('peer.rid', 4)
    ap = {f: ctx.int('peer.add-path:%d/%d' % f, 0, 3) for f in pool}
    unknown = [200, 2, ctx.byte('peer.unknown0'), ctx.byte('peer.unknown1')]  # a capability nobody knows (RFC 5492 3: ignored)
    order = ctx.pick('order', ORDERS)
    dup = ctx.pick('dup', DUPS)
    layout = ctx.pick('layout', LAYOUTS)
    # default order: MP ipv4, MP ipv6, ASN4, ADD-PATH, EXT-MSG, RR, ERR, unknown  (indices 0..7)
    n = 8
    perm = {'default': list(range(n)), 'reversed': list(range(n - 1, -1, -1)), 'rotated': list(range(3, n)) + [0, 1, 2],
            'asn4-last': [0, 1, 3, 4, 5, 6, 7, 2]}[order]
    dups = {'none': [], 'mp': [0], 'asn4': [2], 'add-path': [3], 'all': [0, 1, 2, 3, 4, 5, 6]}[dup]
    body = K.peer_open_body(asn=asn4_value, as_field=as2, hold=hold, router_id=rid, families=pool, asn4=True, addpath=ap, extended_message=True,
                            route_refresh=True, enhanced_refresh=True, extra_caps=unknown, order=perm, duplicate=dups, layout=layout)
    neg, ours, wire = real_session(neighbor)
    theirs, refused = decode_peer(ctx, body, neg)
    ctx.check('well-formed-open-decoded', refused is None, sig='C07:layout:well-formed-open-refused:%s' % layout, info={'notify': refused, 'order': order, 'dup': dup})
    if refused is not None:
        return ('refused', refused)
    neg.received(theirs)
    got = negotiated_fields(neg, pool)
    o_ours = oracle_open(ctx, wire[19:], 'our')
    o_theirs = oracle_open(ctx, body, 'peer')
    if o_ours is None or o_theirs is None:
        return 'oracle-refused'
    ctx.check('oracle-sees-extended-format', o_theirs['extended'] == layout.startswith('extended'), sig='C07:harness:layout')
    want = O.negotiate(o_ours, o_theirs, c['local_as'], bool, s_ite)
    want['peer_fields_agree'] = fields_agree(c['asn4'], asn4_value, as2)
    compare_negotiated(ctx, got, want, c, pool)
    ctx.cover('layout-' + layout)
    ctx.cover('dup-' + dup)
    ctx.cover('order-' + order)
    return summary(got)


# ------------------------------------------------------------------------------------------------ roundtrip


def expected_capabilities(c):
    """(code, value) pairs the configuration enables, written from the RFC formats (sorted)."""
    out = []
    for f in c['families']:
        a, s = FC[f]
        out.append((O.CAP_MP, bytes([a >> 8, a & 255, 0, s])))
    if c['asn4']:
        out.append((O.CAP_ASN4, c['local_as'].to_bytes(4, 'big')))
    if c['addpath']:
        mode = {'receive': 1, 'send': 2, 'send/receive': 3}[c['addpath']]
        fams = [f for f in (c['ap_fams'] or c['families']) if f in c['families']]
        v = b''
        for f in sorted(fams, key=lambda f: FC[f]):
            a, s = FC[f]
            v += bytes([a >> 8, a & 255, s, mode])
        out.append((O.CAP_ADDPATH, v))
    if c['extmsg']:
        out.append((O.CAP_EXT_MESSAGE, b''))
    if c['nexthop']:
        # configuration semantics (configuration/neighbor _post_capa_nexthop): "ipv4 <safi> ipv6" is enabled when both
        # ipv4 <safi> and ipv6 <safi> are configured families
        v = b''
        for f in sorted(c['nexthop'], key=lambda f: FC[f]):
            a, s = FC[f]
            if f in c['families'] and f.replace('ipv4', 'ipv6') in c['families']:
                v += bytes([a >> 8, a & 255, 0, s, 0, 2])
        out.append((O.CAP_EXT_NEXTHOP, v))
    if c['rr']:
        out.append((O.CAP_ROUTE_REFRESH, b''))
        out.append((O.CAP_ENHANCED_REFRESH, b''))
    if c['host']:
        h = c['host'].encode()
        d = (c['domain'] or '').encode()
        out.append((73, bytes([len(h)]) + h + bytes([len(d)]) + d))  # draft-walton-bgp-hostname-capability
    return sorted(out)


def caps_bytes(capabilities):
    """What a Capabilities object says on the wire: (code, values) for every capability that encodes to something
    (HostName('', '') is a dict entry that encodes to nothing)."""
    out = []
    for k, v in capabilities.items():
        values = [bytes(x) for x in v.extract_capability_bytes()]
        if values:
            out.append((int(k), type(v).__name__, values))
    return sorted(out)


def canonical(code, value):
    """ADD-PATH and extended next hop values are sets of fixed-size entries: their order carries no meaning."""
    size = {O.CAP_ADDPATH: 4, O.CAP_EXT_NEXTHOP: 6}.get(code)
    if size and len(value) % size == 0:
        return b''.join(sorted(value[i:i + size] for i in range(0, len(value), size)))
    return value


def roundtrip_one(ctx, c):
    neighbor = K.neighbor_from(conf_text(c))
    neg, ours, wire = real_session(neighbor, Direction.OUT)
    name = c['name']
    # ---- header
    ctx.check('header', wire[:16] == b'\xff' * 16 and wire[16] * 256 + wire[17] == len(wire) and wire[18] == 1, sig='C07:roundtrip:header')
    # ---- decode(encode(x)) == x through the real decoder
    try:
        back = Message.unpack(Message.CODE.OPEN, wire[19:], neg)
        err = None
    except Exception as exc:
        back = None
        err = '%s: %s' % (type(exc).__name__, exc)
    ctx.check('own-open-decodes', back is not None, sig='C07:roundtrip:own-open-refused', info={'conf': name, 'error': err})
    if back is not None:
        same_fixed = (int(back.version), int(back.asn), int(back.hold_time), back.router_id.pack_ip()) == (
            int(ours.version), int(ours.asn), int(ours.hold_time), ours.router_id.pack_ip())
        ctx.check('fixed-fields-survive', same_fixed, sig='C07:roundtrip:fixed-fields', info={'conf': name})
        ctx.check('capabilities-survive', caps_bytes(back.capabilities) == caps_bytes(ours.capabilities), sig='C07:roundtrip:capabilities',
                  info={'conf': name, 'sent': str(ours.capabilities), 'back': str(back.capabilities)})
        ctx.check('re-encode-identical', back.pack_message(neg) == wire, sig='C07:roundtrip:re-encode', info={'conf': name})
    # ---- the bytes say exactly what the configuration enables (oracle decoding)
    r = O.decode_open(wire[19:], bool)
    ctx.check('oracle-accepts-own-open', r[0] == 'open', sig='C07:roundtrip:oracle-refuses-own-open', info={'conf': name, 'oracle': r if r[0] != 'open' else None})
    if r[0] != 'open':
        return 'oracle-refused'
    d = r[1]
    as2 = c['local_as'] if c['local_as'] <= 65535 else O.AS_TRANS
    ctx.check('fixed-fields-configured', (d['version'], d['as2'], d['hold'], bytes(d['rid'])) == (4, as2, c['hold'], rid_bytes(c['rid'])),
              sig='C07:roundtrip:fixed-fields-not-configured', info={'conf': name, 'got': [d['version'], d['as2'], d['hold'], d['rid']]})
    want = sorted((code, canonical(code, v)) for code, v in expected_capabilities(c))
    gotc = sorted((code, canonical(code, bytes(v))) for code, v in d['caps'])
    ctx.check('advertises-exactly-the-configuration', gotc == want, sig='C07:roundtrip:capabilities-not-configured',
              info={'conf': name, 'got': [(k, v.hex()) for k, v in gotc], 'want': [(k, v.hex()) for k, v in want]})
    ctx.check('nothing-after-parameters', d['trailing'] == 0 and not d['odd'], sig='C07:roundtrip:trailing', info={'conf': name})
    plen = sum(2 + 2 + len(v) for _, v in want)  # one optional parameter per capability, RFC 4271 format
    if plen > 255:
        ctx.cover('params>255')
        ctx.check('extended-format-when-needed', d['extended'], sig='C07:roundtrip:rfc9072-not-used', info={'conf': name, 'params': plen})
    elif plen == 255:
        ctx.cover('params=255')
    else:
        ctx.cover('params<255')
        # RFC 9072 2: SHOULD use the RFC 4271 encoding when it fits (recorded, a SHOULD)
        ctx.note('extended-below-255', bool(d['extended']))
    return (name, plen, bool(d['extended']), len(want))


def roundtrip_confs(tier):
    thorough = tier == 'thorough'
    out = {}
    out['caps'] = list(CAPS_THOROUGH if thorough else CAPS_QUICK)
    out['refusal'] = list(REFUSAL_THOROUGH if thorough else REFUSAL_QUICK)
    names = [F4, M4, 'ipv4 nlri-mpls', V4, F6, 'ipv6 nlri-mpls', 'ipv6 mpls-vpn', 'ipv4 flow', 'ipv6 flow', 'l2vpn vpls', 'l2vpn evpn']
    apf = (F4, F6, 'ipv4 nlri-mpls', 'ipv6 nlri-mpls', V4, 'ipv6 mpls-vpn')
    big = dict(families=names, addpath='send/receive', ap_fams=apf, extmsg=True, nexthop=(F4, M4, 'ipv4 nlri-mpls', V4), rr=True)
    host = [conf('host', host='router-1', domain='example.org'), conf('host-only', host='r1'), conf('host-64', host='h' * 64, domain='d' * 64),
            conf('big', host='h' * 64, domain='d' * 64, **big), conf('big-as4', local_as=4200000001, peer_as=4200000002, host='edge', domain='lab', **big)]
    out['hostname'] = host
    # sweep of the optional parameters length across 255 by the host name length
    base = sum(4 + len(v) for _, v in expected_capabilities(conf('x', host='', **big)))  # without the hostname capability
    sweep = []
    lo, hi = (240, 270) if thorough else (250, 260)
    for total in range(lo, hi + 1):
        hl = total - base - 4 - 2 - 40
        if 1 <= hl <= 64:
            sweep.append(conf('sweep-%d' % total, host='h' * hl, domain='d' * 40, **big))
    out['sweep'] = sweep
    return out


def h_roundtrip(ctx, groups):
    g = ctx.pick('group', sorted(groups))
    c = ctx.pick('conf', groups[g])
    ctx.cover('group-' + g)
    return roundtrip_one(ctx, c)


# ------------------------------------------------------------------------------------------------ raw


# capabilities ExaBGP decodes that are defined outside the RFCs of this property (RFC 4724, drafts, private use)
OTHER_CAPABILITIES = (64, 67, 68, 71, 72, 73, 74, 75, 76, 77, 128, 131, 185)


def h_raw(ctx, lengths):
    n = lengths[0] if len(lengths) == 1 else ctx.pick('n', lengths)
    neighbor = K.neighbor_from(conf_text(CAPS_QUICK[0]))
    body = ctx.bytes('o', n)
    neg, ours, wire = real_session(neighbor)
    try:
        opened = Open.unpack_message(body, neg)
        got = ('open',)
    except Notify as exc:
        opened = None
        got = ('err', exc.code, exc.subcode)
    want = O.decode_open(body, bool)
    if want[0] == 'err':
        allowed = want[1]
        tag = 'err-' + '+'.join('%d/%d' % x for x in allowed)
        ctx.cover(tag)
        ctx.note('class', tag)
        gs = '%d/%d' % got[1:] if got[0] == 'err' else 'accepted'
        ctx.check('refused-with-rfc-code', got[0] == 'err' and tuple(got[1:]) in allowed,
                  sig='C07:raw:wrong-notification:want=%s:got=%s' % ('|'.join('%d/%d' % x for x in allowed), gs), info={'got': got, 'allowed': allowed})
        return tag
    d = want[1]
    if d['trailing']:
        ctx.cover('trailing-bytes')
    if d['odd']:
        ctx.cover('odd-capability-length')
    if got[0] == 'err':
        # RFC silent: bytes after the declared parameters, a capability value of an unexpected length, or a capability
        # defined outside the RFCs of this property (ExaBGP decodes its value) may be refused as malformed
        lenient = d['trailing'] > 0 or bool(d['odd'])
        if not lenient:
            lenient = any(ctx.concretize(code) in OTHER_CAPABILITIES for code, _ in d['caps'])
        ok = lenient and tuple(got[1:]) == (2, 0)
        info = {'got': got, 'extended': d['extended'], 'caps': len(d['caps'])}
        if d['extended']:
            # RFC 9072 2: the one octet length "MUST be ignored on receipt" once the type octet says 255
            ctx.check('valid-extended-open-accepted', s_implies(body[9] == 255, ok), sig='C07:raw:valid-open-refused:%d/%d:rfc9072' % got[1:], info=info)
            ctx.check('non-ext-length-ignored', s_implies(body[9] != 255, ok), sig='C07:raw:rfc9072-non-ext-length-not-ignored', info=info)
        else:
            ctx.check('valid-open-accepted', ok, sig='C07:raw:valid-open-refused:%d/%d' % got[1:], info=info)
        ctx.note('class', 'refused-lenient' if ok else 'valid-open-refused')
        return 'refused-lenient' if ok else 'valid-open-refused'
    ctx.cover('open')
    if d['extended']:
        ctx.cover('open-extended')
    if d['caps']:
        ctx.cover('open-with-capability')
    ctx.note('class', 'open caps=%d ext=%s' % (len(d['caps']), d['extended']))
    ctx.check('version', sx_eq(opened.version, d['version']), sig='C07:raw:version')
    ctx.check('as', sx_eq(opened.asn, d['as2']), sig='C07:raw:as')
    ctx.check('hold-time', sx_eq(opened.hold_time, d['hold']), sig='C07:raw:hold-time')
    ctx.check('router-id', sx_eq(SBytes.of(opened.router_id.pack_ip()) if ctx.sym else bytes(opened.router_id.pack_ip()), d['rid']), sig='C07:raw:router-id')
    codes = sorted(int(k) for k in opened.capabilities)  # concrete after the decoder stored them
    wcodes = []
    for code, _ in d['caps']:
        code = ctx.concretize(code)
        if code not in wcodes:
            wcodes.append(code)
    ctx.check('capability-codes', codes == sorted(wcodes), sig='C07:raw:capability-codes', info={'got': codes, 'want': sorted(wcodes)})
    return ('open', len(d['caps']))


# ------------------------------------------------------------------------------------------------ capvalue


CAPVALUE = {  # code -> (name, value lengths explored)
    O.CAP_MP: ('multiprotocol', (0, 3, 4, 5)),
    O.CAP_ROUTE_REFRESH: ('route-refresh', (0, 1)),
    O.CAP_EXT_NEXTHOP: ('extended-nexthop', (0, 5, 6)),
    O.CAP_EXT_MESSAGE: ('extended-message', (0, 1)),
    O.CAP_ASN4: ('asn4', (0, 2, 3, 4, 5)),
    O.CAP_ADDPATH: ('add-path', (0, 3, 4, 8)),
    O.CAP_ENHANCED_REFRESH: ('enhanced-route-refresh', (0, 1)),
    200: ('unknown-200', (0, 1, 4)),
}


def h_capvalue(ctx):
    code = ctx.pick('code', sorted(CAPVALUE))
    return capvalue_one(ctx, code)


def capvalue_one(ctx, code):
    """One capability of the peer with a free symbolic VALUE (code and length concrete) through the real
    Capabilities.unpack / <Capability>.unpack_capability; the decoded object must say what the oracle reads."""
    neighbor = K.neighbor_from(conf_text(CAPS_QUICK[0]))
    n = ctx.pick('len', CAPVALUE[code][1])
    value = ctx.bytes('v', n)
    items = list(value)
    if code == O.CAP_ADDPATH:
        # the AFI/SAFI of an ADD-PATH entry key a dict (hash): concrete families, free send/receive octet
        for i, fam in zip(range(0, n - 3, 4), [(1, 1), (2, 1)]):
            items[i:i + 3] = [0, fam[0], fam[1]]
    if code == O.CAP_EXT_NEXTHOP and n >= 4:
        ctx.assume(items[2] == 0, 'extended next hop capability: the high octet of the 2-octet NLRI SAFI is 0 (every SAFI fits one octet)')
    body = K.peer_open_body(families=(), asn4=False, extra_caps=[code, n] + items)
    neg, ours, wire = real_session(neighbor)
    opened, refused = decode_peer(ctx, body, neg)
    want = O.decode_open(body, bool)
    ctx.check('oracle-accepts-structure', want[0] == 'open' and len(want[1]['caps']) == 1, sig='C07:harness:capvalue-structure')
    d = want[1]
    odd = bool(d['odd'])
    cname = CAPVALUE[code][0] + ':'
    if refused is not None:
        ctx.cover(cname + 'refused')
        ctx.check('refused-only-when-malformed', odd and refused == (2, 0), sig='C07:capvalue:%s:valid-value-refused:len=%d' % (CAPVALUE[code][0], n),
                  info={'notify': refused})
        return (code, 'refused', n, refused)
    ctx.cover(cname + 'accepted')
    if odd:
        ctx.cover(cname + 'accepted-odd-length')
        return (code, 'accepted-odd', n)
    v = O.view(d)
    cap = opened.capabilities.get(code)
    ctx.check('capability-stored', cap is not None and [int(k) for k in opened.capabilities] == [code], sig='C07:capvalue:%s:not-stored' % CAPVALUE[code][0])
    if cap is None:
        return (code, 'missing', n)
    name = CAPVALUE[code][0]
    if code == O.CAP_MP:
        ctx.check('value', sx_eq([tuple(f) for f in cap], v['families']), sig='C07:capvalue:%s:value' % name)
    elif code == O.CAP_ASN4:
        ctx.check('value', sx_eq(cap, v['asn4']), sig='C07:capvalue:%s:value' % name)
    elif code == O.CAP_ADDPATH:
        gotd = {(int(a), int(s)): m for (a, s), m in cap.items()}
        ctx.check('value', sx_eq(gotd, v['addpath']), sig='C07:capvalue:%s:value' % name, info={'got': gotd, 'want': v['addpath']})
    elif code == O.CAP_EXT_NEXTHOP:
        ctx.check('value', sx_eq([tuple(x) for x in cap], v['nexthop']), sig='C07:capvalue:%s:value' % name)
    return (code, 'accepted', n)


# ------------------------------------------------------------------------------------------------ requirepath


def mk_open(caps):
    return Open.make_open(Version(4), ASN(65000), HoldTime(180), RouterID('1.1.1.1'), caps)


def h_requirepath(ctx):
    fam, other, third = (1, 1), (2, 1), (1, 128)
    mo = ctx.int('ours', 0, 3)
    mt = ctx.int('theirs', 0, 3)
    m3 = ctx.int('ours-only', 0, 3)
    m4 = ctx.int('theirs-only', 0, 3)
    sent, recv = Capabilities(), Capabilities()
    from exabgp.protocol.family import AFI, SAFI
    a_s = AddPath()
    a_s.add_path(AFI.ipv4, SAFI.unicast, mo)
    a_s.add_path(AFI.ipv6, SAFI.unicast, m3)
    a_r = AddPath()
    a_r.add_path(AFI.ipv4, SAFI.unicast, mt)
    a_r.add_path(AFI.ipv4, SAFI.mpls_vpn, m4)
    sent[69] = a_s
    recv[69] = a_r
    rp = RequirePath()
    rp.setup(mk_open(recv), mk_open(sent))
    ctx.check('send', sx_eq(rp.send(*fam), O.can_send(mo) & O.can_receive(mt)), sig='C07:requirepath:send')
    ctx.check('receive', sx_eq(rp.receive(*fam), O.can_receive(mo) & O.can_send(mt)), sig='C07:requirepath:receive')
    for f in (other, third):
        ctx.check('one-sided-never-send', sx_eq(rp.send(*f), False), sig='C07:requirepath:one-sided-send')
        ctx.check('one-sided-never-receive', sx_eq(rp.receive(*f), False), sig='C07:requirepath:one-sided-receive')
    ctx.check('unlisted-family', rp.send(25, 70) is False and rp.receive(25, 70) is False, sig='C07:requirepath:unlisted')
    # without the capability on one side nothing is in force
    rp2 = RequirePath()
    rp2.setup(mk_open(Capabilities()), mk_open(sent))
    ctx.check('peer-without-capability', sx_eq(rp2.send(*fam), False) and sx_eq(rp2.receive(*fam), False), sig='C07:requirepath:peer-without-capability')
    a, b = ctx.concretize(mo), ctx.concretize(mt)
    ctx.cover('ours=%d,theirs=%d' % (a, b))
    return (a, b, rp.send(*fam), rp.receive(*fam))


# ------------------------------------------------------------------------------------------------ proto/read-open


def h_read_open(ctx):
    neighbor = K.neighbor_from(conf_text(CAPS_QUICK[0]))
    neg, ours, wire = real_session(neighbor)
    p = mk_protocol(neighbor, neg)
    p.connection = type('C', (), {'session': staticmethod(lambda: 's')})()
    peer_open = Open.unpack_message(K.peer_open_body(), neg)
    kinds = ['open', 'nop-open', 'keepalive', 'update', 'notification-like']
    kind = ctx.pick('first', kinds)
    script = {'open': [peer_open], 'nop-open': [_NOP, _NOP, peer_open], 'keepalive': [KeepAlive()], 'update': [Update(b'')],
              'notification-like': [_NOP, KeepAlive()]}[kind]
    it = iter(script)

    async def read_message():
        return next(it)

    p.read_message = read_message
    coro = p.read_open('127.0.0.2')
    try:
        coro.send(None)
        got = 'suspended'
    except StopIteration as e:
        got = 'open' if e.value is peer_open else 'other'
    except Notify as exc:
        got = (exc.code, exc.subcode)
    if kind in ('open', 'nop-open'):
        ctx.cover('open-first')
        ctx.check('open-returned', got == 'open', sig='C07:read-open:open-not-returned', info={'got': got})
    else:
        ctx.cover('not-open-first')
        ctx.check('fsm-error', got == (5, 1), sig='C07:read-open:want=5/1', info={'got': got, 'rfc': 'RFC 6608 3: unexpected message in OpenSent'})
    return (kind, got)


# ------------------------------------------------------------------------------------------------ units


def guarded(kind, fn):
    """Nothing but Notify may escape the code under test: any other exception is a violation with its own signature
    (the runner by itself records an escaping exception as an outcome, not as a failure)."""
    def run(ctx):
        try:
            return fn(ctx)
        except Exception as exc:
            import traceback
            where = [f for f in traceback.extract_tb(exc.__traceback__) if '/src/exabgp/' in f.filename]
            site = '%s:%s' % (where[-1].filename.split('/src/exabgp/')[-1], where[-1].name) if where else 'harness'
            ctx.check('only-notify-escapes', False, sig='C07:%s:exception:%s:%s' % (kind, type(exc).__name__, site), info={'error': str(exc)[:200]})
            return ('exception', type(exc).__name__)
    return run


def units(tier):
    """Few, larger units: every unit is a fresh process that installs the import hook (seconds).  The cheap units carry
    the HIGHER weights on purpose: the runner starts units by decreasing weight, and started first they spread over all
    workers instead of being eaten one after the other by the first idle worker at the end of the run."""
    thorough = tier == 'thorough'
    us = []
    pool = (F4, F6, V4, M4) if thorough else (F4, F6, V4)
    for c in (CAPS_THOROUGH if thorough else CAPS_QUICK):
        us.append(Unit('nego/caps/' + c['name'], lambda ctx, c=c: h_caps(ctx, c, pool), must_cover=caps_covers(c), max_paths=60000,
                       max_seconds=900 if thorough else 160, weight=1))
    rconfs = REFUSAL_THOROUGH if thorough else REFUSAL_QUICK
    second = [CAPS_QUICK[5], CAPS_QUICK[6], CAPS_QUICK[0]]
    us.append(Unit('nego/second-session', lambda ctx: h_second_session(ctx, second), weight=20,
                   must_cover=tuple('earlier:' + n for n, _ in EARLIER_OPENS) + ('earlier-open-decoded', 'refresh-normal', 'refresh-enhanced', 'refresh-absent')))
    us.append(Unit('nego/multisession', h_multisession, must_cover=('multisession-without-multiprotocol', 'open-refused'), weight=10))
    us.append(Unit('nego/refusal', lambda ctx: h_refusal(ctx, rconfs), must_cover=refusal_covers(rconfs), weight=20))
    for c in ([CAPS_QUICK[0], CAPS_QUICK[1], CAPS_QUICK[5], CAPS_QUICK[2]] if thorough else [CAPS_QUICK[5], CAPS_QUICK[1]]):
        us.append(Unit('nego/layout/' + c['name'], lambda ctx, c=c: h_layout(ctx, c),
                       must_cover=tuple('layout-' + x for x in LAYOUTS) + tuple('dup-' + x for x in DUPS) + tuple('order-' + x for x in ORDERS), weight=10))
    groups = roundtrip_confs(tier)
    us.append(Unit('roundtrip/all', lambda ctx: h_roundtrip(ctx, groups),
                   must_cover=('params<255', 'params=255', 'params>255') + tuple('group-' + g for g in groups), weight=20))
    us.append(Unit('raw/L00-12', lambda ctx: h_raw(ctx, list(range(0, 13))),
                   must_cover=('err-1/2', 'err-2/1', 'err-2/0', 'err-2/4', 'open', 'trailing-bytes'), weight=20))
    for n in ((13, 14, 15) if thorough else (13, 14)):
        us.append(Unit('raw/L%02d' % n, lambda ctx, n=n: h_raw(ctx, [n]), must_cover=('err-2/1', 'err-2/0', 'err-2/4', 'open', 'open-extended') + (
            ('open-with-capability',) if n >= 14 else ()), max_paths=60000, max_seconds=1000 if thorough else 160, weight=5 if n < 15 else 2))
    cv = []
    for code, (name, lens) in CAPVALUE.items():
        cv.append(name + ':accepted')
        if code in (O.CAP_MP, O.CAP_ASN4, O.CAP_ADDPATH, O.CAP_EXT_NEXTHOP):
            cv.append(name + ':refused')
    us.append(Unit('capvalue/all', h_capvalue, must_cover=tuple(cv), weight=10))
    us.append(Unit('requirepath/modes', h_requirepath, must_cover=tuple('ours=%d,theirs=%d' % (a, b) for a in range(4) for b in range(4)), weight=20))
    us.append(Unit('proto/read-open', h_read_open, must_cover=('open-first', 'not-open-first'), weight=20))
    for u in us:
        u.fn = guarded(u.name.split('/')[0], u.fn)
    return us
