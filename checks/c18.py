"""C18 — route text is accepted if and only if it can be sent.

THE MECHANISM — numeral tokens.  Keywords, brackets, separators, names and IP literals are concrete text; every NUMERAL of a
definition is an unconstrained z3 integer (all of Z: negative, 0, beyond 2^64) carried by `sx.snum.STok`, a str-like token
meaning "the canonical decimal rendering of this integer" (composite words such as 65000:100, 1.2.3.4:5, =80, >1024&<2048,
0.0.0.0/24 hold several pieces).  The words are produced by the REAL lexer (configuration.core.format.tokens) from the
definition's text with one placeholder per numeral-bearing word, then handed to the REAL Parser / Configuration.parse_section /
Section.parse / static.route() / flow / l2vpn value parsers — the body of Configuration.partial(), which is what
API.api_route / api_flow / api_vpls and Configuration.parse_route_text run.  Every `if` the parsers, the attribute / NLRI
factories and struct.pack make on a numeral is a solver branch, so each path stands for ALL integers satisfying its
comparisons.  Per path z3 decides:

  refused  (Section.parse converted a ValueError into an error, partial() returned False)
           -> no value the RFC range table below allows is on this path                        C18:<kw>:rfc-value-refused
  raised   (anything else escaped partial())                                                    C18:<kw>:unhandled:<Type>
  accepted -> API-level validation, then UpdateCollection([...]).messages(negotiated) on a session obtained through the
           real OPEN exchange (iBGP/eBGP x peer 4-octet-AS on/off x ADD-PATH on/off) must not raise
                                                                                C18:<kw>:accepted-but-encode-raises:<Type>
           and the RFC reference decoder (oracle/update.py, oracle/flowspec.py + the small RFC decoders below) reads back
           THE SAME INTEGER the token stands for, for every value on the path      C18:<kw>:accepted-and-wrapped (or :<field>)

The concrete run of the same harness (replay of every path's model and of every counterexample, in a clean interpreter)
renders the numerals as ordinary digits and goes through the real text entry point Configuration.partial(section, text):
the accept/refuse/raise outcome and the integers on the wire must be identical, else the unit is an engine divergence.
Because the harness forks on value == RFC maximum / maximum + 1 / minimum / minimum - 1, those replays hit both sides of every
range boundary.  Two more obligations exist only in the concrete run (witnesses, one per path): the same text sent through the
real API handler (announce_route / announce_flow / announce_vpls on a stand-in reactor) is answered by exactly one
done / error reply, and the same text inside a configuration file is accepted, or refused with the line it stands on.
"""
from __future__ import annotations

import struct

from sx.run import Unit
from sx import core
from sx.core import sx_eq, s_and, s_or, s_not, s_ite, SInt, SBytes
from sx import snum
from oracle import update as O
from oracle import flowspec as F
from kits import session as K

import exabgp.configuration.configuration as cfgm
from exabgp.configuration.configuration import Configuration
from exabgp.configuration.core.format import tokens as lexer
from exabgp.bgp.message.update.collection import UpdateCollection, RoutedNLRI, validate_announce_nlri
import exabgp.bgp.message.update.collection as ucm
import exabgp.configuration.flow.parser as flowparser
from exabgp.protocol.resource import Resource
import exabgp.protocol.ip.netmask  # noqa: F401  (Resource subclasses must exist before the registries are wrapped)
import exabgp.protocol.ip.port  # noqa: F401
import exabgp.protocol.ip.icmp  # noqa: F401
import exabgp.protocol.ip.fragment  # noqa: F401
import exabgp.protocol.ip.tcp.flag  # noqa: F401
import exabgp.protocol  # noqa: F401

ID = 'C18'
LEVEL = 'model_checking'
TECHNIQUE = ('symbolic execution of the real configuration/API route parsers (Parser, Configuration.parse_section, Section.parse, '
             'static.route/attributes, static.parser.*, static.mpls.*, flow.parser.*, l2vpn.parser.*), attribute/NLRI factories and '
             'UpdateCollection.messages on numeral tokens: every numeral of the text is an unbounded z3 integer, every comparison a '
             'solver branch; accepted routes are emitted on sessions from the real OPEN exchange and read back by RFC reference decoders, '
             'z3 proving wire integer == written integer per path; every path and counterexample replayed as real text through '
             'Configuration.partial, the API handlers and a configuration file; the same keywords also through the `announce ipv4 <safi>` entry '
             '(Configuration.partial("ipv4", ...): RouteBuilderValidator and the schema validators)')
ASSUMPTIONS = [
    'numerals are canonical decimal renderings (what str(int) prints: optional "-", no leading zeros, no "+", "_" or blanks); the rest of '
    'the text (keywords, brackets, separators, names, IP literals, the structure of composite words) is concrete',
    'the symbolic run enters at the word lists the real lexer produced (placeholders replaced by numeral tokens) and executes '
    'Configuration._cleanup/_clear, Parser._set/__call__, parse_section, dispatch, _run/_enter, Section.parse, the value parsers; '
    'of Configuration.partial only the log line that joins the words is skipped (Parser.params returns "" — log text only); the concrete '
    'run calls Configuration.partial itself',
    'Resource registries (port / protocol / icmp / tcp-flag / fragment / netmask names) are wrapped in sx.snum.TokDict so that a lookup '
    'with a numeral token compares against every name instead of hashing the sampled text (same result as dict lookup)',
    'sessions: local AS 65000, peer AS 65000 (iBGP) or 65001 (eBGP), one family per case, capabilities as picked; Negotiated comes from '
    'kits.session (real OPEN exchange), nothing overridden',
    'RFC 4271 5.1.5: LOCAL_PREF given for an eBGP session is expected to be absent on the wire; ExaBGP sends a written as-path verbatim',
    'logging (log.*, lazymsg) has an empty body',
    'watchdog (both runs): Tokeniser._get is wrapped; more than 5000 consecutive reads of a used-up tokeniser (it answers "" for ever) are reported as '
    'C18:<kw>:does-not-return instead of hanging the check; a SIGALRM backstop (150 s symbolic, 60 s concrete, also around the API and file witnesses) covers any other loop',
    'a concrete sample (units lexical/*) counts as "a definition the RFCs allow" only when it is marked accept in SAMPLES; samples marked refuse / unmarked are '
    'only required to be answered (accept or refuse, no exception, no hang) and, if accepted, to encode and read back',
    'RFC range table: AS numbers 1..2^32-1 for as-path / aggregator (RFC 7607: AS 0 is not allowed there), VPLS label block base + size <= 2^20 - 1',
    'witness obligations (API reply, configuration file) are evaluated on one model per path, not for all values',
]
BOUNDS = {
    'quick': {'numerals': 'every integer (unbounded) for each numeral of one keyword at a time, other words fixed',
              'keywords': 'see KEYWORDS (units); lists: as-path 1-3 ASNs and the bare form, label 1-2, community 1 (pair and 32-bit form), '
                          'flow operators =, >&<, [ = = ]; sr-policy (announce ipv4 sr-policy): distinguisher + color, preference + priority, binding-sid mpls, segment-list weight + type-a label',
              'sessions': '4 of {iBGP,eBGP} x peer ASN4 x ADD-PATH per keyword, all 8 for as-path / aggregator / path-information / local-preference; '
                          'flow and vpls: {iBGP,eBGP} x ASN4'},
    'thorough': {'numerals': 'same', 'keywords': 'same + as-path of 3, two-element community list, origin / l2info extended communities, dotted path-information, '
                                                 'icmp-code, port list, destination mask, sr-policy type-c algorithm + sid and type-b SRv6 endpoint behaviour with its four lengths, two pairs of keywords (med + local-preference, label + community), and 13 '
                                                 'keywords through the `announce ipv4 <safi>` entry point (4 of them already in quick)',
                 'sessions': 'all 8 for every unicast/labelled/vpn keyword'},
}
OUTSIDE = [
    'non-numeric lexical structure: quoting, escapes, comments, line continuation, templates, names; non-canonical numerals (leading zeros, "+5", "1_000", '
    'hexadecimal forms 0x.., the legacy "65000L" suffix) are covered by a few concrete samples only (unit lexical/*)',
    'IP address literals (prefix, next-hop, originator-id, cluster-list, aggregator address, RD/ext-community address part, flow prefixes) are concrete samples',
    'rate-limit is an IEEE float on the wire: concrete samples at its boundaries, not a symbolic numeral',
    'split /N (not a wire value; generates 2^(N-mask) routes), watchdog, name, withdraw, attribute [ generic hex ], bgp-prefix-sid-srv6, mup, mvpn, sr-policy beyond the numerals of the units srpolicy/* (its names and addresses, segment types d..k, IPv6 policies, '
    'words after the last sr-policy keyword, which the parser leaves unread), '
    'flow IPv6 offsets, interface-set, redirect to an IP next hop, tcp-flags / fragment names',
    'list LENGTHS (255/256 communities, AS_PATH longer than 255 ASNs) — property C09/C01; withdrawals',
]


class _Log:
    def __getattr__(self, name):
        return lambda *a, **k: None


for _m in (cfgm, ucm, flowparser):
    _m.log = _Log()
    _m.lazymsg = lambda *a, **k: None


def _wrap_registries():
    """name -> code tables probed with a token (Resource._value: `name in cls.codes`)"""
    todo = [Resource]
    seen = set()
    while todo:
        c = todo.pop()
        if c in seen:
            continue
        seen.add(c)
        todo.extend(c.__subclasses__())
        loader = getattr(c, '_ensure_loaded', None)
        if loader is not None:
            try:
                loader()
            except Exception:  # noqa: BLE001
                pass
        codes = c.__dict__.get('codes')
        if type(codes) is dict:
            c.codes = snum.TokDict(codes)


_wrap_registries()



class DoesNotReturn(BaseException):
    """a value parser keeps asking an exhausted tokeniser for words (BaseException: `except Exception` in the parsers must not turn
    the watchdog into a refusal)"""


import exabgp.configuration.core.parser as coreparser  # noqa: E402

EXHAUSTED_READS = 5000  # consecutive '' answers of a used-up Tokeniser before the watchdog calls it a loop
_tok_get = coreparser.Tokeniser._get


def _watched_get(self):
    t = _tok_get(self)
    if type(t) is str and t == '':
        n = self.__dict__.get('sx_exhausted', 0) + 1
        self.__dict__['sx_exhausted'] = n
        if n > EXHAUSTED_READS:
            self.__dict__['sx_exhausted'] = 0
            raise DoesNotReturn('%d consecutive reads of the exhausted tokeniser' % n)
    else:
        self.__dict__['sx_exhausted'] = 0
    return t


coreparser.Tokeniser._get = _watched_get


class _Alarm:
    """wall-clock backstop for loops the tokeniser watchdog does not see: SIGALRM raises DoesNotReturn inside the code under test"""

    def __init__(self, seconds):
        self.seconds = seconds

    def __enter__(self):
        import signal
        self.signal = signal

        def fire(*_):
            raise DoesNotReturn('no answer within %d s' % self.seconds)
        try:
            self.old = signal.signal(signal.SIGALRM, fire)
            signal.alarm(self.seconds)
        except ValueError:  # not the main thread
            self.old = None
        return self

    def __exit__(self, *exc):
        if self.old is not None:
            self.signal.alarm(0)
            self.signal.signal(self.signal.SIGALRM, self.old)
        return False


_CFG = []


def configuration():
    if not _CFG:
        _CFG.append(Configuration([]))
    return _CFG[0]


# ----------------------------------------------------------------------------- text entry points


def render(word):
    if isinstance(word, str):
        return word
    return ''.join(str(p) for p in word)


def text_of(words):
    return ' '.join(render(w) for w in words)


def parse_text(ctx, section, words, action='announce'):
    """words: list of str | tuple(pieces: str | numeral).  -> ('accept', [routes]) | ('refuse', message) | ('raise', exc)"""
    cfg = configuration()
    try:
        with _Alarm(60 if not ctx.sym else 150):
            return _parse_text(ctx, cfg, section, words, action)
    except DoesNotReturn as exc:
        cfg.parser.tokeniser.clear()
        return ('raise', exc)


def _parse_text(ctx, cfg, section, words, action):
    try:
        if not ctx.sym:
            ok = cfg.partial(section, text_of(words), action)
        else:
            marks = {}
            plain = []
            for w in words:
                t = w if isinstance(w, str) else snum.tok(*w)
                if isinstance(t, str):
                    plain.append(t)
                    continue
                mark = '@%d@' % len(marks)
                marks[mark] = t
                plain.append(mark)
            text = ' '.join(plain)
            text = text if text.endswith(';') or text.endswith('}') else text + ' ;'  # as partial() does
            lines = [[marks.get(word, word) for _, _, word in parsed] for parsed in lexer(iter([text]))]
            ok = sym_partial(cfg, section, lines, action)
        if not ok:
            return ('refuse', str(cfg.error))
        if cfg.scope.location():
            return ('refuse', 'unterminated section')  # API.api_route
        cfg.scope.to_context()
        return ('accept', cfg.scope.pop_routes())
    except Exception as exc:  # noqa: BLE001  (SymexUnsupported / PathAbort are BaseException)
        return ('raise', exc)


def sym_partial(cfg, section, lines, action):
    def feed():  # Parser._tokenise
        for words in lines:
            cfg.parser.line = words
            yield words

    cfg._cleanup()
    cfg._clear()
    cfg.parser.params = lambda: ''  # log text only ("' '".join(words))
    cfg.parser._set(feed())
    cfg.parser.set_action(action)
    if cfg.parse_section(section) is not True:
        cfg._rollback_reload()
        return False
    return True


# ----------------------------------------------------------------------------- sessions, emission, decoding

ALL8 = [(ibgp, asn4, ap) for ibgp in (True, False) for asn4 in (True, False) for ap in (False, True)]
FOUR = [(True, True, False), (False, False, False), (True, False, True), (False, True, True)]
NOAP = [(True, True, False), (False, False, False), (True, False, False), (False, True, False)]


def shape_name(shape):
    return '%s/%s/%s' % ('ibgp' if shape[0] else 'ebgp', 'asn4' if shape[1] else 'asn2', 'addpath' if shape[2] else 'no-addpath')


def mk_session(families, shape):
    ibgp, asn4, ap = shape
    return K.session('out', local_as=65000, peer_as=65000 if ibgp else 65001, families=tuple(families), asn4=True, peer_asn4=asn4,
                     addpath='send/receive' if ap else None, addpath_families=tuple(families) if ap else ())


class W:
    """what one UPDATE says, per the RFC decoders"""

    def __init__(self, ctx, msg, shape, fam):
        self.ctx = ctx
        self.ibgp, self.asn4, self.addpath = shape
        self.fam = fam
        self.d = O.Dec(b=bool, n=ctx.concretize)
        d = self.d
        self.frame_ok = s_and(sx_eq(msg[:16], b'\xff' * 16), sx_eq(O.u16(msg, 16), len(msg)), sx_eq(msg[18], 2))
        body = msg[19:]
        self.withdrawn, attrs, self.nlri = O.split(body, d)
        self.by = {}
        for flags, code, value in O.walk(attrs, d):
            O.attr_wellformed(flags, code, value, self.asn4, d)
            if code in self.by:
                raise O.Malformed('attribute-duplicate', code)
            self.by[code] = value
        self.mp = O.mp_reach(self.by[O.MP_REACH], None, d) if O.MP_REACH in self.by else None

    def need(self, code):
        if code not in self.by:
            raise Missing('attribute %d not sent' % code)
        return self.by[code]

    def mp_nlri(self, afi, safi):
        if self.mp is None or (self.mp[0], self.mp[1]) != (afi, safi):
            raise Missing('MP_REACH_NLRI %d/%d not sent' % (afi, safi))
        return self.mp[3]


class Missing(Exception):
    pass


def u24(x, i=0):
    return (x[i] * 256 + x[i + 1]) * 256 + x[i + 2]


def u64(x, i=0):
    return O.u32(x, i) * 4294967296 + O.u32(x, i + 4)


M16, M20, M24, M32, M64 = 2 ** 16 - 1, 2 ** 20 - 1, 2 ** 24 - 1, 2 ** 32 - 1, 2 ** 64 - 1
AS_TRANS = 23456  # RFC 6793 9


def narrow(v):
    """RFC 6793 4.2.2: what a 2-octet speaker is sent for AS number v"""
    return s_ite(v > M16, AS_TRANS, v)


# ----------------------------------------------------------------------------- wire readers (from the RFCs), one per keyword
# each returns a list of (field, got, want); `got == want` must hold for every value on the path


def w_med(w, v):  # RFC 4271 4.3 d
    x = w.need(O.MED)
    return [('.length', len(x), 4), ('med', O.u32(x), v[0])]


def w_localpref(w, v):  # RFC 4271 4.3 e, 5.1.5
    if not w.ibgp:
        return [('.absent-on-ebgp', O.LOCAL_PREF in w.by, False)]
    x = w.need(O.LOCAL_PREF)
    return [('.length', len(x), 4), ('local-preference', O.u32(x), v[0])]


def w_aspath(w, v):  # RFC 4271 4.3 b, RFC 6793 4.2.2
    segs = O.as_path(w.need(O.AS_PATH), w.asn4, w.d)
    flat = [a for t, asns in segs for a in asns]
    out = [('.one-sequence', [t for t, _ in segs], [O.AS_SEQUENCE]), ('.count', len(flat), len(v))]
    if len(flat) != len(v):
        return out
    for i, x in enumerate(v):
        out.append(('asn%d' % i, flat[i], x if w.asn4 else narrow(x)))
    if not w.asn4:
        big = s_or(*[x > M16 for x in v])
        if O.AS4_PATH in w.by:
            segs4 = O.as_path(w.by[O.AS4_PATH], True, w.d, O.AS4_PATH)
            flat4 = [a for t, asns in segs4 for a in asns]
            out.append(('.as4-count', len(flat4), len(v)))
            if len(flat4) == len(v):
                for i, x in enumerate(v):
                    out.append(('as4-asn%d' % i, flat4[i], x))
        else:
            out.append(('.as4-path-missing', big, False))
    return out


def w_aspath_seq_set(w, v):  # `as-path [ a ] ( b )`: one AS_SEQUENCE then one AS_SET (RFC 4271 4.3 b); RFC 6793 4.2.2 for a 2-octet peer
    segs = O.as_path(w.need(O.AS_PATH), w.asn4, w.d)
    out = [('.segment-types', [t for t, _ in segs], [O.AS_SEQUENCE, O.AS_SET]), ('.segment-sizes', [len(a) for _, a in segs], [1, 1])]
    if [len(a) for _, a in segs] != [1, 1]:
        return out
    for i, x in enumerate(v):
        out.append(('asn%d' % i, segs[i][1][0], x if w.asn4 else narrow(x)))
    if not w.asn4:
        big = s_or(*[x > M16 for x in v])
        if O.AS4_PATH in w.by:
            segs4 = O.as_path(w.by[O.AS4_PATH], True, w.d, O.AS4_PATH)
            out.append(('.as4-segment-types', [t for t, _ in segs4], [O.AS_SEQUENCE, O.AS_SET]))
            if [len(a) for _, a in segs4] == [1, 1]:
                for i, x in enumerate(v):
                    out.append(('as4-asn%d' % i, segs4[i][1][0], x))
        else:
            out.append(('.as4-path-missing', big, False))
    return out


AGG_IP = bytes([192, 0, 2, 9])


def w_aggregator(w, v):  # RFC 4271 4.3 g, RFC 6793 3 / 4.2.2
    x = w.need(O.AGGREGATOR)
    if w.asn4:
        return [('.length', len(x), 8), ('aggregator-as', O.u32(x), v[0]), ('.address', x[4:], AGG_IP)]
    out = [('.length', len(x), 6), ('aggregator-as', O.u16(x), narrow(v[0])), ('.address', x[2:], AGG_IP)]
    if O.AS4_AGGREGATOR in w.by:
        y = w.by[O.AS4_AGGREGATOR]
        out += [('as4-aggregator-as', O.u32(y), v[0]), ('.as4-address', y[4:], AGG_IP)]
    else:
        out.append(('.as4-aggregator-missing', v[0] > M16, False))
    return out


def w_community_pair(w, v):  # RFC 1997
    x = w.need(O.COMMUNITY)
    return [('.length', len(x), 4), ('high', O.u16(x, 0), v[0]), ('low', O.u16(x, 2), v[1])]


def w_community_int(w, v):
    x = w.need(O.COMMUNITY)
    return [('.length', len(x), 4), ('value', O.u32(x), v[0])]


def w_community_two(w, v):
    x = w.need(O.COMMUNITY)
    if len(x) == 4:  # the same community written twice is one community (RFC 1997: a set)
        return [('.same', s_and(sx_eq(v[0], v[2]), sx_eq(v[1], v[3])), True), ('high', O.u16(x, 0), v[0]), ('low', O.u16(x, 2), v[1])]
    got = [(O.u16(x, i), O.u16(x, i + 2)) for i in range(0, len(x), 4)]
    want = [(v[0], v[1]), (v[2], v[3])]
    return [('.length', len(x), 8), ('.set', set_equal(got, want), True)]


def set_equal(got, want):
    both = [s_or(*[sx_eq(g, x) for x in want]) for g in got] + [s_or(*[sx_eq(g, x) for g in got]) for x in want]
    return s_and(*both)


def w_large(w, v):  # RFC 8092 3
    x = w.need(O.LARGE_COMMUNITY)
    return [('.length', len(x), 12)] + [('part%d' % i, O.u32(x, 4 * i), v[i]) for i in range(3)]


def ext_as_specific(w, v, subtype):  # RFC 4360 3.1, RFC 5668 2
    x = w.need(O.EXT_COMMUNITY)
    out = [('.length', len(x), 8), ('.subtype', x[1], subtype)]
    if sx_eq(x[0], 0x00) is True:
        return out + [('as', O.u16(x, 2), v[0]), ('number', O.u32(x, 4), v[1])]
    # a 4-octet AS number takes the 4-octet AS specific type (RFC 5668): 0x02
    return out + [('.4-octet-as-takes-type-0x02-not-the-ipv4-address-type', x[0], 0x02), ('as', O.u32(x, 2), v[0]), ('number', O.u16(x, 6), v[1])]


def w_ext_target(w, v):
    return ext_as_specific(w, v, 0x02)


def w_ext_origin(w, v):
    return ext_as_specific(w, v, 0x03)


def w_ext_target_ip(w, v):  # RFC 4360 3.2
    x = w.need(O.EXT_COMMUNITY)
    return [('.length', len(x), 8), ('.type', x[:2], bytes([0x01, 0x02])), ('.address', x[2:6], bytes([192, 0, 2, 7])), ('number', O.u16(x, 6), v[0])]


def w_ext_l2info(w, v):  # RFC 4761 3.2.4: 0x800A, encaps type, control flags, layer-2 MTU, reserved (ExaBGP: preference, RFC 4761bis)
    x = w.need(O.EXT_COMMUNITY)
    return [('.length', len(x), 8), ('.type', x[:2], bytes([0x80, 0x0A])), ('encapsulation', x[2], v[0]), ('control', x[3], v[1]),
            ('mtu', O.u16(x, 4), v[2]), ('preference', O.u16(x, 6), v[3])]


def labelled(w, rd):
    afi, safi = w.fam
    data = w.mp_nlri(afi, safi)
    got = O.labelled_prefixes(data, 32 if afi == 1 else 128, w.addpath, w.d, rd=rd)
    if len(got) != 1:
        raise Missing('%d NLRI sent' % len(got))
    return got[0]


def w_label(w, v):  # RFC 8277 2.2 / 2.3
    pid, labels, rd, bits, prefix = labelled(w, False)
    out = [('.label-count', len(labels), len(v))]
    if len(labels) == len(v):
        for i, x in enumerate(v):
            out.append(('label%d' % i, labels[i][0], x))
    return out


def w_rd(w, v):  # RFC 4364 4.2
    pid, labels, rd, bits, prefix = labelled(w, True)
    t = O.u16(rd, 0)
    if sx_eq(t, 0) is True:
        return [('administrator', O.u16(rd, 2), v[0]), ('assigned', O.u32(rd, 4), v[1])]
    return [('.type-2', t, 2), ('administrator', O.u32(rd, 2), v[0]), ('assigned', O.u16(rd, 6), v[1])]


def w_rd_ip(w, v):
    pid, labels, rd, bits, prefix = labelled(w, True)
    return [('.type-1', O.u16(rd, 0), 1), ('.address', rd[2:6], bytes([192, 0, 2, 7])), ('assigned', O.u16(rd, 6), v[0])]


def unicast4(w):
    got = O.prefixes(w.nlri, 32, w.addpath, w.d)
    if len(got) != 1:
        raise Missing('%d NLRI sent' % len(got))
    return got[0]


def w_pathinfo(w, v):  # RFC 7911 3
    pid, mask, prefix = unicast4(w)
    if not w.addpath:
        return [('.no-path-id', pid, None)]
    return [('path-id', O.u32(pid), v[0])]


def w_pathinfo_dotted(w, v):
    pid, mask, prefix = unicast4(w)
    if not w.addpath:
        return [('.no-path-id', pid, None)]
    return [('path-id-octet%d' % i, pid[i], v[i]) for i in range(4)]


def w_mask4(w, v):  # RFC 4271 4.3
    pid, mask, prefix = unicast4(w)
    return [('prefix-length', mask, v[0])]


def w_mask6(w, v):  # RFC 4760 5
    got = O.prefixes(w.mp_nlri(2, 1), 128, w.addpath, w.d)
    if len(got) != 1:
        raise Missing('%d NLRI sent' % len(got))
    return [('prefix-length', got[0][1], v[0])]


def w_aigp(w, v):  # RFC 7311 3: TLV type 1, length 11, 8-octet metric; 3.4: not sent on a session where AIGP is not enabled (EBGP default)
    if not w.ibgp and not getattr(w, 'aigp', False):
        return [('.absent-on-ebgp', 26 in w.by, False)]
    x = w.need(26)
    return [('.length', len(x), 11), ('.tlv-type', x[0], 1), ('.tlv-length', O.u16(x, 1), 11), ('metric', u64(x, 3), v[0])]


def sid_tlvs(x):
    """RFC 8669 3: TLVs type(1) length(2) value"""
    out = {}
    i = 0
    while i < len(x):
        if i + 3 > len(x):
            raise Missing('prefix-sid TLV truncated')
        t = x[i]
        ln = O.u16(x, i + 1)
        if not isinstance(t, int) or not isinstance(ln, int):
            raise Missing('prefix-sid TLV header is not concrete')
        out[t] = x[i + 3:i + 3 + ln]
        i += 3 + ln
    return out


def w_sid_index(w, v):  # RFC 8669 3.1: RESERVED(1) Flags(2) Label Index(4)
    t = sid_tlvs(w.need(40))
    if 1 not in t:
        raise Missing('Label-Index TLV not sent')
    return [('.tlv-length', len(t[1]), 7), ('label-index', O.u32(t[1], 3), v[0])]


def w_sid_srgb(w, v):  # RFC 8669 3.2: Flags(2) then SRGB base(3) range(3)
    t = sid_tlvs(w.need(40))
    if 1 not in t or 3 not in t:
        raise Missing('Label-Index / Originator SRGB TLV not sent')
    return [('label-index', O.u32(t[1], 3), v[0]), ('.srgb-length', len(t[3]), 8), ('srgb-base', u24(t[3], 2), v[1]), ('srgb-range', u24(t[3], 5), v[2])]


VPLS_RD = bytes([0, 1, 192, 0, 2, 7, 0, 5])


def w_vpls(w, v):  # RFC 4761 3.2.2
    x = w.mp_nlri(25, 65)
    return [('.nlri-length', O.u16(x, 0), 17), ('.total', len(x), 19), ('.rd', x[2:10], VPLS_RD), ('ve-id', O.u16(x, 10), v[0]),
            ('label-base', u24(x, 16) // 16, v[1]), ('ve-block-offset', O.u16(x, 12), v[2]), ('ve-block-size', O.u16(x, 14), v[3])]


def flow_rule(w):
    got = F.flow_decode(w.mp_nlri(1, 133), F.IPV4, bool)
    if got[0] != 'rule':
        raise O.Malformed('flow-nlri-' + got[0])
    return {c[1]: c for c in got[2]}


def flow_ops(w, t, n):
    comps = flow_rule(w)
    if t not in comps or comps[t][0] != 'ops':
        raise Missing('flow component %d not sent' % t)
    ops = comps[t][2]
    if len(ops) != n:
        raise Missing('flow component %d has %d terms' % (t, len(ops)))
    return ops


def w_flow_numeric(t, lows):
    """component type t with len(lows) terms; lows: the (and, lt/gt/eq) bits each term was written with"""
    def reader(w, v):
        ops = flow_ops(w, t, len(lows))
        out = []
        for i, ((a, low), (ga, glow, width, value, first)) in enumerate(zip(lows, ops)):
            out += [('.and%d' % i, ga, a), ('.operator%d' % i, glow, low), ('value%d' % i, value, v[i])]
        return out
    return reader


def flow_rule6(w):
    got = F.flow_decode(w.mp_nlri(2, 133), F.IPV6, bool)
    if got[0] != 'rule':
        raise O.Malformed('flow-nlri-' + got[0])
    return {c[1]: c for c in got[2]}


def w_flow6_numeric(t, lows):
    """the same for an IPv6 flow (RFC 8956)"""
    def reader(w, v):
        comps = flow_rule6(w)
        if t not in comps or comps[t][0] != 'ops':
            raise Missing('flow component %d not sent' % t)
        ops = comps[t][2]
        if len(ops) != len(lows):
            raise Missing('flow component %d has %d terms' % (t, len(ops)))
        out = []
        for i, ((a, low), (ga, glow, width, value, first)) in enumerate(zip(lows, ops)):
            out += [('.and%d' % i, ga, a), ('.operator%d' % i, glow, low), ('value%d' % i, value, v[i])]
        return out
    return reader


def w_flow_prefix(t):
    def reader(w, v):
        comps = flow_rule(w)
        if t not in comps or comps[t][0] != 'prefix4':
            raise Missing('flow prefix component %d not sent' % t)
        return [('prefix-length', comps[t][2], v[0])]
    return reader


def ext_with(w, head):
    x = w.need(O.EXT_COMMUNITY)
    for i in range(0, len(x), 8):
        if sx_eq(x[i:i + 2], head) is True:
            return x[i:i + 8]
    raise Missing('extended community %s not sent' % head.hex())


def w_flow_redirect(w, v):  # RFC 8955 7.4 (0x8008 2-octet AS : 4 octets), RFC 7674 / 8955 7.4 (0x8208 4-octet AS : 2 octets)
    x = w.need(O.EXT_COMMUNITY)
    if sx_eq(x[0], 0x80) is True:
        return [('.type', x[:2], bytes([0x80, 0x08])), ('as', O.u16(x, 2), v[0]), ('number', O.u32(x, 4), v[1])]
    return [('.type', x[:2], bytes([0x82, 0x08])), ('as', O.u32(x, 2), v[0]), ('number', O.u16(x, 6), v[1])]


def w_flow_mark(w, v):  # RFC 8955 7.5: 0x8009, 5 zero octets, DSCP in the low 6 bits of the last
    x = ext_with(w, bytes([0x80, 0x09]))
    return [('.zeros', x[2:7], bytes(5)), ('dscp', x[7], v[0])]


# ----------------------------------------------------------------------------- the cases

R4 = ['route', '10.0.0.0/24', 'next-hop', '1.2.3.4']
U4 = ('ipv4 unicast',)


def rng(lo, hi):
    return (lo, hi)


def in_range(v, r):
    return s_and(v >= r[0], v <= r[1])


def as_number_pair(v):
    """RFC 4360 3.1 / RFC 5668 / RFC 4364 4.2: 2-octet AS : 4-octet number, or 4-octet AS : 2-octet number"""
    a, b = v
    return s_and(a >= 0, b >= 0, s_or(s_and(a <= M16, b <= M32), s_and(a <= M32, b <= M16)))


def vpls_block(v):
    """RFC 4761 3.2.2: VE ID, VE block offset, VE block size are two octets; the label base is a 20-bit label (three octets) and the
    label block {base .. base+size-1} has to lie inside the label space.  (Stated conservatively: base + size <= 2^20 - 1, which is
    what ExaBGP's own consistency rule asks; the one block ending exactly at label 2^20-1 is left undecided.)"""
    endpoint, base, offset, size = v
    return s_and(in_range(endpoint, (0, M16)), in_range(base, (0, M20)), in_range(offset, (0, M16)), in_range(size, (0, M16)), base + size <= M20)


class Case:
    def __init__(self, kw, words, nums, wire, section='static', fam=U4, famcode=(1, 1), shapes=None, rfc=None, quick=True, api='route',
                 cover=None, in_file=True, forks=()):
        self.kw = kw            # keyword in the signatures
        self.words = words      # fn(list of numerals) -> words
        self.nums = nums        # [(name, (rfc lo, rfc hi))]
        self.wire = wire
        self.section = section
        self.fam = fam
        self.famcode = famcode
        self.shapes = shapes
        self.rfc = rfc          # fn(v) -> bool|SBool : the RFCs allow these values (default: every numeral in its range)
        self.quick = quick
        self.api = api          # which API handler the witness uses (None: no API witness)
        self.in_file = in_file  # configuration-file witness
        self.cover = cover
        self.forks = forks      # further values at which an accepted path is split (its replay and witnesses then run AT that value)
        self.routes = 1         # routes one accepted text defines

    def allowed(self, v):
        if self.rfc is not None:
            return self.rfc(v)
        return s_and(*[in_range(x, r) for x, (_, r) in zip(v, self.nums)])


def flow_words(match, then=('discard', ';')):
    return ['route', '{', 'match', '{'] + list(match) + ['}', 'then', '{'] + list(then) + ['}', '}']


FLOW = dict(section='flow', fam=('ipv4 flow',), famcode=(1, 133), shapes=NOAP, api='flow')
MPLS = dict(fam=('ipv4 nlri-mpls',), famcode=(1, 4))
VPN = dict(fam=('ipv4 mpls-vpn',), famcode=(1, 128))
EQ, GT, LT = 1, 2, 4  # RFC 8955 4.2.1.1: lt gt eq bits -> low nibble 0 lt gt eq

CASES = {}
COVER = ('accepted', 'refused', 'max-accepted', 'above-max-refused', 'max+1-refused')


def case(name, *a, **k):
    CASES[name] = Case(*a, **k)


case('static/med', 'med', lambda v: R4 + ['med', (v[0],)], [('med', rng(0, M32))], w_med)
case('static/local-preference', 'local-preference', lambda v: R4 + ['local-preference', (v[0],)], [('local-preference', rng(0, M32))], w_localpref, shapes=ALL8)
case('static/as-path-1', 'as-path', lambda v: R4 + ['as-path', '[', (v[0],), ']'], [('asn0', rng(1, M32))], w_aspath, shapes=ALL8)
case('static/as-path-bare', 'as-path', lambda v: R4 + ['as-path', (v[0],)], [('asn0', rng(1, M32))], w_aspath)
case('static/as-path-2', 'as-path', lambda v: R4 + ['as-path', '[', (v[0],), (v[1],), ']'], [('asn0', rng(1, M32)), ('asn1', rng(1, M32))], w_aspath)
case('static/as-path-3', 'as-path', lambda v: R4 + ['as-path', '[', (v[0],), (v[1],), (v[2],), ']'],
     [('asn0', rng(1, M32)), ('asn1', rng(1, M32)), ('asn2', rng(1, M32))], w_aspath, quick=False)
case('static/as-path-seq-set', 'as-path', lambda v: R4 + ['as-path', '[', (v[0],), ']', '(', (v[1],), ')'], [('asn0', rng(1, M32)), ('asn1', rng(1, M32))],
     w_aspath_seq_set, shapes=FOUR)
case('static/aggregator', 'aggregator', lambda v: R4 + ['aggregator', '(', (v[0], ':192.0.2.9'), ')'], [('aggregator-as', rng(1, M32))], w_aggregator, shapes=ALL8)
case('static/community', 'community', lambda v: R4 + ['community', (v[0], ':', v[1])], [('high', rng(0, M16)), ('low', rng(0, M16))], w_community_pair)
case('static/community-32bit', 'community', lambda v: R4 + ['community', (v[0],)], [('value', rng(0, M32))], w_community_int)
case('static/community-list', 'community', lambda v: R4 + ['community', '[', (v[0], ':', v[1]), (v[2], ':', v[3]), ']'],
     [('high0', rng(0, M16)), ('low0', rng(0, M16)), ('high1', rng(0, M16)), ('low1', rng(0, M16))], w_community_two, quick=False)
case('static/large-community', 'large-community', lambda v: R4 + ['large-community', (v[0], ':', v[1], ':', v[2])],
     [('global', rng(0, M32)), ('local1', rng(0, M32)), ('local2', rng(0, M32))], w_large)
case('static/extended-community-target', 'extended-community', lambda v: R4 + ['extended-community', ('target:', v[0], ':', v[1])],
     [('as', rng(0, M32)), ('number', rng(0, M32))], w_ext_target, rfc=as_number_pair)
case('static/extended-community-origin', 'extended-community', lambda v: R4 + ['extended-community', ('origin:', v[0], ':', v[1])],
     [('as', rng(0, M32)), ('number', rng(0, M32))], w_ext_origin, rfc=as_number_pair, quick=False)
case('static/extended-community-target-ip', 'extended-community', lambda v: R4 + ['extended-community', ('target:192.0.2.7:', v[0])],
     [('number', rng(0, M16))], w_ext_target_ip)
case('static/extended-community-l2info', 'extended-community', lambda v: R4 + ['extended-community', ('l2info:', v[0], ':', v[1], ':', v[2], ':', v[3])],
     [('encapsulation', rng(0, 255)), ('control', rng(0, 255)), ('mtu', rng(0, M16)), ('preference', rng(0, M16))], w_ext_l2info, quick=False)
case('static/label', 'label', lambda v: R4 + ['label', (v[0],)], [('label0', rng(0, M20))], w_label, **MPLS)
case('static/label-2', 'label', lambda v: R4 + ['label', '[', (v[0],), (v[1],), ']'], [('label0', rng(0, M20)), ('label1', rng(0, M20))], w_label, **MPLS)
case('static/rd', 'rd', lambda v: R4 + ['rd', (v[0], ':', v[1]), 'label', '100'], [('administrator', rng(0, M32)), ('assigned', rng(0, M32))], w_rd,
     rfc=as_number_pair, **VPN)
case('static/rd-ip', 'rd', lambda v: R4 + ['rd', ('192.0.2.7:', v[0]), 'label', '100'], [('assigned', rng(0, M16))], w_rd_ip, **VPN)
case('static/path-information', 'path-information', lambda v: R4 + ['path-information', (v[0],)], [('path-id', rng(0, M32))], w_pathinfo, shapes=ALL8)
case('static/path-information-dotted', 'path-information', lambda v: R4 + ['path-information', (v[0], '.', v[1], '.', v[2], '.', v[3])],
     [('octet%d' % i, rng(0, 255)) for i in range(4)], w_pathinfo_dotted, shapes=[(True, True, True), (False, False, False)], quick=False)
case('static/mask', 'mask', lambda v: ['route', ('0.0.0.0/', v[0]), 'next-hop', '1.2.3.4'], [('mask', rng(0, 32))], w_mask4,
     shapes=[(True, True, False), (False, False, True)])
case('static/mask-ipv6', 'mask', lambda v: ['route', ('::/', v[0]), 'next-hop', '2001:db8::1'], [('mask', rng(0, 128))], w_mask6,
     fam=('ipv6 unicast',), famcode=(2, 1), shapes=[(True, True, False)], forks=(32,), cover=COVER + ('accepted-at-32',))  # 32: the IPv4 host length
case('static/aigp', 'aigp', lambda v: R4 + ['aigp', (v[0],)], [('metric', rng(0, M64))], w_aigp)
case('static/bgp-prefix-sid', 'bgp-prefix-sid', lambda v: R4 + ['bgp-prefix-sid', '[', (v[0],), ']'], [('label-index', rng(0, M32))], w_sid_index)
case('static/bgp-prefix-sid-srgb', 'bgp-prefix-sid', lambda v: R4 + ['bgp-prefix-sid', '[', (v[0],), ',', '[', '(', (v[1],), ',', (v[2],), ')', ']', ']'],
     [('label-index', rng(0, M32)), ('srgb-base', rng(0, M24)), ('srgb-range', rng(0, M24))], w_sid_srgb)

case('static/med-and-local-preference', 'med+local-preference', lambda v: R4 + ['med', (v[0],), 'local-preference', (v[1],)],
     [('med', rng(0, M32)), ('local-preference', rng(0, M32))], lambda w, v: w_med(w, v[:1]) + w_localpref(w, v[1:]), quick=False)
case('static/label-and-community', 'label+community', lambda v: R4 + ['label', (v[0],), 'community', (v[1], ':', v[2])],
     [('label0', rng(0, M20)), ('high', rng(0, M16)), ('low', rng(0, M16))], lambda w, v: w_label(w, v[:1]) + w_community_pair(w, v[1:]), quick=False, **MPLS)


def announce(name, safi='unicast', quick=False, **over):
    """the same definition through `announce ipv4 <safi> <prefix> ...` (API.api_announce_v4 -> Configuration.partial('ipv4', line)):
    RouteBuilderValidator and the schema validators of configuration/validator.py instead of static.route()"""
    base = CASES['static/' + name]
    k = dict(section='ipv4', fam=base.fam, famcode=base.famcode, shapes=base.shapes, rfc=base.rfc, quick=quick, api=None, in_file=False, forks=base.forks)
    k.update(over)
    CASES['announce/' + name] = Case(base.kw, lambda v, b=base: [safi] + b.words(v)[1:], base.nums, base.wire, **k)


for _n in ('med', 'community', 'aigp', 'path-information'):
    announce(_n, quick=True)
for _n in ('local-preference', 'as-path-1', 'aggregator', 'community-32bit', 'large-community', 'extended-community-target', 'mask'):
    announce(_n)
announce('label', 'nlri-mpls')
announce('rd', 'mpls-vpn')


# ----------------------------------------------------------------------------- SR Policy (RFC 9830, RFC 9831) through `announce ipv4 sr-policy ...`
SRP = ['sr-policy', 'distinguisher', '7', 'color', '9', 'endpoint', '192.0.2.1', 'next-hop', '192.0.2.2']
SRPK = dict(section='ipv4', fam=('ipv4 sr-policy',), famcode=(1, 73), shapes=NOAP, api=None, in_file=False)


def srp_subtlvs(w):
    """RFC 9012 2 / RFC 9830 2.2: the sub-TLVs of the one SR Policy tunnel TLV (type 15) of the Tunnel Encapsulation attribute (23):
    tunnel type (2) length (2); sub-TLV type (1), length 1 octet for types 0-127 and 2 octets for 128-255"""
    x = w.need(23)
    if len(x) < 4 or O.u16(x, 0) != 15 or O.u16(x, 2) != len(x) - 4:
        raise O.Malformed('tunnel-encap-tlv')
    out, i = [], 4
    while i < len(x):
        t = w.ctx.concretize(x[i]) if hasattr(w.ctx, 'concretize') else int(x[i])
        if t < 128:
            if i + 2 > len(x):
                raise O.Malformed('tunnel-encap-sub-tlv')
            n, i = w.ctx.concretize(x[i + 1]), i + 2
        else:
            if i + 3 > len(x):
                raise O.Malformed('tunnel-encap-sub-tlv')
            n, i = w.ctx.concretize(O.u16(x, i + 1)), i + 3
        if i + n > len(x):
            raise O.Malformed('tunnel-encap-sub-tlv-length')
        out.append((t, x[i:i + n]))
        i += n
    return out


def srp_one(w, t):
    got = [v for k, v in srp_subtlvs(w) if k == t]
    if len(got) != 1:
        raise Missing('SR Policy sub-TLV %d sent %d times' % (t, len(got)))
    return got[0]


def srp_segments(w):
    """RFC 9830 2.4.4: Segment List sub-TLV (128): reserved (1) then sub-TLVs type (1) length (1)"""
    x = srp_one(w, 128)
    if len(x) < 1:
        raise O.Malformed('segment-list')
    out, i = [], 1
    while i < len(x):
        if i + 2 > len(x) or i + 2 + w.ctx.concretize(x[i + 1]) > len(x):
            raise O.Malformed('segment-list-sub-tlv')
        n = w.ctx.concretize(x[i + 1])
        out.append((w.ctx.concretize(x[i]), x[i + 2:i + 2 + n]))
        i += 2 + n
    return out


def w_srp_nlri(w, v):  # RFC 9830 2.1: NLRI length in bits (96), distinguisher (4), color (4), endpoint (4)
    x = w.mp_nlri(1, 73)
    return [('.nlri-length', x[0], 96), ('.total', len(x), 13), ('distinguisher', O.u32(x, 1), v[0]), ('color', O.u32(x, 5), v[1]),
            ('.endpoint', x[9:13], bytes([192, 0, 2, 1]))]


def w_srp_preference_priority(w, v):  # RFC 9830 2.4.1 (type 12: flags, reserved, preference 4), 2.4.6 (type 15: priority 1, reserved 1)
    a, b = srp_one(w, 12), srp_one(w, 15)
    return [('.preference-length', len(a), 6), ('preference', O.u32(a, 2), v[0]), ('.priority-length', len(b), 2), ('priority', b[0], v[1])]


def w_srp_binding_sid(w, v):  # RFC 9830 2.4.2: type 13, flags, reserved, 4-octet SID = label (20) TC (3) S (1) TTL (8)
    a = srp_one(w, 13)
    return [('.binding-sid-length', len(a), 6), ('label', O.u32(a, 2) // 4096, v[0])]


def w_srp_segment_list(w, v):  # RFC 9830 2.4.4.1 (weight, type 9: flags, reserved, weight 4), 2.4.4.2.1 (segment type A, type 1: flags, reserved, label entry)
    segs = srp_segments(w)
    if [t for t, _ in segs] != [9, 1]:
        raise Missing('segment list carries sub-TLVs %r' % ([t for t, _ in segs],))
    return [('.weight-length', len(segs[0][1]), 6), ('weight', O.u32(segs[0][1], 2), v[0]), ('.segment-length', len(segs[1][1]), 6),
            ('label', O.u32(segs[1][1], 2) // 4096, v[1])]


def w_srp_type_c(w, v):  # RFC 9830 2.4.4.2.3: type 3: flags, SR algorithm (1), IPv4 node address (4), optional SR-MPLS SID (4)
    segs = srp_segments(w)
    if [t for t, _ in segs] != [9, 3]:
        raise Missing('segment list carries sub-TLVs %r' % ([t for t, _ in segs],))
    x = segs[1][1]
    return [('.segment-length', len(x), 10), ('algorithm', x[1], v[0]), ('.node', x[2:6], bytes([10, 0, 0, 1])), ('sid', O.u32(x, 6) // 4096, v[1])]


def w_srp_behavior(w, v):  # RFC 9830 2.4.4.2.2 / 2.4.4.2.4: type 13: flags, reserved, SRv6 SID (16), then behavior (2) reserved (2) LB LN Fun Arg lengths
    segs = srp_segments(w)
    if [t for t, _ in segs] != [9, 13]:
        raise Missing('segment list carries sub-TLVs %r' % ([t for t, _ in segs],))
    x = segs[1][1]
    return [('.segment-length', len(x), 26), ('behavior', O.u16(x, 18), v[0]), ('locator-block', x[22], v[1]), ('locator-node', x[23], v[2]),
            ('function', x[24], v[3]), ('argument', x[25], v[4])]


def srv6_structure(v):
    """RFC 9830 2.4.4.2.4: the four lengths are in bits of a 128-bit SID: their sum is at most 128"""
    return s_and(in_range(v[0], (0, M16)), *([in_range(x, (0, 128)) for x in v[1:]] + [v[1] + v[2] + v[3] + v[4] <= 128]))


case('srpolicy/distinguisher-color', 'sr-policy', lambda v: ['sr-policy', 'distinguisher', (v[0],), 'color', (v[1],), 'endpoint', '192.0.2.1', 'next-hop', '192.0.2.2'],
     [('distinguisher', rng(0, M32)), ('color', rng(0, M32))], w_srp_nlri, **SRPK)
case('srpolicy/preference-priority', 'sr-policy-preference', lambda v: SRP + ['preference', (v[0],), 'priority', (v[1],)],
     [('preference', rng(0, M32)), ('priority', rng(0, 255))], w_srp_preference_priority, **SRPK)
case('srpolicy/binding-sid', 'sr-policy-binding-sid', lambda v: SRP + ['binding-sid', 'mpls', (v[0],)], [('label', rng(0, M20))], w_srp_binding_sid, **SRPK)
case('srpolicy/segment-list', 'sr-policy-segment-list', lambda v: SRP + ['segment-list', 'weight', (v[0],), 'segment', 'type-a', 'mpls', (v[1],)],
     [('weight', rng(0, M32)), ('label', rng(0, M20))], w_srp_segment_list, **SRPK)
case('srpolicy/type-c', 'sr-policy-type-c', lambda v: SRP + ['segment-list', 'weight', '1', 'segment', 'type-c', 'ipv4', '10.0.0.1', 'algorithm', (v[0],), 'sid', (v[1],)],
     [('algorithm', rng(0, 255)), ('sid', rng(0, M20))], w_srp_type_c, quick=False, **SRPK)
case('srpolicy/endpoint-behavior', 'sr-policy-endpoint-behavior',
     lambda v: SRP + ['segment-list', 'weight', '1', 'segment', 'type-b', 'srv6', 'fc00::1', 'endpoint-behavior', (v[0],), (v[1],), (v[2],), (v[3],), (v[4],)],
     [('behavior', rng(0, M16)), ('locator-block', rng(0, 128)), ('locator-node', rng(0, 128)), ('function', rng(0, 128)), ('argument', rng(0, 128))],
     w_srp_behavior, rfc=srv6_structure, quick=False, **SRPK)

case('vpls/endpoint-base-offset-size', 'vpls',
     lambda v: ['vpls', 'rd', '192.0.2.7:5', 'endpoint', (v[0],), 'base', (v[1],), 'offset', (v[2],), 'size', (v[3],), 'next-hop', '1.2.3.4'],
     [('endpoint', rng(0, M16)), ('base', rng(0, M20)), ('offset', rng(0, M16)), ('size', rng(0, M16))], w_vpls, rfc=vpls_block,
     section='l2vpn', fam=('l2vpn vpls',), famcode=(25, 65), shapes=NOAP, api='vpls')

SRC = ['source', '10.0.0.0/24', ';']
case('flow/destination-port', 'destination-port', lambda v: flow_words(SRC + ['destination-port', ('=', v[0]), ';']), [('port', rng(0, M16))],
     w_flow_numeric(5, [(0, EQ)]), **FLOW)
case('flow/source-port-range', 'source-port', lambda v: flow_words(SRC + ['source-port', ('>', v[0], '&<', v[1]), ';']), [('low', rng(0, M16)), ('high', rng(0, M16))],
     w_flow_numeric(6, [(0, GT), (1, LT)]), **FLOW)
case('flow/port-list', 'port', lambda v: flow_words(SRC + ['port', '[', ('=', v[0]), ('>=', v[1]), ']', ';']), [('port0', rng(0, M16)), ('port1', rng(0, M16))],
     w_flow_numeric(4, [(0, EQ), (0, GT | EQ)]), quick=False, **FLOW)
case('flow/protocol', 'protocol', lambda v: flow_words(SRC + ['protocol', (v[0],), ';']), [('protocol', rng(0, 255))], w_flow_numeric(3, [(0, EQ)]), **FLOW)
case('flow/packet-length', 'packet-length', lambda v: flow_words(SRC + ['packet-length', ('<=', v[0]), ';']), [('.length', rng(0, M16))],
     w_flow_numeric(10, [(0, LT | EQ)]), **FLOW)
case('flow/dscp', 'dscp', lambda v: flow_words(SRC + ['dscp', (v[0],), ';']), [('dscp', rng(0, 63))], w_flow_numeric(11, [(0, EQ)]), **FLOW)
case('flow/icmp-type', 'icmp-type', lambda v: flow_words(SRC + ['icmp-type', (v[0],), ';']), [('.type', rng(0, 255))], w_flow_numeric(7, [(0, EQ)]), **FLOW)
case('flow/icmp-code', 'icmp-code', lambda v: flow_words(SRC + ['icmp-code', ('!=', v[0]), ';']), [('code', rng(0, 255))], w_flow_numeric(8, [(0, LT | GT)]),
     quick=False, **FLOW)
case('flow/source-mask', 'source', lambda v: flow_words(['source', ('0.0.0.0/', v[0]), ';']), [('mask', rng(0, 32))], w_flow_prefix(2), **FLOW)
case('flow/destination-mask', 'destination', lambda v: flow_words(['destination', ('0.0.0.0/', v[0]), ';']), [('mask', rng(0, 32))], w_flow_prefix(1),
     quick=False, **FLOW)
case('flow/redirect', 'redirect', lambda v: flow_words(SRC, ['redirect', (v[0], ':', v[1]), ';']), [('as', rng(0, M32)), ('number', rng(0, M32))],
     w_flow_redirect, rfc=as_number_pair, **FLOW)
FLOW6 = dict(section='flow', fam=('ipv6 flow',), famcode=(2, 133), shapes=NOAP, api='flow')
SRC6 = ['source', '2001:db8::/32', ';']
# RFC 8956 3.1 / RFC 8955 4.2.2.11: the traffic class is one octet
case('flow/traffic-class', 'traffic-class', lambda v: flow_words(SRC6 + ['traffic-class', (v[0],), ';']), [('class', rng(0, 255))], w_flow6_numeric(11, [(0, EQ)]), **FLOW6)
case('flow/flow-label', 'flow-label', lambda v: flow_words(SRC6 + ['flow-label', (v[0],), ';']), [('label', rng(0, M20))], w_flow6_numeric(13, [(0, EQ)]), quick=False, **FLOW6)
case('flow/mark', 'mark', lambda v: flow_words(SRC, ['mark', (v[0],), ';']), [('dscp', rng(0, 63))], w_flow_mark, **FLOW)


# ----------------------------------------------------------------------------- witnesses (concrete run only)


def api_reply(kind, text):
    """the text through the real API handler on a stand-in reactor -> (replies, routes announced, exception or None)"""
    import asyncio
    from exabgp.reactor.api import API
    from exabgp.reactor.api.command import announce as handlers

    class Processes:
        def __init__(self):
            self.replies = []

        def get_sync(self, service):
            return False

        async def answer_error(self, service, message=''):
            self.replies.append('error')

        async def answer_done(self, service):
            self.replies.append('done')

        def answer_error_sync(self, service, message=''):
            self.replies.append('error')

        def answer_done_sync(self, service):
            self.replies.append('done')

    class RConf:
        def __init__(self):
            self.routes = []

        def announce_route(self, peers, route):
            self.routes.append(route)
            return True

    class Async:
        def __init__(self):
            self.coros = []

        def schedule(self, uid, command, coro):
            self.coros.append(coro)

    class Reactor:
        def __init__(self):
            self.processes = Processes()
            self.configuration = RConf()
            self.asynchronous = Async()
            self._peers = {}

    reactor = Reactor()
    api = API(reactor)
    for m in (handlers,):
        m.log = _Log()
    api.log_message = lambda *a, **k: None
    api.log_failure = lambda *a, **k: None
    api.log_exception = lambda *a, **k: None
    handler = {'route': handlers.announce_route, 'flow': handlers.announce_flow, 'vpls': handlers.announce_vpls}[kind]
    command = text if kind != 'flow' else 'flow ' + text
    raised = None
    try:
        handler(api, reactor, 'svc', [], command, False, 'announce')
        for coro in reactor.asynchronous.coros:
            asyncio.run(coro)
    except Exception as exc:  # noqa: BLE001
        raised = exc
    return reactor.processes.replies, reactor.configuration.routes, raised


def file_verdict(case_, text):
    """the text inside a configuration file -> (accepted, error text)"""
    if case_.section == 'static':
        block = '    static {\n        %s;\n    }\n' % text
    elif case_.section == 'l2vpn':
        block = '    l2vpn {\n        %s;\n    }\n' % text
    else:
        block = '    flow {\n        %s\n    }\n' % text.replace('route {', 'route witness {', 1)
    import os
    import tempfile
    conf = K.mk_conf(families=case_.fam, extra=block)
    line_no = conf[:conf.index(block)].count('\n') + 2
    fd, path = tempfile.mkstemp(prefix='c18-', suffix='.conf')
    try:
        with os.fdopen(fd, 'w') as f:
            f.write(conf)
        cfg = Configuration([path])
        ok = cfg.reload()
        return bool(ok is True), str(cfg.error), line_no
    finally:
        os.unlink(path)


# ----------------------------------------------------------------------------- the harness


def exc_name(exc):
    t = type(exc)
    return t.__name__ if t.__module__ in ('builtins', 'struct') else '%s.%s' % (t.__module__.split('.')[-1], t.__name__)


def boundary_covers(ctx, case_, v, accepted):
    """forks on the RFC boundaries: the replays of these paths are concrete runs AT max, max+1, min, min-1"""
    for x, (name, (lo, hi)) in zip(v, case_.nums):
        if accepted:
            for at in case_.forks:
                if x == at:
                    ctx.cover('accepted-at-%d' % at)
            if x == hi:
                ctx.cover('max-accepted')
            elif x == lo:
                ctx.cover('min-accepted')
        else:
            if x > hi:
                ctx.cover('above-max-refused')
                if x == hi + 1:
                    ctx.cover('max+1-refused')
            elif x < lo:
                ctx.cover('below-min-refused')
                if x == lo - 1:
                    ctx.cover('min-1-refused')


def witnesses(ctx, case_, words, outcome):
    if ctx.sym:
        return
    text = text_of(words)
    info = {'text': text}

    def api_ok():
        try:
            with _Alarm(60):
                replies, routes, raised = api_reply(case_.api, text)
        except DoesNotReturn as exc:
            info['api'] = {'does-not-return': str(exc)}
            return False
        info['api'] = {'replies': replies, 'announced': len(routes), 'raised': None if raised is None else '%s: %s' % (exc_name(raised), raised)}
        if raised is not None or len(replies) != 1:
            return False
        return (replies == ['done'] and len(routes) >= 1) if outcome == 'accept' else (replies == ['error'] and not routes)

    def file_ok():
        try:
            with _Alarm(60):
                ok, error, line_no = file_verdict(case_, text)
        except DoesNotReturn as exc:
            info['file'] = {'does-not-return': str(exc)}
            return False
        info['file'] = {'accepted': ok, 'error': error[-300:]}
        if outcome == 'accept':
            return ok
        return (not ok) and ('line %d' % line_no in error or 'line' in error)

    if case_.api:
        ctx.witness_check('api-one-reply', api_ok, sig='C18:%s:api:%s' % (case_.kw, 'accepted-text-not-acknowledged' if outcome == 'accept' else 'no-error-reply'), info=info)
    if case_.in_file:
        ctx.witness_check('file-located-error', file_ok, sig='C18:%s:file:%s' % (case_.kw, 'accepted-text-refused' if outcome == 'accept' else 'no-located-error'), info=info)


def h_case(ctx, name, shapes):
    case_ = CASES[name]
    shape = ctx.pick('session', shapes)
    v = None
    return run_case(ctx, case_, shape, v)


_HANDLER_VALIDATES = {}


def handler_validates(section):
    """does the API handler behind this entry point call validate_announce() before it hands the route to the RIB?"""
    if section not in _HANDLER_VALIDATES:
        import inspect
        import exabgp.reactor.api.command.announce as ann
        name = {'static': 'announce_route', 'ipv4': 'announce_ipv4', 'ipv6': 'announce_ipv6', 'flow': 'announce_flow', 'l2vpn': 'announce_vpls'}.get(section)
        fn = getattr(ann, name, None) if name else None
        _HANDLER_VALIDATES[section] = bool(fn) and 'validate_announce(' in inspect.getsource(fn)
    return _HANDLER_VALIDATES[section]


def run_case(ctx, case_, shape, v, expect=None):
    kw = case_.kw
    neg = mk_session(case_.fam, shape)
    ok = (bool(neg.asn4) == shape[1] and (int(neg.local_as) == int(neg.peer_as)) == shape[0]
          and case_.famcode in [(int(a), int(s)) for a, s in neg.families]
          and bool(neg.addpath.send(*[f for f in neg.families if (int(f[0]), int(f[1])) == case_.famcode][0])) == shape[2])
    ctx.check('session-shape', ok, sig='C18:harness:session-shape-not-negotiated', info={'shape': shape_name(shape)})
    if not ok:
        return ['session']
    if v is None:
        v = [ctx.int(n) for n, _ in case_.nums]
    words = case_.words(v)
    info = {'text': text_of(words) if not ctx.sym else None, 'session': shape_name(shape)}
    out = parse_text(ctx, case_.section, words)
    ctx.note('class', out[0])

    if out[0] == 'raise' and isinstance(out[1], DoesNotReturn):
        ctx.cover('raised')
        ctx.check('text-is-answered', False, sig='C18:%s:does-not-return' % kw, info=dict(info, watchdog=str(out[1])))
        return ['hang']

    if out[0] == 'raise':
        ctx.cover('raised')
        ctx.check('refused-with-an-error-not-an-exception', False, sig='C18:%s:unhandled:%s' % (kw, exc_name(out[1])),
                  info=dict(info, raised='%s: %s' % (exc_name(out[1]), out[1])))
        witnesses(ctx, case_, words, 'raise')
        return ['raise', exc_name(out[1])]

    if out[0] == 'refuse':
        ctx.cover('refused')
        ctx.check('rfc-value-accepted', s_not(case_.allowed(v)), sig='C18:%s:rfc-value-refused' % kw, info=dict(info, error=out[1][-200:], values=v))
        boundary_covers(ctx, case_, v, False)
        witnesses(ctx, case_, words, 'refuse')
        return ['refuse']

    routes = out[1]
    if len(routes) != case_.routes:
        ctx.check('route-count', False, sig='C18:%s:accepted-text-gives-%d-routes' % (kw, len(routes)), info=info)
        return ['accept', 'routes=%d' % len(routes)]
    for route in routes:
        # reactor.api.command.announce.validate_announce answers an error reply - in the handlers which call it (read from the current
        # source: at the time of writing only `announce route` does; the others put the route in the Adj-RIB-Out as it is)
        error = validate_announce_nlri(route.nlri, route.nexthop) if handler_validates(case_.section) else None
        if error:
            ctx.cover('refused')
            ctx.check('rfc-value-accepted', s_not(case_.allowed(v)), sig='C18:%s:rfc-value-refused' % kw, info=dict(info, error=error, values=v))
            return ['refuse', 'validate']
    ctx.cover('accepted')
    wire = []
    for route in routes:
        try:
            msgs = list(UpdateCollection([RoutedNLRI(route.nlri, route.nexthop)], [], route.attributes).messages(neg))
        except Exception as exc:  # noqa: BLE001
            ctx.cover('encode-raised')
            ctx.check('accepted-definition-can-be-encoded', False, sig='C18:%s:accepted-but-encode-raises:%s' % (kw, exc_name(exc)),
                      info=dict(info, raised='%s: %s' % (exc_name(exc), exc), values=v))
            return ['accept', 'encode-raised', exc_name(exc)]
        if len(msgs) != 1:
            ctx.check('one-message', False, sig='C18:%s:accepted-but-%d-messages' % (kw, len(msgs)), info=dict(info, values=v))
            return ['accept', 'messages=%d' % len(msgs)]
        try:
            w = W(ctx, msgs[0], shape, case_.famcode)
            ctx.check('frame', w.frame_ok, sig='C18:%s:frame' % kw)
            fields = case_.wire(w, v) if case_.wire is not None else []
        except O.Malformed as bad:
            ctx.check('well-formed', False, sig='C18:%s:accepted-but-malformed-on-the-wire:%s' % (kw, bad.what), info=dict(info, values=v, what=bad.what))
            return ['accept', 'malformed', bad.what]
        except Missing as miss:
            ctx.check('value-sent', False, sig='C18:%s:accepted-but-not-sent' % kw, info=dict(info, values=v, what=str(miss)))
            return ['accept', 'missing', str(miss)]
        for field, got, want in fields:
            numeral = not field.startswith('.')  # structural fields (lengths, types, fixed addresses) are named '.xxx'
            sig = 'C18:%s:accepted-and-wrapped' % kw if numeral and len(v) == 1 else 'C18:%s:accepted-and-wrapped:%s' % (kw, field) if numeral \
                else 'C18:%s:wire:%s' % (kw, field)
            ctx.check('wire-carries-the-value-as-written:' + field, sx_eq(got, want), sig=sig, info=dict(info, field=field, wire=got, written=want, values=v))
            if numeral:
                wire.append(got)
    boundary_covers(ctx, case_, v, True)
    witnesses(ctx, case_, words, 'accept')
    return ['accept', wire]


# ----------------------------------------------------------------------------- concrete samples (lexical forms, names, IP literals, floats)


def w_origin(w, v):  # RFC 4271 4.3 a
    x = w.need(O.ORIGIN)
    return [('.length', len(x), 1), ('origin', x[0], v[0])]


def w_rate(code):
    def reader(w, v):  # RFC 8955 7.1 / 7.2: 0x8006 / 0x800c, 2-octet AS, IEEE float
        x = ext_with(w, bytes([0x80, code]))
        rate = struct.unpack('!f', bytes(x[4:8]))[0]
        want = struct.unpack('!f', struct.pack('!f', float(v[0])))[0]
        return [('rate', rate, want)]
    return reader


def w_nexthop(w, v):
    return [('.next-hop', w.need(O.NEXT_HOP), bytes(v))]


def w_community_raw(w, v):
    return [('community', O.u32(w.need(O.COMMUNITY)), v[0])]


def w_large_raw(w, v):
    x = w.need(O.LARGE_COMMUNITY)
    return [('large-community', (O.u32(x, 0) * 2 ** 32 + O.u32(x, 4)) * 2 ** 32 + O.u32(x, 8), v[0])]


def w_aspath_flat(w, v):
    segs = O.as_path(w.need(O.AS_PATH), w.asn4, w.d)
    flat = [a for t, asns in segs for a in asns]
    if w.asn4:
        return [('as-path', flat, list(v))]
    return [('as-path', flat, [x if x <= M16 else AS_TRANS for x in v])]


def w_ext_raw(w, v):
    return [('extended-community', bytes(w.need(O.EXT_COMMUNITY)), bytes.fromhex(v[0]))]


def w_origid(w, v):
    if not w.ibgp:
        return []
    return [('.originator-id', w.need(O.ORIGINATOR_ID), bytes(v))]


def w_pid_bytes(w, v):
    pid, mask, prefix = unicast4(w)
    if not w.addpath:
        return [('.no-path-id', pid, None)]
    return [('.path-id', pid, bytes(v))]


def w_two_masks(w, v):
    pid, mask, prefix = unicast4(w)
    return [('prefix-length', mask, v[0])]


def w_vpn_label(w, v):  # a VPN route keeps BOTH its label and its route distinguisher (RFC 4364 4.3.4), also when `split` multiplies it
    pid, labels, rd, bits, prefix = labelled(w, True)
    out = [('.label-count', len(labels), 1)]
    if len(labels) == 1:
        out.append(('label0', labels[0][0], v[0]))
    out += [('administrator', O.u16(rd, 2), v[1]), ('assigned', O.u32(rd, 4), v[2])]
    return out


class Sample(Case):
    """a fixed text: expect in ('accept', 'refuse', None = either); values: what the reader compares with"""

    def __init__(self, kw, text, expect=None, wire=None, values=(), routes=1, **k):
        Case.__init__(self, kw, lambda v, t=text: t.split(' '), [], wire, **k)
        self.text = text
        self.expect = expect
        self.rfc = lambda v: expect == 'accept'  # only these texts are claimed to be definitions the RFCs allow
        self.values = list(values)
        self.routes = routes


def S(kw, tail, *a, **k):
    return Sample(kw, ' '.join(R4) + ' ' + tail, *a, **k)


def NH(tail, *a, **k):
    return Sample('next-hop', ('route 10.0.0.0/24 next-hop ' + tail).strip(), *a, **k)


def FS(kw, match, then, *a, **k):
    return Sample(kw, ' '.join(flow_words(match.split(' '), then.split(' '))), *a, **dict(FLOW, **k))


SAMPLES = {
    'lexical/numerals': [
        S('med', 'med 007', 'accept', w_med, [7]),
        S('med', 'med +5'), S('med', 'med 1_000'), S('med', 'med \u0663', None, w_med, [3]), S('med', 'med \u00b2'), S('med', 'med 0x10'),
        S('med', 'med'), S('med', 'med 5 5', 'refuse'), S('local-preference', 'local-preference 5 med', 'refuse'),
        S('label', 'label 1_000', None, w_label, [1000], **MPLS), S('label', 'label [ ]'), S('label', 'label 0x10', **MPLS),
        S('aigp', 'aigp 0x64', 'accept', w_aigp, [100]), S('aigp', 'aigp 0x10000000000000000', 'refuse'), S('aigp', 'aigp 0xZZ', 'refuse'),
        S('community', 'community 0x10', 'accept', w_community_raw, [16]), S('community', 'community 0xFFFFFFFFF', 'refuse'),
        S('community', 'community no-export', 'accept', w_community_raw, [0xFFFFFF01]), S('community', 'community [ ]'),
        S('community', 'community 0xZZ'), S('community', 'community :5'), S('community', 'community 5:'), S('community', 'community 1:2:3'),
        S('large-community', 'large-community 0x10', 'accept', w_large_raw, [16]), S('large-community', 'large-community 1:2'),
        S('large-community', 'large-community 1:2:3:4'), S('large-community', 'large-community ::'),
        S('as-path', 'as-path [ 1.1 ]', 'accept', w_aspath_flat, [65537]), S('as-path', 'as-path [ 65536.1 ]', 'refuse'), S('as-path', 'as-path [ 1.65536 ]', 'refuse'),
        S('as-path', 'as-path [ 1 , 2 ]', 'accept', w_aspath_flat, [1, 2]), S('as-path', 'as-path [ ]'), S('as-path', 'as-path [ 1 2'), S('as-path', 'as-path'),
        S('extended-community', 'extended-community target:65000L:5'), S('extended-community', 'extended-community 0x0002FDE800000005', 'accept', w_ext_raw, ['0002fde800000005']),
        S('extended-community', 'extended-community 0x0002'), S('extended-community', 'extended-community 0x0002FDE80000000'), S('extended-community', 'extended-community target:1'),
        S('extended-community', 'extended-community bogus:1:2'), S('extended-community', 'extended-community target:1:2:3'),
        S('extended-community', 'extended-community redirect-to-nexthop', 'accept'), S('extended-community', 'extended-community redirect-to-nexthop:0:0', 'refuse'),
        S('bgp-prefix-sid-srv6', 'bgp-prefix-sid-srv6 ( l3-service 2001:db8::1 70000 )', 'refuse'),
        S('bgp-prefix-sid-srv6', 'bgp-prefix-sid-srv6 ( l3-service 2001:db8::1 0x48 [ 256 , 0 , 0 , 0 , 0 , 0 ] )', 'refuse'),
        S('bgp-prefix-sid-srv6', 'bgp-prefix-sid-srv6 ( l3-service 2001:db8::1 0x48 [ 40 , 24 , 16 , 0 , 0 , 0 ] )', 'accept'), S('extended-community', 'extended-community bandwidth:65000:100'),
        S('attribute', 'attribute [ 0x99 0xc0 0x0102 ]', 'accept'), S('attribute', 'attribute [ 0x999 0xc0 0x0102 ]'), S('attribute', 'attribute [ 0x99 0xc00 0x0102 ]'),
        S('attribute', 'attribute [ 0x99 0xc0 0x010 ]'), S('attribute', 'attribute [ 0x99 0xc0 ]'), S('attribute', 'attribute 0x99'),
        S('bgp-prefix-sid', 'bgp-prefix-sid [ ]'), S('bgp-prefix-sid', 'bgp-prefix-sid 5'), S('bgp-prefix-sid', 'bgp-prefix-sid [ 5 , [ ( 1 ) ] ]'),
        S('split', 'split /25', 'accept', w_two_masks, [25], routes=2), S('split', 'split /33'), S('split', 'split /2', 'accept'), S('split', 'split 25', 'refuse'),
        S('split', 'label 100 split /25', 'accept', w_label, [100], routes=2, **MPLS),
        S('split', 'rd 65000:1 label 100 split /25', 'accept', w_vpn_label, [100, 65000, 1], routes=2, **VPN),
        S('split', 'rd 65000:1 label 100', 'accept', w_vpn_label, [100, 65000, 1], **VPN),
        S('split', 'split /-1'), S('watchdog', 'watchdog announce', 'refuse'), S('name', 'name x y', 'refuse'),
        # lists which are never closed: the words run out (the tokeniser then answers '' for ever)
        S('community', 'community [ 1:2', 'refuse'), S('large-community', 'large-community [ 1:2:3', 'refuse'), S('extended-community', 'extended-community [ target:1:2', 'refuse'),
        S('label', 'label [ 3', 'refuse', **MPLS), S('cluster-list', 'cluster-list [ 1.2.3.4', 'refuse'), S('bgp-prefix-sid', 'bgp-prefix-sid [ 5', 'refuse'),
        S('bgp-prefix-sid', 'bgp-prefix-sid [ 5 , [ ( 1 , 2', 'refuse'), S('bgp-prefix-sid', 'bgp-prefix-sid [ 5 , [ ( 1 , 2 )', 'refuse'), S('attribute', 'attribute [ 0x99 0xc0 0x0102', 'refuse'),
        S('bgp-prefix-sid-srv6', 'bgp-prefix-sid-srv6 ( l3-service 2001:db8::1'), S('bgp-prefix-sid-srv6', 'bgp-prefix-sid-srv6 ( l3-service 2001:db8::1 0x48 [ 1 , 2'),
    ],
    'lexical/names-and-addresses': [
        S('origin', 'origin igp', 'accept', w_origin, [0]), S('origin', 'origin egp', 'accept', w_origin, [1]), S('origin', 'origin incomplete', 'accept', w_origin, [2]),
        S('origin', 'origin IGP', 'accept', w_origin, [0]), S('origin', 'origin foo', 'refuse'), S('origin', 'origin 0'), S('origin', 'origin'),
        NH('255.255.255.255', 'accept', w_nexthop, [255, 255, 255, 255]), NH('256.1.1.1', 'refuse'), NH('1.2.3', 'refuse'),
        NH('1.2.3.4.5', 'refuse'), NH('-1.2.3.4', 'refuse'), NH('01.2.3.4'), NH('', 'refuse'), NH('1.2.3.4 next-hop 255.255.255.255'),
        S('originator-id', 'originator-id 1.2.3.4', 'accept', w_origid, [1, 2, 3, 4]), S('originator-id', 'originator-id 256.1.1.1'), S('originator-id', 'originator-id 1.2.3'),
        S('cluster-list', 'cluster-list 1.2.3.4', 'accept'), S('cluster-list', 'cluster-list [ 1.2.3.4 256.1.1.1 ]'), S('cluster-list', 'cluster-list [ ]'),
        S('aggregator', 'aggregator ( 65000:256.1.1.1 )'), S('aggregator', 'aggregator ( 65000:1.2.3 )'), S('aggregator', 'aggregator ( 65000 )'),
        S('aggregator', 'aggregator (65000:1.2.3.4)', 'accept'), S('aggregator', 'aggregator 65000:1.2.3.4', 'accept'), S('aggregator', 'aggregator ( 65000:1.2.3.4'),
        S('path-information', 'path-information 1.2.3.4', 'accept', w_pid_bytes, [1, 2, 3, 4], shapes=[(True, True, True), (False, False, False)]),
        S('path-information', 'path-information 1.2.3.256'), S('path-information', 'path-information 1.2.3'), S('path-information', 'path-information 1.2.3.4.5'),
        S('path-information', 'path-information ::1'),
        S('rd', 'rd 256.1.1.1:5 label 3', **VPN), S('rd', 'rd 1.2.3:5 label 3', **VPN), S('rd', 'rd 5 label 3', **VPN), S('rd', 'rd :5 label 3', **VPN),
        S('rd', 'rd 1:2:3 label 3', **VPN), S('rd', 'rd 1.2.3.4.5:6 label 3', **VPN),
        Sample('prefix', 'route 10.0.0.1/24 next-hop 1.2.3.4', 'refuse'), Sample('prefix', 'route 256.0.0.0/8 next-hop 1.2.3.4'),
        Sample('prefix', 'route 10.0.0.0 next-hop 1.2.3.4', 'accept', w_mask4, [32]), Sample('prefix', 'route 10.0.0.0/24/5 next-hop 1.2.3.4'),
        Sample('prefix', 'route 10.0.0.0/ next-hop 1.2.3.4', 'refuse'), Sample('prefix', 'route 10.0.0.0/2x next-hop 1.2.3.4', 'refuse'), Sample('prefix', 'route /24 next-hop 1.2.3.4', 'refuse'), Sample('prefix', 'route next-hop 1.2.3.4'),
        Sample('prefix', 'route 10.0.0/24 next-hop 1.2.3.4'), Sample('prefix', 'route 10.0.0.0/24', 'refuse'),
    ],
    'lexical/flow': [
        FS('rate-limit', 'source 10.0.0.0/24 ;', 'rate-limit 0 ;', 'accept', w_rate(0x06), [0]), FS('rate-limit', 'source 10.0.0.0/24 ;', 'rate-limit 9600 ;', 'accept', w_rate(0x06), [9600]),
        FS('rate-limit', 'source 10.0.0.0/24 ;', 'rate-limit 16777217 ;', 'accept', w_rate(0x06), [16777217]),
        FS('rate-limit', 'source 10.0.0.0/24 ;', 'rate-limit 1000000000000 ;', 'accept', w_rate(0x06), [1000000000000]),
        FS('rate-limit', 'source 10.0.0.0/24 ;', 'rate-limit 1000000000001 ;'), FS('rate-limit', 'source 10.0.0.0/24 ;', 'rate-limit -1 ;', None, w_rate(0x06), [-1]),
        FS('rate-limit', 'source 10.0.0.0/24 ;', 'rate-limit 9600 packets ;', 'accept', w_rate(0x0c), [9600]),
        FS('rate-limit', 'source 10.0.0.0/24 ;', 'rate-limit 1%s packets ;' % ('0' * 40)), FS('rate-limit', 'source 10.0.0.0/24 ;', 'rate-limit x ;'),
        FS('rate-limit', 'source 10.0.0.0/24 ;', 'rate-limit ;'),
        FS('source', 'source 10.0.0.0/33 ;', 'discard ;'), FS('source', 'source 10.0.0.1/24 ;', 'discard ;'), FS('source', 'source 256.0.0.0/8 ;', 'discard ;'),
        FS('source', 'source 10.0.0.0 ;', 'discard ;'), FS('source', 'source 10.0.0/24 ; destination-port =80 ;', 'discard ;', 'refuse'),
        # a source the grammar does not recognise is refused, never left out of the rule (the rest would be a BROADER rule)
        FS('source', 'source 2001:db8::1 ; destination-port =80 ;', 'discard ;', 'refuse'), FS('destination', 'destination 10.0.0/8 ; protocol tcp ;', 'discard ;', 'refuse'),
        FS('protocol', 'source 10.0.0.0/24 ; protocol tcp ;', 'discard ;', 'accept', w_flow_numeric(3, [(0, EQ)]), [6]), FS('protocol', 'protocol bogus ;', 'discard ;', 'refuse'),
        FS('protocol', 'protocol [ tcp udp ] ;', 'discard ;', 'accept', w_flow_numeric(3, [(0, EQ), (0, EQ)]), [6, 17]),
        FS('destination-port', 'destination-port =80& ;', 'discard ;', None, w_flow_numeric(5, [(0, EQ)]), [80]), FS('destination-port', 'destination-port >=1024&<=2048 ;', 'discard ;', 'accept',
                                                                                      w_flow_numeric(5, [(0, GT | EQ), (1, LT | EQ)]), [1024, 2048]),
        FS('destination-port', 'destination-port = ;', 'discard ;'), FS('destination-port', 'destination-port > ;', 'discard ;'), FS('destination-port', 'destination-port ! ;', 'discard ;'),
        FS('destination-port', 'destination-port =80|=90 ;', 'discard ;'), FS('destination-port', 'destination-port [ =80 ;', 'discard ;'),
        FS('destination-port', 'destination-port [ =80', 'discard ;'), FS('tcp-flags', 'tcp-flags [ syn', 'discard ;'), FS('destination-port', 'destination-port true ;', 'discard ;'),
        FS('tcp-flags', 'tcp-flags syn ;', 'discard ;', 'accept'), FS('tcp-flags', 'tcp-flags =syn+ack ;', 'discard ;', 'accept'), FS('tcp-flags', 'tcp-flags bogus ;', 'discard ;', 'refuse'),
        FS('tcp-flags', 'tcp-flags 65536 ;', 'discard ;'), FS('fragment', 'fragment is-fragment ;', 'discard ;', 'accept'), FS('fragment', 'fragment 256 ;', 'discard ;'),
        FS('redirect', 'source 10.0.0.0/24 ;', 'redirect 1.2.3.4 ;', 'accept'), FS('redirect', 'source 10.0.0.0/24 ;', 'redirect 1.2.3.4:5 ;', 'refuse'),
        FS('redirect', 'source 10.0.0.0/24 ;', 'redirect 256.1.1.1 ;'), FS('redirect', 'source 10.0.0.0/24 ;', 'redirect 65000: ;'), FS('redirect', 'source 10.0.0.0/24 ;', 'redirect :5 ;'),
        FS('mark', 'source 10.0.0.0/24 ;', 'mark 0x10 ;'), FS('action', 'source 10.0.0.0/24 ;', 'action sample-terminal ;', 'accept'), FS('action', 'source 10.0.0.0/24 ;', 'action bogus ;', 'refuse'),
    ],
}


def AN(kw, tail, *a, **k):
    """`announce ipv4 unicast <prefix> ...`: Configuration.partial('ipv4', ...)"""
    return Sample(kw, 'unicast 10.0.0.0/24 next-hop 1.2.3.4 ' + tail, *a, **dict(dict(section='ipv4', api=None, in_file=False), **k))


def _big_flow(nbig, nsmall):
    """source /24 (5 octets) + destination-port with nbig two-octet values (3 octets each) and nsmall one-octet values (2 each):
    the rule is 6 + 3 nbig + 2 nsmall octets long - around the 239/240 switch of the NLRI length form (RFC 8955 4.1)"""
    values = [300 + i for i in range(nbig)] + [10 + i for i in range(nsmall)]
    terms = ' '.join('=%d' % x for x in values)
    return FS('destination-port', 'source 10.0.0.0/24 ; destination-port [ %s ] ;' % terms, 'discard ;', 'accept',
              w_flow_numeric(5, [(0, EQ)] * len(values)), values)


# rules of 238, 239 (the last one-octet length), 240 (the first two-octet length), 241 and 242 octets
SAMPLES['lexical/flow'] += [_big_flow(76, 2), _big_flow(77, 1), _big_flow(78, 0), _big_flow(77, 2), _big_flow(78, 1)]

SAMPLES['lexical/announce-family'] = [
    AN('origin', 'origin egp', 'accept', w_origin, [1]), AN('origin', 'origin foo', 'refuse'), AN('originator-id', 'originator-id 1.2.3.4', 'accept', w_origid, [1, 2, 3, 4]),
    AN('originator-id', 'originator-id 256.1.1.1', 'refuse'), AN('cluster-list', 'cluster-list 1.2.3.4', 'accept'), AN('cluster-list', 'cluster-list [ 1.2.3.4 1.2.3.5 ]', 'accept'),
    AN('atomic-aggregate', 'atomic-aggregate', 'accept'), AN('aigp', 'aigp 0x64', 'accept', w_aigp, [100]), AN('attribute', 'attribute [ 0x99 0xc0 0x0102 ]', 'accept'),
    AN('name', 'name x', 'accept'), AN('watchdog', 'watchdog w', 'accept'), AN('watchdog', 'watchdog announce', 'refuse'), AN('next-hop', 'next-hop'), AN('community', 'community [ 1:2'),
    AN('path-information', 'path-information 1.2.3.4', 'accept', w_pid_bytes, [1, 2, 3, 4], shapes=[(True, True, True), (False, False, False)]),
    AN('as-path', 'as-path [ 1.1 ]', 'accept', w_aspath_flat, [65537]), AN('bogus', 'bogus 5', 'refuse'), AN('med', 'med', 'refuse'), AN('med', 'med 007', 'accept', w_med, [7]),
    Sample('prefix', 'unicast 10.0.0.1/24 next-hop 1.2.3.4', 'refuse', section='ipv4', api=None, in_file=False),
    # what `announce route` refuses (a route without next hop) is refused by `announce ipv4 unicast` too - or can be sent
    Sample('next-hop', 'unicast 10.0.0.0/24 med 5', None, section='ipv4', api=None, in_file=False),
    Sample('label', 'nlri-mpls 10.0.0.0/24 next-hop 1.2.3.4', None, section='ipv4', api=None, in_file=False, fam=('ipv4 nlri-mpls',), famcode=(1, 4)),
    # the family of the command and the family of the prefix: `announce ipv4 unicast <ipv6 prefix>` cannot be sent as written
    Sample('prefix', 'unicast 2001:db8::/32 next-hop 192.0.2.1', 'refuse', section='ipv4', api=None, in_file=False),
    Sample('prefix', 'unicast 2001:db8::/64 next-hop 192.0.2.1', 'refuse', section='ipv4', api=None, in_file=False),
    Sample('prefix', 'unicast 10.0.0.0/abc next-hop 1.2.3.4', 'refuse', section='ipv4', api=None, in_file=False),
    Sample('prefix', 'unicast 256.0.0.0/8 next-hop 1.2.3.4', 'refuse', section='ipv4', api=None, in_file=False),
    Sample('prefix', 'unicast 10.0.0.0/24 next-hop 256.1.1.1', 'refuse', section='ipv4', api=None, in_file=False),
]


def h_samples(ctx, group):
    samples = SAMPLES[group]
    i = ctx.choice('sample', len(samples))
    sample = samples[i]
    shape = ctx.pick('session', sample.shapes or [(True, True, False), (False, False, False)])
    ctx.note('text', sample.text)
    got = run_case(ctx, sample, shape, sample.values)
    if sample.expect == 'refuse' and got[0] in ('accept', 'refuse'):  # expect == 'accept' is the rfc-value-accepted obligation of run_case
        ctx.check('expected-outcome', got[0] == sample.expect, sig='C18:%s:sample-%s-expected:%s' % (sample.kw, sample.expect, sample.text.replace(' ', '_')),
                  info={'text': sample.text, 'got': got[0]})
    ctx.cover(got[0])
    return [i, got]


# ----------------------------------------------------------------------------- definitions one after the other

SEQ_ACTIONS = [  # (then-words, the 8-octet extended communities of RFC 8955 section 7 they stand for)
    ('discard ;', [bytes.fromhex('8006000000000000')]),
    ('rate-limit 9600 ;', [bytes.fromhex('80060000') + struct.pack('!f', 9600.0)]),
    ('mark 10 ;', [bytes.fromhex('800900000000000a')]),
    ('action sample ;', [bytes.fromhex('8007000000000002')]),
    ('redirect 65000:12 ;', [bytes.fromhex('8008fde80000000c')]),
    ('extended-community [ target:65000:1 ] ;', [bytes.fromhex('0002fde800000001')]),
]


OTHER_FAMILY_FIRST = [
    # (section, text of the definition given first, section, words of the definition under test)
    ('static', 'route 2001:db8::/32 next-hop 2001:db8::1', 'flow', 'route { match { source 10.0.0.0/24 ; protocol tcp ; } then { discard ; } }'),
    ('static', 'route 10.0.0.0/24 next-hop 1.2.3.4', 'flow', 'route { match { source 2001:db8::/32 ; next-header tcp ; } then { discard ; } }'),
    ('flow', 'route { match { source 2001:db8::/32 ; } then { discard ; } }', 'flow', 'route { match { source 10.0.0.0/24 ; protocol udp ; } then { discard ; } }'),
    ('static', 'route 10.0.0.0/24 next-hop 1.2.3.4', 'static', 'route 2001:db8::/32 next-hop 2001:db8::1'),
]


def h_other_family_first(ctx):
    """A definition of one address family, then a definition of the other, given to ONE configuration object (successive API
    commands; successive sections of a file).  Whether the second is accepted does not depend on the first: each of the
    second definitions here is valid on its own and must be accepted."""
    s1, first, s2, second = OTHER_FAMILY_FIRST[ctx.choice('pair', len(OTHER_FAMILY_FIRST))]
    alone = parse_text(ctx, s2, second.split(' '))
    ctx.check('valid-on-its-own', alone[0] == 'accept', sig='C18:other-family-first:harness:second-definition-refused-on-its-own', info={'text': second, 'outcome': str(alone)[:200]})
    out1 = parse_text(ctx, s1, first.split(' '))
    ctx.check('first-accepted', out1[0] == 'accept', sig='C18:other-family-first:harness:first-definition-refused', info={'text': first, 'outcome': str(out1)[:200]})
    out2 = parse_text(ctx, s2, second.split(' '))
    ctx.cover('accept' if out2[0] == 'accept' else 'refuse')
    ctx.check('rfc-value-accepted', out2[0] == 'accept', sig='C18:other-family-first:valid-definition-refused-after-a-definition-of-the-other-family',
              info={'first': first, 'then': second, 'outcome': str(out2)[:300]})
    return [out1[0], out2[0]]


def w_mixed_families(w, v):
    """`attributes ... nlri <ipv4 prefix> <ipv6 prefix>`: each prefix is announced in its own family"""
    if w.mp is None:
        pid, mask, prefix = unicast4(w)
        return [('.ipv4-prefix', bytes(prefix), bytes([10, 0, 0])), ('.ipv4-length', mask, 24)]
    got = O.prefixes(w.mp_nlri(2, 1), 128, w.addpath, w.d)
    if len(got) != 1:
        raise Missing('%d NLRI sent' % len(got))
    return [('.ipv6-prefix', bytes(got[0][2]), bytes.fromhex('20010db8')), ('.ipv6-length', got[0][1], 32)]


ATTRIBUTES_NLRI = [  # (line, prefixes that can be sent with that next hop: (afi, length, first octets))
    ('attributes next-hop 1.2.3.4 med 5 nlri 10.0.0.0/24 10.0.1.0/24', [(1, 24, bytes([10, 0, 0])), (1, 24, bytes([10, 0, 1]))]),
    ('attributes next-hop 1.2.3.4 nlri 10.0.0.0/24 2001:db8::/32', [(1, 24, bytes([10, 0, 0])), (2, 32, bytes.fromhex('20010db8'))]),
    ('attributes next-hop 1.2.3.4 nlri 2001:db8::/32 10.0.0.0/24', [(1, 24, bytes([10, 0, 0])), (2, 32, bytes.fromhex('20010db8'))]),
    ('attributes next-hop 2001:db8::1 nlri 2001:db8::/32 2001:db8:1::/48', [(2, 32, bytes.fromhex('20010db8')), (2, 48, bytes.fromhex('20010db80001'))]),
]


def h_attributes_nlri(ctx):
    """`announce attributes <attributes> nlri <prefix> <prefix> ...` (API.api_attributes -> Configuration.partial('static', ...)): one
    route per prefix, each prefix announced in ITS family with the octets written.  A prefix whose family the next hop of the
    line cannot serve is refused by the command (validate_announce); the others go out as written, and nothing else does."""
    line, want = ATTRIBUTES_NLRI[ctx.choice('line', len(ATTRIBUTES_NLRI))]
    shape = (True, True, False)
    neg = mk_session(('ipv4 unicast', 'ipv6 unicast'), shape)
    out = parse_text(ctx, 'static', line.split(' '))
    info = {'text': line}
    if out[0] != 'accept':
        ctx.cover('refuse')
        ctx.check('rfc-value-accepted', False, sig='C18:attributes-nlri:refused', info=dict(info, outcome=str(out)[:200]))
        return ['refuse']
    ctx.cover('accept')
    sent = []
    for route in out[1]:
        if validate_announce_nlri(route.nlri, route.nexthop):
            continue
        try:
            msgs = list(UpdateCollection([RoutedNLRI(route.nlri, route.nexthop)], [], route.attributes).messages(neg))
        except Exception as exc:  # noqa: BLE001
            ctx.check('accepted-definition-can-be-encoded', False, sig='C18:attributes-nlri:accepted-but-encode-raises:%s' % exc_name(exc), info=dict(info, raised=str(exc)[:200]))
            return ['raise']
        for m in msgs:
            try:
                w = W(ctx, m, shape, (1, 1))
            except O.Malformed as bad:
                ctx.check('well-formed', False, sig='C18:attributes-nlri:malformed-on-the-wire:%s' % bad.what, info=info)
                return ['malformed']
            if w.mp is None:
                for pid, mask, prefix in O.prefixes(w.nlri, 32, False, w.d):
                    sent.append((1, int(mask), bytes(prefix)))
            else:
                # RFC 4760 3 with RFC 2545 3: the next hop of an IPv6 NLRI is 16 or 32 octets (there is no IPv4 next hop for it:
                # RFC 8950 is the other direction)
                if int(w.mp[0]) == 2:
                    ctx.check('next-hop-the-wire-format-can-hold', len(w.mp[2]) in (16, 32), sig='C18:attributes-nlri:ipv6-nlri-sent-with-a-%d-octet-next-hop' % len(w.mp[2]),
                              info=dict(info, next_hop=bytes(w.mp[2]).hex()))
                for pid, mask, prefix in O.prefixes(w.mp[3], 128 if w.mp[0] == 2 else 32, False, w.d):
                    sent.append((int(w.mp[0]), int(mask), bytes(prefix)))
    # whether a prefix of the other family than the next hop is sent at all is not judged here (C01): what IS sent is a prefix of
    # the line in its own family, and the prefixes of the next hop's family all are
    nh_family = 2 if ':' in line.split(' ')[2] else 1
    must = [x for x in want if x[0] == nh_family]
    ctx.check('every-prefix-in-its-own-family', all(x in want for x in sent) and all(x in sent for x in must), sig='C18:attributes-nlri:prefixes-on-the-wire-differ-from-the-text',
              info=dict(info, sent=[(a, m, p.hex()) for a, m, p in sent], written=[(a, m, p.hex()) for a, m, p in want]))
    return ['accept', len(sent)]


def h_flow_sequence(ctx):
    """Three flow definitions given one after the other to ONE configuration object in one process (what a file with
    three routes, or three API commands, do): `then { X }`, `then { X Y }`, `then { X }`.  Every one of them is encoded
    with the actions written in IT: the extended communities on the wire are exactly those of its own then-block -
    what was accepted before or after it plays no part."""
    i = ctx.choice('first', len(SEQ_ACTIONS))
    j = ctx.choice('second', len(SEQ_ACTIONS))
    ctx.assume(i != j)
    (x, wx), (y, wy) = SEQ_ACTIONS[i], SEQ_ACTIONS[j]
    shape = (False, False, False)
    neg = mk_session(FLOW['fam'], shape)
    defs = [('source 10.0.0.1/32 ;', x, wx), ('source 10.0.0.2/32 ;', x + ' ' + y, wx + wy), ('source 10.0.0.3/32 ;', x, wx)]
    routes = []
    for match, then, want in defs:
        out = parse_text(ctx, 'flow', flow_words(match.split(' '), then.split(' ')))
        if out[0] != 'accept' or len(out[1]) != 1:
            ctx.cover('refuse')
            ctx.check('rfc-value-accepted', False, sig='C18:flow-sequence:refused:%s' % then.replace(' ', '_'), info={'then': then, 'outcome': str(out)[:200]})
            return [i, j, 'refuse']
        routes.append(out[1][0])
    ctx.cover('accept')
    got = []
    for k, (route, (match, then, want)) in enumerate(zip(routes, defs)):
        msgs = list(UpdateCollection([RoutedNLRI(route.nlri, route.nexthop)], [], route.attributes).messages(neg))
        w = W(ctx, msgs[0], shape, (1, 133))
        x8 = bytes(w.need(O.EXT_COMMUNITY))
        sent = sorted(x8[o:o + 8] for o in range(0, len(x8), 8))
        got.append([c.hex() for c in sent])
        ctx.check('wire-carries-the-actions-as-written', sent == sorted(want),
                  sig='C18:flow-sequence:%s:definition-%d-carries-other-actions' % (x.split(' ')[0], k + 1),
                  info={'definitions': [d[1] for d in defs], 'definition': k + 1, 'sent': got[-1], 'written': [c.hex() for c in sorted(want)]})
    return [i, j, got]


# ----------------------------------------------------------------------------- one definition, several sessions

TWO_SESSIONS = [  # (case, values): attributes whose octets depend on the session they are sent on
    ('static/aigp', [100]), ('static/local-preference', [200]), ('static/as-path-1', [70000]), ('static/aggregator', [70000]),
    ('static/med', [5]), ('static/path-information', [7]),
]
SESSIONS9 = [s + (False,) for s in ALL8] + [(False, True, False, True), (False, False, False, True)]  # + EBGP with `capability { aigp enable; }`


def h_two_sessions(ctx):
    """ONE accepted definition (parsed once: one route object, as `announce route` to several neighbors hands out)
    encoded for TWO sessions one after the other.  On each it carries the value as written, in the form that session
    negotiated (AS number size, IBGP/EBGP defaults, ADD-PATH, AIGP enabled or not) - whatever session was served before."""
    name, v = TWO_SESSIONS[ctx.choice('case', len(TWO_SESSIONS))]
    case_ = CASES[name]
    a = ctx.choice('first-session', len(SESSIONS9))
    b = ctx.choice('second-session', len(SESSIONS9))
    ctx.assume(a != b)
    out = parse_text(ctx, case_.section, case_.words(v))
    if out[0] != 'accept' or len(out[1]) != 1:
        ctx.check('rfc-value-accepted', False, sig='C18:two-sessions:%s:refused' % case_.kw, info={'outcome': str(out)[:200]})
        return [name, 'refuse']
    route = out[1][0]
    ctx.cover('accept')
    res = []
    for order, si in enumerate((a, b)):
        ibgp, asn4, ap, aigp = SESSIONS9[si]
        neg = K.session('out', local_as=65000, peer_as=65000 if ibgp else 65001, families=tuple(case_.fam), asn4=True, peer_asn4=asn4,
                        addpath='send/receive' if ap else None, addpath_families=tuple(case_.fam) if ap else (), **({'aigp': True} if aigp else {}))
        if aigp:
            ctx.cover('aigp-session')
        sname = shape_name((ibgp, asn4, ap)) + ('+aigp' if aigp else '')
        msgs = list(UpdateCollection([RoutedNLRI(route.nlri, route.nexthop)], [], route.attributes).messages(neg))
        try:
            w = W(ctx, msgs[0], (ibgp, asn4, ap), case_.famcode)
            w.aigp = aigp
            fields = case_.wire(w, v)
        except O.Malformed as bad:
            ctx.check('well-formed', False, sig='C18:two-sessions:%s:malformed:%s' % (case_.kw, bad.what), info={'session': sname, 'served': order + 1})
            return [name, 'malformed']
        except Missing as miss:
            ctx.check('value-sent', False, sig='C18:two-sessions:%s:not-sent-on-%s-session' % (case_.kw, ('first', 'second')[order]),
                      info={'session': sname, 'before': shape_name(SESSIONS9[a][:3]) if order else None, 'what': str(miss)})
            return [name, 'missing']
        for field, got, want in fields:
            ctx.check('wire-carries-the-value-as-written:' + field, sx_eq(got, want),
                      sig='C18:two-sessions:%s:%s:wrong-on-%s-session' % (case_.kw, field, ('first', 'second')[order]),
                      info={'session': sname, 'served-before': (shape_name(SESSIONS9[a][:3]) + ('+aigp' if SESSIONS9[a][3] else '')) if order else None,
                            'field': field, 'wire': got, 'written': want})
        res.append(bytes(msgs[0]).hex())
    return [name, a, b, res]


# ----------------------------------------------------------------------------- units

def units(tier):
    th = tier == 'thorough'
    us = []
    for name, case_ in CASES.items():
        if not th and not case_.quick:
            continue
        shapes = case_.shapes or (ALL8 if th else FOUR)
        us.append(Unit(name, lambda ctx, n=name, s=shapes: h_case(ctx, n, s), must_cover=case_.cover or COVER, max_seconds=1200 if th else 400,
                       max_paths=40000, weight=len(shapes) * 3 ** len(case_.nums)))
    for group in SAMPLES:
        us.append(Unit(group, lambda ctx, g=group: h_samples(ctx, g), must_cover=('accept', 'refuse'), max_seconds=400, weight=30))
    us.append(Unit('static/one-definition-two-sessions', h_two_sessions, must_cover=('accept', 'aigp-session'), max_seconds=600, weight=60))
    us.append(Unit('lexical/attributes-nlri', h_attributes_nlri, must_cover=('accept',), max_seconds=400, weight=20))
    us.append(Unit('lexical/other-family-first', h_other_family_first, must_cover=('accept',), max_seconds=400, weight=20))
    us.append(Unit('lexical/flow/sequence', h_flow_sequence, must_cover=('accept',), max_seconds=400, weight=30))
    return us
