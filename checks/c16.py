"""C16 — FlowSpec rules mean on the wire what they say in text.

Units
  decode/*  : NLRI bytes fully symbolic through the real Flow.unpack_nlri (IPv4 flow, IPv6 flow, flow-vpn) against
              oracle.flowspec.flow_decode (RFC 8955/8956 reference decoder): well-formed => same components,
              operator bits, values, prefix bits, RD, left-over; undefined component / truncated value / missing
              end-of-list / truncated RD / bad length => INVALID or Notify, never a rule; a canonical rule re-encoded from
              the decoded objects (Flow.make_flow + add + pack_nlri) gives the same octets.
              decode/*/port-L7, label-L7, port-w8: one operator component, every operator octet, widths 1/2/4/8.
              decode/big/lengths : concrete sizes around 240 / 256 / 4095 octets with symbolic values.
  encode/*  : rules built with the real factories (Flow.make_flow, flow.add, FlowXxx(operator, value),
              FlowN{Source,Destination}.make_prefixN, RouteDistinguisher) in UNSORTED order, operator bits and values
              symbolic over the component's range; real pack_nlri vs oracle.flow_encode octet for octet, and read back by
              oracle.flow_decode: ascending order, end-of-list on the last operator only, AND bits and operator bits as
              written, shortest width, values, RD first.  encode/*/subset-*: presence of each type symbolic.
              encode/len/* : encoded size straddles 239/240/241 and 4094/4095/4096.
  text/*    : the real text entry point (configuration.flow.route: tokeniser -> _generic_condition / source /
              destination -> Flow.add) on operator texts: every operator spelling x boundary values x '&' / list,
              bracketed and bare, followed by a prefix; packed and compared with the oracle encoding of the written meaning.
  actions/* : discard / rate-limit / redirect / mark / action: text -> extended community octets, and the factories of
              extended/traffic.py with symbolic fields vs the RFC 8955 section 7 layout.
"""
from __future__ import annotations

import struct as _struct

from sx.run import Unit
from sx.core import sx_eq, SBytes, SDict, s_and, s_implies
from oracle import flowspec as O

import exabgp.bgp.message.update.nlri.flow as fl
from exabgp.bgp.message.update.nlri.flow import (
    Flow, Flow4Destination, Flow4Source, Flow6Destination, Flow6Source, FlowIPProtocol, FlowNextHeader, FlowAnyPort,
    FlowDestinationPort, FlowSourcePort, FlowICMPType, FlowICMPCode, FlowTCPFlag, FlowPacketLength, FlowDSCP,
    FlowTrafficClass, FlowFragment, FlowFlowLabel, NumericOperator)
from exabgp.bgp.message.update.nlri.nlri import NLRI
from exabgp.bgp.message.update.nlri.qualifier import RouteDistinguisher
from exabgp.bgp.message.action import Action
from exabgp.bgp.message.notification import Notify
from exabgp.bgp.message.open.asn import ASN
from exabgp.bgp.message.open.capability.asn4 import ASN4
from exabgp.protocol.family import AFI, SAFI
from exabgp.protocol import Protocol
from exabgp.protocol.ip.icmp import ICMPCode, ICMPType
from exabgp.protocol.ip.tcp.flag import TCPFlag
from exabgp.protocol.ip.fragment import Fragment
from exabgp.protocol.resource import NumericValue
from exabgp.bgp.message.update.attribute.community.extended import traffic as tr

ID = 'C16'
LEVEL = 'model_checking'
TECHNIQUE = ('symbolic execution of the real Flow.unpack_nlri/_parse_rules/_parse_operations/IPrefix.make and of '
             'Flow.add/_pack_from_rules/IOperation.pack/encode/_encode_length (z3 over all NLRI octets, operator bits, values, '
             'prefix bits) against an RFC 8955/8956 reference codec; the flow route text parser on enumerated operator texts; '
             'traffic-action communities with symbolic fields against the RFC 8955 section 7 layout')
ASSUMPTIONS = [
    'the per-family component tables flow.decode[afi] / flow.factory[afi] are wrapped as SDict (same content; a symbolic type forks per defined type + miss)',
    'negotiated=None is passed to unpack_nlri/pack_nlri (the Flow code does not read it)',
    'flow-label (type 13): RFC 8956 says values SHOULD use 4 octets; the shorter encodings are taken as allowed ("shortest allowed width")',
    'fragment / protocol / icmp / dscp / traffic-class values are taken over the one octet the RFC gives them (0..255, dscp 0..63), ports, tcp-flags, packet-length over 0..65535, flow-label over 20 bits',
    'the first term of a condition has no AND bit (the text syntax cannot put & in front of the first term)',
    'encode/*: prefixes are written with zero bits beyond their length (IPv4: RFC 4271 makes them irrelevant; IPv6: encode/v6/padding drops the assumption)',
    'decode/*/exact-L*, port-L7, label-L7, port-w8, vpn*/rd-L*: the length octet / first type / first width is constrained as the unit name says (other values: the free-L*, short and big units)',
    'rate-limit float: the 4 IEEE-754 octets of concrete rates are taken from struct.pack("!f") (opaque to the solver)',
    'logging of configuration.flow.parser (log.warning / lazymsg) has an empty body',
]
BOUNDS = {
    'quick': {'decode': 'IPv4 and IPv6 flow: every NLRI buffer of <=5 octets (length octet included, any length octet, left-over allowed) + every 6 octet NLRI with exact length '
                        '+ every 7 octet NLRI whose first component is destination-port / flow-label; flow-vpn: every buffer of 5 octets, RD + <=4 octets; '
                        'big: 238..258 and 4093/4095 octets, 3 symbolic values each',
              'encode': 'rules of <=4 components covering all 13 types of both families, 1-3 operations each, operator bits and values symbolic over the full component range, '
                        'IPv4 prefix length and address symbolic, IPv6 length/offset from 7 pairs with symbolic address; presence of 6-7 types at a time symbolic (every subset); '
                        'RD symbolic; sizes 239/240/241 and 4094/4095/4096',
              'text': '2 terms per condition: 7 numeric / 4 bitmask operator spellings x boundary values x and/or x bracket/bare x 4 prefixes, all components',
              'actions': '14 texts; AS, target, DSCP, flags symbolic over their full field; 4 concrete rates'},
    'thorough': {'decode': 'every buffer of <=6 octets, every exact-length NLRI of 7 and 8 octets; flow-vpn RD + <=5; 12 big sizes',
                 'encode': 'as quick + presence of all 12 (IPv4) / 13 (IPv6) types symbolic at once (every subset, one-octet values)',
                 'text': '3 terms per condition', 'actions': 'same'},
}
OUTSIDE = [
    'NLRI longer than the stated octet bound are covered only through the concrete-size units (values symbolic, structure fixed)',
    'decode: a wire NLRI whose components are out of order or repeated, or an IPv6 prefix with offset >= length, is malformed per RFC 8955 4.2 / RFC 8956 3.1 '
    'but is outside the negative clause of the property (undefined component / truncated value): ExaBGP accepts them; recorded in the outcome census, not obliged',
    'several destination or source prefixes in one rule (accepted by Flow.add for vendor compatibility), a rule mixing IPv4 and IPv6 prefixes',
    'configuration values outside the field of the component (traffic-class 256..65535 is accepted by the parser and fails in pack with ValueError; fragment / protocol numbers above 255)',
    'the text of a decoded rule (str()/json()) is compared only through the operator fields the objects hold, not character by character',
    'redirect to IPv6 / next-hop (draft) communities, interface-set: not in RFC 8955 section 7',
    'IEEE-754 conversion of the rate (delegated to struct)',
]

V4, V6 = 1, 2
AFIS = {V4: AFI.ipv4, V6: AFI.ipv6}

for _afi in list(fl.decode):
    fl.decode[_afi] = SDict(fl.decode[_afi])
    fl.factory[_afi] = SDict(fl.factory[_afi])


class _Log:
    def __getattr__(self, name):
        return lambda *a, **k: None


def flow_route_parser():
    """The real text entry point (configuration / API 'flow route ...'): imported on first use, its logger silenced."""
    import exabgp.configuration.flow.parser as fp
    from exabgp.configuration.core.parser import Tokeniser
    from exabgp.configuration.flow import route
    fp.log = _Log()
    fp.lazymsg = lambda *a, **k: None
    return Tokeniser, route


def B(ctx, x):
    """bytes-like carrier of the current mode."""
    if ctx.sym:
        return x if isinstance(x, SBytes) else SBytes(list(x))
    return bytes(x)


def mk(ctx):
    return (lambda items: SBytes(list(items))) if ctx.sym else (lambda items: bytes(items))


# ----------------------------------------------------------------------------- what ExaBGP holds


def exa_components(nlri, afi):
    """The decoded rule of a Flow object in the oracle's vocabulary (insertion order of the rules dict)."""
    out = []
    for cid, rules in nlri.rules.items():
        if cid in (1, 2):
            for r in rules:
                p = r._packed
                if afi == V4:
                    out.append(('prefix4', cid, p[0], p[1:]))
                else:
                    out.append(('prefix6', cid, p[0], r._offset, p[1:]))
        else:
            out.append(('ops', cid, [(r.operations, r.value) for r in rules]))
    return out


def shape(comps):
    return [(c[0], c[1], len(c[2]) if c[0] == 'ops' else None) for c in comps]


# ----------------------------------------------------------------------------- decode units


def h_decode(ctx, afi, vpn, L, exact=False, min_len=0, first_type=None, first_width8=False):
    data = ctx.bytes('n', L)
    if first_width8:
        ctx.assume((data[2] // 16) % 4 == 3, 'decode/v4/port-w8: the first operator announces an 8 octet value')
    if first_type is not None:
        ctx.assume(data[1] == first_type, 'decode/*/port-L7, label-L7: the first component is of the named type (all types: free-L*/exact-L* units)')
    if exact:
        ctx.assume(data[0] == L - 1, 'decode/*/exact-L*: the length octet says exactly the L-1 octets that follow (other lengths: free-L* units)')
    elif min_len:
        ctx.assume(s_and(data[0] >= min_len, data[0] < 240), 'decode/vpn*/rd-L*: one-octet NLRI length >= 8 (shorter ones and the two-octet form are covered by decode/vpn*/short and decode/big)')
    return decode_obligations(ctx, afi, vpn, data)


def decode_obligations(ctx, afi, vpn, data, extra_tags=()):
    L = len(data)
    safi = SAFI.flow_vpn if vpn else SAFI.flow_ip
    fam = ('v4' if afi == V4 else 'v6') + ('-vpn' if vpn else '')
    want = O.flow_decode(data, afi, bool, vpn=vpn)
    try:
        nlri, left = Flow.unpack_nlri(AFIS[afi], safi, data, Action.ANNOUNCE, False, None)
        got = 'invalid' if nlri is NLRI.INVALID else 'rule'
    except Notify as exc:
        nlri, left = None, None
        got = 'notify'
    verdict = want[0]
    ctx.note('class', '%s->%s' % (verdict, got))
    if verdict != 'rule':
        ctx.cover(verdict)
        end = want[1]
        before = want[2] if len(want) > 2 else ()
        # a prefix with an offset read before the fault: ExaBGP takes ceil(length/8) pattern octets instead of ceil((length-offset)/8)
        # (finding ipv6-offset), so what it reads after that prefix is not what the RFC decoder reads
        otag = ':ipv6-offset' if any(c[0] == 'prefix6' and not bool(c[3] == 0) for c in before) else ''
        if verdict == 'out-of-order':
            return (verdict, got)  # malformed per RFC 8955 4.2, outside the negative clause of the property: census only
        if verdict == 'bad-prefix-length' and afi == V6 and got == 'rule':
            # IPv6 offset >= length: census only (see OUTSIDE); a length above 128 never gets here (CIDR refuses it)
            ctx.cover('v6-offset-beyond-length-accepted')
            return (verdict, got)
        ctx.check('malformed-not-delivered', got in ('invalid', 'notify'), sig='C16:decode:%s:%s-delivered-as-rule%s' % (fam, verdict, otag),
                  info={'oracle': verdict, 'got': got, 'rule': str(shape(exa_components(nlri, afi))) if got == 'rule' else None})
        if got == 'invalid':
            ctx.cover('invalid')
            if end is not None:
                ctx.check('left-over', sx_eq(B(ctx, left), data[end:]), sig='C16:decode:%s:left-over-after-invalid%s' % (fam, otag))
        if got == 'notify':
            ctx.cover('notify')
        return (verdict, got)
    # ---- well formed
    _, rd, comps, end = want
    tags = list(extra_tags)
    for c in comps:
        if c[0] == 'prefix6' and not bool(c[3] == 0):
            tags.append('ipv6-offset')
            break
    tag = (':' + '+'.join(tags)) if tags else ''
    ctx.cover('decoded-rule' if 'ipv6-offset' not in tags else 'decoded-rule-v6-offset')
    ok = ctx.check('wellformed-delivered', got == 'rule', sig='C16:decode:%s:wellformed-refused%s' % (fam, tag),
                   info={'got': got, 'oracle': str(shape(comps))})
    if not ok:
        return ('rule', got)
    ctx.check('left-over', sx_eq(B(ctx, left), data[end:]), sig='C16:decode:%s:left-over%s' % (fam, tag))
    if vpn:
        ctx.check('rd', sx_eq(B(ctx, nlri.rd.pack_rd()), rd), sig='C16:decode:%s:rd' % fam)
    have = exa_components(nlri, afi)
    same_shape = shape(have) == shape(comps)
    ctx.check('components', same_shape, sig='C16:decode:%s:components%s' % (fam, tag), info={'exabgp': str(shape(have)), 'oracle': str(shape(comps))})
    if not same_shape:
        return ('rule', 'other-shape')
    for h, w in zip(have, comps):
        t = w[1]
        if w[0] == 'prefix4':
            ctx.cover('prefix')
            ctx.check('prefix', s_and(sx_eq(h[2], w[2]), prefix_same(B(ctx, h[3]), w[2], 0, w[3])), sig='C16:decode:%s:prefix4' % fam)
        elif w[0] == 'prefix6':
            ctx.cover('prefix')
            ctx.check('prefix', s_and(sx_eq(h[2], w[2]), sx_eq(h[3], w[3]), prefix_same(B(ctx, h[4]), w[2], w[3], w[4])),
                      sig='C16:decode:%s:prefix6%s' % (fam, tag))
        else:
            for (opn, val), (a, low, width, value, first) in zip(h[2], w[2]):
                ctx.cover('width-%d' % width)
                low_h = opn % 16
                and_h = (opn // 64) % 2
                ctx.check('operator-bits', sx_eq(O.meaning_bits(t, low_h), O.meaning_bits(t, low)), sig='C16:decode:%s:operator-bits:type%d' % (fam, t))
                ctx.check('value', sx_eq(val, value), sig='C16:decode:%s:value:type%d:width%d' % (fam, t, width))
                if first:
                    # RFC 8955 4.2.1.1: in the first operator the AND bit MUST be treated as unset on decoding
                    ctx.check('first-and-unset', sx_eq(and_h, 0), sig='C16:decode:first-operator-and-bit-kept')
                else:
                    ctx.check('and-bit', sx_eq(and_h, a), sig='C16:decode:%s:and-bit:type%d' % (fam, t))
                # RFC 8955 4.2.1.1/4.2.1.2: reserved operator bits MUST be ignored during decoding
                ctx.check('reserved-ignored', sx_eq(O.reserved_bits(t, low_h), 0), sig='C16:decode:reserved-operator-bits-kept')
                ctx.check('no-eol-in-operator', sx_eq(opn // 128, 0), sig='C16:decode:%s:eol-in-operator' % fam)
    # ---- canonical rule: re-encoding from the decoded objects gives the same octets
    canon = s_and(*O.canonical_terms(want, data))
    if bool(canon):
        ctx.cover('canonical-reencoded')
        new = Flow.make_flow(AFIS[afi], safi)
        if vpn:
            new.rd = nlri.rd
        for rules in list(nlri.rules.values()):
            for r in rules:
                new.add(r)
        try:
            again = B(ctx, new.pack_nlri(None))
            ctx.check('reencode', sx_eq(again, data[:end]), sig='C16:decode:%s:reencode-differs%s' % (fam, tag))
        except Notify:
            ctx.check('reencode', False, sig='C16:decode:%s:reencode-refused%s' % (fam, tag))
    return ('rule', str(shape(comps)), L - end)


def prefix_same(addr, length, offset, pat):
    """The prefix ExaBGP holds (`addr`: the first ceil(length/8) address octets) means what the wire pattern says
    (RFC 8955 4.2.2.1 / RFC 8956 3.1: `pat` holds address bits offset..length-1 moved to the front, padding ignored):
    bits offset..length-1 of addr == the first length-offset bits of pat.  No fork: length and offset stay symbolic,
    the two sub-octet shifts are case-split inside the formula."""
    na, np_ = len(addr), len(pat)
    A = 0
    for x in addr:
        A = A * 256 + x
    P = 0
    for x in pat:
        P = P * 256 + x
    sa = 8 * na - length               # unused low bits of the last address octet
    sp = 8 * np_ - (length - offset)   # padding bits of the last pattern octet
    terms = [sa >= 0, sa <= 7, sp >= 0, sp <= 7]
    for i in range(8):
        for k in range(8):
            if 8 * np_ - k >= 0:
                terms.append(s_implies(s_and(sa == i, sp == k), sx_eq((A // 2 ** i) % 2 ** (8 * np_ - k), P // 2 ** k)))
    return s_and(*terms)


# ----------------------------------------------------------------------------- decode: concrete sizes, symbolic values


def port_nlri(ctx, nops, nsym, two_byte=True):
    """One destination-port component of `nops` operations, =value each; the first `nsym` values symbolic."""
    items = [5]
    for i in range(nops):
        last = i == nops - 1
        if i < nsym:
            v = ctx.int('v%d' % i, 256, 65535)
            items += [(0x80 if last else 0) + 0x11, v // 256, v % 256]
        else:
            v = 1000 + i
            items += [(0x80 if last else 0) + 0x11, v // 256, v % 256]
    return items


def big_sizes(th):
    return ((79, 0), (79, 1), (80, 1), (84, 1), (85, 0), (85, 1), (1364, 0), (1364, 1)) + (((78, 1), (86, 0), (1363, 1), (700, 0)) if th else ())


def h_decode_big(ctx, sizes, nsym=3):
    """NLRI of 1 + 3*nops (+2) octets: around the 240 and 256 and 4095 boundaries of the length field."""
    nops, extra_one_byte = ctx.pick('size', sizes)
    body = port_nlri(ctx, nops, nsym)
    if extra_one_byte:
        # one more one-octet operation in front of the last: sizes that are not 1 mod 3
        body = body[:1] + [0x01, ctx.int('w', 0, 255)] + body[1:]
    n = len(body)
    data = mk(ctx)(O.length_items(n) + body)
    ctx.cover('len-%d' % n)
    ctx.note('class', 'len-%d' % n)
    tags = ('ext-length',) if n >= 256 else ()
    r = decode_obligations(ctx, V4, False, data, tags)
    return (n, r[0], r[1] if r[0] != 'rule' or not isinstance(r[1], str) else 'ok')


# ----------------------------------------------------------------------------- encode units

# name: (class, value class, RFC type, kind, largest value of the field)
COMP = {
    'protocol': (FlowIPProtocol, Protocol, 3, 'numeric', 255),
    'next-header': (FlowNextHeader, Protocol, 3, 'numeric', 255),
    'port': (FlowAnyPort, NumericValue, 4, 'numeric', 65535),
    'destination-port': (FlowDestinationPort, NumericValue, 5, 'numeric', 65535),
    'source-port': (FlowSourcePort, NumericValue, 6, 'numeric', 65535),
    'icmp-type': (FlowICMPType, ICMPType, 7, 'numeric', 255),
    'icmp-code': (FlowICMPCode, ICMPCode, 8, 'numeric', 255),
    'tcp-flags': (FlowTCPFlag, TCPFlag, 9, 'bitmask', 65535),
    'packet-length': (FlowPacketLength, NumericValue, 10, 'numeric', 65535),
    'dscp': (FlowDSCP, NumericValue, 11, 'numeric', 63),
    'traffic-class': (FlowTrafficClass, NumericValue, 11, 'numeric', 255),
    'fragment': (FlowFragment, Fragment, 12, 'bitmask', 255),
    'flow-label': (FlowFlowLabel, NumericValue, 13, 'numeric', 0xFFFFF),
}
PREFIX = {'destination': 1, 'source': 2}
PREFIX_CLASS = {(V4, 1): Flow4Destination, (V4, 2): Flow4Source, (V6, 1): Flow6Destination, (V6, 2): Flow6Source}
V6_PREFIXES = ((0, 0), (32, 0), (128, 0), (61, 0), (104, 64), (104, 65), (16, 1))


def build_component(ctx, flow, afi, idx, item, intended, tags, zero_padding=True):
    """Create one component with the real factories, add it to the real Flow, record the written meaning."""
    name = item[0]
    if name in PREFIX:
        t = PREFIX[name]
        klass = PREFIX_CLASS[(afi, t)]
        if afi == V4:
            addr = ctx.bytes('a%d' % idx, 4)
            lo, hi = item[1] if len(item) > 1 else (0, 32)
            mask = ctx.int('m%d' % idx, lo, hi)
            # RFC 4271 4.3: trailing bits are irrelevant, an encoder may copy or clear them: the operator writes none
            ctx.assume(s_and(*[s_implies(mask == 8 * j + k, addr[j] % 2 ** (8 - k) == 0) for j in range(4) for k in range(1, 8)]),
                       'encode/v4: the IPv4 prefix is written with zero bits beyond its length (RFC 4271: their value is irrelevant)')
            flow.add(klass.make_prefix4(addr, mask))
            intended.append(('prefix4', t, mask, addr))
        else:
            addr = ctx.bytes('a%d' % idx, 16)
            mask, offset = ctx.pick('mo%d' % idx, item[1] if len(item) > 1 else V6_PREFIXES)
            if zero_padding and mask % 8:
                # the operator writes the prefix without bits beyond its length (encode/v6/padding drops this)
                ctx.assume(addr[mask // 8] % 2 ** (8 - mask % 8) == 0, 'encode/v6: the IPv6 prefix is written with zero bits beyond its length (free in encode/v6/padding)')
            if offset:
                tags.append('ipv6-offset')
                ctx.cover('v6-offset')
            flow.add(klass.make_prefix6(addr, mask, offset))
            intended.append(('prefix6', t, mask, offset, addr))
        ctx.cover('prefix')
        return
    klass, vclass, t, kind, vmax = COMP[name]
    nops = item[1]
    if len(item) > 2:
        vmax = item[2]
    ops = []
    for j in range(nops):
        a = 0 if j == 0 else ctx.int('and%d.%d' % (idx, j), 0, 1)   # text cannot put '&' in front of the first term
        bits = ctx.int('op%d.%d' % (idx, j), 0, 3 if kind == 'bitmask' else 7)
        v = ctx.int('v%d.%d' % (idx, j), 0, vmax)
        flow.add(klass(a * 0x40 + bits, vclass(v)))
        ops.append((a, bits, v))
    intended.append(('ops', t, ops))


def encode_obligations(ctx, afi, vpn, flow, intended, tags, rd=None, pad_at=None):
    fam = ('v4' if afi == V4 else 'v6') + ('-vpn' if vpn else '')
    tag = (':' + '+'.join(sorted(set(tags)))) if tags else ''
    try:
        wire = B(ctx, flow.pack_nlri(None))
    except Notify as exc:
        wire = None
    try:
        want = O.flow_encode(intended, bool, mk(ctx), rd=rd)
    except ValueError:
        want = None
    if want is None:
        ctx.cover('too-long-refused')
        ctx.check('over-4095-refused', wire is None, sig='C16:encode:%s:over-4095-not-refused' % fam)
        return 'refused'
    n = len(want)
    ok = ctx.check('encodable', wire is not None, sig='C16:encode:%s:refused:len-%d' % (fam, n - (1 if n < 241 else 2)) if n > 4000 else 'C16:encode:%s:refused%s' % (fam, tag))
    if not ok:
        return 'refused-encodable'
    if pad_at is not None:
        # encode/v6/padding: the operator wrote address bits beyond the prefix length; RFC 8956 3.1: padding MUST be 0
        k, free = pad_at
        ok = ctx.check('wire-but-padding', s_and(len(wire) == len(want), sx_eq(wire[:k], want[:k]), sx_eq(wire[k + 1:], want[k + 1:]),
                                                 sx_eq(wire[k] - wire[k] % 2 ** free, want[k])), sig='C16:encode:%s:wire%s' % (fam, tag), info={'wire': wire, 'want': want})
        ctx.check('padding-zero', sx_eq(wire[k] % 2 ** free, 0), sig='C16:encode:v6:prefix-padding-not-zero', info={'wire': wire, 'want': want})
        return 'padding'
    ctx.check('wire', sx_eq(wire, want), sig='C16:encode:%s:wire%s' % (fam, tag), info={'wire': wire, 'want': want})
    # a rule is serialised many times (Route.index() when it enters the RIB, then once per session and per refresh):
    # the octets are a function of the rule, not of how often it was asked for them
    try:
        flow.index()
        again = [B(ctx, flow.pack_nlri(None)) for _ in range(2)]
        ctx.check('same-octets-every-time', s_and(*[sx_eq(a, wire) for a in again]), sig='C16:encode:%s:later-serialisation-differs%s' % (fam, tag),
                  info={'first': wire, 'later': again})
    except Notify:
        ctx.check('same-octets-every-time', False, sig='C16:encode:%s:later-serialisation-refused%s' % (fam, tag))
    if 'ipv6-offset' in tags:
        # the pattern of a prefix with an offset has a different size in ExaBGP (see finding): reading those octets back
        # with the reference decoder only enumerates garbage; the octet-for-octet obligation above is the whole claim here
        return n
    # independent reading of the real octets by the reference decoder
    back = O.flow_decode(wire, afi, bool, vpn=vpn)
    ok = ctx.check('rfc-decodable', back[0] == 'rule', sig='C16:encode:%s:not-rfc-decodable%s' % (fam, tag), info={'verdict': back[0], 'wire': wire})
    if not ok:
        return back[0]
    _, brd, comps, end = back
    ctx.check('whole', end == len(wire), sig='C16:encode:%s:length-field%s' % (fam, tag))
    if vpn:
        ctx.check('rd-first', sx_eq(brd, B(ctx, rd)), sig='C16:encode:%s:rd-first' % fam)
    exp = sorted(intended, key=lambda c: c[1])
    ctx.check('ascending-once', [c[1] for c in comps] == [c[1] for c in exp], sig='C16:encode:%s:order%s' % (fam, tag),
              info={'wire-types': [c[1] for c in comps], 'written': [c[1] for c in intended]})
    if shape(comps) != shape(exp):
        ctx.check('eol-on-last-only', False, sig='C16:encode:%s:end-of-list%s' % (fam, tag), info={'wire': str(shape(comps)), 'written': str(shape(exp))})
        return 'shape'
    for c, e in zip(comps, exp):
        if e[0] == 'ops':
            t = e[1]
            for (a, low, w, value, first), (ea, ebits, ev) in zip(c[2], e[2]):
                ctx.cover('width-%d' % w)
                ctx.check('and-as-written', sx_eq(a, ea), sig='C16:encode:%s:and-bit:type%d' % (fam, t))
                ctx.check('operator-as-written', sx_eq(low, ebits), sig='C16:encode:%s:operator-bits:type%d' % (fam, t))
                ctx.check('value', sx_eq(value, ev), sig='C16:encode:%s:value:type%d' % (fam, t))
                ctx.check('shortest-width', w == 1 or s_and(value >= 256 ** (w // 2)), sig='C16:encode:%s:width:type%d' % (fam, t), info={'width': w})
        elif e[0] == 'prefix4':
            ctx.check('prefix', s_and(sx_eq(c[2], e[2]), sx_eq(c[3], e[3][:len(c[3])])), sig='C16:encode:%s:prefix4' % fam)
    return n


def h_encode(ctx, afi, spec, vpn=False, presence=False, zero_padding=True):
    safi = SAFI.flow_vpn if vpn else SAFI.flow_ip
    flow = Flow.make_flow(AFIS[afi], safi)
    rd = None
    if vpn:
        rd = ctx.bytes('rd', 8)
        flow.rd = RouteDistinguisher(rd)
    intended, tags = [], []
    for idx, item in enumerate(spec):
        if presence and not bool(ctx.bool('present%d' % idx)):
            continue
        build_component(ctx, flow, afi, idx, item, intended, tags, zero_padding)
    types = [c[1] for c in intended]
    if types != sorted(types):
        ctx.cover('unsorted-input')
    if any(c[0] == 'ops' and len(c[2]) > 1 for c in intended):
        ctx.cover('multi-op')
    r = encode_obligations(ctx, afi, vpn, flow, intended, tags, rd)
    ctx.note('class', 'types=%s' % (sorted(types),))
    return (types, r)


def h_encode_grow(ctx, afi):
    """A rule which is serialised, then GIVEN ANOTHER TERM (Flow.add on a component it already has, and a new component), then
    serialised again - what the API does when a flow is built up in steps: the second serialisation is the RFC encoding of
    the larger rule (end-of-list only on the last operator of each component, ascending types)."""
    flow = Flow.make_flow(AFIS[afi], SAFI.flow_ip)
    intended, tags = [], []
    build_component(ctx, flow, afi, 0, ('destination-port', 1), intended, tags)
    r1 = encode_obligations(ctx, afi, False, flow, intended, tags)
    klass, vclass, t, kind, vmax = COMP['destination-port']
    a = ctx.int('and.late', 0, 1)
    bits = ctx.int('op.late', 0, 7)
    v = ctx.int('v.late', 0, vmax)
    flow.add(klass(a * 0x40 + bits, vclass(v)))
    intended[0] = ('ops', t, intended[0][2] + [(a, bits, v)])
    build_component(ctx, flow, afi, 1, ('protocol' if afi == V4 else 'next-header', 1), intended, tags)
    ctx.cover('term-added-after-a-serialisation')
    r2 = encode_obligations(ctx, afi, False, flow, intended, tags)
    return (r1, r2)


def h_encode_padding(ctx):
    """IPv6 destination written with arbitrary bits beyond the prefix length (e.g. 2001:db8::1/61), after a higher type."""
    flow = Flow.make_flow(AFI.ipv6, SAFI.flow_ip)
    addr = ctx.bytes('a', 16)
    mask = ctx.pick('mask', (61, 9, 127))
    v = ctx.int('v', 0, 255)
    flow.add(FlowNextHeader(NumericOperator.EQ, Protocol(v)))
    flow.add(Flow6Destination.make_prefix6(addr, mask, 0))
    ctx.cover('unsorted-input')
    ctx.cover('prefix')
    intended = [('ops', 3, [(0, 1, v)]), ('prefix6', 1, mask, 0, addr)]
    return encode_obligations(ctx, V6, False, flow, intended, [], pad_at=(1 + 3 + (mask + 7) // 8 - 1, 8 - mask % 8))


def h_encode_len(ctx, nfixed, nfree):
    """destination-port with nfixed two-octet values (symbolic, 256..65535) and nfree values over the full range:
    the size is 1 + 3*nfixed + (2|3)*nfree, a solver branch per free value."""
    flow = Flow.make_flow(AFI.ipv4, SAFI.flow_ip)
    ops = []
    nsym = 12  # more symbolic fixed-width values do not add behaviours, only solver time
    for i in range(nfixed):
        v = ctx.int('f%d' % i, 256, 65535) if i < nsym else 256 + (i * 131) % 65000
        a = 0 if i == 0 else ((ctx.int('fa%d' % i, 0, 1)) if i < nsym else i % 2)
        ops.append((a, 1 + i % 5, v))
    for i in range(nfree):
        ops.append((ctx.int('ga%d' % i, 0, 1), ctx.int('go%d' % i, 0, 7), ctx.int('g%d' % i, 0, 65535)))
    for a, bits, v in ops:
        flow.add(FlowDestinationPort(a * 0x40 + bits, NumericValue(v)))
    intended = [('ops', 5, ops)]
    r = encode_obligations(ctx, V4, False, flow, intended, [])
    if isinstance(r, int):
        ctx.cover('len-%d' % (r - (1 if r < 241 else 2)))
        ctx.note('class', 'len-%d' % (r - (1 if r < 241 else 2)))
    return r


# ----------------------------------------------------------------------------- text units (real configuration parser)

NUM_SPELL = (('=', 1), ('>', 2), ('<', 4), ('>=', 3), ('<=', 5), ('!=', 6), ('', 1))     # RFC 8955 4.2.1.1: lt=4 gt=2 eq=1
BIN_SPELL = (('', 0), ('=', 1), ('!', 2), ('!=', 3))                                      # RFC 8955 4.2.1.2: not=2 m=1
TCP_NAMES = (('fin', 0x01), ('syn', 0x02), ('rst', 0x04), ('push', 0x08), ('ack', 0x10), ('urgent', 0x20), ('syn+ack', 0x12), ('fin+push+urgent', 0x29))
FRAG_NAMES = (('dont-fragment', 0x01), ('is-fragment', 0x02), ('first-fragment', 0x04), ('last-fragment', 0x08))
NUM_VALUES = {255: (0, 1, 6, 255), 63: (0, 46, 63), 65535: (0, 80, 255, 256, 65535), 0xFFFFF: (0, 255, 256, 65535, 65536, 0xFFFFF)}
TEXT_COMPS = {V4: ('protocol', 'port', 'destination-port', 'source-port', 'icmp-type', 'icmp-code', 'packet-length', 'dscp'),
              V6: ('next-header', 'port', 'destination-port', 'source-port', 'icmp-type', 'icmp-code', 'packet-length', 'traffic-class', 'flow-label')}
TEXT_PREFIX = {V4: (('destination 192.0.2.0/24', ('prefix4', 1, 24, bytes([192, 0, 2, 0]))), ('source 10.1.2.3/32', ('prefix4', 2, 32, bytes([10, 1, 2, 3]))),
                    ('source 0.0.0.0/0', ('prefix4', 2, 0, bytes(4))), ('destination 10.128.0.0/9', ('prefix4', 1, 9, bytes([10, 128, 0, 0])))),
               V6: (('destination 2001:db8::/32', ('prefix6', 1, 32, 0, bytes.fromhex('20010db8') + bytes(12))),
                    ('source 2001:db8:0:8::/61', ('prefix6', 2, 61, 0, bytes.fromhex('20010db800000008') + bytes(8))),
                    ('source ::/0', ('prefix6', 2, 0, 0, bytes(16))),
                    ('destination ::1234:5678:9a00:0/104/64', ('prefix6', 1, 104, 64, bytes(8) + bytes.fromhex('123456789a000000'))))}


def h_text(ctx, afi, kind, nops):
    """'<component> [ <op><value>&<op><value> <op><value> ] <prefix>' through the real flow route parser.
    Independent picks: spelling and value of the first term, value and connective of the others; the component, the
    other spellings, bracket form and the prefix rotate with them so that every alternative of each is reached."""
    Tokeniser, route = flow_route_parser()
    tags = []
    spells = NUM_SPELL if kind == 'numeric' else BIN_SPELL
    i0 = ctx.choice('spell0', len(spells))
    v0 = ctx.choice('val0', 6 if kind == 'numeric' else 8)
    if kind == 'numeric':
        comp = TEXT_COMPS[afi][(i0 + v0 * 3) % len(TEXT_COMPS[afi])]
        values = [(str(v), v) for v in NUM_VALUES[COMP[comp][4]]]
    else:
        comp = ('tcp-flags', 'fragment')[(i0 + v0) % 2]
        values = list(TCP_NAMES if comp == 'tcp-flags' else FRAG_NAMES)
    t = COMP[comp][2]
    terms, ops = [], []
    rot = 0
    for j in range(nops):
        if j == 0:
            si, vi, a = i0, v0 % len(values), 0
        else:
            vj = ctx.choice('val%d' % j, len(values))
            a = ctx.choice('and%d' % j, 2)
            si, vi = (i0 + 3 * j + vj) % len(spells), vj
            rot += vj + a
        terms.append((a, spells[si][0] + values[vi][0]))
        ops.append((a, spells[si][1], values[vi][1]))
    text = ''
    for a, term in terms:
        text += ('&' if a else (' ' if text else '')) + term
    bracket = ' ' in text or (i0 + v0 + rot) % 2 == 0
    pidx = (i0 + 2 * v0 + rot) % (len(TEXT_PREFIX[afi]) + 1)
    intended = [('ops', t, ops)]
    line = '%s %s' % (comp, '[ %s ]' % text if bracket else text)
    if pidx:
        ptext, pcomp = TEXT_PREFIX[afi][pidx - 1]
        line = line + ' ' + ptext       # written AFTER the higher type: the encoder has to sort
        intended.append(pcomp)
        if pcomp[0] == 'prefix6' and pcomp[3]:
            tags.append('ipv6-offset')
        ctx.cover('prefix')
    tok = Tokeniser().replenish(line.split())
    tok.afi = AFIS[afi]
    routes = route(tok)
    flow = routes[0].nlri
    ctx.cover('parsed')
    ctx.cover('spell:' + spells[i0][0])
    ctx.cover('comp:' + comp)
    if bracket:
        ctx.cover('bracket')
    else:
        ctx.cover('bare')
    if any(a for a, _ in terms):
        ctx.cover('and')
    r = encode_obligations(ctx, afi, False, flow, intended, tags)
    ctx.note('class', comp)
    return (line, r)


ONE_LINE = {  # (keyword of `announce ipv4|ipv6 flow ...`, the component it stands for)
    V4: (('destination-ipv4 192.0.2.0/24', ('prefix4', 1, 24, bytes([192, 0, 2, 0]))), ('source-ipv4 10.1.2.3/32', ('prefix4', 2, 32, bytes([10, 1, 2, 3]))),
         ('protocol tcp', ('ops', 3, [(0, 1, 6)])), ('destination-port [ >=1024&<=2048 =8080 ]', ('ops', 5, [(0, 3, 1024), (1, 5, 2048), (0, 1, 8080)])),
         ('packet-length >1200', ('ops', 10, [(0, 2, 1200)]))),
    V6: (('destination-ipv6 2001:db8::/32', ('prefix6', 1, 32, 0, bytes.fromhex('20010db8') + bytes(12))), ('next-header udp', ('ops', 3, [(0, 1, 17)])),
         ('source-port =53', ('ops', 6, [(0, 1, 53)])), ('packet-length >1200', ('ops', 10, [(0, 2, 1200)]))),
}
_ONE_LINE_CFG = []


def one_line_configuration():
    """A Configuration as API.api_announce_v4 uses it (`announce ipv4 flow ...` -> Configuration.partial('ipv4', 'flow ...'))."""
    if not _ONE_LINE_CFG:
        from exabgp.configuration.setup import create_minimal_configuration
        flow_route_parser()
        _ONE_LINE_CFG.append(create_minimal_configuration(families='ipv4 flow ipv6 flow ipv4 flow-vpn ipv6 flow-vpn'))
    return _ONE_LINE_CFG[0]


def h_text_one_line(ctx, afi):
    """The OTHER text entry point: `announce ipv4|ipv6 flow[-vpn] <keywords> <action>` on one line (route builder /
    Flow.from_settings, not flow.add()).  The keywords are written in a solver-chosen order (every permutation of 3 out of
    the table); the wire is the RFC encoding of the same rule: components in ascending type order, each once."""
    import itertools
    table = ONE_LINE[afi]
    perms = list(itertools.permutations(range(len(table)), 3))
    perm = perms[ctx.choice('order', len(perms))]
    vpn = bool(ctx.choice('vpn', 2))
    words = ' '.join(table[i][0] for i in perm)
    line = ('flow-vpn rd 65000:1 ' if vpn else 'flow ') + words + ' discard'
    cfg = one_line_configuration()
    cfg.static.clear()
    cfg.flow.clear()
    if perm == perms[0] and not vpn and ctx.choice('prefix-of-the-other-family', 2):
        # `announce ipv4 flow destination <ipv6 prefix>`: the family of the command and of the prefix disagree.  Refusing is fine;
        # accepting means an NLRI of the command's family which the RFC decoder of THAT family reads back as the prefix written
        other = '2001:db8::/32' if afi == V4 else '10.0.0.0/8'
        line = 'flow destination %s discard' % other
        ok = cfg.partial('ipv4' if afi == V4 else 'ipv6', line, 'announce')
        if not ok:
            ctx.cover('family-mismatch-refused')
            return (line, 'refused')
        cfg.scope.to_context()
        routes = cfg.scope.pop_routes()
        ctx.cover('family-mismatch-accepted')
        wire = bytes(routes[0].nlri.pack_nlri(None)) if routes else b''
        back = O.flow_decode(wire, afi, bool) if routes else ('none',)
        ctx.check('accepted-means-sendable-as-written', False,
                  sig='C16:text:one-line:prefix-of-the-other-family-accepted', info={'line': line, 'wire': wire.hex(), 'nlri-afi': int(routes[0].nlri.afi) if routes else None,
                                                                                      'reads-back-as': str(back)[:200]})
        return (line, 'accepted')
    ok = cfg.partial('ipv4' if afi == V4 else 'ipv6', line, 'announce')
    if not ctx.check('accepted', bool(ok), sig='C16:text:one-line:refused', info={'line': line, 'error': str(cfg.error)[-200:]}):
        return (line, 'refused')
    cfg.scope.to_context()
    routes = cfg.scope.pop_routes()
    if not ctx.check('one-route', len(routes) == 1, sig='C16:text:one-line:route-count', info={'line': line, 'routes': len(routes)}):
        return (line, 'routes')
    ctx.cover('parsed')
    ctx.cover('vpn' if vpn else 'plain')
    if list(perm) != sorted(perm):
        ctx.cover('keywords-out-of-type-order')
    intended = [table[i][1] for i in perm]
    rd = bytes([0, 0]) + (65000).to_bytes(2, 'big') + (1).to_bytes(4, 'big') if vpn else None
    r = encode_obligations(ctx, afi, vpn, routes[0].nlri, intended, ['one-line'], rd=rd)
    return (line, r)


def _action_cases():
    cases = (
        ('discard', O.action_traffic_rate_bytes(0, _struct.pack('!f', 0.0))),
        ('rate-limit 9600', O.action_traffic_rate_bytes(0, _struct.pack('!f', 9600.0))),
        ('rate-limit 1000000 bytes', O.action_traffic_rate_bytes(0, _struct.pack('!f', 1000000.0))),
        ('rate-limit 5000 packets', O.action_traffic_rate_packets(0, _struct.pack('!f', 5000.0))),
        ('redirect 65000:12', O.action_redirect_as2(65000, 12)),
        ('redirect 65535:4294967295', O.action_redirect_as2(65535, 4294967295)),
        ('redirect 65536:12', O.action_redirect_as4(65536, 12)),
        ('redirect 4200000000:65535', O.action_redirect_as4(4200000000, 65535)),
        ('mark 0', O.action_traffic_marking(0)),
        ('mark 46', O.action_traffic_marking(46)),
        ('mark 63', O.action_traffic_marking(63)),
        ('action sample', O.action_traffic_action(1, 0)),
        ('action terminal', O.action_traffic_action(0, 1)),
        ('action sample-terminal', O.action_traffic_action(1, 1)),
    )
    return cases


def _parse_action(text):
    Tokeniser, route = flow_route_parser()
    tok = Tokeniser().replenish(('destination-port =80 ' + text).split())
    tok.afi = AFI.ipv4
    return route(tok)[0]


def h_text_actions(ctx):
    """'then' side of a flow route: text -> extended community octets (RFC 8955 section 7)."""
    cases = _action_cases()
    text, want = cases[ctx.choice('case', len(cases))]
    r = _parse_action(text)
    ecs = r.attributes[16]
    got = bytes(ecs._packed)
    ctx.cover(text.split()[0])
    ctx.check('action-octets', got == bytes(want), sig='C16:actions:text:%s' % text.split()[0], info={'text': text, 'got': got, 'want': bytes(want)})
    ctx.check('match-side', bytes(r.nlri.pack_nlri(None)) == bytes([3, 5, 0x81, 80]), sig='C16:actions:text:match-side')
    return (text, got.hex())


def _communities(octets):
    octets = bytes(octets)
    return sorted(octets[i:i + 8] for i in range(0, len(octets), 8))


def h_text_actions_sequence(ctx):
    """Three definitions parsed one after the other in one process: one action alone, then the same action followed by
    a second action in the same definition, then the first text again.  Each definition carries the communities
    written for IT: the set of 8-octet communities of the second is the union of the two, the third is encoded like
    the first, and the first route object still encodes as it did when it was accepted."""
    cases = _action_cases()
    i = ctx.choice('first', len(cases))
    j = ctx.choice('second', len(cases))
    (t1, w1), (t2, w2) = cases[i], cases[j]
    ctx.assume(t1.split()[0] != t2.split()[0])       # one keyword twice in a definition is not what this unit is about
    a = _parse_action(t1)
    before = bytes(a.attributes[16]._packed)
    both = _parse_action(t1 + ' ' + t2)
    c = _parse_action(t1)
    k = '%s+%s' % (t1.split()[0], t2.split()[0])
    ctx.cover(t1.split()[0])
    ctx.check('two-actions-octets', _communities(both.attributes[16]._packed) == sorted([bytes(w1), bytes(w2)]),
              sig='C16:actions:sequence:%s:both' % k, info={'text': t1 + ' ' + t2, 'got': bytes(both.attributes[16]._packed)})
    ctx.check('later-definition-octets', bytes(c.attributes[16]._packed) == bytes(w1),
              sig='C16:actions:sequence:%s:later-definition' % k, info={'first': t1 + ' ' + t2, 'then': t1, 'got': bytes(c.attributes[16]._packed), 'want': bytes(w1)})
    ctx.check('earlier-definition-unchanged', bytes(a.attributes[16]._packed) == before == bytes(w1),
              sig='C16:actions:sequence:%s:earlier-definition' % k, info={'text': t1, 'before': before, 'after': bytes(a.attributes[16]._packed)})
    return (t1, t2, bytes(both.attributes[16]._packed).hex())


# ----------------------------------------------------------------------------- actions (symbolic fields)


ACTIONS = ('rate-bytes', 'rate-packets', 'redirect-as2', 'redirect-as4', 'mark', 'traffic-action')


def h_action(ctx):
    what = ctx.pick('what', ACTIONS)
    ctx.cover(what)

    def one(c):
        single = B(ctx, c.pack_attribute(None))
        from exabgp.bgp.message.update.attribute.community.extended import ExtendedCommunities
        listed = B(ctx, ExtendedCommunities().add(c)._packed)   # what configuration.flow.parser hands to the route
        ctx.check('list-of-one', sx_eq(listed, single), sig='C16:actions:%s:community-list' % what)
        return single

    if what in ('rate-bytes', 'rate-packets'):
        asn = ctx.int('asn', 0, 65535)
        rate = ctx.pick('rate', (0.0, 9600.0, 1000000.0, 1e12))
        if what == 'rate-bytes':
            got = one(tr.TrafficRate.make_traffic_rate(ASN(asn), rate))
            want = O.action_traffic_rate_bytes(asn, _struct.pack('!f', rate))
            if rate == 0.0:
                ctx.cover('discard')
        else:
            got = one(tr.TrafficRatePackets.make_traffic_rate_packets(ASN(asn), rate))
            want = O.action_traffic_rate_packets(asn, _struct.pack('!f', rate))
    elif what == 'redirect-as2':
        asn, target = ctx.int('asn', 0, 65535), ctx.int('target', 0, 2 ** 32 - 1)
        got = one(tr.TrafficRedirect.make_traffic_redirect(ASN(asn), target))
        want = O.action_redirect_as2(asn, target)
    elif what == 'redirect-as4':
        asn, target = ctx.int('asn', 65536, 2 ** 32 - 1), ctx.int('target', 0, 65535)
        got = one(tr.TrafficRedirectASN4.make_traffic_redirect_asn4(ASN4(asn), target))
        want = O.action_redirect_as4(asn, target)
    elif what == 'mark':
        dscp = ctx.int('dscp', 0, 63)
        got = one(tr.TrafficMark.make_traffic_mark(dscp))
        want = O.action_traffic_marking(dscp)
    else:
        sample, terminal = bool(ctx.bool('sample')), bool(ctx.bool('terminal'))
        got = one(tr.TrafficAction.make_traffic_action(sample, terminal))
        want = O.action_traffic_action(int(sample), int(terminal))
        ctx.cover('sample' if sample else 'no-sample')
        ctx.cover('terminal' if terminal else 'no-terminal')
    ctx.cover('built')
    ctx.check('rfc8955-section7-octets', sx_eq(got, mk(ctx)(want)), sig='C16:actions:%s:octets' % what, info={'got': got, 'want': mk(ctx)(want)})
    return what


# ----------------------------------------------------------------------------- units

# insertion orders are deliberately not ascending
ENC_V4 = {
    'ports-proto-dst': (('destination-port', 2), ('protocol', 1), ('destination',), ('port', 1)),
    'len-src-sport': (('packet-length', 2), ('source',), ('source-port', 3)),
    'frag-tcp-icmp': (('fragment', 1), ('tcp-flags', 2), ('icmp-code', 1), ('icmp-type', 1)),
    'dscp-proto3': (('dscp', 1), ('protocol', 3)),
}
ENC_V6 = {
    'label-nh-dst': (('flow-label', 2), ('next-header', 1), ('destination',)),
    'tc-src-port': (('traffic-class', 1), ('source',), ('port', 2)),
    'frag-tcp-label1': (('fragment', 2), ('tcp-flags', 1), ('flow-label', 1), ('icmp-type', 1)),
}
SUBSET_V4 = {
    'lo': (('source-port', 1), ('destination-port', 1), ('port', 1), ('protocol', 1), ('source',), ('destination',)),
    'hi': (('fragment', 1), ('dscp', 1), ('packet-length', 1), ('tcp-flags', 1), ('icmp-code', 1), ('icmp-type', 1)),
}
SUBSET_V6 = {
    'lo': (('source-port', 1), ('destination-port', 1), ('port', 1), ('next-header', 1), ('source', ((32, 0),)), ('destination', ((61, 0),))),
    'hi': (('flow-label', 1), ('fragment', 1), ('traffic-class', 1), ('packet-length', 1), ('tcp-flags', 1), ('icmp-code', 1), ('icmp-type', 1)),
}
# every subset of all the types of a family at once (thorough): one value width per component keeps it at 2^12 / 2^13 paths,
# the width switch of each component is the business of the ENC_* and SUBSET_* units
ALL_V4 = (('fragment', 1), ('source', (17, 24)), ('dscp', 1), ('packet-length', 1, 255), ('destination', (25, 32)), ('tcp-flags', 1, 255), ('icmp-code', 1), ('icmp-type', 1),
          ('source-port', 1, 255), ('destination-port', 1, 255), ('port', 1, 255), ('protocol', 1))
ALL_V6 = (('flow-label', 1, 255), ('fragment', 1), ('source', ((32, 0),)), ('traffic-class', 1), ('packet-length', 1, 255), ('destination', ((61, 0),)), ('tcp-flags', 1, 255),
          ('icmp-code', 1), ('icmp-type', 1), ('source-port', 1, 255), ('destination-port', 1, 255), ('port', 1, 255), ('next-header', 1))


def units(tier):
    th = tier == 'thorough'
    us = []
    T = 1500 if th else 240
    base_cover = ('decoded-rule', 'invalid', 'undefined-component', 'truncated', 'missing-eol', 'bad-length', 'canonical-reencoded', 'width-1')
    for afi, name in ((V4, 'v4'), (V6, 'v6')):
        for L in ((3, 4, 5, 6) if th else (3, 4, 5)):
            cov = tuple(c for c in base_cover if not (L == 3 and c in ('width-1', 'missing-eol'))) + (('width-2', 'prefix') if L >= 5 else ())
            us.append(Unit('decode/%s/free-L%d' % (name, L), lambda ctx, a=afi, L=L: h_decode(ctx, a, False, L), must_cover=cov,
                           weight=4 ** L, max_seconds=T, max_paths=200000))
        for L in ((7, 8) if th else (6,)):
            us.append(Unit('decode/%s/exact-L%d' % (name, L), lambda ctx, a=afi, L=L: h_decode(ctx, a, False, L, exact=True),
                           must_cover=('decoded-rule', 'invalid', 'undefined-component', 'truncated', 'missing-eol', 'canonical-reencoded', 'width-1', 'prefix') +
                           {6: (), 7: ('width-2', 'width-4'), 8: ('width-2',)}[L],
                           weight=4 ** L, max_seconds=T, max_paths=400000))
        us.append(Unit('decode/vpn%s/short' % name[1], lambda ctx, a=afi: h_decode(ctx, a, True, 5), must_cover=('truncated-rd', 'bad-length'), weight=50))
        for k in ((3, 4, 5) if th else (3, 4)):
            us.append(Unit('decode/vpn%s/rd-L%d' % (name[1], 9 + k), lambda ctx, a=afi, k=k: h_decode(ctx, a, True, 9 + k, min_len=8),
                           must_cover=('decoded-rule', 'invalid', 'undefined-component', 'bad-length', 'canonical-reencoded', 'width-1'), weight=4 ** (k + 1), max_seconds=T))
    # NLRI sizes: 1 + 3*nops (+2)
    sizes = big_sizes(th)
    us.append(Unit('decode/big/lengths', lambda ctx, sizes=sizes: h_decode_big(ctx, sizes),
                   must_cover=tuple('len-%d' % (1 + 3 * nops + (2 if extra else 0)) for nops, extra in sizes), weight=3000))
    # one operator component, every operator octet / value width / end-of-list position in 5 octets
    us.append(Unit('decode/v4/port-L7', lambda ctx: h_decode(ctx, V4, False, 7, exact=True, first_type=5),
                   must_cover=('decoded-rule', 'invalid', 'truncated', 'missing-eol', 'canonical-reencoded', 'width-1', 'width-2', 'width-4'), weight=3000, max_seconds=T))
    us.append(Unit('decode/v6/label-L7', lambda ctx: h_decode(ctx, V6, False, 7, exact=True, first_type=13),
                   must_cover=('decoded-rule', 'invalid', 'truncated', 'missing-eol', 'canonical-reencoded', 'width-1', 'width-2', 'width-4'), weight=3000, max_seconds=T))
    us.append(Unit('decode/v4/port-w8', lambda ctx: h_decode(ctx, V4, False, 11, exact=True, first_type=5, first_width8=True), must_cover=('decoded-rule', 'width-8'), weight=100))
    # encode
    for name, spec in ENC_V4.items():
        us.append(Unit('encode/v4/%s' % name, lambda ctx, spec=spec: h_encode(ctx, V4, spec), must_cover=('unsorted-input', 'width-1'), weight=300, max_seconds=T))
    for name, spec in ENC_V6.items():
        us.append(Unit('encode/v6/%s' % name, lambda ctx, spec=spec: h_encode(ctx, V6, spec), must_cover=('unsorted-input', 'width-1'), weight=300, max_seconds=T))
    us.append(Unit('encode/v4/grow', lambda ctx: h_encode_grow(ctx, V4), must_cover=('term-added-after-a-serialisation', 'width-1', 'width-2'), weight=60, max_seconds=T))
    us.append(Unit('encode/v6/padding', h_encode_padding, must_cover=('unsorted-input', 'prefix'), weight=20))
    us.append(Unit('encode/vpn4/rd-ports', lambda ctx: h_encode(ctx, V4, (('destination-port', 2), ('destination',)), vpn=True), must_cover=('unsorted-input', 'width-2', 'prefix'), weight=100))
    us.append(Unit('encode/vpn6/rd-label', lambda ctx: h_encode(ctx, V6, (('flow-label', 1), ('source', ((32, 0), (128, 0)))), vpn=True), must_cover=('unsorted-input', 'width-4', 'prefix'), weight=100))
    if th:
        us.append(Unit('encode/v4/subset-all', lambda ctx: h_encode(ctx, V4, ALL_V4, presence=True), must_cover=('unsorted-input', 'width-1', 'prefix'),
                       weight=20000, max_seconds=3000, max_paths=400000))
        us.append(Unit('encode/v6/subset-all', lambda ctx: h_encode(ctx, V6, ALL_V6, presence=True), must_cover=('unsorted-input', 'width-1', 'prefix'),
                       weight=40000, max_seconds=3000, max_paths=400000))
    if True:
        for name, spec in SUBSET_V4.items():
            us.append(Unit('encode/v4/subset-%s' % name, lambda ctx, spec=spec: h_encode(ctx, V4, spec, presence=True), must_cover=('unsorted-input', 'width-1'), weight=600, max_seconds=T))
        for name, spec in SUBSET_V6.items():
            us.append(Unit('encode/v6/subset-%s' % name, lambda ctx, spec=spec: h_encode(ctx, V6, spec, presence=True), must_cover=('unsorted-input', 'width-1'), weight=600, max_seconds=T))
    us.append(Unit('encode/len/240', lambda ctx: h_encode_len(ctx, 78, 2), must_cover=('len-239', 'len-240', 'len-241'), weight=200))
    us.append(Unit('encode/len/4095', lambda ctx: h_encode_len(ctx, 1363, 2), must_cover=('len-4094', 'too-long-refused'), weight=1500))
    # text
    for afi, name in ((V4, 'v4'), (V6, 'v6')):
        us.append(Unit('text/%s/numeric' % name, lambda ctx, a=afi: h_text(ctx, a, 'numeric', 3 if th else 2),
                       must_cover=('parsed', 'bracket', 'bare', 'and', 'prefix', 'width-1', 'width-2') + tuple('spell:' + sp for sp, _ in NUM_SPELL) + tuple('comp:' + c for c in TEXT_COMPS[afi]),
                       weight=3000 if th else 500, max_seconds=T, max_paths=400000))
        us.append(Unit('text/%s/one-line' % name, lambda ctx, a=afi: h_text_one_line(ctx, a), must_cover=('parsed', 'vpn', 'plain', 'keywords-out-of-type-order'), weight=10))
        us.append(Unit('text/%s/bitmask' % name, lambda ctx, a=afi: h_text(ctx, a, 'bitmask', 3 if th else 2),
                       must_cover=('parsed', 'bracket', 'bare', 'and', 'prefix', 'width-1', 'comp:tcp-flags', 'comp:fragment') + tuple('spell:' + sp for sp, _ in BIN_SPELL),
                       weight=1000 if th else 200, max_seconds=T, max_paths=400000))
    us.append(Unit('actions/text', h_text_actions, must_cover=('discard', 'rate-limit', 'redirect', 'mark', 'action'), weight=10))
    us.append(Unit('actions/text/sequence', h_text_actions_sequence, must_cover=('discard', 'rate-limit', 'redirect', 'mark', 'action'), weight=10))
    us.append(Unit('actions/fields', h_action, must_cover=('built', 'discard', 'sample', 'terminal', 'no-sample', 'no-terminal') + ACTIONS, weight=10))
    return us
