"""C20 — healthcheck announces and withdraws with rise/fall hysteresis.

step/*  : inductive step of the real one()/trigger()/exabgp() closures (lifted from the real `loop` AST, compiled in
          the real module namespace every run): arbitrary pre-state satisfying the invariant, rise/fall/checks
          symbolic and UNBOUNDED (1..10^9), one call; invariant preserved + hysteresis ghost obligations.
bmc/*   : the real loop() itself from INIT, check() a symbolic boolean per round, disable-file state symbolic per
          round, rise/fall symbolic, debounce / withdraw-on-down symbolic; time.sleep stub ends the run with
          KeyboardInterrupt after k rounds.  A safety monitor written from the option documentation reads the
          emitted lines.
"""
from __future__ import annotations

import argparse
import ast
import inspect

from sx.run import Unit
from sx import core
from sx.core import SInt, SBool, s_and, s_or, s_not, s_implies, sx_eq

import exabgp.application.healthcheck as hc
from exabgp.application.healthcheck import States

ID = 'C20'
LEVEL = 'model_checking'
TECHNIQUE = 'symbolic execution of the real healthcheck loop()/one() (z3): inductive step unbounded in rise/fall/counter + bounded model checking of result sequences against a safety monitor'
ASSUMPTIONS = [
    'check(), os.path.exists(disable file), time.sleep, signal.signal, subprocess.call, setup_ips/remove_ips, logger, sys.stdout/stdin are stubs (module globals of exabgp.application.healthcheck)',
    'inductive invariant I: RISING => 1 <= checks < rise ; FALLING => 1 <= checks < fall (shown preserved by every step and true initially)',
    'the announced state is read back from the emitted lines through distinct per-state metrics (100/1000/500)',
]
BOUNDS = {'quick': {'step': 'rise, fall, checks in 1..10^9 symbolic; all 6 states', 'bmc': '<=5 rounds, rise/fall in 1..6 symbolic, 2 IPs'},
          'thorough': {'step': 'same', 'bmc': '<=8 rounds, rise/fall in 1..9, with disable toggles'}}
OUTSIDE = ['the check command itself, IP setup on loopback, privilege dropping, argument parsing', 'floating point intervals (sleep durations are not interpreted)']


class _Log:
    def __getattr__(self, name):
        return lambda *a, **k: None


hc.logger = _Log()
hc.setup_ips = lambda *a, **k: None
hc.remove_ips = lambda *a, **k: None


class _Stop(BaseException):
    pass


def lifted():
    """exabgp, trigger, one = the nested closures of the REAL loop(), lifted by rewriting its AST."""
    src = inspect.getsource(hc.loop)
    tree = ast.parse(src)
    fn = tree.body[0]
    keep = []
    for n in fn.body:
        if isinstance(n, ast.FunctionDef) and n.name in ('exabgp', 'trigger', 'one'):
            keep.append(n)
    assert [n.name for n in keep] == ['exabgp', 'trigger', 'one'], [n.name for n in keep]
    keep.append(ast.Return(ast.Tuple([ast.Name(n, ast.Load()) for n in ('exabgp', 'trigger', 'one')], ast.Load())))
    fn.body = keep
    fn.name = '__sx_lifted_loop__'
    ast.fix_missing_locations(tree)
    ns = hc.__dict__
    exec(compile(tree, hc.__file__, 'exec'), ns)
    return ns['__sx_lifted_loop__']


class Out:
    def __init__(self):
        self.lines = []

    def write(self, x):
        self.lines.append(x)

    def flush(self):
        pass

    def isatty(self):
        return True


def mk_options(rise, fall, debounce, wod, ips=('192.0.2.1/32', '192.0.2.2/32'), disable=None, **kw):
    o = argparse.Namespace(
        rise=rise, fall=fall, disable=disable, command='x', timeout=1, debounce=debounce, ip_dynamic=False, neighbors=None,
        ips=list(ips), withdraw_on_down=wod, next_hop=None, up_metric=100, down_metric=1000, disabled_metric=500,
        as_path=None, up_as_path=None, down_as_path=None, disabled_as_path=None, local_preference=-1, community=None,
        disabled_community=None, extended_community=None, large_community=None, path_id=None, increase=1, no_ack=True,
        ip_setup=False, execute=None, up_execute=None, down_execute=None, disabled_execute=None, fast=1, interval=5,
        ip_ifnames=[], label=None, label_exact_match=False, sudo=False)
    for k, v in kw.items():
        setattr(o, k, v)
    return o


STATES = [States.INIT, States.RISING, States.FALLING, States.UP, States.DOWN, States.DISABLED]


def h_step(ctx):
    rise = ctx.int('rise', 1, 10 ** 9)
    fall = ctx.int('fall', 1, 10 ** 9)
    checks = ctx.int('checks', 0, 10 ** 9)
    state = ctx.pick('state', STATES)
    ok = bool(ctx.bool('ok'))
    disabled = bool(ctx.bool('disabled'))
    debounce = bool(ctx.bool('debounce'))
    # representation invariant
    if state == States.RISING:
        ctx.assume(s_and(checks >= 1, checks < rise), 'I: RISING => 1 <= checks < rise')
    if state == States.FALLING:
        ctx.assume(s_and(checks >= 1, checks < fall), 'I: FALLING => 1 <= checks < fall')
    out = Out()
    hc.sys = type('S', (), {'stdout': out, 'stdin': None})
    hc.check = lambda cmd, timeout: ok
    hc.os = type('O', (), {'path': type('P', (), {'exists': staticmethod(lambda p: disabled)}), 'environ': {}, 'devnull': '/dev/null'})
    opts = mk_options(rise, fall, debounce, True, ips=('192.0.2.1/32',), disable='/x')
    exabgp, trigger, one = lifted()(opts)
    c2, s2 = one(checks, state)
    ctx.note('class', '%s->%s' % (state.value, s2.value))
    # invariant preserved
    if s2 == States.RISING:
        ctx.check('I-rising', s_and(c2 >= 1, c2 < rise), sig='C20:step:invariant-rising')
    if s2 == States.FALLING:
        ctx.check('I-falling', s_and(c2 >= 1, c2 < fall), sig='C20:step:invariant-falling')
    if disabled:
        ctx.check('disabled-wins', s2 == States.DISABLED, sig='C20:step:disable-ignored')
        return (state.value, s2.value)
    # hysteresis (ghost: under I, `checks` IS the number of consecutive equal results seen so far)
    if s2 == States.UP and state != States.UP:
        ctx.cover('to-up')
        ctx.check('up-needs-success', ok, sig='C20:step:up-on-failure')
        if state == States.RISING:
            ctx.check('up-after-rise', checks + 1 >= rise, sig='C20:step:up-before-rise')
        else:
            ctx.check('up-direct-only-if-rise<=1', rise <= 1, sig='C20:step:up-skips-rise', info={'from': state.value})
    if s2 == States.DOWN and state != States.DOWN:
        ctx.cover('to-down')
        ctx.check('down-needs-failure', not ok, sig='C20:step:down-on-success')
        if state == States.FALLING:
            ctx.check('down-after-fall', checks + 1 >= fall, sig='C20:step:down-before-fall')
        else:
            ctx.check('down-direct-only-if-fall<=1', fall <= 1, sig='C20:step:down-skips-fall', info={'from': state.value})
    # progress: the counter reaches the threshold => the switch happens now
    if state == States.RISING and ok:
        ctx.check('up-when-rise-reached', s_implies(checks + 1 >= rise, s2 == States.UP), sig='C20:step:up-missed')
        ctx.check('count-success', s_implies(checks + 1 < rise, s_and(s2 == States.RISING, sx_eq(c2, checks + 1))), sig='C20:step:miscount-rising')
    if state == States.FALLING and not ok:
        ctx.check('down-when-fall-reached', s_implies(checks + 1 >= fall, s2 == States.DOWN), sig='C20:step:down-missed')
        ctx.check('count-failure', s_implies(checks + 1 < fall, s_and(s2 == States.FALLING, sx_eq(c2, checks + 1))), sig='C20:step:miscount-falling')
    # a contrary result restarts the count at one
    if state in (States.RISING, States.UP) and not ok and s2 == States.FALLING:
        ctx.check('restart-count-falling', sx_eq(c2, 1), sig='C20:step:count-not-restarted')
    if state in (States.FALLING, States.DOWN) and ok and s2 == States.RISING:
        ctx.check('restart-count-rising', sx_eq(c2, 1), sig='C20:step:count-not-restarted')
    # announcements only for UP/DOWN/DISABLED, and with debounce only on change
    announced = len(out.lines) > 0
    if debounce and s2 == state:
        ctx.check('debounce-quiet', not announced, sig='C20:step:debounce-chatty')
    if s2 in (States.RISING, States.FALLING, States.INIT):
        ctx.check('no-line-in-transient', not announced, sig='C20:step:line-in-transient-state')
    if s2 in (States.UP, States.DOWN) and (not debounce or s2 != state):
        ctx.check('line-on-change', announced, sig='C20:step:no-line-on-change')
    return (state.value, s2.value)


def parse_line(line):
    """'peer * announce route X next-hop self med M' -> (action, ip, metric|None)"""
    assert line.endswith('\n') and line.count('\n') == 1, line
    toks = line.split()
    i = toks.index('route')
    action = toks[i - 1]
    ip = toks[i + 1]
    med = int(toks[toks.index('med') + 1]) if 'med' in toks else None
    return action, ip, med


def h_bmc(ctx, rounds, maxn, with_disable):
    rise = ctx.int('rise', 1, maxn)
    fall = ctx.int('fall', 1, maxn)
    debounce = bool(ctx.bool('debounce'))
    wod = bool(ctx.bool('withdraw_on_down'))
    ips = ('192.0.2.1/32', '192.0.2.2/32')
    out = Out()
    hist = []   # per round: (disabled, ok)
    marks = []  # len(out.lines) after each round
    rnd = [0]

    def check(cmd, timeout):
        ok = bool(ctx.bool('ok%d' % rnd[0]))
        hist[-1][1] = ok
        return ok

    def exists(p):
        d = bool(ctx.bool('dis%d' % rnd[0])) if with_disable else False
        hist.append([d, None])
        return d

    def sleep(t):
        marks.append(len(out.lines))
        rnd[0] += 1
        if rnd[0] >= rounds:
            raise KeyboardInterrupt()

    hc.sys = type('S', (), {'stdout': out, 'stdin': None, 'exit': staticmethod(lambda c=0: None)})
    hc.check = check
    hc.os = type('O', (), {'path': type('P', (), {'exists': staticmethod(exists)}), 'environ': {}, 'devnull': '/dev/null'})
    hc.time = type('T', (), {'sleep': staticmethod(sleep)})
    hc.signal = type('G', (), {'signal': staticmethod(lambda *a: None), 'SIGTERM': 15})
    opts = mk_options(rise, fall, debounce, wod, ips=ips, disable='/x')
    hc.loop(opts)
    # ---- monitor
    lines = out.lines
    ctx.check('rounds-ran', len(marks) == rounds, sig='C20:bmc:loop-ended-early')
    exit_lines = lines[marks[-1]:] if marks else lines
    # exit: one withdraw per ip, nothing else
    parsed_exit = [parse_line(x) for x in exit_lines]
    ctx.check('withdraw-on-exit', [p[0] for p in parsed_exit] == ['withdraw'] * len(ips) and [p[1] for p in parsed_exit] == list(ips),
              sig='C20:bmc:no-withdraw-on-exit', info={'exit_lines': exit_lines})
    announced = None  # 'UP' | 'DOWN' | 'DISABLED' as last told to ExaBGP
    cs = cf = 0
    start = 0
    for i in range(rounds):
        dis, ok = hist[i]
        new = lines[start:marks[i]]
        start = marks[i]
        if dis:
            cs = cf = 0
        elif ok:
            cs, cf = cs + 1, 0
        else:
            cs, cf = 0, cf + 1
        told = None
        if new:
            ps = [parse_line(x) for x in new]
            ctx.check('one-line-per-ip', [p[1] for p in ps] == list(ips), sig='C20:bmc:lines-per-ip', info={'lines': new})
            a, _, med = ps[0]
            if a == 'announce':
                told = {100: 'UP', 1000: 'DOWN', 500: 'DISABLED'}.get(med)
                ctx.check('known-metric', told is not None, sig='C20:bmc:unknown-metric', info={'line': new[0]})
                ctx.check('metric-increase', [p[2] for p in ps] == [med + k for k in range(len(ips))], sig='C20:bmc:metric-increase', info={'lines': new})
                if wod:
                    ctx.check('withdraw-on-down-honoured', told == 'UP', sig='C20:bmc:announce-while-down-with-withdraw-on-down', info={'line': new[0]})
            else:
                ctx.check('withdraw-only-with-option', wod, sig='C20:bmc:withdraw-without-option', info={'line': new[0]})
                told = 'NOTUP'
        if told is not None:
            is_up = told == 'UP'
            was_up = announced == 'UP'
            if is_up and not was_up:
                ctx.cover('went-up')
                ctx.check('up-only-after-rise', s_and(not dis, cs >= rise), sig='C20:bmc:up-before-rise', info={'round': i, 'hist': hist[:i + 1]})
            if told in ('DOWN', 'NOTUP') and not dis and announced not in ('DOWN', 'NOTUP', 'DISABLED'):
                ctx.cover('went-down')
                ctx.check('down-only-after-fall', cf >= fall, sig='C20:bmc:down-before-fall', info={'round': i, 'hist': hist[:i + 1]})
            if told in ('DOWN', 'NOTUP') and not dis and announced == 'DISABLED' and told == 'DOWN':
                ctx.check('down-only-after-fall', cf >= fall, sig='C20:bmc:down-before-fall', info={'round': i, 'hist': hist[:i + 1]})
            if told == 'DISABLED':
                ctx.check('disabled-only-when-disabled', dis, sig='C20:bmc:disabled-without-file')
            announced = told
        elif not debounce:
            # without debounce every round in a stable state re-announces
            pass
        # progress: rise+1 consecutive successes (one round may be spent leaving DISABLED/INIT) => told UP by now
        if not dis:
            ctx.check('up-after-enough-successes', s_implies(cs >= rise + 1, announced == 'UP'), sig='C20:bmc:never-up', info={'round': i, 'hist': hist[:i + 1]})
            ctx.check('down-after-enough-failures', s_implies(cf >= fall + 1, announced in ('DOWN', 'NOTUP')), sig='C20:bmc:never-down', info={'round': i, 'hist': hist[:i + 1]})
    return (len(lines), announced)


# ----------------------------------------------------------------------------- the lines are the commands the options ask for


def h_lines(ctx, target, full):
    """The real exabgp(target) closure for every state it announces, every combination of the attribute options being set or
    not (solver-chosen), two IPs.  Each line written is (1) compared with the command the option documentation calls for in that
    state and (2) handed to the real route parser (the one the API uses): it must parse and carry the configured metric,
    local-preference, communities, as-path and next hop of THAT state."""
    wod = bool(ctx.bool('withdraw_on_down'))
    kw = {}
    extras = None if full else bool(ctx.bool('other-options'))   # quick tier: the options without state logic are set together

    def opt(name):
        return bool(ctx.bool(name)) if extras is None else extras
    if bool(ctx.bool('community')):
        kw['community'] = '65000:1 65000:2'
    if bool(ctx.bool('disabled_community')):
        kw['disabled_community'] = '65000:666'
    if opt('extended_community'):
        kw['extended_community'] = 'target:65000:100'
    if opt('large_community'):
        kw['large_community'] = '65000:1:2'
    if bool(ctx.bool('as_path')):
        kw['as_path'] = '65000 65001'
    if bool(ctx.bool('state_as_path')):
        kw['up_as_path'], kw['down_as_path'], kw['disabled_as_path'] = '65010', '65020 65020', '65030 65030 65030'
    if opt('local_preference'):
        kw['local_preference'] = 200
    if opt('next_hop'):
        kw['next_hop'] = '192.0.2.254'
    if opt('path_id'):
        kw['path_id'] = 7
    if opt('neighbors'):
        kw['neighbors'] = ['192.0.2.10', '192.0.2.11']
    ips = ('192.0.2.1/32', '192.0.2.2/32')
    out = Out()
    hc.sys = type('S', (), {'stdout': out, 'stdin': None})
    opts = mk_options(2, 2, False, wod, ips=ips, disable='/x', increase=3, **kw)
    exabgp, trigger, one = lifted()(opts)
    exabgp(target)
    lines = out.lines
    info = {'target': target.value, 'options': dict(kw, withdraw_on_down=wod), 'lines': lines}
    ctx.check('one-line-per-ip', len(lines) == len(ips), sig='C20:lines:count', info=info)
    name = target.value.lower()
    base = {'up': 100, 'down': 1000, 'disabled': 500}.get(name, 0)
    announce = target is States.UP or (not wod and target is not States.EXIT)
    for i, line in enumerate(lines[:len(ips)]):
        want = 'peer 192.0.2.10, peer 192.0.2.11' if 'neighbors' in kw else 'peer *'
        want += ' announce' if announce else ' withdraw'
        want += ' route %s next-hop %s' % (ips[i], kw.get('next_hop', 'self'))
        community = None
        as_path = None
        if announce:
            want += ' med %d' % (base + 3 * i)
            if 'local_preference' in kw:
                want += ' local-preference 200'
            community = kw.get('community')
            if target in (States.DOWN, States.DISABLED) and 'disabled_community' in kw:
                community = kw['disabled_community']      # --disabled-community: "announce IPs with the supplied community when disabled"
            if community:
                want += ' community [ %s ]' % community
            if 'extended_community' in kw:
                want += ' extended-community [ target:65000:100 ]'
            if 'large_community' in kw:
                want += ' large-community [ 65000:1:2 ]'
            as_path = kw.get(name + '_as_path') or kw.get('as_path')
            if as_path:
                want += ' as-path [ %s ]' % as_path
        if 'path_id' in kw:
            want += ' path-information 7'
        ctx.check('line-is-the-documented-command', line == want + '\n', sig='C20:lines:%s:not-the-command-the-options-ask-for' % name,
                  info=dict(info, got=line, want=want + '\n'))
        # (2) the real parser of API route commands accepts it and yields those values
        def parsed(line=line, i=i, community=community, as_path=as_path):
            from exabgp.configuration.configuration import Configuration
            text = line.strip()
            text = text[text.index(' route ') + 1:]
            cfg = Configuration([])
            routes = cfg.parse_route_text(text, 'announce' if announce else 'withdraw')
            if len(routes) != 1:
                return False
            r = routes[0]
            a = r.attributes
            ok = str(r.nlri).startswith(ips[i].split('/')[0])
            if announce:
                ok = ok and ' med %d' % (base + 3 * i) in str(a)
                ok = ok and (('local-preference 200' in str(a)) == ('local_preference' in kw))
                if community:
                    ok = ok and all(c in str(a) for c in community.split())
                if as_path:
                    ok = ok and all(x in str(a) for x in as_path.split())
            return ok
        ctx.witness_check('line-parses-to-the-configured-route', parsed, sig='C20:lines:%s:route-parser-disagrees' % name)
    ctx.cover('lines-' + name)
    if 'disabled_community' in kw and 'community' not in kw and target in (States.DOWN, States.DISABLED) and announce:
        ctx.cover('disabled-community-alone')
    return [name, sorted(kw), wod, len(lines)]


def units(tier):
    th = tier == 'thorough'
    us = [Unit('step/one', h_step, must_cover=('to-up', 'to-down')),
          ]
    for target in (States.UP, States.DOWN, States.DISABLED, States.EXIT):
        cov = ('lines-' + target.value.lower(),) + (('disabled-community-alone',) if target in (States.DOWN, States.DISABLED) else ())
        us.append(Unit('lines/%s' % target.value.lower(), lambda ctx, t=target: h_lines(ctx, t, th), must_cover=cov, weight=30 if th else 5, max_seconds=900))
    if th:
        us.append(Unit('bmc/r8', lambda ctx: h_bmc(ctx, 8, 9, False), must_cover=('went-up', 'went-down'), weight=50, max_seconds=1500, max_paths=400000))
        us.append(Unit('bmc/r6-disable', lambda ctx: h_bmc(ctx, 6, 4, True), must_cover=('went-up', 'went-down'), weight=40, max_seconds=1500, max_paths=400000))
        us.append(Unit('bmc/r5', lambda ctx: h_bmc(ctx, 5, 6, False), must_cover=('went-up', 'went-down'), weight=10))
    else:
        us.append(Unit('bmc/r5', lambda ctx: h_bmc(ctx, 5, 6, False), must_cover=('went-up', 'went-down'), weight=10))
        us.append(Unit('bmc/r4-disable', lambda ctx: h_bmc(ctx, 4, 3, True), must_cover=('went-up', 'went-down'), weight=10))
    return us
