"""C17 obligation (b) — "a reload that fails for any reason leaves neighbors, routes and sessions exactly as they were
and the API keeps working", and the whole reload path end to end (real text -> real Configuration.reload ->
real Reactor.reload -> real Peer.reconfigure/reestablish -> real OutgoingRIB) over histories of loads.

Nothing here is a model of the reload: a real `Configuration` object parses real configuration text, the real
`Reactor.reload` function runs on an object carrying exactly the four attributes it touches (configuration, _peers,
_ips, listener), the peers are the minimal real `Peer` objects of obligation (a), and every neighbor's Adj-RIB-Out is
the RIB the parser itself attached (shared between successive loads through RIB._cache, as in the running program).

What the solver chooses (every alternative is a fork, so the exploration is exhaustive within the bound):
  fault/text      the POSITION (every line boundary of the new file) and the KIND of a defect in the new configuration:
                  an unknown keyword, a malformed value, the file cut short, a neighbor whose mandatory statement is
                  missing, a neighbor defined twice
  fault/exception the index i of the call to Section.parse (the value-parser dispatch) that raises, and the exception type
                  (KeyError, IndexError, TypeError, OSError: a parser crashing on odd input; ValueError raised outside the
                  conversion)
  fault/file      the configuration file vanished / became a directory when the reload signal arrives
  seq/*           histories of <= 3 steps over {API announce, API withdraw, failed reload, reload to configuration A, B, C
                  (C changes the session parameters of one neighbor -> reestablish)}
Per path, after a FAILED reload:  Reactor.reload returned False; configuration.neighbors holds the very same Neighbor
objects; no peer was told to reconfigure/reestablish/stop; nothing became pending in any Adj-RIB-Out and the drained
peer table and cached_routes() are what they were; an API announce through the real Configuration.announce_route still
reaches the peer.  After the LAST step of a history: every peer table == routes of the last successfully loaded
configuration + API routes still valid == cached_routes().
"""
from __future__ import annotations

import os
import shutil
import tempfile
from types import SimpleNamespace

from kits import rib as K
from kits.rib import PeerTable, Table, Sender, cached_table, diff, StaleWatch

import exabgp.rib as ribpkg
import exabgp.reactor.loop as loopmod
from exabgp.reactor.loop import Reactor
from exabgp.reactor.api import API
from exabgp.bgp.fsm import FSM
from exabgp.configuration.configuration import Configuration
import exabgp.configuration.configuration as cfgmod
from exabgp.configuration.core.section import Section


class _Log:
    def __getattr__(self, name):
        return lambda *a, **k: None


for _m in (loopmod, cfgmod):
    _m.log = _Log()
    _m.lazymsg = lambda *a, **k: None

N2 = '127.0.0.2'
N3 = '127.0.0.3'


def _neighbor(ip, routes, hold=180, extra=()):
    lines = ['neighbor %s {' % ip, ' router-id 1.2.3.4;', ' local-address 127.0.0.1;', ' local-as 65000;', ' peer-as 65001;',
             ' hold-time %d;' % hold]
    lines += [' ' + e for e in extra]
    lines += [' static {'] + ['  route %s;' % r for r in routes] + [' }', '}']
    return lines


# three configurations of the same two neighbors
CONF = {
    'A': _neighbor(N2, ['10.0.0.0/24 next-hop 1.1.1.1 med 10', '10.0.5.0/24 next-hop 1.1.1.1'])
         + _neighbor(N3, ['10.1.0.0/24 next-hop 1.1.1.1']),
    # 10.0.0.0/24 changes its MED, 10.0.5.0/24 is removed, 10.0.9.0/24 and 10.1.1.0/24 are new
    'B': _neighbor(N2, ['10.0.0.0/24 next-hop 1.1.1.1 med 20', '10.0.9.0/24 next-hop 1.1.1.1'])
         + _neighbor(N3, ['10.1.0.0/24 next-hop 1.1.1.1', '10.1.1.0/24 next-hop 2.2.2.2']),
    # the session parameters of the first neighbor change (reestablish), its next hop changes, second neighbor as in A
    'C': _neighbor(N2, ['10.0.0.0/24 next-hop 3.3.3.3 med 10', '10.0.7.0/24 next-hop 1.1.1.1'], hold=90)
         + _neighbor(N3, ['10.1.0.0/24 next-hop 1.1.1.1']),
}
# every file defines the API process the neighbors talk to (Configuration.processes is what the main loop hands to
# Processes.start() after EVERY reload: a process missing from it is terminated)
PROC = ['process svc {', ' run /bin/cat;', ' encoder text;', '}']
for _k in list(CONF):
    CONF[_k] = PROC + CONF[_k]
# D: the second neighbor leaves the configuration.  (Coming back to A or B re-adds it: a new Peer, a new session, and only
# the routes of that file - whatever an earlier incarnation of the neighbor had in its Adj-RIB-Out.)
CONF['D'] = PROC + _neighbor(N2, ['10.0.0.0/24 next-hop 1.1.1.1 med 10', '10.0.5.0/24 next-hop 1.1.1.1'])
API_ROUTE = 'route 10.7.0.0/24 next-hop 1.1.1.1 med 77'   # a prefix no configuration uses


def text_of(lines):
    return '\n'.join(lines) + '\n'


def depths(lines):
    """brace depth in front of every line boundary 0..len(lines)"""
    d = [0]
    for ln in lines:
        d.append(d[-1] + ln.count('{') - ln.count('}'))
    return d


FAULT_KINDS = ('unknown-keyword', 'bad-value', 'cut-short', 'missing-mandatory', 'duplicate-neighbor', 'semantic')


def faulty(lines, kind, j):
    """The new file with one defect; None when (kind, j) is not a defect of that kind."""
    d = depths(lines)
    if kind == 'unknown-keyword':
        return lines[:j] + ['bogus-keyword 1;'] + lines[j:]
    if kind == 'bad-value':
        if d[j] == 2:
            return lines[:j] + ['  route 10.0.99.0/24 next-hop bogus;'] + lines[j:]
        if d[j] == 1 and j > 0 and not lines[j - 1].rstrip().endswith('}'):
            return lines[:j] + [' hold-time abc;'] + lines[j:]
        return None
    if kind == 'cut-short':
        return lines[:j] if d[j] > 0 else None
    if kind == 'missing-mandatory':
        if j < len(lines) and lines[j].strip().startswith('peer-as'):
            return lines[:j] + lines[j + 1:]
        return None
    if kind == 'semantic':
        # the file parses; it names an API process nobody defines (Configuration.validate()).  Whether such a file is
        # refused is ExaBGP's choice - but a reload it reports as failed must not have been applied
        if j < len(lines) and lines[j].strip() == 'static {':
            return lines[:j] + [' api {', '  processes [ nosuch ];', ' }'] + lines[j:]
        return None
    if kind == 'duplicate-neighbor':
        if j == len(lines):
            return lines + _neighbor(N3, ['10.1.0.0/24 next-hop 1.1.1.1'])
        return None
    raise AssertionError(kind)


# ----------------------------------------------------------------------------- the running program, reduced


class _Listener:
    def listen_on(self, *a, **k):
        return True


REMOVED = []


def mk_peer(neighbor, reactor=None):
    from checks.c17 import mk_peer as _mk
    p = _mk(neighbor, True)
    p.stats = {}

    def remove():
        # Peer.remove() = _stop() (closes the transport: none here) + the REAL Peer.stop(): timers, FSM to IDLE and
        # neighbor.rib.uncache().  The reactor's main loop then deletes the finished peer (World.after_good_reload).
        from exabgp.reactor.peer.peer import Peer
        Peer.stop(p)
        REMOVED.append(p)
    p.remove = remove
    return p


class World:
    """configuration + Reactor-shaped object + per-neighbor session (peer table, sender)."""

    def __init__(self, first, file_based=False):
        ribpkg.RIB._cache.clear()
        self.tmp = None
        if file_based:
            self.tmp = tempfile.mkdtemp(prefix='c17b.')
            self.path = os.path.join(self.tmp, 'exabgp.conf')
            with open(self.path, 'w') as f:
                f.write(text_of(CONF[first]))
            self.cfg = Configuration([self.path])
        else:
            self.cfg = Configuration([text_of(CONF[first])], text=True)
        self.reactor = SimpleNamespace(configuration=self.cfg, _peers={}, _ips=[], listener=_Listener(), _port=179)
        self.api = API(SimpleNamespace())       # the API keeps its own parsing Configuration, as in the program
        self.tables = {}
        self.senders = {}
        self.ghost = {}                          # intended table per neighbor key
        self.api_live = {}                       # key -> list of API routes currently announced
        self.loaded = None
        self.down = False
        self.watch = {}
        self.orphans = []                        # configured neighbors no Peer exists for (after the reactor reaped finished peers)

    def close(self):
        if self.tmp:
            shutil.rmtree(self.tmp, ignore_errors=True)

    # -- loading

    def set_source(self, lines):
        if self.tmp:
            with open(self.path, 'w') as f:
                f.write(text_of(lines))
        else:
            self.cfg._configurations = [text_of(lines)]

    def reload(self):
        return Reactor.reload(self.reactor)

    def after_good_reload(self, name):
        """what the peers' coroutines do next with what Reactor.reload handed them"""
        from checks.c17 import main_loop_top, main_session_start, session_lost
        for key in [k for k, p in self.reactor._peers.items() if p in REMOVED and not p._restart]:
            # Reactor._async_main_loop: "Remove completed peers" - the session of a neighbor which left the configuration ends
            del self.reactor._peers[key]
            for table in (self.tables, self.senders, self.ghost, self.api_live, self.watch):
                table.pop(key, None)
        for key, peer in self.reactor._peers.items():
            if key not in self.tables:
                self.tables[key] = PeerTable()
                self.senders[key] = Sender(peer.neighbor.rib.outgoing, self.tables[key], False)
                # diagnosis only (root cause in the signature): in which RIB primitive a superseded pending entry was left (F2 = _update_rib)
                self.watch[key] = StaleWatch(peer.neighbor.rib.outgoing)
                self.ghost[key] = Table()
                self.api_live[key] = []
                main_session_start(peer)                      # first session
            elif self.down and peer.fsm.state != FSM.ESTABLISHED:
                # still unreachable: one more failed connection attempt (Peer._reset takes the waiting neighbor)
                session_lost(peer, self.senders[key], self.tables[key])
                peer._teardown = None
                peer._restarted = False
            elif peer._teardown is not None and peer._restarted:
                session_lost(peer, self.senders[key], self.tables[key])   # reestablish: teardown -> _reset
                peer._teardown = None
                peer._restarted = False
                peer.fsm.state = FSM.ESTABLISHED
                main_session_start(peer)
            else:
                main_loop_top(peer)
        self.loaded = name
        self.orphans = [key for key in self.cfg.neighbors if key not in self.reactor._peers]
        for key, nb in self.cfg.neighbors.items():
            if key in self.orphans:
                continue
            g = Table()
            for r in nb.routes:
                g.set_route(r)
            for r in self.api_live[key]:
                if g.get(r.nlri.index()) is None:
                    g.set_route(r)
            self.ghost[key] = g

    def drain(self):
        if self.down:
            return
        for key, tx in self.senders.items():
            tx.send(None)

    def go_down(self):
        """every session is lost and the peers sit in their connect back-off (Peer._reset, FSM IDLE)"""
        from checks.c17 import session_lost
        for key, peer in self.reactor._peers.items():
            session_lost(peer, self.senders[key], self.tables[key])
        self.down = True

    def come_up(self):
        """the sessions establish again: Peer._main, 'Initialize RIB with previous routes'"""
        from checks.c17 import main_session_start
        for key, peer in self.reactor._peers.items():
            if peer.fsm.state != FSM.ESTABLISHED:
                peer._teardown = None
                peer._restarted = False
                peer.fsm.state = FSM.ESTABLISHED
                main_session_start(peer)
        self.down = False

    # -- API

    def api_command(self, action):
        routes = self.api.api_route(API_ROUTE, action)
        if not routes:
            return False
        done = False
        for route in routes:
            peers = list(self.reactor._peers)
            if action == 'announce':
                done = self.cfg.announce_route(peers, route) or done
            else:
                done = self.cfg.withdraw_route(peers, route) or done
        if done:
            for key in self.reactor._peers:
                nb = self.reactor._peers[key].neighbor
                for route in routes:
                    r = nb.resolve_self(route)
                    self.api_live[key] = [x for x in self.api_live[key] if bytes(x.nlri.index()) != bytes(r.nlri.index())]
                    if action == 'announce':
                        self.api_live[key].append(r)
                        self.ghost[key].set_route(r)
                    else:
                        self.ghost[key].delete(r.nlri.index())
        return done

    # -- observation

    def snapshot(self):
        return {
            'neighbors': dict(self.cfg.neighbors),
            'processes': {k: dict(v) for k, v in self.cfg.processes.items()},
            'peers': {k: (p, p.neighbor, p._neighbor, p._teardown, p._restart) for k, p in self.reactor._peers.items()},
            'pending': {k: p.neighbor.rib.outgoing.pending() for k, p in self.reactor._peers.items()},
            'tables': {k: list(t.rows) for k, t in self.tables.items()},
            'cached': {k: sorted(map(repr, cached_table(p.neighbor.rib.outgoing).render())) for k, p in self.reactor._peers.items()},
        }


def short(key):
    return N2 if N2 in key else N3 if N3 in key else key


def check_unchanged(ctx, w, before, how, info):
    """obligations after a failed reload"""
    cfg = w.cfg
    now = cfg.neighbors
    if not now and before['neighbors']:
        state = 'emptied'
    elif set(now) != set(before['neighbors']):
        state = 'keys-differ'
    elif any(now[k] is not before['neighbors'][k] for k in now):
        state = 'objects-replaced'
    else:
        state = None
    ctx.check('neighbors-as-before', state is None, sig='C17:fault:%s:configuration.neighbors-%s' % (how, state), info=info)
    # Reactor._async_main_loop: self.reload(); self.processes.start(self.configuration.processes) - whatever reload() answered
    procs = {k: dict(v) for k, v in cfg.processes.items()}
    gone = sorted(set(before['processes']) - set(procs))
    ctx.check('api-processes-as-before', procs == before['processes'],
              sig='C17:fault:%s:api-processes-%s' % (how, 'terminated' if gone else 'changed'),
              info=dict(info, processes_before=sorted(before['processes']), processes_after=sorted(procs), terminated_by_the_main_loop=gone))
    touched = []
    for k, p in w.reactor._peers.items():
        b = before['peers'].get(k)
        if b is None or (p, p.neighbor, p._neighbor, p._teardown, p._restart) != b:
            touched.append(short(k))
    ctx.check('sessions-as-before', not touched and set(w.reactor._peers) == set(before['peers']),
              sig='C17:fault:%s:session-touched' % how, info=dict(info, peers=touched))
    leaked = [short(k) for k, p in w.reactor._peers.items() if p.neighbor.rib.outgoing.pending() and not before['pending'][k]]
    w.drain()
    changed = [short(k) for k, t in w.tables.items() if list(t.rows) != before['tables'][k]]
    cached = [short(k) for k, p in w.reactor._peers.items()
              if sorted(map(repr, cached_table(p.neighbor.rib.outgoing).render())) != before['cached'][k]]
    ctx.check('adj-rib-out-as-before', not leaked and not changed and not cached,
              sig='C17:fault:%s:new-routes-leak-into-adj-rib-out' % how,
              info=dict(info, pending=leaked, peer_table_changed=changed, cached_changed=cached,
                        peer={short(k): t.render() for k, t in w.tables.items()}))


def check_api_alive(ctx, w, how, info):
    ok = w.api_command('announce')
    w.drain()
    missing = [short(k) for k, t in w.tables.items() if not any(bytes(r[0]) == bytes(x.nlri.index()) for r in t.rows for x in w.api_live[k])]
    ctx.check('api-keeps-working', bool(ok) and not missing, sig='C17:fault:%s:api-announce-lost-after-failed-reload' % how,
              info=dict(info, announce_route_returned=bool(ok), peers_without_the_route=missing))


def check_final(ctx, w, how, info):
    w.drain()
    ctx.check('every-configured-neighbor-has-a-session', not w.orphans, sig='C17:%s:configured-neighbor-without-a-peer' % how,
              info=dict(info, neighbors_without_peer=[short(k) for k in w.orphans]))
    base = how
    for key, t in w.tables.items():
        peer = w.reactor._peers[key]
        cached = cached_table(peer.neighbor.rib.outgoing)
        how = w.watch[key].cause(w.senders[key].stale_seen, base) if key in w.watch else base
        d = diff(t, w.ghost[key])
        i = dict(info, neighbor=short(key), peer=t.render(), expected=w.ghost[key].render(), adj_rib_out=cached.render())
        ctx.check('removed-routes-withdrawn', not [x for x in d if x[0] == 'extra'], sig='C17:%s:stale-route-at-peer' % how, info=i)
        ctx.check('changed-routes-reannounced', not [x for x in d if x[0] == 'differs'], sig='C17:%s:route-with-old-values-at-peer' % how, info=i)
        ctx.check('new-routes-announced', not [x for x in d if x[0] == 'missing'], sig='C17:%s:route-missing-at-peer' % how, info=i)
        ctx.check('peer-equals-adj-rib-out', not diff(t, cached) and not diff(cached, t), sig='C17:%s:peer-differs-from-adj-rib-out' % how, info=i)
        ctx.check('configuration-lists-the-neighbor', key in w.cfg.neighbors and w.cfg.neighbors[key] is peer.neighbor,
                  sig='C17:%s:peer-neighbor-is-not-the-configured-one' % how, info=i)


def start(ctx, first='A', file_based=False):
    w = World(first, file_based)
    loopmod.Peer = mk_peer
    ok = w.reload()
    if ok is not True:
        w.close()
        raise RuntimeError('initial configuration refused: %s' % (w.cfg.error,))
    w.after_good_reload(first)
    w.drain()
    return w


# ----------------------------------------------------------------------------- harnesses


def guarded(fn):
    def run(ctx, *a, **k):
        w = []
        try:
            return fn(ctx, w, *a, **k)
        except Exception as exc:   # Reactor.reload must not raise either: report it with the call site
            ctx.check('reload-does-not-raise', False, sig='C17:fault:exception-escapes-reload:%s' % type(exc).__name__,
                      info={'exception': repr(exc)})
            return ['exception', type(exc).__name__]
        finally:
            for x in w:
                x.close()
    return run


@guarded
def h_fault_text(ctx, keep, new_name):
    new = CONF[new_name]
    kind = ctx.pick('fault.kind', FAULT_KINDS)
    j = ctx.choice('fault.line', len(new) + 1)
    bad = faulty(new, kind, j)
    ctx.assume(bad is not None, 'the (kind, position) pair denotes a defect of that kind')
    w = start(ctx)
    keep.append(w)
    with_api = bool(ctx.bool('api-route-present'))
    if with_api:
        w.api_command('announce')
        w.drain()
    before = w.snapshot()
    w.set_source(bad)
    r = w.reload()
    info = {'kind': kind, 'before-line': j, 'text': text_of(bad), 'error': str(w.cfg.error)[:200]}
    if kind == 'semantic' and r is True:
        ctx.cover('refused:semantic')   # accepted: then it is a successful reload of that file ...
        ctx.cover('semantic-accepted')
        # ... and a successful reload has no complaint about the file: ExaBGP's own validation found the file wrong (error set) and
        # loaded it all the same - a verdict computed and dropped
        ctx.check('accepted-means-no-error', not str(w.cfg.error).strip(), sig='C17:fault:text:semantic:reload-reported-success-with-an-error-set',
                  info=dict(info, error=str(w.cfg.error)[:300]))
        return ['accepted', kind, j]
    if kind == 'cut-short' and r is True:
        # ExaBGP accepts some truncated files (an unterminated block is dropped silently): then this was a successful
        # reload of another configuration, which the property does not forbid; nothing to check on this path
        ctx.cover('cut-short-accepted')
        return ['accepted', kind, j]
    ctx.check('defective-file-is-refused', r is False, sig='C17:fault:text:%s:reload-reported-success' % kind, info=info)
    if r is not False:
        return ['accepted', kind, j]
    ctx.cover('refused:%s' % kind)
    if j > new.index('}', len(PROC)) + 1:
        ctx.cover('defect-after-a-complete-neighbor')
    if j < len(PROC):
        ctx.cover('defect-before-the-process-section-ends')
    check_unchanged(ctx, w, before, 'text', info)
    if not with_api:
        check_api_alive(ctx, w, 'text', info)
    # the operator repairs the file: the next reload must apply the whole difference
    w.set_source(new)
    r2 = w.reload()
    ctx.check('repaired-file-loads', r2 is True, sig='C17:fault:text:repaired-file-refused', info=info)
    if r2 is True:
        w.after_good_reload(new_name)
        check_final(ctx, w, 'after-failed-reload', info)
    return ['refused', kind, j, with_api]


_CALLS = {}


def parse_calls(name):
    """number of Section.parse calls a load of CONF[name] makes (dry run on a scratch Configuration)"""
    if name not in _CALLS:
        count = [0]
        real = Section.parse

        def counting(self, *a, **k):
            count[0] += 1
            return real(self, *a, **k)
        Section.parse = counting
        try:
            saved = dict(ribpkg.RIB._cache)
            ribpkg.RIB._cache.clear()      # the dry run must not meet (and share) the RIBs of the world under test
            cfg = Configuration([text_of(CONF[name])], text=True)
            assert cfg.reload() is True
            ribpkg.RIB._cache.clear()
            ribpkg.RIB._cache.update(saved)
        finally:
            Section.parse = real
        _CALLS[name] = count[0]
    return _CALLS[name]


EXC = {'KeyError': KeyError, 'IndexError': IndexError, 'TypeError': TypeError, 'OSError': OSError, 'ValueError': ValueError}


@guarded
def h_fault_exception(ctx, keep, new_name):
    n = parse_calls(new_name)
    exc_name = ctx.pick('fault.exception', tuple(EXC))
    i = ctx.choice('fault.call', n)
    w = start(ctx)
    keep.append(w)
    before = w.snapshot()
    w.set_source(CONF[new_name])
    real = Section.parse
    count = [0]

    def failing(self, *a, **k):
        count[0] += 1
        if count[0] == i + 1:
            raise EXC[exc_name]('injected fault in value parser call %d' % i)
        return real(self, *a, **k)
    Section.parse = failing
    try:
        r = w.reload()
    finally:
        Section.parse = real
    info = {'exception': exc_name, 'call': i, 'of': n, 'error': str(w.cfg.error)[:200]}
    ctx.check('crashing-parser-fails-the-reload', r is False, sig='C17:fault:exception:reload-reported-success', info=info)
    if r is not False:
        return ['accepted', exc_name, i]
    ctx.cover('refused')
    check_unchanged(ctx, w, before, 'exception', info)
    check_api_alive(ctx, w, 'exception', info)
    w.set_source(CONF[new_name])
    r2 = w.reload()
    ctx.check('next-reload-works', r2 is True, sig='C17:fault:exception:next-reload-refused', info=info)
    if r2 is True:
        w.after_good_reload(new_name)
        check_final(ctx, w, 'after-failed-reload', info)
    return ['refused', exc_name, i]


@guarded
def h_fault_file(ctx, keep, new_name):
    how = ctx.pick('fault.file', ('removed', 'directory', 'dangling-symlink'))
    w = start(ctx, file_based=True)
    keep.append(w)
    before = w.snapshot()
    os.unlink(w.path)
    if how == 'directory':
        os.mkdir(w.path)
    elif how == 'dangling-symlink':
        os.symlink(os.path.join(w.tmp, 'nowhere'), w.path)
    r = w.reload()
    info = {'file': how}
    ctx.check('missing-file-fails-the-reload', r is False, sig='C17:fault:file:reload-reported-success', info=info)
    ctx.cover('refused:%s' % how)
    check_unchanged(ctx, w, before, 'file', info)
    check_api_alive(ctx, w, 'file', info)
    if how == 'directory':
        os.rmdir(w.path)
    elif how == 'dangling-symlink':
        os.unlink(w.path)
    w.set_source(CONF[new_name])
    r2 = w.reload()
    ctx.check('restored-file-loads', r2 is True, sig='C17:fault:file:restored-file-refused', info=info)
    if r2 is True:
        w.after_good_reload(new_name)
        check_final(ctx, w, 'after-failed-reload', info)
    return ['refused', how]


STEPS = ('api-announce', 'api-withdraw', 'reload-A', 'reload-B', 'reload-C', 'reload-D', 'reload-bad-early', 'reload-bad-late', 'reload-crash')


@guarded
def h_seq(ctx, keep, n, prefix=()):
    w = start(ctx)
    keep.append(w)
    trail = []
    for s in range(n):
        step = prefix[s] if s < len(prefix) else ctx.pick('step%d' % s, STEPS)
        trail.append(step)
        info = {'history': list(trail)}
        if step == 'api-announce':
            w.api_command('announce')
        elif step == 'api-withdraw':
            w.api_command('withdraw')
        elif step in ('reload-A', 'reload-B', 'reload-C', 'reload-D'):
            name = step[-1]
            w.set_source(CONF[name])
            r = w.reload()
            ctx.check('good-file-loads', r is True, sig='C17:seq:good-file-refused', info=info)
            if r is not True:
                return ['refused-good', trail]
            w.after_good_reload(name)
            ctx.cover('good-reload')
        else:
            w.drain()
            before = w.snapshot()
            target = CONF['B' if w.loaded != 'B' else 'A']
            real = Section.parse
            if step == 'reload-bad-early':
                w.set_source(faulty(target, 'unknown-keyword', 2))
            elif step == 'reload-bad-late':
                w.set_source(faulty(target, 'bad-value', len(target) - 2))
            else:
                w.set_source(target)
                count = [0]
                crash_at = parse_calls('B' if w.loaded != 'B' else 'A') - 2

                def failing(self, *a, _c=count, _at=crash_at, _real=real, **k):
                    _c[0] += 1
                    if _c[0] == _at:
                        raise KeyError('injected fault in a value parser')
                    return _real(self, *a, **k)
                Section.parse = failing
            try:
                r = w.reload()
            finally:
                Section.parse = real
            ctx.check('defective-file-is-refused', r is False, sig='C17:seq:defective-file-accepted', info=info)
            if r is not False:
                return ['accepted-bad', trail]
            ctx.cover('failed-reload')
            check_unchanged(ctx, w, before, step.replace('reload-', 'seq-'), info)
        if s % 2 == 1:
            w.drain()
    check_final(ctx, w, 'seq', {'history': trail})
    return ['done', trail]


OPEN_VARIANTS = {
    # name: (extra lines of the neighbor before the reload, after the reload)
    'hold-time': (None, None),     # through _neighbor(hold=...)
    'add-path-families': ([' family {', '  ipv4 unicast;', '  ipv6 unicast;', ' }', ' capability {', '  add-path send/receive;', ' }', ' add-path {', '  ipv4 unicast;', ' }'],
                          [' family {', '  ipv4 unicast;', '  ipv6 unicast;', ' }', ' capability {', '  add-path send/receive;', ' }', ' add-path {', '  ipv4 unicast;', '  ipv6 unicast;', ' }']),
    'families': ([' family {', '  ipv4 unicast;', ' }'], [' family {', '  ipv4 unicast;', '  ipv6 unicast;', ' }']),
    'route-refresh': ([' capability {', '  route-refresh disable;', ' }'], [' capability {', '  route-refresh enable;', ' }']),
    'nothing': ([' family {', '  ipv4 unicast;', ' }'], [' family {', '  ipv4 unicast;', ' }']),
}


@guarded
def h_open_change(ctx, keep):
    """A reload which changes what our OPEN says (hold time, families, ADD-PATH families, route refresh) can only take effect on a
    new session: the peer is told to re-establish.  Judged on the OPEN itself: the octets the real Capabilities().new() /
    Open.make_open() produce for the neighbor before and after the reload; they differ => Peer.reestablish was called."""
    from exabgp.bgp.message.open import Open, Version
    from exabgp.bgp.message.open.capability import Capabilities
    name = ctx.pick('what-changes', sorted(OPEN_VARIANTS))
    before_extra, after_extra = OPEN_VARIANTS[name]
    routes = ['10.0.0.0/24 next-hop 1.1.1.1']
    if name == 'hold-time':
        old, new = _neighbor(N2, routes, hold=180), _neighbor(N2, routes, hold=90)
    else:
        old, new = _neighbor(N2, routes, extra=[x.strip() for x in before_extra]), _neighbor(N2, routes, extra=[x.strip() for x in after_extra])
    CONF['open-old'], CONF['open-new'] = PROC + old, PROC + new
    w = start(ctx, 'open-old')
    keep.append(w)

    def open_octets(nb):
        o = Open.make_open(Version(4), nb.session.local_as, nb.hold_time, nb.session.router_id, Capabilities().new(nb, False))
        return bytes(o.pack_message(None))
    key = list(w.reactor._peers)[0]
    peer = w.reactor._peers[key]
    first = open_octets(peer.neighbor)
    w.set_source(CONF['open-new'])
    r = w.reload()
    ctx.check('good-file-loads', r is True, sig='C17:open-change:good-file-refused', info={'what': name, 'error': str(w.cfg.error)[:200]})
    if r is not True:
        return ['refused', name]
    second = open_octets(w.cfg.neighbors[key])
    changed = first != second
    asked = peer._teardown is not None and peer._restarted
    ctx.cover('open-changes' if changed else 'open-unchanged')
    ctx.check('changed-open-means-new-session', asked or not changed, sig='C17:open-change:%s:session-kept-although-our-open-changed' % name,
              info={'what': name, 'open-before': first.hex(), 'open-after': second.hex()})
    ctx.check('unchanged-open-keeps-the-session', changed or not asked, sig='C17:open-change:%s:session-reset-although-our-open-is-the-same' % name,
              info={'what': name})
    return [name, changed, asked]


GOOD_RELOADS = ('reload-A', 'reload-B', 'reload-C', 'reload-D')


@guarded
def h_back_to_back(ctx, keep, n):
    """Reloads that follow each other faster than the peers take them up: between two accepted reloads the peer coroutines
    either ran (took the new neighbor, restarted the session where its parameters changed) or did NOT (two SIGUSR1 in a
    row; a peer sleeping in its connect back-off) - the solver's choice per step.  Once everything has settled the peers hold
    exactly the routes of the LAST file."""
    w = start(ctx)
    keep.append(w)
    trail = []
    pending = None
    sessions = ctx.pick('sessions', ['up', 'down'])
    if sessions == 'down':
        w.go_down()
        trail.append('sessions lost')
        ctx.cover('reloads-while-the-sessions-are-down')
    for s in range(n):
        step = ctx.pick('step%d' % s, [x for x in GOOD_RELOADS if x[-1] != (w.loaded if pending is None else pending)])
        name = step[-1]
        w.set_source(CONF[name])
        r = w.reload()
        ran = bool(ctx.bool('peers-ran-after-step%d' % s)) if s < n - 1 else True
        trail.append(step + ('' if ran else ' (peers did not run before the next reload)'))
        info = {'history': list(trail)}
        ctx.check('good-file-loads', r is True, sig='C17:b2b:good-file-refused', info=info)
        if r is not True:
            return ['refused-good', trail]
        if ran:
            w.after_good_reload(name)
            pending = None
            if s % 2 == 1:
                w.drain()
        else:
            pending = name
            ctx.cover('reload-before-the-peers-took-up-the-previous-one')
    if sessions == 'down':
        w.come_up()
        trail.append('sessions established again')
    how = 'b2b:overtaken' if any('did not run' in t for t in trail) else 'b2b:taken-up'
    check_final(ctx, w, how, {'history': trail})
    return ['done', trail]


def units(tier):
    from sx.run import Unit
    th = tier == 'thorough'
    us = []
    for new in (('B', 'C') if th else ('B',)):
        us.append(Unit('fault/text/%s' % new, lambda ctx, new=new: h_fault_text(ctx, new),
                       must_cover=tuple('refused:%s' % k for k in FAULT_KINDS) + ('defect-after-a-complete-neighbor', 'defect-before-the-process-section-ends'), weight=60,
                       max_seconds=900))
        us.append(Unit('fault/exception/%s' % new, lambda ctx, new=new: h_fault_exception(ctx, new), must_cover=('refused',), weight=60,
                       max_seconds=900))
    us.append(Unit('fault/file', lambda ctx: h_fault_file(ctx, 'B'),
                   must_cover=('refused:removed', 'refused:directory', 'refused:dangling-symlink'), weight=5))
    us.append(Unit('seq/2', lambda ctx: h_seq(ctx, 2), must_cover=('good-reload', 'failed-reload'), weight=40, max_seconds=900))
    # a neighbor which is reconfigured, leaves the configuration and comes back: what its earlier incarnation held is gone
    us.append(Unit('seq/leave-and-return', lambda ctx: h_seq(ctx, 3, prefix=('reload-B', 'reload-D')), must_cover=('good-reload',), weight=30, max_seconds=900))
    us.append(Unit('delta/our-open-changes', h_open_change, must_cover=('open-changes', 'open-unchanged'), weight=20, max_seconds=600))
    us.append(Unit('seq/back-to-back/%d' % (3 if th else 2), lambda ctx: h_back_to_back(ctx, 3 if th else 2),
                   must_cover=('reload-before-the-peers-took-up-the-previous-one', 'reloads-while-the-sessions-are-down'), weight=40, max_seconds=900))
    if th:
        us.append(Unit('seq/3', lambda ctx: h_seq(ctx, 3), must_cover=('good-reload', 'failed-reload'), weight=300, max_seconds=1500,
                       max_paths=100000))
    return us
