"""C14 — API commands: same order, one acknowledgement each, no side effects on error.

Units
  reassembly/*  : the real Processes._async_reader_callback + received_async with os.read scripted: every stream of L
                  characters over the CLASSES newline / whitespace / other, cut into <=k chunks at symbolic offsets,
                  drained by received_async never / once / fully between reads, helper alive or exiting with the last read.
                  Oracle (written from the docstrings): the complete lines of the whole stream, in order, stripped;
                  nothing of a partial line is executed before its newline arrives.
  reply/*       : every handler reachable from the LIVE dispatch tables (v6 tree, v6 announce/withdraw/routes tables,
                  v4 translation tables) called through the real API.process on a stand-in reactor holding the REAL
                  Processes (answer_* / write) and the REAL ASYNC scheduler; parser / configuration / rib callees are
                  stubs with a symbolic outcome (value, empty, raises ValueError / IndexError / KeyError / RuntimeError)
                  and a symbolic fault point.  Exactly one terminal line ('done' | 'error') per command, last of the
                  command's output, in command order.
  sideeffect/*  : real API.process + real dispatch + real parsers + real Configuration.announce_route on three real
                  Neighbors with real RIBs: an invalid command leaves every RIB untouched and answers one error.
  selector/*    : `neighbor <ip> [local-as N] [peer-as N] [router-id X] [local-ip Y]` / `peer ...` / `[a, b]` / `*`
                  with terms picked from pools: the set of neighbors whose RIB changed == neighbors matching EVERY term.
"""
from __future__ import annotations

import collections
import warnings

from sx.run import Unit

# a coroutine dropped by ASYNC._run_async (finding: background generator) is reported by the checks, not by the interpreter
warnings.filterwarnings('ignore', message='coroutine .* was never awaited', category=RuntimeWarning)

import exabgp.reactor.api.processes as pm
from exabgp.reactor.api.processes import Processes

ID = 'C14'
LEVEL = 'model_checking'
TECHNIQUE = ('explicit-state exhaustive exploration under the sx runner (every combination of the bounded inputs is one '
             'path, decided by z3-backed forks and replayed in a clean interpreter; for reassembly the character classes '
             'beyond the first positions are enumerated by an exhaustive loop inside the path) of the REAL '
             'Processes._async_reader_callback/received_async/answer_*, API.process, dispatch_v4/v6, every registered command '
             'handler, ASYNC._run_async, Configuration.announce_route & co, match_neighbors, on real Neighbors/RIBs; '
             'oracles: stream.split(newline) semantics, one terminal reply per command, conjunction of selector terms')
ASSUMPTIONS = [
    '(a) os.read in exabgp.reactor.api.processes is scripted (delivers the chosen chunks); the helper process is a fake Popen '
    '(stdout.fileno, poll); threading.Thread in Processes._terminate is a no-op; ASCII input',
    '(a) alphabet: newline, whitespace (space / CR / tab, by position), letters (distinct per position); the text of a path is concrete',
    '(b) REAL: Processes (answer_done/answer_error/_answer/_answer_sync/answer_done_sync/answer_error_sync/write in async mode), '
    'ASYNC (error handler = processes.answer_error_sync as Reactor.run_async wires it), API.process, dispatch, handlers; '
    'Processes.flush_write_queue is a no-op (replies are read from _write_queue); coroutines are driven by hand, one main-loop '
    'iteration per command (API.process, then ASYNC._run_async to completion) as Reactor._async_main_loop does',
    '(b) STUBS with symbolic outcome: every API.api_* parser (value / second value / empty / raises), reactor.configuration.* '
    '(announce_route, withdraw_route True|False, inject_*, *_indexed), rib.outgoing.* of the stub neighbors, reactor.neighbor_rib_* / '
    'neighor_rib, peer.remove; single-fault model: at most one callee raises per command, exception in {ValueError, IndexError, '
    'KeyError, RuntimeError}; reactor.peers / established_peers / teardown_peer / lookups return values (all | none established) and never raise',
    '(b) a terminal reply is a written line equal to Answer.text_done/text_error/json_done/json_error/*_shutdown; '
    '`session ack silence` / `silence-ack` is documented to send none and is expected to send none; acknowledgements enabled, text acks (_ackjson False as _start sets it)',
    '(c) REAL: reader callback + formated(), API.process, dispatch, handlers, parsers (Configuration.partial), Configuration.announce_route/withdraw_route/'
    'inject_*, Reactor.peers/established_peers/neighbor_rib_* (functions of exabgp.reactor.loop.Reactor bound to the stand-in), match_neighbors, '
    'Neighbor (kits.session.neighbor_from), RIB/OutgoingRIB; Peer is a recorder (teardown/resend/remove), all peers ESTABLISHED, no socket',
    '(c) four neighbors: A, B, C attached to the API process by `api { processes [ svc ]; }`, D configured without it; each RIB starts with one pending '
    'route and one route held back by watchdog `dog`; state compared = pending announces/withdraws, attribute index, cache, resend list, watchdog table, '
    'adj-rib-in cache, eor/refresh/operational queues, recorded session actions, global route store, peer/neighbor tables',
    '(c) selector oracle (help text `[peer <ip> [filters]]`, filters local-ip/local-as/peer-as/router-id; extract_neighbors docstring): selected iff attached to the '
    'process and, for one comma-separated alternative, the address equals <ip> (or `*`) and EVERY filter equals the neighbor value; `* <filters>` may also be refused with one error',
]
BOUNDS = {
    'quick': {'reassembly': 'every stream of L<=8 characters over 3 classes x every cut into <=3 chunks x 5 drain/exit patterns; a 120-character text of commands (CRLF, debug line, empty line, trailing partial) x every cut into <=2 chunks, its last 35 characters x <=3 chunks',
              'reply': 'every leaf of the live v6 dispatch tree and of the v6 announce/withdraw/routes tables, every key of the v4 translation tables and subcommand sets (+ one unregistered type each), '
                       '2-4 argument variants per command, with peers / without peers, every callee outcome and every single fault point; sequences of 3 commands from a pool of 5; background generator of 2, 49, 50 steps',
              'sideeffect': '44 invalid command texts x {v4, v6 spelling}; 5 valid ones; group mode with 4 invalid lines',
              'selector': 'v4 and v6 spelling, 7 neighbors (5 IPv4, 2 IPv6 whose addresses extend one another): <ip> from 8 values x local-ip(5) x local-as(4) x peer-as(4) x router-id(4) x term order for announce; '
                          '6 x 4 x 4 for withdraw, watchdog, teardown, routes add, inline group; 2-alternative groups (4 x 3)^2'},
    'thorough': {'reassembly': 'L<=8: every stream x <=4 chunks x 5 drain/exit patterns; L=9, 10: x <=4 chunks x 2 patterns; L=11, 12: x <=3 chunks, drained after every read',
                 'reply': 'same + v6 spelling of announce under API version 4; background generator of 1, 2, 48, 49, 50, 51 steps',
                 'sideeffect': 'same', 'selector': 'same'},
}
OUTSIDE = [
    'the free-text grammar of commands is not symbolic (regex / tokeniser on symbolic text is out of reach): command texts are concrete lists; symbolic are chunking, '
    'character classes, callee outcomes, fault points, selector terms (from pools), command choice',
    'lines longer than MAX_COMMAND_SIZE (1 MiB), non-ASCII bytes, OSError from os.read, several helper processes interleaved, the unused synchronous twin Processes.received()',
    'delivery of the queued replies: EPIPE / other OSError (the helper is gone), the back-pressure wait of write_with_backpressure, more than one helper; '
    'reply/delivery covers complete / partial / EAGAIN writes of the real flush_write_queue over 3 (4) main-loop iterations',
    'sync mode (`sync` keyword / `session sync enable`) with connected peers: the wait for the RIB flush needs the event loop; multiple simultaneous faults; faults in reactor getters',
    'JSON acknowledgements (_ackjson True is never set by _start), `session ack disable/silence` followed by further commands (acknowledgements off)',
    'what a valid command does to the RIB beyond WHICH neighbors change (C04/C18), atomicity of a group (its docstring says all-or-nothing: not part of C14)',
    'family-allowed selector key, selectors on neighbors with multi-session names',
]


class _Log:
    def __getattr__(self, name):
        return lambda *a, **k: None


def _quiet(mod):
    if hasattr(mod, 'log'):
        mod.log = _Log()
    for n in ('lazymsg', 'lazyexc', 'lazyformat'):
        if hasattr(mod, n):
            setattr(mod, n, lambda *a, **k: None)


_quiet(pm)

SVC = 'svc'

# ============================================================================= (a) reassembly

WS = (' ', '\r', '\t')


def oracle_lines(stream):
    """Complete lines of `stream` (text before each newline), each normalised the way an API command is
    documented to be read: surrounding whitespace removed, tabs are spaces, runs of spaces collapse.
    Returns (commands, partial) — `partial` is the text after the last newline (kept, never executed)."""
    parts = stream.split('\n')
    partial = parts.pop()
    out = []
    for line in parts:
        if line.rstrip(' \t\r').startswith('debug '):
            continue  # "debug <text>" is a request to log <text>, not a command
        s = line.strip(' \t\r').replace('\t', ' ')
        while '  ' in s:
            s = s.replace('  ', ' ')
        out.append(s)
    return out, partial


class _Proc:
    """subprocess.Popen stand-in: stdout with a fileno, poll() scripted."""

    class _Out:
        def fileno(self):
            return 7

    def __init__(self):
        self.stdout = self._Out()
        self.stdin = self._Out()
        self.exit = None

    def poll(self):
        return self.exit


def mk_processes(services=(SVC,)):
    p = object.__new__(Processes)
    p.clean()
    p.silence = False
    p._buffer = {}
    p._configuration = {}
    p._restart = {}
    p.respawn_number = 0
    p.terminate_on_error = False
    p._default_ack = True
    p._async_mode = True
    p._loop = None
    p._write_queue = {}
    p._command_queue = collections.deque()
    for s in services:
        p._process[s] = _Proc()
        p._ack[s] = True
        p._ackjson[s] = False
    return p


class _Thread:
    """threading.Thread stand-in for Processes._terminate: the helper is a fake, nothing to kill."""

    def __init__(self, target=None, args=()):
        pass

    def start(self):
        pass

    def join(self):
        pass


pm.Thread = _Thread


class _OS:
    """os stand-in for exabgp.reactor.api.processes: read() delivers the scripted chunks."""

    def __init__(self):
        self.chunks = collections.deque()

    def read(self, fd, n):
        return self.chunks.popleft()

    def __getattr__(self, name):
        import os
        return getattr(os, name)


def mk_stream(classes):
    """class per position: 0 newline, 1 whitespace (space / CR / tab by position), 2 other (a distinct letter)."""
    return ''.join('\n' if c == 0 else WS[i % 3] if c == 1 else chr(ord('a') + i) for i, c in enumerate(classes))


def cut_points(ctx, L, k):
    """number of chunks n in 1..k and n-1 strictly increasing cut offsets in 1..L-1, all symbolic (forks)."""
    n = 1 + ctx.choice('chunks', min(k, L))
    cuts = []
    lo = 1
    for j in range(n - 1):
        # leave room for the remaining cuts
        c = ctx.concretize(ctx.int('cut%d' % j, lo, L - (n - 1 - j)))
        cuts.append(c)
        lo = c + 1
    bounds = [0] + cuts + [L]
    return list(zip(bounds, bounds[1:]))


DRAIN_MODES = ('at-end', 'one-per-read', 'all-per-read')


def feed(stream, pieces, drain, exited=False):
    """Deliver `stream` to the real reader callback in `pieces`; returns (commands yielded in order, final buffer,
    problems reported, first failed per-read obligation or None, facts seen)."""
    p = mk_processes()
    fake_os = _OS()
    pm.os = fake_os
    got = []
    bad = None
    facts = set()
    last = len(pieces) - 1
    for n, (a, b) in enumerate(pieces):
        chunk = stream[a:b]
        fake_os.chunks.append(chunk.encode('ascii'))
        if exited is True and n == last:
            p._process[SVC].exit = 0
        p._async_reader_callback(SVC)
        seen, partial = oracle_lines(stream[:b])
        if partial and b < len(stream):
            facts.add('partial-line-kept')
        nl = chunk.count('\n')
        if nl >= 2:
            facts.add('two-commands-one-read')
        if nl == 0:
            facts.add('read-without-newline')
        queued = [c for _, c in got] + [c for _, c in p._command_queue]
        if bad is None and queued != seen:
            bad = ('complete-lines-only', {'after-read': n, 'got': queued, 'want': seen})
        if bad is None and not (exited is True and n == last) and p._buffer.get(SVC, '') != partial:
            bad = ('partial-kept', {'after-read': n, 'buffer': p._buffer.get(SVC, ''), 'want': partial})
        if drain:
            while True:
                one = list(p.received_async())
                if len(one) > 1 and bad is None:
                    bad = ('one-command-per-call', {'yielded': one})
                got.extend(one)
                if drain == 1 or not one:
                    break
    if exited == 'eof':
        # the helper is gone: the pipe reads empty and poll() reports the exit status
        fake_os.chunks.append(b'')
        p._process[SVC].exit = 0
        p._async_reader_callback(SVC)
    while True:
        one = list(p.received_async())
        if not one:
            break
        if len(one) > 1 and bad is None:
            bad = ('one-command-per-call', {'yielded': one})
        got.extend(one)
    return got, p._buffer.get(SVC, ''), [] if SVC in p._process else [SVC], bad, facts


PER_READ = {'complete-lines-only': 'C14:reassembly:queue-differs-from-complete-lines',
            'partial-kept': 'C14:reassembly:partial-line-not-kept',
            'one-command-per-call': 'C14:reassembly:more-than-one-command-per-call'}


# (drain pattern, helper: alive | exits with its last read (True) | exits later, seen as an empty read ('eof'))
MODES = ((1, False), (0, False), (2, False), (1, True), (0, True), (1, 'eof'))


def h_reassembly(ctx, L, k, fixed=(), sym=3, text=None, modes=(0, 1, 2, 3, 5)):
    """classes of the first positions (`fixed` by the unit, then `sym` engine forks), chunk count, cut offsets,
    drain pattern / exit flag: engine forks.  Classes of the remaining positions: enumerated exhaustively by the loop
    below (every combination), the first failing stream of a path is reported."""
    import itertools
    if text is None:
        head = list(fixed) + [ctx.choice('c%d' % i, 3) for i in range(len(fixed), min(len(fixed) + sym, L))]
        tails = itertools.product(range(3), repeat=L - len(head))
    else:
        L = len(text)
    pieces = cut_points(ctx, L, k)
    if isinstance(modes, int):
        modes = tuple(range(modes))
    drain, exited = MODES[ctx.pick('mode', modes) if len(modes) > 1 else modes[0]]
    if len(pieces) > 1:
        ctx.cover('split')
    fails = {}
    nstreams = 0
    summary = 0
    streams = [text] if text is not None else (mk_stream(head + list(t)) for t in tails)
    for stream in streams:
        nstreams += 1
        want, want_partial = oracle_lines(stream)
        got, buf, problems, bad, facts = feed(stream, pieces, drain, exited)
        cmds = [c for _, c in got]
        for f in facts:
            ctx.cover(f)
        if want:
            ctx.cover('command')
        if len(want) >= 2:
            ctx.cover('two-commands')
        if '' in want:
            ctx.cover('empty-line')
        if want_partial:
            ctx.cover('trailing-partial')
        if 'debug ' in stream:
            ctx.cover('debug-line-not-a-command')
        info = {'stream': stream, 'pieces': pieces, 'drain': DRAIN_MODES[drain], 'exited': exited}
        if bad is not None:
            fails.setdefault(bad[0], dict(info, **bad[1]))
        if cmds != want:
            fails.setdefault('same-commands-same-order', dict(info, got=cmds, want=want))
        if any(s != SVC for s, _ in got):
            fails.setdefault('service-name', info)
        if exited:
            # the helper died: whatever it left unfinished can never become a command
            if problems != [SVC]:
                fails.setdefault('exit-reported-once', dict(info, problems=problems))
            if buf != '':
                fails.setdefault('partial-dropped-at-exit', dict(info, buffer=buf))
        else:
            if buf != want_partial:
                fails.setdefault('trailing-partial-not-executed', dict(info, buffer=buf, want=want_partial))
            if problems:
                fails.setdefault('no-problem-reported', dict(info, problems=problems))
        summary += len(cmds) * 7 + len(buf)
    if exited:
        ctx.cover('helper-exited')
    if exited == 'eof':
        ctx.cover('helper-exited-eof')
    for name, sig in list(PER_READ.items()) + [
            ('same-commands-same-order', 'C14:reassembly:commands-differ-from-stream-lines'),
            ('service-name', 'C14:reassembly:wrong-service'),
            ('exit-reported-once', 'C14:reassembly:exit-not-reported'),
            ('partial-dropped-at-exit', 'C14:reassembly:partial-line-survives-exit'),
            ('trailing-partial-not-executed', 'C14:reassembly:trailing-partial-executed-or-lost'),
            ('no-problem-reported', 'C14:reassembly:spurious-process-problem')]:
        ctx.check(name, name not in fails, sig=sig, info=fails.get(name))
    ctx.note('streams', nstreams)
    return [nstreams, summary]


# ============================================================================= (b) exactly one terminal reply

import contextlib
import io

import exabgp.reactor.api as apim
import exabgp.reactor.asynchronous as asm
import exabgp.reactor.api.command.announce as c_ann
import exabgp.reactor.api.command.group as c_grp
import exabgp.reactor.api.command.neighbor as c_nei
import exabgp.reactor.api.command.peer as c_peer
import exabgp.reactor.api.command.reactor as c_rea
import exabgp.reactor.api.command.rib as c_rib
import exabgp.reactor.api.command.route as c_route
import exabgp.reactor.api.command.watchdog as c_wd
import exabgp.reactor.api.dispatch.common as d_common
import exabgp.reactor.api.dispatch.v4 as d4
import exabgp.reactor.api.dispatch.v6 as d6
import exabgp.configuration.configuration as cfgm
from exabgp.reactor.api import API
from exabgp.reactor.asynchronous import ASYNC
from exabgp.reactor.api.response.answer import Answer
from exabgp.environment import getenv
from exabgp.protocol.family import Family
from exabgp.bgp.message.refresh import RouteRefresh

for _m in (apim, asm, c_ann, c_grp, c_nei, c_peer, c_rea, c_rib, c_route, c_wd, cfgm):
    _quiet(_m)

TERMINAL = {(Answer.text_done + '\n').encode(): 'done', (Answer.text_error + '\n').encode(): 'error',
            (Answer.json_done + '\n').encode(): 'done', (Answer.json_error + '\n').encode(): 'error',
            (Answer.text_shutdown + '\n').encode(): 'shutdown', (Answer.json_shutdown + '\n').encode(): 'shutdown'}

PEER_NAMES = (
    'neighbor 127.0.0.2 local-ip 127.0.0.1 local-as 65000 peer-as 65001 router-id 1.2.3.4 family-allowed in-open',
    'neighbor 127.0.0.3 local-ip 127.0.0.1 local-as 65000 peer-as 65002 router-id 1.2.3.4 family-allowed in-open',
)


def drive(coro):
    """Run a coroutine to completion by hand (asyncio.sleep(0) is a bare yield: no event loop needed)."""
    try:
        while True:
            coro.send(None)
    except StopIteration as e:
        return e.value


async def _no_flush():
    return None


def mk_answering_processes():
    """The REAL Processes in async mode: answer_done/answer_error/_answer/_answer_sync/write are the real ones and
    queue every line in _write_queue[service]; only the flush to the helper's stdin is a no-op."""
    p = mk_processes()
    p.flush_write_queue = _no_flush
    p._write_queue[SVC] = collections.deque()
    return p


class _WriteOS(_OS):
    """os stand-in whose write() has the outcome the path chose: everything, a proper prefix, or EAGAIN (pipe full)."""

    def __init__(self, ctx):
        _OS.__init__(self)
        self.ctx = ctx
        self.delivered = b''
        self.calls = 0
        self.budget = 0          # writes with a chosen outcome left; afterwards the helper reads again (everything is taken)

    def write(self, fd, data):
        import errno
        data = bytes(data)
        self.calls += 1
        if self.budget <= 0:
            self.delivered += data
            return len(data)
        self.budget -= 1
        how = self.ctx.choice('write%d' % self.calls, 3)
        if how == 0:
            self.ctx.cover('written')
            self.delivered += data
            return len(data)
        if how == 1 and len(data) > 1:
            n = self.ctx.concretize(self.ctx.int('taken%d' % self.calls, 1, len(data) - 1))
            self.ctx.cover('partial-write')
            self.delivered += data[:n]
            return n
        self.ctx.cover('pipe-full')
        raise OSError(errno.EAGAIN, 'Resource temporarily unavailable')


def h_delivery(ctx, rounds, faults):
    """The replies as the HELPER reads them.  The real Processes.write / answer_done / answer_error queue replies and the real
    flush_write_queue hands them to os.write, which takes everything, a proper prefix, or nothing (EAGAIN: the helper is
    not reading) as the path chooses, for the first `faults` writes.  In every main-loop iteration zero, one or two new
    replies are queued, then the queue is flushed.  What the helper has read so far is a prefix of the replies in the
    order they were given, and what it has read plus what still waits is all of them: none lost, none twice, none moved."""
    p = mk_processes()
    p._write_queue[SVC] = collections.deque()
    fake = _WriteOS(ctx)
    fake.budget = faults
    pm.os = fake
    expected = b''
    k = 0
    try:
        for r in range(rounds):
            add = ctx.choice('replies%d' % r, 3)
            for _ in range(add):
                mark = len(p._write_queue[SVC])
                which = k % 3
                if which == 0:
                    p.write(SVC, 'reply %d' % k)           # the text before a terminal
                    new = list(p._write_queue[SVC])[mark:]
                    expected += b''.join(bytes(x) for x in new)
                elif which == 1:
                    # answer_done queues AND flushes (the acknowledgement is flushed at once): what it queued goes first in `expected`
                    before = fake.delivered + b''.join(bytes(x) for x in p._write_queue[SVC])
                    drive(p.answer_done(SVC))
                    after = fake.delivered + b''.join(bytes(x) for x in p._write_queue[SVC])
                    ctx.check('reply:delivery:answer-appends', after[:len(before)] == before, sig='C14:reply:delivery:reply-moved-or-lost',
                              info={'before': before, 'after': after})
                    expected += after[len(before):]
                else:
                    before = fake.delivered + b''.join(bytes(x) for x in p._write_queue[SVC])
                    drive(p.answer_error(SVC))
                    after = fake.delivered + b''.join(bytes(x) for x in p._write_queue[SVC])
                    ctx.check('reply:delivery:answer-appends', after[:len(before)] == before, sig='C14:reply:delivery:reply-moved-or-lost',
                              info={'before': before, 'after': after})
                    expected += after[len(before):]
                k += 1
            drive(p.flush_write_queue())
            waiting = b''.join(bytes(x) for x in p._write_queue.get(SVC, ()))
            ctx.check('reply:delivery:in-order', expected[:len(fake.delivered)] == fake.delivered, sig='C14:reply:delivery:out-of-order',
                      info={'round': r, 'read-by-helper': fake.delivered, 'given': expected})
            ctx.check('reply:delivery:none-lost-none-twice', fake.delivered + waiting == expected, sig='C14:reply:delivery:reply-moved-or-lost',
                      info={'round': r, 'read-by-helper': fake.delivered, 'waiting': waiting, 'given': expected})
        # the helper reads again: everything is taken from now on
        fake.budget = 0
        for _ in range(4):
            drive(p.flush_write_queue())
        ctx.check('reply:delivery:all-delivered', fake.delivered == expected, sig='C14:reply:delivery:final-stream-differs',
                  info={'read-by-helper': fake.delivered, 'given': expected})
        if k >= 2:
            ctx.cover('two-replies')
    finally:
        pm.os = _OS()
    return [fake.delivered.decode('ascii', 'replace'), fake.calls]


def reset_world():
    """Process-wide state a command can leave behind."""
    getenv().api.version = 6
    c_grp._GROUP_BUFFERS.clear()
    c_grp._GROUP_BYTES.clear()


def run_command(reactor, command):
    """One iteration of Reactor._async_main_loop for one command: API.process, then the scheduled work.
    Returns (lines written for this command, exception escaping API.process or None)."""
    q = reactor.processes._write_queue[SVC]
    mark = len(q)
    raised = None
    try:
        with contextlib.redirect_stderr(io.StringIO()):
            reactor.api.process(reactor, SVC, command)
    except Exception as exc:  # would escape the reactor's main loop
        raised = exc
    if reactor.asynchronous._async:
        drive(reactor.asynchronous._run_async())
    return [bytes(x) for x in list(q)[mark:]], raised


def terminals(lines):
    return [TERMINAL[x] for x in lines if x in TERMINAL]


EXCS = (ValueError, IndexError, KeyError, RuntimeError)


class Inj:
    """Symbolic outcome of every stubbed callee: which of its values it returns, or (single-fault model) which
    exception it raises; decided by a fork at the call, named by the call's ordinal on the path."""

    def __init__(self, ctx, faults=True):
        self.ctx = ctx
        self.faults = faults
        self.faulted = False
        self.n = 0
        self.trace = []

    def call(self, name, values, raising=True):
        i = self.n
        self.n += 1
        nv = len(values)
        opts = nv + (len(EXCS) if (raising and self.faults and not self.faulted) else 0)
        c = self.ctx.choice('o%d' % i, opts) if opts > 1 else 0
        self.trace.append('%s=%d' % (name, c))
        if c >= nv:
            self.faulted = True
            self.ctx.cover('fault-injected')
            self.ctx.cover('fault-' + EXCS[c - nv].__name__)
            raise EXCS[c - nv]('injected fault in %s' % name)
        if nv > 1 and c > 0:
            self.ctx.cover('alternative-value')
        return values[c]


class _Bag:
    """Attribute bag whose unknown attributes are stubbed callees returning True (so that a callee added to a
    handler later is still an injection point)."""

    def __init__(self, inj, name, values=None, raising=True):
        self.__dict__['_inj'] = inj
        self.__dict__['_name'] = name
        self.__dict__['_values'] = values or {}
        self.__dict__['_raising'] = raising

    def __getattr__(self, attr):
        if attr.startswith('__'):
            raise AttributeError(attr)
        vals = self._values.get(attr, [True])
        return lambda *a, **k: self._inj.call('%s.%s' % (self._name, attr), vals, self._raising)


_ROUTES = {}


def sample_routes():
    """Real Route objects, parsed once by the real parser (handlers validate / render them for real)."""
    if not _ROUTES:
        api = API(None)
        _ROUTES['a'] = api.api_route('announce route 10.0.0.0/24 next-hop 1.2.3.4')[0]
        _ROUTES['b'] = api.api_route('announce route 10.0.1.0/24 next-hop 1.2.3.4')[0]
        _ROUTES['nonh'] = api.api_route('route 10.0.2.0/24', 'withdraw')[0]
        _ROUTES['op'] = api.api_operational('operational asm afi ipv4 safi unicast advisory "x"', 'announce')
    return _ROUTES


class _Session:
    def __init__(self, name):
        w = name.split()
        self.peer_address = w[1]
        self.local_address = w[3]
        self.local_as = int(w[5])
        self.peer_as = int(w[7])
        self.router_id = w[9]


class StubNeighbor:
    def __init__(self, inj, name):
        r = sample_routes()
        self.session = _Session(name)
        self._name = name
        out = _Bag(inj, 'rib.outgoing', {'announce_watchdog': [None], 'withdraw_watchdog': [None],
                                         'cached_routes': [[r['a']], []]})
        self.rib = type('RIB', (), {})()
        self.rib.outgoing = out
        self.rib.incoming = _Bag(inj, 'rib.incoming', {'cached_routes': [[r['a']], []], 'clear': [None]})

    def families(self):
        return [(1, 1)]

    def name(self):
        return self._name

    def __str__(self):
        return 'neighbor %s {\n}' % self.session.peer_address


class StubPeer:
    def __init__(self, inj, name, neighbor):
        self._inj = inj
        self.neighbor = neighbor
        self.proto = None
        self.fsm = type('F', (), {'name': staticmethod(lambda: 'IDLE')})()
        self.torn = []

    def teardown(self, code):
        self.torn.append(code)

    def remove(self):
        self._inj.call('peer.remove', [None])

    def cli_data(self):
        return {}


class StubConfiguration(_Bag):
    def __init__(self, inj, names):
        _Bag.__init__(self, inj, 'configuration', {
            'announce_route': [True], 'withdraw_route': [True, False], 'announce_route_indexed': [(b'\x01\x02', True)],
            'withdraw_route_by_index': [True, False], 'inject_eor': [True], 'inject_refresh': [True],
            'inject_operational': [True]})
        self.__dict__['neighbors'] = {n: StubNeighbor(inj, n) for n in names}


class _Signal:
    SHUTDOWN, RELOAD, RESTART = 1, 2, 3
    received = 0


def stubbed_api(reactor, inj):
    """A fresh real API object; every api_* parser method is replaced by a stub with a symbolic outcome."""
    api = API(reactor)
    r = sample_routes()
    values = {
        'api_eor': [Family(1, 1), False], 'api_refresh': [[RouteRefresh.make_route_refresh(1, 1)], None],
        'api_operational': [r['op'], None, False],
        'api_route': [[r['a']], [r['a'], r['b']], [], [r['nonh']]],
    }
    default = [[r['a']], [r['a'], r['b']], []]
    for name in dir(API):
        if name.startswith('api_'):
            vals = values.get(name, default)
            setattr(api, name, lambda *a, _n=name, _v=vals, **k: inj.call('api.' + _n, _v))
    return api


class StubReactor:
    """What the handlers see of the Reactor.  REAL: processes (answering), asynchronous (ASYNC wired to
    processes.answer_error_sync as Reactor.run_async does), api (dispatch, handlers).  STUB: everything a handler
    calls to parse or to act."""

    def __init__(self, ctx, inj, npeers=2):
        self.processes = mk_answering_processes()
        self.asynchronous = ASYNC()
        self.asynchronous.set_error_handler(self.processes.answer_error_sync)
        names = PEER_NAMES[:npeers]
        self.configuration = StubConfiguration(inj, names)
        self._peers = {n: StubPeer(inj, n, self.configuration.neighbors[n]) for n in names}
        self._dynamic_peers = set()
        self.signal = _Signal()
        self.active_clients = {}
        self.daemon_uuid = 'uuid'
        self.daemon_start_time = 0.0
        self._inj = inj
        self._established = None
        self.api = stubbed_api(self, inj)

    def peers(self, service=''):
        return list(self._peers)

    def established_peers(self):
        if self._established is None:
            self._established = self._inj.call('reactor.established_peers', [set(self._peers), set()], raising=False)
        return self._established

    def teardown_peer(self, name, code):
        self._peers[name].teardown(code)

    def neighbor(self, name):
        return None

    def neighbor_name(self, name):
        return name

    def neighbor_ip(self, name):
        return name.split()[1]

    def neighbor_cli_data(self, name):
        return {}

    def neighor_rib(self, name, rib_name, advertised=False):
        r = sample_routes()
        return self._inj.call('reactor.neighor_rib', [[r['a'], r['b']], []])

    def neighbor_rib_resend(self, name):
        return self._inj.call('reactor.neighbor_rib_resend', [None])

    def neighbor_rib_out_withdraw(self, name):
        return self._inj.call('reactor.neighbor_rib_out_withdraw', [None])

    def neighbor_rib_in_clear(self, name):
        return self._inj.call('reactor.neighbor_rib_in_clear', [None])


# ---- command texts derived from the LIVE dispatch tables

ROUTE = '10.0.0.0/24 next-hop 1.2.3.4'
ARGS = {
    ('rib', 'show'): ['in', 'out extensive', 'sideways', ''],
    ('rib', 'flush'): ['out', ''],
    ('rib', 'clear'): ['in', 'out'],
    ('system', 'api', 'version'): ['', '4', '5', 'x'],
    ('session', 'ping'): ['', 'abc 1.5', 'abc notafloat text'],
    ('session', 'bye'): ['', 'abc'],
    ('peer', 'show'): ['', 'summary', 'extensive', 'configuration', 'bogus'],
    ('peer', 'create'): ['127.0.0.9 local-address 127.0.0.1 local-as 1 peer-as 2', '127.0.0.9', 'x y', ''],
    ('peer', 'delete'): ['127.0.0.2', '*', '9.9.9.9', ''],
    ('peer', '*', 'show'): ['', 'summary', 'extensive', 'configuration'],
    ('peer', '*', 'teardown'): ['6', 'x', ''],
    ('peer', '*', 'group'): ['announce route %s ; withdraw route %s' % (ROUTE, ROUTE), 'bogus x ; announce route ' + ROUTE, ';', ''],
    ('announce', 'route'): [ROUTE, ROUTE + ' sync', ''],
    ('announce', 'eor'): ['', 'ipv4 unicast'],
    ('announce', 'route-refresh'): ['ipv4 unicast', ''],
    ('announce', 'operational'): ['asm afi ipv4 safi unicast advisory "x"', 'bogus', ''],
    ('announce', 'watchdog'): ['dog', ''],
    ('withdraw', 'route'): [ROUTE, ''],
    ('withdraw', 'watchdog'): ['dog', ''],
    ('routes', 'list'): ['', 'ipv4 unicast'],
    ('routes', 'add'): ['route ' + ROUTE, ''],
    ('routes', 'remove'): ['route ' + ROUTE, 'index 0102', 'index zz', ''],
    ('announce', '?'): ['x'],
    ('withdraw', '?'): ['x'],
    ('routes', '?'): [''],
}
DEFAULT_ARGS = ['x y', '']
NO_REPLY_BY_DESIGN = ('session ack silence', 'v4 silence-ack')  # documented: "Disable ACK responses immediately (no 'done' sent for this command)"


def _leaves(node, path=()):
    for k, v in node.items():
        if isinstance(v, dict):
            yield from _leaves(v, path + (k,))
        else:
            yield path + (k,), v


def v6_commands():
    """[(group, label, command)]: every leaf of the live v6 tree; the announce / withdraw / routes leaves are expanded
    through their own live tables (plus one unregistered type each)."""
    out = []
    for path, handler in _leaves(d6._get_v6_tree()):
        path = tuple('*' if w == d_common.SELECTOR_KEY else w for w in path)
        prefix = ' '.join(path)
        sub = {c_ann.v6_announce: ('announce', c_ann._V6_ANNOUNCE_HANDLERS), c_ann.v6_withdraw: ('withdraw', c_ann._V6_WITHDRAW_HANDLERS),
               c_route.v6_routes: ('routes', c_route._V6_ROUTES_HANDLERS)}.get(handler)
        if sub is not None:
            word, table = sub
            for t in list(table) + ['?']:
                for a in ARGS.get((word, t), DEFAULT_ARGS):
                    tt = 'bogus-type' if t == '?' else t
                    out.append((word, '%s %s' % (word, tt), ('%s %s %s' % (prefix, tt, a)).strip()))
            continue
        group = path[0] if path[0] != '#' else 'system'
        if path[:2] == ('peer', '*'):
            group = 'peer-selector'
        for a in ARGS.get(path, ['']):
            out.append((group, prefix, ('%s %s' % (prefix, a)).strip()))
    return out


def v4_commands():
    """[(group, label, command)] v4 spellings: every key of the live translation table and subcommand sets, the
    show/flush/clear/create/delete/teardown forms of translate_v4_to_v6, and the neighbor-prefixed forms."""
    out = []
    for word in d4.V4_SIMPLE_TRANSLATIONS:
        out.append(('v4-simple', 'v4 ' + word, word))
    out.append(('v4-simple', 'v4 api version', 'api version'))
    for text in ('show adj-rib in', 'show adj-rib out extensive', 'show adj-rib', 'show neighbor summary', 'show neighbor', 'show',
                 'flush adj-rib out', 'flush adj-rib in', 'clear adj-rib in', 'clear adj-rib out', 'clear adj-rib', 'clear',
                 'create neighbor 127.0.0.9', 'delete neighbor 127.0.0.2', 'delete neighbor 9.9.9.9', 'teardown 6', 'teardown x'):
        out.append(('v4-show', 'v4 ' + ' '.join(text.split()[:2]), text))
    for word, subs in (('announce', d4.ANNOUNCE_SUBCOMMANDS), ('withdraw', d4.WITHDRAW_SUBCOMMANDS)):
        for t in sorted(subs) + ['?']:
            for a in ARGS.get((word, t), DEFAULT_ARGS):
                tt = 'bogus-type' if t == '?' else t
                out.append(('v4-' + word, 'v4 %s %s' % (word, tt), ('%s %s %s' % (word, tt, a)).strip()))
                out.append(('v4-neighbor', 'v4 neighbor %s %s' % (word, tt), ('neighbor 127.0.0.2 %s %s %s' % (word, tt, a)).strip()))
    for text in ('neighbor 127.0.0.2 teardown 6', 'neighbor 127.0.0.2 teardown', 'neighbor 127.0.0.2 show', 'neighbor 127.0.0.2',
                 'neighbor', 'neighbor 9.9.9.9 teardown 6', 'neighbor 9.9.9.9 announce route ' + ROUTE, 'neighbor 127.0.0.2 announce'):
        out.append(('v4-neighbor', 'v4 ' + ' '.join(w for w in text.split() if not w[0].isdigit())[:40], text))
    return out


UNKNOWN = ['bogus', 'bogus with words', 'daemon', 'daemon bogus', 'session ack', 'peer', 'peer *', 'peer * bogus', 'rib', 'rib bogus in',
           'peer 127.0.0.2 bogus-key 5 announce route ' + ROUTE, 'group', 'group bogus', 'system api', 'announce-route x']


def h_reply(ctx, commands, version, faults=True):
    """One command through the real API.process / dispatch / handler / ASYNC; callee outcomes symbolic."""
    label, command = ctx.pick('cmd', commands)
    npeers = (2, 0)[ctx.choice('nopeers', 2)]
    inj = Inj(ctx, faults)
    reactor = StubReactor(ctx, inj, npeers)
    getenv().api.version = version
    lines, raised = run_command(reactor, command)
    terms = terminals(lines)
    want = 0 if label.endswith(NO_REPLY_BY_DESIGN) else 1
    info = {'command': command, 'api-version': version, 'callees': inj.trace, 'lines': [x.decode()[:60] for x in lines][-4:],
            'raised': repr(raised) if raised else None}
    ctx.check('handler-does-not-raise', raised is None,
              sig='C14:reply:exception-escapes-process:%s:%s' % (label, type(raised).__name__), info=info)
    ctx.check('exactly-one-terminal-reply', len(terms) == want,
              sig='C14:reply:terminal-replies:%s:%s' % (label, '+'.join(terms) or 'none'), info=info)
    if terms:
        ctx.check('terminal-reply-is-last', lines[-1] in TERMINAL, sig='C14:reply:output-after-terminal:%s' % label, info=info)
    ctx.check('nothing-left-scheduled', not reactor.asynchronous._async, sig='C14:reply:work-left-scheduled:%s' % label, info=info)
    if terms == ['error']:
        ctx.cover('error-outcome')
    if terms == ['done']:
        ctx.cover('done-outcome')
    if npeers == 0:
        ctx.cover('no-peers')
    ctx.note('class', '%s -> %s' % (label, '+'.join(terms) or 'none'))
    return [label, terms]


def h_unknown(ctx, version):
    """Unknown / incomplete commands: exactly one error, nothing scheduled."""
    command = ctx.pick('cmd', UNKNOWN)
    inj = Inj(ctx, False)
    reactor = StubReactor(ctx, inj, 2)
    getenv().api.version = version
    lines, raised = run_command(reactor, command)
    terms = terminals(lines)
    info = {'command': command, 'api-version': version, 'lines': [x.decode()[:60] for x in lines][-4:], 'raised': repr(raised) if raised else None}
    ctx.check('handler-does-not-raise', raised is None, sig='C14:reply:exception-escapes-process:unknown-command', info=info)
    ctx.check('unknown-command-one-error', terms == ['error'], sig='C14:reply:unknown-command:%s' % ('+'.join(terms) or 'none'), info=info)
    ctx.check('unknown-command-calls-nothing', inj.n == 0, sig='C14:reply:unknown-command-has-effects', info=dict(info, callees=inj.trace))
    ctx.cover('error-outcome')
    return terms


SEQ_POOL = [
    ('async-announce', {4: 'announce route ' + ROUTE, 6: 'peer * announce route ' + ROUTE}),
    ('sync-version', {4: 'version', 6: 'system version'}),
    ('unknown', {4: 'bogus', 6: 'bogus'}),
    ('async-show', {4: 'show adj-rib out', 6: 'rib show out'}),
    ('no-match', {4: 'neighbor 9.9.9.9 announce route ' + ROUTE, 6: 'peer 9.9.9.9 bogus'}),
]


def h_sequence(ctx, n, version, background=(0,)):
    """n commands, each fully processed before the next is read (as the main loop does): the terminal replies
    appear in command order, one per command.  `background`: steps of a generator task queued ahead (ASYNC mixes
    generators and coroutines in one queue)."""
    inj = Inj(ctx, False)
    reactor = StubReactor(ctx, inj, 2)
    getenv().api.version = version
    g = ctx.pick('background', background) if len(background) > 1 else background[0]
    if g:
        def bg(k):
            for _ in range(k):
                yield
        reactor.asynchronous.schedule('background', 'background task', bg(g))
        ctx.cover('background-generator')
    kinds = []
    got = []
    for i in range(n):
        kind, texts = ctx.pick('cmd%d' % i, SEQ_POOL)
        kinds.append(kind)
        lines, raised = run_command(reactor, texts[version])
        got.append(terminals(lines))
    # let the scheduler finish whatever is still queued (later loop iterations)
    late = []
    for _ in range(4):
        if reactor.asynchronous._async:
            q = reactor.processes._write_queue[SVC]
            mark = len(q)
            drive(reactor.asynchronous._run_async())
            late.extend(terminals([bytes(x) for x in list(q)[mark:]]))
    info = {'commands': kinds, 'api-version': version, 'replies-per-command': got, 'late': late, 'background-steps': g, 'callees': inj.trace}
    shape = 'background-generator' if g else 'plain'
    total = sum(len(x) for x in got) + len(late)
    aligned = all(len(x) == 1 for x in got) and not late
    fault = 'command-never-answered' if total < n else 'reply-late-or-out-of-order' if total == n else 'extra-reply'
    ctx.check('one-reply-per-command-in-order', aligned, sig='C14:reply:sequence:%s:%s' % (shape, fault), info=info)
    if aligned:
        for kind, x in zip(kinds, got):
            if kind in ('unknown', 'no-match'):
                ctx.check('invalid-command-answers-error', x == ['error'], sig='C14:reply:sequence:%s:invalid-not-error' % shape, info=info)
            if kind == 'sync-version':
                ctx.check('valid-command-answers-done', x == ['done'], sig='C14:reply:sequence:%s:valid-not-done' % shape, info=info)
    if len(set(kinds)) > 1:
        ctx.cover('mixed-sequence')
    if any(x == ['error'] for x in got):
        ctx.cover('error-outcome')
    return got


# ============================================================================= (c) side effects, selectors

from collections import deque as _deque

from kits.session import mk_conf, neighbor_from
from exabgp.bgp.fsm import FSM
from exabgp.rib.incoming import IncomingRIB
from exabgp.rib.outgoing import OutgoingRIB
import exabgp.rib.outgoing as ribout
import exabgp.reactor.loop as loopm

_quiet(ribout)
_quiet(loopm)

PROCESS_CONF = 'process svc {\n    run /bin/true;\n    encoder json;\n}\n'
API_CONF = '    api {\n        processes [ svc ];\n    }\n'
STATIC = ('route 10.8.0.0/24 next-hop 1.2.3.4', 'route 10.9.0.0/24 next-hop 1.2.3.4 watchdog dog withdraw')

# name -> (peer-address, local-ip, local-as, peer-as, router-id, attached to the API process `svc`)
NEIGHBORS = {
    'A': ('127.0.0.2', '127.0.0.1', 65000, 65001, '1.2.3.4', True),
    'B': ('127.0.0.3', '127.0.0.1', 65000, 65002, '1.2.3.4', True),
    'C': ('127.0.0.4', '127.0.0.9', 65010, 65001, '9.9.9.9', True),
    'D': ('127.0.0.5', '127.0.0.1', 65000, 65001, '1.2.3.4', False),  # configured, but not for this API process
    # every field of E is the textual EXTENSION of the matching field of A (127.0.0.2 -> 127.0.0.20, 65001 -> 650010 ...):
    # a selector term must match a whole field, not a prefix of its text
    'E': ('127.0.0.20', '127.0.0.10', 650000, 650010, '1.2.3.40', True),
    # IPv6 sessions: the address of G is the address of F followed by one more group (`:` is no word character: a term must end
    # where the field ends, not at a word boundary)
    'F': ('2001:db8::1', '2001:db8::ff', 65000, 65001, '1.2.3.4', True),
    'G': ('2001:db8::1:2', '2001:db8::ff:2', 65000, 65001, '1.2.3.4', True),
}
KEYS = ('local-ip', 'local-as', 'peer-as', 'router-id')


_INITIAL = {}


def real_neighbors():
    out = {}
    for k, (peer, local, las, pas, rid, attached) in NEIGHBORS.items():
        conf = (PROCESS_CONF if attached else '') + mk_conf(
            peer=peer, local=local, local_as=las, peer_as=pas, router_id=rid, families=('ipv4 unicast', 'ipv6 unicast'),
            routes=STATIC, extra=API_CONF if attached else '')
        n = out[k] = neighbor_from(conf)
        if k not in _INITIAL:
            # what the configuration loaded into the RIB (ParseNeighbor._init_neighbor -> add_to_rib_watchdog)
            o = n.rib.outgoing
            _INITIAL[k] = (list(o._new_nlri.values()), {w: {sign: dict(d) for sign, d in t.items()} for w, t in o._watchdog.items()})
    return out


def fresh_state(k, n):
    """Undo whatever an earlier path did to the (cached) Neighbor: new RIBs holding what the configuration loaded
    (one pending route, one route held back by watchdog `dog`), empty message queues."""
    fams = set(n.families())
    n.rib.incoming = IncomingRIB(n.adj_rib_in, fams, True)
    n.rib.outgoing = o = OutgoingRIB(n.adj_rib_out, fams, True)
    routes, watchdog = _INITIAL[k]
    for route in routes:
        o.add_to_rib(route)
    o._watchdog = {w: {sign: dict(d) for sign, d in t.items()} for w, t in watchdog.items()}
    n.eor = _deque()
    n.refresh = _deque()
    n.messages = _deque()
    n.asm = dict()


def _h(b):
    return bytes(b).hex()


def snapshot(n, peer):
    """Everything an API command may change about one neighbor."""
    o = n.rib.outgoing
    return {
        'pending-announces': sorted(_h(k) for k in o._new_nlri),
        'by-attribute': sorted([_h(a), str(f), sorted(_h(k) for k in d)] for a, fam in o._new_attr_af_nlri.items() for f, d in fam.items() if d),
        'pending-withdraws': sorted([str(f), _h(k)] for f, d in o._pending_withdraws.items() for k in d),
        'cache': sorted([str(f), _h(k)] for f, d in o._seen.items() for k in d),
        'resend': [len(o._refresh_routes), sorted(str(f) for f in o._refresh_families)],
        'watchdog': sorted([w, sign, _h(k)] for w, d in o._watchdog.items() for sign, dd in d.items() for k in dd),
        'adj-rib-in': sorted([str(f), _h(k)] for f, d in n.rib.incoming._seen.items() for k in d),
        'queues': [len(n.eor), len(n.refresh), len(n.messages), sorted(str(k) for k in n.asm)],
        'session': list(peer.torn) + list(peer.calls),
    }


class PeerC:
    """reactor.peer.Peer stand-in: the session side of a command's effect is recorded, not performed."""

    def __init__(self, neighbor):
        self.neighbor = neighbor
        self.proto = None
        self.fsm = FSM.ESTABLISHED
        self.torn = []
        self.calls = []

    def teardown(self, code):
        self.torn.append('teardown %d' % code)

    def resend(self, enhanced):
        self.calls.append('resend')
        self.neighbor.rib.outgoing.resend(enhanced)

    def remove(self):
        self.calls.append('remove')

    def cli_data(self):
        return {}


class RealishReactor:
    """Reactor stand-in for (c).  REAL: Reactor.peers / established_peers / neighbor_* lookups and rib operations
    (the functions of exabgp.reactor.loop.Reactor, bound here), Processes, ASYNC, API, dispatch, handlers, parsers,
    Configuration.announce_route & co, Neighbors, RIBs.  Not real: Peer (PeerC), no sockets, no event loop."""

    peers = loopm.Reactor.peers
    established_peers = loopm.Reactor.established_peers
    neighbor = loopm.Reactor.neighbor
    neighbor_name = loopm.Reactor.neighbor_name
    neighbor_ip = loopm.Reactor.neighbor_ip
    neighbor_cli_data = loopm.Reactor.neighbor_cli_data
    neighor_rib = loopm.Reactor.neighor_rib
    neighbor_rib_resend = loopm.Reactor.neighbor_rib_resend
    neighbor_rib_out_withdraw = loopm.Reactor.neighbor_rib_out_withdraw
    neighbor_rib_in_clear = loopm.Reactor.neighbor_rib_in_clear
    teardown_peer = loopm.Reactor.teardown_peer

    def __init__(self):
        self.processes = mk_answering_processes()
        self.asynchronous = ASYNC()
        self.asynchronous.set_error_handler(self.processes.answer_error_sync)
        self.api = API(self)
        self.configuration = cfgm.Configuration([])
        self.neigh = real_neighbors()
        self.configuration.neighbors = {}
        self.configuration._routes = {}
        self._peers = {}
        for k, n in self.neigh.items():
            fresh_state(k, n)
            self.configuration.neighbors[n.name()] = n
            self._peers[n.name()] = PeerC(n)
        self._dynamic_peers = set()
        self.signal = _Signal()
        self.active_clients = {}
        self.daemon_uuid = 'uuid'
        self.daemon_start_time = 0.0

    def snapshot(self):
        snap = {k: snapshot(n, self._peers[n.name()]) for k, n in self.neigh.items()}
        snap['route-store'] = sorted(_h(k) for k in self.configuration._routes)
        snap['peers'] = sorted(k for k, n in self.neigh.items() if n.name() in self._peers and n.name() in self.configuration.neighbors)
        return snap

    def send(self, text):
        """The helper writes `text` + newline: through the REAL reader callback (so the command is normalised the
        way the daemon does it), received_async, then one main-loop iteration per command."""
        fake_os = _OS()
        pm.os = fake_os
        fake_os.chunks.append((text + '\n').encode('ascii'))
        self.processes._async_reader_callback(SVC)
        out = []
        while True:
            cmds = list(self.processes.received_async())
            if not cmds:
                break
            for service, command in cmds:
                out.append(run_command(self, command))
        return out


def changed(before, after):
    return sorted(k for k in before if before[k] != after[k])


INVALID = [
    # (class, v4 spelling, v6 spelling)
    ('unknown-verb', 'frobnicate 10.0.0.0/24', 'frobnicate 10.0.0.0/24'),
    ('unknown-verb', 'announce-route 10.0.0.0/24 next-hop 1.2.3.4', 'peer * announce-route 10.0.0.0/24 next-hop 1.2.3.4'),
    ('truncated', 'announce', 'peer * announce'),
    ('truncated', 'announce route', 'peer * announce route'),
    ('truncated', 'withdraw route', 'peer * withdraw route'),
    ('truncated', 'neighbor 127.0.0.2', 'peer 127.0.0.2'),
    ('truncated', 'neighbor 127.0.0.2 announce', 'peer 127.0.0.2 announce'),
    ('truncated', 'announce route 10.0.0.0/24 next-hop', 'peer * announce route 10.0.0.0/24 next-hop'),
    ('truncated', 'announce route 10.0.0.0/24 next-hop 1.2.3.4 local-preference', 'peer * announce route 10.0.0.0/24 next-hop 1.2.3.4 local-preference'),
    ('no-next-hop', 'announce route 10.0.0.0/24', 'peer * announce route 10.0.0.0/24'),
    ('bad-prefix', 'announce route 10.0.0.0/33 next-hop 1.2.3.4', 'peer * announce route 10.0.0.0/33 next-hop 1.2.3.4'),
    ('bad-prefix', 'announce route 10.0.0.300/24 next-hop 1.2.3.4', 'peer * announce route 10.0.0.300/24 next-hop 1.2.3.4'),
    ('bad-prefix', 'announce route not-a-prefix next-hop 1.2.3.4', 'peer * announce route not-a-prefix next-hop 1.2.3.4'),
    ('bad-prefix', 'withdraw route 10.8.0.0/99', 'peer * withdraw route 10.8.0.0/99'),
    ('bad-attribute', 'announce route 10.0.0.0/24 next-hop 1.2.3.4 med not-a-number', 'peer * announce route 10.0.0.0/24 next-hop 1.2.3.4 med not-a-number'),
    ('bad-attribute', 'announce route 10.0.0.0/24 next-hop 1.2.3.4 origin sideways', 'peer * announce route 10.0.0.0/24 next-hop 1.2.3.4 origin sideways'),
    ('bad-attribute', 'announce route 10.0.0.0/24 next-hop 1.2.3.4 community [ 1:2', 'peer * announce route 10.0.0.0/24 next-hop 1.2.3.4 community [ 1:2'),
    ('bad-attribute', 'announce route 10.0.0.0/24 next-hop 1.2.3.4 community 70000:1', 'peer * announce route 10.0.0.0/24 next-hop 1.2.3.4 community 70000:1'),
    ('bad-attribute', 'announce route 10.0.0.0/24 next-hop 1.2.3.4 as-path [ 1 x 3 ]', 'peer * announce route 10.0.0.0/24 next-hop 1.2.3.4 as-path [ 1 x 3 ]'),
    ('bad-attribute', 'announce route 10.0.0.0/24 next-hop 999.2.3.4', 'peer * announce route 10.0.0.0/24 next-hop 999.2.3.4'),
    ('unknown-attribute', 'announce route 10.0.0.0/24 next-hop 1.2.3.4 frobnication 5', 'peer * announce route 10.0.0.0/24 next-hop 1.2.3.4 frobnication 5'),
    ('bad-attribute', 'announce attributes next-hop 1.2.3.4 med 5 nlri 10.1.0.0/24 10.2.0.0/33', 'peer * announce attributes next-hop 1.2.3.4 med 5 nlri 10.1.0.0/24 10.2.0.0/33'),
    ('bad-attribute', 'withdraw attributes next-hop 1.2.3.4 nlri 10.8.0.0/24 10.8.0.0/44', 'peer * withdraw attributes next-hop 1.2.3.4 nlri 10.8.0.0/24 10.8.0.0/44'),
    ('bad-family', 'announce ipv4 unicast 10.0.0.0/40 next-hop 1.2.3.4', 'peer * announce ipv4 unicast 10.0.0.0/40 next-hop 1.2.3.4'),
    ('bad-family', 'announce ipv6 unicast 2001:db8::/200 next-hop 2001:db8::1', 'peer * announce ipv6 unicast 2001:db8::/200 next-hop 2001:db8::1'),
    ('bad-family', 'announce ipv4 frobnicast 10.0.0.0/24 next-hop 1.2.3.4', 'peer * announce ipv4 frobnicast 10.0.0.0/24 next-hop 1.2.3.4'),
    ('bad-flow', 'announce flow route { match { source 10.0.0.0/40; } then { discard; } }', 'peer * announce flow route { match { source 10.0.0.0/40; } then { discard; } }'),
    ('bad-flow', 'announce flow route { match { source 10.0.0.0/24; } then { frobnicate; } }', 'peer * announce flow route { match { source 10.0.0.0/24; } then { frobnicate; } }'),
    ('bad-vpls', 'announce vpls frobnicate', 'peer * announce vpls frobnicate'),
    ('bad-eor', 'announce eor ipv4 frobnicast', 'peer * announce eor ipv4 frobnicast'),
    ('bad-eor', 'announce eor ipv4', 'peer * announce eor ipv4'),
    ('bad-refresh', 'announce route-refresh ipv4 frobnicast', 'peer * announce route-refresh ipv4 frobnicast'),
    ('bad-refresh', 'announce route-refresh', 'peer * announce route-refresh'),
    ('bad-operational', 'announce operational asm afi ipv4 safi frobnicast advisory "x"', 'peer * announce operational asm afi ipv4 safi frobnicast advisory "x"'),
    ('bad-teardown', 'teardown x', 'peer * teardown x'),
    ('bad-teardown', 'neighbor 127.0.0.2 teardown', 'peer 127.0.0.2 teardown'),
    ('bad-rib-command', 'show adj-rib sideways', 'rib show sideways'),
    ('bad-rib-command', 'flush adj-rib in', 'rib frobnicate out'),
    ('bad-rib-command', 'clear adj-rib', 'rib'),
    ('unknown-selector-key', 'neighbor 127.0.0.2 frob-key 5 announce route 10.0.0.0/24 next-hop 1.2.3.4', 'peer 127.0.0.2 frob-key 5 announce route 10.0.0.0/24 next-hop 1.2.3.4'),
    ('unknown-selector-key', 'neighbor 127.0.0.2 peer-as announce route 10.0.0.0/24 next-hop 1.2.3.4', 'peer 127.0.0.2 peer-as announce route 10.0.0.0/24 next-hop 1.2.3.4'),
    ('bad-group', 'neighbor 127.0.0.2 group announce route 10.0.0.0/24 next-hop 1.2.3.4', 'peer 127.0.0.2 group ;'),
    ('bad-peer-command', 'create neighbor 127.0.0.9', 'peer create 127.0.0.9'),
    ('bad-peer-command', 'delete neighbor 9.9.9.9', 'peer delete 9.9.9.9'),
]

INVALID += [
    # what follows `rib clear` / `rib flush` is a direction and nothing else (a mistyped direction, or the address of a neighbor in the
    # place where `rib show out` takes one, used to be ignored: every neighbor was cleared and the answer was done)
    ('rib-argument', 'clear adj-rib banana', 'rib clear banana'), ('rib-argument', 'clear adj-rib', 'rib clear'), ('rib-argument', 'flush adj-rib in', 'rib flush in'),
    ('rib-argument', 'clear adj-rib out 127.0.0.2', 'rib clear out 127.0.0.2'), ('rib-argument', 'flush adj-rib out 127.0.0.2', 'rib flush out 127.0.0.2'),
]


VALID = [
    ('announce', 'announce route 10.0.0.0/24 next-hop 1.2.3.4 med 5', 'peer * announce route 10.0.0.0/24 next-hop 1.2.3.4 med 5'),
    ('withdraw', 'withdraw route 10.8.0.0/24', 'peer * withdraw route 10.8.0.0/24'),
    ('watchdog', 'announce watchdog dog', 'peer * announce watchdog dog'),
    ('teardown', 'teardown 6', 'peer * teardown 6'),
    ('flush', 'flush adj-rib out', 'rib flush out'),
]


def h_sideeffect(ctx, version, pool, valid=False):
    klass, v4, v6 = ctx.pick('cmd', pool)
    text = v4 if version == 4 else v6
    reactor = RealishReactor()
    getenv().api.version = version
    before = reactor.snapshot()
    results = reactor.send(text)
    after = reactor.snapshot()
    diff = changed(before, after)
    terms = [terminals(lines) for lines, raised in results]
    raised = [repr(r) for lines, r in results if r is not None]
    info = {'command': text, 'api-version': version, 'changed': diff, 'replies': terms, 'raised': raised,
            'lines': [x.decode()[:80] for lines, _ in results for x in lines][-3:]}
    sig = '%s:%s' % (klass, ' '.join(w for w in text.split() if w.replace('-', '').isalpha())[:48])
    ctx.check('one-command-read', len(results) == 1, sig='C14:sideeffect:not-one-command:' + sig, info=info)
    ctx.check('handler-does-not-raise', not raised, sig='C14:sideeffect:exception-escapes-process:' + sig, info=info)
    if valid:
        ctx.check('valid-command-has-its-effect', diff != [], sig='C14:sideeffect:valid-command-without-effect:' + sig, info=info)
        ctx.check('valid-command-answers-done', terms == [['done']], sig='C14:sideeffect:valid-command-not-done:' + sig, info=info)
        ctx.check('unattached-neighbor-untouched', 'D' not in diff, sig='C14:sideeffect:unattached-neighbor-changed:' + sig, info=info)
        ctx.cover('valid-command-changes-rib')
        return [klass, diff, terms]
    ctx.check('invalid-command-changes-nothing', diff == [], sig='C14:sideeffect:invalid-command-changed-state:' + sig, info=info)
    ctx.check('invalid-command-answers-one-error', terms == [['error']], sig='C14:sideeffect:invalid-command-reply:%s:%s' % (
        sig, '+'.join(terms[0]) if terms and terms[0] else 'none'), info=info)
    ctx.check('nothing-left-scheduled', not reactor.asynchronous._async, sig='C14:sideeffect:work-left-scheduled:' + sig, info=info)
    ctx.cover('invalid-' + klass)
    ctx.cover('error-outcome')
    return [klass, diff, terms]


def h_group_mode(ctx, version):
    """group start / buffered commands (valid and invalid) / group end: one terminal reply per line; the invalid
    lines change nothing, the valid ones have their effect on the neighbors of the process only."""
    reactor = RealishReactor()
    getenv().api.version = version
    before = reactor.snapshot()
    bad = ctx.pick('bad', ['announce route 10.0.0.0/33 next-hop 1.2.3.4', 'announce route 10.0.0.0/24', 'withdraw route', 'announce frobnicate x'])
    with_good = bool(ctx.choice('with_good', 2))
    lines = ['group start', bad] + (['announce route 10.0.0.0/24 next-hop 1.2.3.4'] if with_good else []) + ['group end']
    terms = []
    for text in lines:
        for out, raised in reactor.send(text):
            terms.append(terminals(out))
    after = reactor.snapshot()
    diff = changed(before, after)
    info = {'lines': lines, 'replies': terms, 'changed': diff, 'api-version': version}
    ctx.check('one-terminal-reply-per-line', len(terms) == len(lines) and all(len(t) == 1 for t in terms),
              sig='C14:sideeffect:group-mode:replies', info=info)
    want = sorted(k for k, v in NEIGHBORS.items() if v[5]) if with_good else []   # every neighbor attached to the process
    ctx.check('only-valid-lines-have-effect', diff == want, sig='C14:sideeffect:group-mode:%s' % ('invalid-line-changed-state' if not with_good else 'wrong-neighbors'), info=info)
    ctx.check('group-state-released', not c_grp._GROUP_BUFFERS, sig='C14:sideeffect:group-mode:buffer-left', info=info)
    ctx.cover('group-mode')
    if with_good:
        ctx.cover('group-mixed-valid-invalid')
    return [terms, diff]


GROUP_LINES = ('announce route 10.1.0.0/24 next-hop 192.0.2.1 med 10', 'withdraw route 10.1.0.0/24', 'announce route 10.1.0.0/24 next-hop 192.0.2.2 med 50',
               'announce route 10.2.0.0/24 next-hop 192.0.2.1', 'withdraw route 10.2.0.0/24')


def h_group_order(ctx, version, n):
    """The commands of a group are executed in the order they were written.  n lines (solver-chosen from announces and
    withdraws of two prefixes, so that a withdraw may precede or follow an announce of the same prefix) are given (a) one by
    one, (b) between `group start` / `group end`, (c) as one inline `group a ; b ; c` line.  The state every neighbor ends
    in (pending announces and withdraws, cache, attribute index) is the same in the three: grouping is a way of WRITING
    the commands, not another order of executing them."""
    getenv().api.version = version
    picks = [ctx.choice('line%d' % i, len(GROUP_LINES)) for i in range(n)]
    ctx.assume(len(set(picks)) == len(picks), 'the lines of the group are different commands')
    lines = [GROUP_LINES[i] for i in picks]
    kinds = [(l.split()[0], l.split()[2]) for l in lines]
    if any(a[0] == 'withdraw' and b[0] == 'announce' and a[1] == b[1] for i, a in enumerate(kinds) for b in kinds[i + 1:]):
        ctx.cover('withdraw-then-announce-of-one-prefix')
    if any(a[0] == 'announce' and b[0] == 'withdraw' and a[1] == b[1] for i, a in enumerate(kinds) for b in kinds[i + 1:]):
        ctx.cover('announce-then-withdraw-of-one-prefix')

    def play(texts):
        reset_world()
        getenv().api.version = version
        reactor = RealishReactor()
        terms = []
        for text in texts:
            for out, raised in reactor.send(text):
                terms.append(terminals(out))
        left = bool(c_grp._GROUP_BUFFERS)
        # what every peer ends up holding once the queue is flushed (a withdraw of a route the peer never had is not a difference)
        from kits.rib import PeerTable, Sender, cached_table
        snap = {}
        for k, nb in reactor.neigh.items():
            table = PeerTable()
            Sender(nb.rib.outgoing, table, False).send(None)
            snap[k] = {'peer-holds': sorted(repr(r) for r in table.render()), 'adj-rib-out': sorted(repr(r) for r in cached_table(nb.rib.outgoing).render())}
        return snap, terms, left

    one_by_one, t1, _ = play(['peer * ' + l for l in lines])
    multi, t2, left2 = play(['group start'] + lines + ['group end'])
    inline, t3, left3 = play(['peer * group ' + ' ; '.join(lines)])
    ctx.check('the-lines-are-valid-commands', t1 == [['done']] * len(lines), sig='C14:group:order:harness:line-not-accepted-on-its-own', info={'lines': lines, 'replies': t1})
    info = {'lines': lines, 'api-version': version}
    ctx.check('group-executes-in-written-order', changed(one_by_one, multi) == [], sig='C14:group:order:multi-line-group-differs-from-the-lines-one-by-one',
              info=dict(info, differs_for=changed(one_by_one, multi), replies=t2,
                        detail={k: {f: [one_by_one[k][f], multi[k][f]] for f in one_by_one[k] if one_by_one[k][f] != multi[k][f]}
                                for k in changed(one_by_one, multi)[:1] if isinstance(one_by_one.get(k), dict)}))
    ctx.check('inline-group-executes-in-written-order', changed(one_by_one, inline) == [], sig='C14:group:order:inline-group-differs-from-the-lines-one-by-one',
              info=dict(info, differs_for=changed(one_by_one, inline), replies=t3))
    ctx.check('one-terminal-reply-per-line', len(t2) == len(lines) + 2 and all(len(t) == 1 for t in t2) and len(t3) == 1 and len(t3[0]) == 1,
              sig='C14:group:order:replies', info=dict(info, multi=t2, inline=t3))
    ctx.check('group-state-released', not left2 and not left3, sig='C14:group:order:buffer-left', info=info)
    ctx.cover('group-order')
    return [picks, t2, t3]


# ---- selectors

POOLS = {
    'ip': ['127.0.0.2', '127.0.0.3', '127.0.0.4', '127.0.0.5', '9.9.9.9', '*', '2001:db8::1', '2001:db8::1:2'],
    'local-ip': [None, '127.0.0.1', '127.0.0.9', '7.7.7.7', '2001:db8::ff'],
    'local-as': [None, 65000, 65010, 7],
    'peer-as': [None, 65001, 65002, 7],
    'router-id': [None, '1.2.3.4', '9.9.9.9', '7.7.7.7'],
}
ACTIONS = {
    'announce': 'announce route 10.0.0.0/24 next-hop 1.2.3.4',
    'withdraw': 'withdraw route 10.8.0.0/24',
    'watchdog': 'announce watchdog dog',
    'teardown': 'teardown 6',
    'routes-add': 'routes add route 10.0.0.0/24 next-hop 1.2.3.4',
    'group-inline': 'group announce route 10.0.0.0/24 next-hop 1.2.3.4 ; withdraw route 10.8.0.0/24',
}


def oracle_matches(alternatives):
    """Selector semantics as documented (extract_neighbors docstring, `help`: `[peer <ip> [filters]]`, filters
    local-ip / local-as / peer-as / router-id): a neighbor is selected iff, for at least one of the comma separated
    alternatives, its peer address equals the <ip> (or the <ip> is `*`) AND every given filter equals the neighbor's
    value.  Only neighbors attached to the API process can be selected at all."""
    out = []
    for k, (peer, local, las, pas, rid, attached) in NEIGHBORS.items():
        mine = {'local-ip': local, 'local-as': las, 'peer-as': pas, 'router-id': rid}
        for ip, terms in alternatives:
            if (ip == '*' or ip == peer) and all(mine[key] == val for key, val in terms) and attached:
                out.append(k)
                break
    return out


def selector_text(syntax, alternatives):
    def one(ip, terms):
        return ' '.join([ip] + ['%s %s' % (k, v) for k, v in terms])
    if syntax == 'v4':
        return ', '.join('neighbor ' + one(ip, t) for ip, t in alternatives)
    if len(alternatives) == 1:
        return 'peer ' + one(*alternatives[0])
    return 'peer [' + ', '.join(one(ip, t) for ip, t in alternatives) + ']'


def selector_verdict(ctx, syntax, action, alternatives, version):
    reactor = RealishReactor()
    getenv().api.version = version
    text = selector_text(syntax, alternatives) + ' ' + ACTIONS[action]
    before = reactor.snapshot()
    results = reactor.send(text)
    after = reactor.snapshot()
    diff = [k for k in changed(before, after) if k in NEIGHBORS]
    store = before['route-store'] != after['route-store']
    want = oracle_matches(alternatives)
    terms = [terminals(lines) for lines, raised in results]
    raised = [repr(r) for lines, r in results if r is not None]
    wild = any(ip == '*' for ip, t in alternatives)
    filtered = any(t for ip, t in alternatives)
    if not want:
        shape = 'no-match'
        ctx.cover('selector-no-match')
    elif len(want) == sum(1 for v in NEIGHBORS.values() if v[5]):
        shape = 'all-match'
        ctx.cover('selector-all-match')
    else:
        shape = 'partial-match'
        ctx.cover('selector-partial-match')
    if wild and filtered:
        shape = 'wildcard-with-filters'
    if wild:
        ctx.cover('selector-wildcard')
    if len(alternatives) > 1:
        ctx.cover('selector-group')
    info = {'command': text, 'api-version': version, 'changed': diff, 'selected-by-oracle': want, 'replies': terms, 'raised': raised}
    extra = sorted(set(diff) - set(want))
    missing = sorted(set(want) - set(diff))
    refused = terms == [['error']] and not diff
    tag = '%s:%s' % (syntax, shape)
    ctx.check('handler-does-not-raise', not raised, sig='C14:selector:%s:exception-escapes-process:%s' % (tag, action), info=info)
    ctx.check('only-selected-neighbors-change', not extra,
              sig='C14:selector:%s:%s:%s' % (tag, 'unattached-neighbor-changed' if 'D' in extra else 'unselected-neighbor-changed', action), info=info)
    if wild and filtered and refused:
        # `* <filters>`: the documentation does not say the form exists; refusing it (one error, nothing changed) keeps
        # "only the matching neighbors change" and is accepted.  Accepting it must mean the conjunction (checked above).
        ctx.cover('wildcard-with-filters-refused')
    else:
        ctx.check('every-selected-neighbor-changes', not missing, sig='C14:selector:%s:selected-neighbor-unchanged:%s' % (tag, action), info=info)
        ok_reply = terms == ([['done']] if want else [['error']])
        if action == 'routes-add':
            ok_reply = ok_reply or terms == [[]]  # the missing terminal reply of `routes add` is reply/*'s finding, not a selector matter
        ctx.check('reply-matches-selection', ok_reply, sig='C14:selector:%s:reply-%s:%s' % (
            tag, ('+'.join(terms[0]) if terms and terms[0] else 'none') + ('-without-match' if not want else ''), action), info=info)
    ctx.note('class', '%s %s' % (shape, 'ok' if not extra and not missing else 'extra' if extra else 'missing'))
    return [diff, want, terms]


def h_selector(ctx, syntax, action, version, ip=None, keys=KEYS):
    ip = ip if ip is not None else ctx.pick('ip', POOLS['ip'])
    terms = []
    for key in keys:
        v = ctx.pick(key, POOLS[key])
        if v is not None:
            terms.append((key, v))
    if len(terms) > 1 and ctx.choice('reversed', 2):
        terms.reverse()
        ctx.cover('terms-in-other-order')
    return selector_verdict(ctx, syntax, action, [(ip, terms)], version)


def h_selector_group(ctx, syntax, action, version):
    alts = []
    for j in range(2):
        ip = ctx.pick('ip%d' % j, ['127.0.0.2', '127.0.0.4', '127.0.0.5', '9.9.9.9'])
        v = ctx.pick('peer-as%d' % j, [None, 65001, 7])
        alts.append((ip, [('peer-as', v)] if v is not None else []))
    return selector_verdict(ctx, syntax, action, alts, version)


TEXT = ('announce route 10.0.0.0/24 next-hop 1.2.3.4\nneighbor 127.0.0.2 withdraw route 10.0.0.0/24\r\n'
        'debug hello \n\n  version\t \nsho')
TEXT_TAIL = TEXT[TEXT.index('0/24\r'):]


def _fork_units(ctx, subs):
    """Several harnesses in one unit (the runner is kept at <= 22 units): the first fork chooses the harness."""
    name, fn = ctx.pick('part', subs)
    ctx.cover('part:' + name)
    return [name, fn(ctx)]


def merged(name, subs, must_cover=(), **kw):
    subs = list(subs)
    return Unit(name, lambda ctx: _fork_units(ctx, subs), must_cover=tuple(must_cover) + tuple('part:' + n for n, _ in subs), **kw)


def units(tier):
    th = tier == 'thorough'
    us = []
    # ---- (a)
    cov = ('split', 'partial-line-kept', 'two-commands-one-read', 'read-without-newline', 'command', 'two-commands',
           'empty-line', 'trailing-partial', 'helper-exited', 'helper-exited-eof', 'debug-line-not-a-command')
    K = 4 if th else 3
    small = [('L%d' % L, lambda ctx, L=L: h_reassembly(ctx, L, K, sym=2)) for L in range(1, 9 if th else 8)]
    small.append(('text-k2', lambda ctx: h_reassembly(ctx, 0, 2, text=TEXT, modes=6)))
    small.append(('text-k%d' % K, lambda ctx: h_reassembly(ctx, 0, K, text=TEXT_TAIL, modes=6)))
    us.append(merged('reassembly/small', small, must_cover=cov, weight=40000 if th else 4000, max_seconds=1500, max_paths=400000))
    part_cov = ('split', 'partial-line-kept', 'helper-exited')
    if not th:
        for a in range(3):
            us.append(Unit('reassembly/L8/%s' % 'nwo'[a], lambda ctx, f=(a,): h_reassembly(ctx, 8, 3, fixed=f, sym=2), weight=3000, must_cover=part_cov))
    else:
        # L9, L10: all <=4-chunkings; drained after every read with the helper alive / at the end with the helper exiting
        two = (0, 4)
        us.append(merged('reassembly/L10/n+w', [('n', lambda ctx: h_reassembly(ctx, 10, 4, fixed=(0,), sym=2, modes=two)),
                                                 ('w', lambda ctx: h_reassembly(ctx, 10, 4, fixed=(1,), sym=2, modes=two))],
                         must_cover=part_cov, weight=90000, max_seconds=3000, max_paths=400000))
        us.append(merged('reassembly/L10/o+L9', [('L10o', lambda ctx: h_reassembly(ctx, 10, 4, fixed=(2,), sym=2, modes=two)),
                                                  ('L9', lambda ctx: h_reassembly(ctx, 9, 4, sym=2, modes=two))],
                         must_cover=part_cov, weight=80000, max_seconds=3000, max_paths=400000))
        us.append(Unit('reassembly/L11', lambda ctx: h_reassembly(ctx, 11, 3, sym=2, modes=(0,)),
                       must_cover=('split', 'partial-line-kept'), weight=60000, max_seconds=3000, max_paths=400000))
        for a in range(3):
            us.append(Unit('reassembly/L12/%s' % 'nwo'[a], lambda ctx, f=(a,): h_reassembly(ctx, 12, 3, fixed=f, sym=1, modes=(0,)),
                           must_cover=('split', 'partial-line-kept'), weight=100000, max_seconds=3000, max_paths=400000))
    # ---- delivery of the queued replies
    us.append(Unit('reply/delivery', lambda ctx: h_delivery(ctx, 4 if th else 3, 4 if th else 3),
                   must_cover=('written', 'partial-write', 'pipe-full', 'two-replies'), weight=3000, max_seconds=1200, max_paths=200000))
    # ---- (b)
    v6 = v6_commands()
    v4 = v4_commands()

    def grp(cmds, names):
        return [(label, text) for g, label, text in cmds if g in names]

    fault_cov = ('done-outcome', 'error-outcome', 'fault-injected', 'fault-KeyError', 'fault-ValueError', 'fault-IndexError', 'fault-RuntimeError', 'no-peers')
    v6_in_v4 = [(g, 'v6-in-v4 ' + label, c) for g, label, c in v6 if g in ('announce', 'rib', 'session')]
    known6 = set(g for g, _, _ in v6)
    known4 = set(g for g, _, _ in v4)
    plan = [
        ('reply/v6/control', 6, grp(v6, known6 - {'announce', 'withdraw', 'routes', 'rib', 'peer-selector'}), ('done-outcome', 'error-outcome')),
        ('reply/v6/announce', 6, grp(v6, {'announce'}), fault_cov),
        ('reply/v6/withdraw+routes+rib+selector', 6, grp(v6, {'withdraw', 'routes', 'rib', 'peer-selector'}), fault_cov),
        ('reply/v4/announce', 4, grp(v4, {'v4-announce'}), fault_cov),
        ('reply/v4/withdraw+other', 4, grp(v4, known4 - {'v4-announce', 'v4-neighbor'}) + grp(v6_in_v4, {'rib', 'session'}), fault_cov),
        ('reply/v4/neighbor', 4, grp(v4, {'v4-neighbor'}) + (grp(v6_in_v4, {'announce'}) if th else []), fault_cov),
    ]
    for name, version, lst, cv in plan:
        us.append(Unit(name, lambda ctx, lst=lst, v=version: h_reply(ctx, lst, v), must_cover=cv, weight=20 * len(lst), reset=reset_world,
                       max_seconds=1500, max_paths=100000))
    N = 3
    us.append(merged('reply/unknown+sequence', [('unknown-v4', lambda ctx: h_unknown(ctx, 4)), ('unknown-v6', lambda ctx: h_unknown(ctx, 6)),
                                                ('sequence-v4', lambda ctx: h_sequence(ctx, N, 4)), ('sequence-v6', lambda ctx: h_sequence(ctx, N, 6))],
                     must_cover=('mixed-sequence', 'error-outcome'), weight=1500, reset=reset_world, max_seconds=1500))
    bgs = (1, 2, 48, 49, 50, 51) if th else (2, 49, 50)
    us.append(merged('reply/sequence-background', [('v4', lambda ctx: h_sequence(ctx, 2, 4, background=bgs)), ('v6', lambda ctx: h_sequence(ctx, 2, 6, background=bgs))],
                     must_cover=('mixed-sequence', 'background-generator'), weight=800, reset=reset_world))
    # ---- (c)
    for version in (4, 6):
        subs = [('invalid-%02d' % (n // 8), lambda ctx, v=version, pool=INVALID[n:n + 8]: h_sideeffect(ctx, v, pool)) for n in range(0, len(INVALID), 8)]
        subs.append(('valid', lambda ctx, v=version: h_sideeffect(ctx, v, VALID, valid=True)))
        subs.append(('group-mode', lambda ctx, v=version: h_group_mode(ctx, v)))
        us.append(merged('sideeffect/v%d' % version, subs, must_cover=('error-outcome', 'valid-command-changes-rib', 'group-mode', 'group-mixed-valid-invalid') + tuple(
            'invalid-' + k for k in sorted(set(k for k, _, _ in INVALID))), weight=600, reset=reset_world))
    sel_cov = ('selector-no-match', 'selector-partial-match', 'selector-all-match', 'selector-wildcard')
    for syntax, version in (('v4', 4), ('v6', 6)):
        for half, ips in (('a', POOLS['ip'][:3]), ('b', POOLS['ip'][3:])):
            us.append(merged('selector/%s/announce/%s' % (syntax, half),
                             [(ip, lambda ctx, s=syntax, v=version, ip=ip: h_selector(ctx, s, 'announce', v, ip=ip)) for ip in ips],
                             must_cover=('selector-no-match', 'selector-partial-match', 'terms-in-other-order'), weight=1500, reset=reset_world, max_seconds=1500))
    other = []
    for syntax, version in (('v4', 4), ('v6', 6)):
        for action in ACTIONS:
            if action == 'announce' or (syntax == 'v4' and action in ('routes-add', 'group-inline')):
                continue
            other.append(('%s-%s' % (syntax, action), lambda ctx, s=syntax, v=version, a=action: h_selector(ctx, s, a, v, keys=('peer-as', 'router-id'))))
        other.append(('%s-group' % syntax, lambda ctx, s=syntax, v=version: h_selector_group(ctx, s, 'announce', v)))
    other.append(('v6-in-v4-announce', lambda ctx: h_selector(ctx, 'v6', 'announce', 4, keys=('peer-as', 'local-as'))))
    us.append(merged('selector/other', other, must_cover=sel_cov + ('selector-group',), weight=2000, reset=reset_world, max_seconds=1500))
    us.append(Unit('group/order', lambda ctx: h_group_order(ctx, 6, 3 if th else 2), weight=300, reset=reset_world, max_seconds=900,
                   must_cover=('group-order', 'withdraw-then-announce-of-one-prefix', 'announce-then-withdraw-of-one-prefix')))
    assert len(us) <= 25, len(us)
    return us
