"""C14 — API commands: same order, one acknowledgement each, no side effects on error.

Units
  reassembly/*  : the real Processes._async_reader_callback + received_async with os.read scripted: a stream of L
                  characters whose CLASS (newline / whitespace / other) is symbolic per position, cut into <=k chunks at
                  symbolic offsets, drained by received_async a symbolic number of times between reads.
                  Oracle (written from the docstrings): the complete lines of the whole stream, in order, stripped;
                  nothing of a partial line is executed before its newline arrives.
  reply/*       : every handler reachable from the LIVE dispatch tables (v6 tree, v6 announce/withdraw/routes tables,
                  v4 translation tables) called through the real API.process on a stand-in reactor holding the REAL
                  Processes (answer_* / write) and the REAL ASYNC scheduler; parser / configuration / rib callees are
                  stubs with a symbolic outcome (value, empty, raises ValueError / IndexError / KeyError / RuntimeError)
                  and a symbolic fault point.  Exactly one terminal line ('done' | 'error') per command, last of the
                  command's output, in command order.
  sideeffect/*  : real API.process + real dispatch + real parsers + real Configuration.announce_route on three real
                  Neighbors with real RIBs: an invalid command leaves every RIB untouched and answers one error.
  selector/*    : `neighbor <ip> [local-as N] [peer-as N] [router-id X] [local-ip Y]` / `peer ...` / `[a, b]` / `*`
                  with terms picked from pools: the set of neighbors whose RIB changed == neighbors matching EVERY term.
"""
from __future__ import annotations

import collections

from sx.run import Unit

import exabgp.reactor.api.processes as pm
from exabgp.reactor.api.processes import Processes

ID = 'C14'
LEVEL = 'model_checking'
TECHNIQUE = ('explicit exhaustive exploration (sx runner: one path per combination, every path replayed in a clean '
             'interpreter) of the real reader callback / API.process / dispatch / command handlers')
ASSUMPTIONS = []
BOUNDS = {'quick': {}, 'thorough': {}}
OUTSIDE = []


class _Log:
    def __getattr__(self, name):
        return lambda *a, **k: None


def _quiet(mod):
    if hasattr(mod, 'log'):
        mod.log = _Log()
    for n in ('lazymsg', 'lazyexc', 'lazyformat'):
        if hasattr(mod, n):
            setattr(mod, n, lambda *a, **k: None)


_quiet(pm)

SVC = 'svc'

# ============================================================================= (a) reassembly

WS = (' ', '\r', '\t')


def oracle_lines(stream):
    """Complete lines of `stream` (text before each newline), each normalised the way an API command is
    documented to be read: surrounding whitespace removed, tabs are spaces, runs of spaces collapse.
    Returns (commands, partial) — `partial` is the text after the last newline (kept, never executed)."""
    parts = stream.split('\n')
    partial = parts.pop()
    out = []
    for line in parts:
        s = line.strip(' \t\r').replace('\t', ' ')
        while '  ' in s:
            s = s.replace('  ', ' ')
        out.append(s)
    return out, partial


class _Proc:
    """subprocess.Popen stand-in: stdout with a fileno, poll() scripted."""

    class _Out:
        def fileno(self):
            return 7

    def __init__(self):
        self.stdout = self._Out()
        self.stdin = self._Out()
        self.exit = None

    def poll(self):
        return self.exit


def mk_processes(services=(SVC,)):
    p = object.__new__(Processes)
    p.clean()
    p.silence = False
    p._buffer = {}
    p._configuration = {}
    p._restart = {}
    p.respawn_number = 0
    p.terminate_on_error = False
    p._default_ack = True
    p._async_mode = True
    p._loop = None
    p._write_queue = {}
    p._command_queue = collections.deque()
    for s in services:
        p._process[s] = _Proc()
        p._ack[s] = True
        p._ackjson[s] = False
    return p


class _Thread:
    """threading.Thread stand-in for Processes._terminate: the helper is a fake, nothing to kill."""

    def __init__(self, target=None, args=()):
        pass

    def start(self):
        pass

    def join(self):
        pass


pm.Thread = _Thread


class _OS:
    """os stand-in for exabgp.reactor.api.processes: read() delivers the scripted chunks."""

    def __init__(self):
        self.chunks = collections.deque()

    def read(self, fd, n):
        return self.chunks.popleft()

    def __getattr__(self, name):
        import os
        return getattr(os, name)


def mk_stream(classes):
    """class per position: 0 newline, 1 whitespace (space / CR / tab by position), 2 other (a distinct letter)."""
    return ''.join('\n' if c == 0 else WS[i % 3] if c == 1 else chr(ord('a') + i) for i, c in enumerate(classes))


def cut_points(ctx, L, k):
    """number of chunks n in 1..k and n-1 strictly increasing cut offsets in 1..L-1, all symbolic (forks)."""
    n = 1 + ctx.choice('chunks', min(k, L))
    cuts = []
    lo = 1
    for j in range(n - 1):
        # leave room for the remaining cuts
        c = ctx.concretize(ctx.int('cut%d' % j, lo, L - (n - 1 - j)))
        cuts.append(c)
        lo = c + 1
    bounds = [0] + cuts + [L]
    return list(zip(bounds, bounds[1:]))


DRAIN_MODES = ('at-end', 'one-per-read', 'all-per-read')


def feed(stream, pieces, drain, exited=False):
    """Deliver `stream` to the real reader callback in `pieces`; returns (commands yielded in order, final buffer,
    problems reported, first failed per-read obligation or None, facts seen)."""
    p = mk_processes()
    fake_os = _OS()
    pm.os = fake_os
    got = []
    bad = None
    facts = set()
    last = len(pieces) - 1
    for n, (a, b) in enumerate(pieces):
        chunk = stream[a:b]
        fake_os.chunks.append(chunk.encode('ascii'))
        if exited and n == last:
            p._process[SVC].exit = 0
        p._async_reader_callback(SVC)
        seen, partial = oracle_lines(stream[:b])
        if partial and b < len(stream):
            facts.add('partial-line-kept')
        nl = chunk.count('\n')
        if nl >= 2:
            facts.add('two-commands-one-read')
        if nl == 0:
            facts.add('read-without-newline')
        queued = [c for _, c in got] + [c for _, c in p._command_queue]
        if bad is None and queued != seen:
            bad = ('complete-lines-only', {'after-read': n, 'got': queued, 'want': seen})
        if bad is None and not (exited and n == last) and p._buffer.get(SVC, '') != partial:
            bad = ('partial-kept', {'after-read': n, 'buffer': p._buffer.get(SVC, ''), 'want': partial})
        if drain:
            while True:
                one = list(p.received_async())
                if len(one) > 1 and bad is None:
                    bad = ('one-command-per-call', {'yielded': one})
                got.extend(one)
                if drain == 1 or not one:
                    break
    while True:
        one = list(p.received_async())
        if not one:
            break
        if len(one) > 1 and bad is None:
            bad = ('one-command-per-call', {'yielded': one})
        got.extend(one)
    return got, p._buffer.get(SVC, ''), [] if SVC in p._process else [SVC], bad, facts


PER_READ = {'complete-lines-only': 'C14:reassembly:queue-differs-from-complete-lines',
            'partial-kept': 'C14:reassembly:partial-line-not-kept',
            'one-command-per-call': 'C14:reassembly:more-than-one-command-per-call'}


MODES = ((1, False), (0, False), (2, False), (1, True), (0, True))  # (drain pattern, helper exits with the last read)


def h_reassembly(ctx, L, k, fixed=(), sym=3, text=None, modes=4):
    """classes of the first positions (`fixed` by the unit, then `sym` engine forks), chunk count, cut offsets,
    drain pattern / exit flag: engine forks.  Classes of the remaining positions: enumerated exhaustively by the loop
    below (every combination), the first failing stream of a path is reported."""
    import itertools
    if text is None:
        head = list(fixed) + [ctx.choice('c%d' % i, 3) for i in range(len(fixed), min(len(fixed) + sym, L))]
        tails = itertools.product(range(3), repeat=L - len(head))
    else:
        L = len(text)
    pieces = cut_points(ctx, L, k)
    drain, exited = MODES[ctx.choice('mode', modes)]
    if len(pieces) > 1:
        ctx.cover('split')
    fails = {}
    nstreams = 0
    summary = 0
    streams = [text] if text is not None else (mk_stream(head + list(t)) for t in tails)
    for stream in streams:
        nstreams += 1
        want, want_partial = oracle_lines(stream)
        got, buf, problems, bad, facts = feed(stream, pieces, drain, exited)
        cmds = [c for _, c in got]
        for f in facts:
            ctx.cover(f)
        if want:
            ctx.cover('command')
        if len(want) >= 2:
            ctx.cover('two-commands')
        if '' in want:
            ctx.cover('empty-line')
        if want_partial:
            ctx.cover('trailing-partial')
        info = {'stream': stream, 'pieces': pieces, 'drain': DRAIN_MODES[drain], 'exited': exited}
        if bad is not None:
            fails.setdefault(bad[0], dict(info, **bad[1]))
        if cmds != want:
            fails.setdefault('same-commands-same-order', dict(info, got=cmds, want=want))
        if any(s != SVC for s, _ in got):
            fails.setdefault('service-name', info)
        if exited:
            # the helper died: whatever it left unfinished can never become a command
            if problems != [SVC]:
                fails.setdefault('exit-reported-once', dict(info, problems=problems))
            if buf != '':
                fails.setdefault('partial-dropped-at-exit', dict(info, buffer=buf))
        else:
            if buf != want_partial:
                fails.setdefault('trailing-partial-not-executed', dict(info, buffer=buf, want=want_partial))
            if problems:
                fails.setdefault('no-problem-reported', dict(info, problems=problems))
        summary += len(cmds) * 7 + len(buf)
    if exited:
        ctx.cover('helper-exited')
    for name, sig in list(PER_READ.items()) + [
            ('same-commands-same-order', 'C14:reassembly:commands-differ-from-stream-lines'),
            ('service-name', 'C14:reassembly:wrong-service'),
            ('exit-reported-once', 'C14:reassembly:exit-not-reported'),
            ('partial-dropped-at-exit', 'C14:reassembly:partial-line-survives-exit'),
            ('trailing-partial-not-executed', 'C14:reassembly:trailing-partial-executed-or-lost'),
            ('no-problem-reported', 'C14:reassembly:spurious-process-problem')]:
        ctx.check(name, name not in fails, sig=sig, info=fails.get(name))
    ctx.note('streams', nstreams)
    return [nstreams, summary]


# ============================================================================= (b) exactly one terminal reply

import contextlib
import io

import exabgp.reactor.api as apim
import exabgp.reactor.asynchronous as asm
import exabgp.reactor.api.command.announce as c_ann
import exabgp.reactor.api.command.group as c_grp
import exabgp.reactor.api.command.neighbor as c_nei
import exabgp.reactor.api.command.peer as c_peer
import exabgp.reactor.api.command.reactor as c_rea
import exabgp.reactor.api.command.rib as c_rib
import exabgp.reactor.api.command.route as c_route
import exabgp.reactor.api.command.watchdog as c_wd
import exabgp.reactor.api.dispatch.common as d_common
import exabgp.reactor.api.dispatch.v4 as d4
import exabgp.reactor.api.dispatch.v6 as d6
import exabgp.configuration.configuration as cfgm
from exabgp.reactor.api import API
from exabgp.reactor.asynchronous import ASYNC
from exabgp.reactor.api.response.answer import Answer
from exabgp.environment import getenv
from exabgp.protocol.family import Family
from exabgp.bgp.message.refresh import RouteRefresh

for _m in (apim, asm, c_ann, c_grp, c_nei, c_peer, c_rea, c_rib, c_route, c_wd, cfgm):
    _quiet(_m)

TERMINAL = {(Answer.text_done + '\n').encode(): 'done', (Answer.text_error + '\n').encode(): 'error',
            (Answer.json_done + '\n').encode(): 'done', (Answer.json_error + '\n').encode(): 'error',
            (Answer.text_shutdown + '\n').encode(): 'shutdown', (Answer.json_shutdown + '\n').encode(): 'shutdown'}

PEER_NAMES = (
    'neighbor 127.0.0.2 local-ip 127.0.0.1 local-as 65000 peer-as 65001 router-id 1.2.3.4 family-allowed in-open',
    'neighbor 127.0.0.3 local-ip 127.0.0.1 local-as 65000 peer-as 65002 router-id 1.2.3.4 family-allowed in-open',
)


def drive(coro):
    """Run a coroutine to completion by hand (asyncio.sleep(0) is a bare yield: no event loop needed)."""
    try:
        while True:
            coro.send(None)
    except StopIteration as e:
        return e.value


async def _no_flush():
    return None


def mk_answering_processes():
    """The REAL Processes in async mode: answer_done/answer_error/_answer/_answer_sync/write are the real ones and
    queue every line in _write_queue[service]; only the flush to the helper's stdin is a no-op."""
    p = mk_processes()
    p.flush_write_queue = _no_flush
    p._write_queue[SVC] = collections.deque()
    return p


def reset_world():
    """Process-wide state a command can leave behind."""
    getenv().api.version = 6
    c_grp._GROUP_BUFFERS.clear()
    c_grp._GROUP_BYTES.clear()


def run_command(reactor, command):
    """One iteration of Reactor._async_main_loop for one command: API.process, then the scheduled work.
    Returns (lines written for this command, exception escaping API.process or None)."""
    q = reactor.processes._write_queue[SVC]
    mark = len(q)
    raised = None
    try:
        with contextlib.redirect_stderr(io.StringIO()):
            reactor.api.process(reactor, SVC, command)
    except Exception as exc:  # would escape the reactor's main loop
        raised = exc
    if reactor.asynchronous._async:
        drive(reactor.asynchronous._run_async())
    return [bytes(x) for x in list(q)[mark:]], raised


def terminals(lines):
    return [TERMINAL[x] for x in lines if x in TERMINAL]


EXCS = (ValueError, IndexError, KeyError, RuntimeError)


class Inj:
    """Symbolic outcome of every stubbed callee: which of its values it returns, or (single-fault model) which
    exception it raises; decided by a fork at the call, named by the call's ordinal on the path."""

    def __init__(self, ctx, faults=True):
        self.ctx = ctx
        self.faults = faults
        self.faulted = False
        self.n = 0
        self.trace = []

    def call(self, name, values, raising=True):
        i = self.n
        self.n += 1
        nv = len(values)
        opts = nv + (len(EXCS) if (raising and self.faults and not self.faulted) else 0)
        c = self.ctx.choice('o%d' % i, opts) if opts > 1 else 0
        self.trace.append('%s=%d' % (name, c))
        if c >= nv:
            self.faulted = True
            self.ctx.cover('fault-injected')
            self.ctx.cover('fault-' + EXCS[c - nv].__name__)
            raise EXCS[c - nv]('injected fault in %s' % name)
        if nv > 1 and c > 0:
            self.ctx.cover('alternative-value')
        return values[c]


class _Bag:
    """Attribute bag whose unknown attributes are stubbed callees returning True (so that a callee added to a
    handler later is still an injection point)."""

    def __init__(self, inj, name, values=None, raising=True):
        self.__dict__['_inj'] = inj
        self.__dict__['_name'] = name
        self.__dict__['_values'] = values or {}
        self.__dict__['_raising'] = raising

    def __getattr__(self, attr):
        if attr.startswith('__'):
            raise AttributeError(attr)
        vals = self._values.get(attr, [True])
        return lambda *a, **k: self._inj.call('%s.%s' % (self._name, attr), vals, self._raising)


_ROUTES = {}


def sample_routes():
    """Real Route objects, parsed once by the real parser (handlers validate / render them for real)."""
    if not _ROUTES:
        api = API(None)
        _ROUTES['a'] = api.api_route('announce route 10.0.0.0/24 next-hop 1.2.3.4')[0]
        _ROUTES['b'] = api.api_route('announce route 10.0.1.0/24 next-hop 1.2.3.4')[0]
        _ROUTES['nonh'] = api.api_route('route 10.0.2.0/24', 'withdraw')[0]
        _ROUTES['op'] = api.api_operational('operational asm afi ipv4 safi unicast advisory "x"', 'announce')
    return _ROUTES


class _Session:
    def __init__(self, name):
        w = name.split()
        self.peer_address = w[1]
        self.local_address = w[3]
        self.local_as = int(w[5])
        self.peer_as = int(w[7])
        self.router_id = w[9]


class StubNeighbor:
    def __init__(self, inj, name):
        r = sample_routes()
        self.session = _Session(name)
        self._name = name
        out = _Bag(inj, 'rib.outgoing', {'announce_watchdog': [None], 'withdraw_watchdog': [None],
                                         'cached_routes': [[r['a']], []]})
        self.rib = type('RIB', (), {})()
        self.rib.outgoing = out
        self.rib.incoming = _Bag(inj, 'rib.incoming', {'cached_routes': [[r['a']], []], 'clear': [None]})

    def families(self):
        return [(1, 1)]

    def name(self):
        return self._name

    def __str__(self):
        return 'neighbor %s {\n}' % self.session.peer_address


class StubPeer:
    def __init__(self, inj, name, neighbor):
        self._inj = inj
        self.neighbor = neighbor
        self.proto = None
        self.fsm = type('F', (), {'name': staticmethod(lambda: 'IDLE')})()
        self.torn = []

    def teardown(self, code):
        self.torn.append(code)

    def remove(self):
        self._inj.call('peer.remove', [None])

    def cli_data(self):
        return {}


class StubConfiguration(_Bag):
    def __init__(self, inj, names):
        _Bag.__init__(self, inj, 'configuration', {
            'announce_route': [True], 'withdraw_route': [True, False], 'announce_route_indexed': [(b'\x01\x02', True)],
            'withdraw_route_by_index': [True, False], 'inject_eor': [True], 'inject_refresh': [True],
            'inject_operational': [True]})
        self.__dict__['neighbors'] = {n: StubNeighbor(inj, n) for n in names}


class _Signal:
    SHUTDOWN, RELOAD, RESTART = 1, 2, 3
    received = 0


_API_B = []


def stubbed_api(reactor, inj):
    """The real API object; every api_* parser method is replaced by a stub with a symbolic outcome."""
    if not _API_B:
        _API_B.append(API(None))
    api = _API_B[0]
    api.reactor = reactor
    r = sample_routes()
    values = {
        'api_eor': [Family(1, 1), False], 'api_refresh': [[RouteRefresh.make_route_refresh(1, 1)], None],
        'api_operational': [r['op'], None, False],
        'api_route': [[r['a']], [r['a'], r['b']], [], [r['nonh']]],
    }
    default = [[r['a']], [r['a'], r['b']], []]
    for name in dir(API):
        if name.startswith('api_'):
            vals = values.get(name, default)
            setattr(api, name, lambda *a, _n=name, _v=vals, **k: inj.call('api.' + _n, _v))
    return api


class StubReactor:
    """What the handlers see of the Reactor.  REAL: processes (answering), asynchronous (ASYNC wired to
    processes.answer_error_sync as Reactor.run_async does), api (dispatch, handlers).  STUB: everything a handler
    calls to parse or to act."""

    def __init__(self, ctx, inj, npeers=2):
        self.processes = mk_answering_processes()
        self.asynchronous = ASYNC()
        self.asynchronous.set_error_handler(self.processes.answer_error_sync)
        names = PEER_NAMES[:npeers]
        self.configuration = StubConfiguration(inj, names)
        self._peers = {n: StubPeer(inj, n, self.configuration.neighbors[n]) for n in names}
        self._dynamic_peers = set()
        self.signal = _Signal()
        self.active_clients = {}
        self.daemon_uuid = 'uuid'
        self.daemon_start_time = 0.0
        self._inj = inj
        self._established = None
        self.api = stubbed_api(self, inj)

    def peers(self, service=''):
        return list(self._peers)

    def established_peers(self):
        if self._established is None:
            self._established = self._inj.call('reactor.established_peers', [set(self._peers), set()], raising=False)
        return self._established

    def teardown_peer(self, name, code):
        self._peers[name].teardown(code)

    def neighbor(self, name):
        return None

    def neighbor_name(self, name):
        return name

    def neighbor_ip(self, name):
        return name.split()[1]

    def neighbor_cli_data(self, name):
        return {}

    def neighor_rib(self, name, rib_name, advertised=False):
        r = sample_routes()
        return self._inj.call('reactor.neighor_rib', [[r['a'], r['b']], []])

    def neighbor_rib_resend(self, name):
        return self._inj.call('reactor.neighbor_rib_resend', [None])

    def neighbor_rib_out_withdraw(self, name):
        return self._inj.call('reactor.neighbor_rib_out_withdraw', [None])

    def neighbor_rib_in_clear(self, name):
        return self._inj.call('reactor.neighbor_rib_in_clear', [None])


# ---- command texts derived from the LIVE dispatch tables

ROUTE = '10.0.0.0/24 next-hop 1.2.3.4'
ARGS = {
    ('rib', 'show'): ['in', 'out extensive', 'sideways', ''],
    ('rib', 'flush'): ['out', ''],
    ('rib', 'clear'): ['in', 'out'],
    ('system', 'api', 'version'): ['', '4', '5', 'x'],
    ('session', 'ping'): ['', 'abc 1.5', 'abc notafloat text'],
    ('session', 'bye'): ['', 'abc'],
    ('peer', 'show'): ['', 'summary', 'extensive', 'configuration', 'bogus'],
    ('peer', 'create'): ['127.0.0.9 local-address 127.0.0.1 local-as 1 peer-as 2', '127.0.0.9', 'x y', ''],
    ('peer', 'delete'): ['127.0.0.2', '*', '9.9.9.9', ''],
    ('peer', '*', 'show'): ['', 'summary', 'extensive', 'configuration'],
    ('peer', '*', 'teardown'): ['6', 'x', ''],
    ('peer', '*', 'group'): ['announce route %s ; withdraw route %s' % (ROUTE, ROUTE), 'bogus x ; announce route ' + ROUTE, ';', ''],
    ('announce', 'route'): [ROUTE, ROUTE + ' sync', ''],
    ('announce', 'eor'): ['', 'ipv4 unicast'],
    ('announce', 'route-refresh'): ['ipv4 unicast', ''],
    ('announce', 'operational'): ['asm afi ipv4 safi unicast advisory "x"', 'bogus', ''],
    ('announce', 'watchdog'): ['dog', ''],
    ('withdraw', 'route'): [ROUTE, ''],
    ('withdraw', 'watchdog'): ['dog', ''],
    ('routes', 'list'): ['', 'ipv4 unicast'],
    ('routes', 'add'): ['route ' + ROUTE, ''],
    ('routes', 'remove'): ['route ' + ROUTE, 'index 0102', 'index zz', ''],
    ('announce', '?'): ['x'],
    ('withdraw', '?'): ['x'],
    ('routes', '?'): [''],
}
DEFAULT_ARGS = ['x y', '']
NO_REPLY_BY_DESIGN = ('session ack silence',)  # documented: "Disable ACK responses immediately (no 'done' sent for this command)"


def _leaves(node, path=()):
    for k, v in node.items():
        if isinstance(v, dict):
            yield from _leaves(v, path + (k,))
        else:
            yield path + (k,), v


def v6_commands():
    """[(group, label, command)]: every leaf of the live v6 tree; the announce / withdraw / routes leaves are expanded
    through their own live tables (plus one unregistered type each)."""
    out = []
    for path, handler in _leaves(d6._get_v6_tree()):
        path = tuple('*' if w == d_common.SELECTOR_KEY else w for w in path)
        prefix = ' '.join(path)
        sub = {c_ann.v6_announce: ('announce', c_ann._V6_ANNOUNCE_HANDLERS), c_ann.v6_withdraw: ('withdraw', c_ann._V6_WITHDRAW_HANDLERS),
               c_route.v6_routes: ('routes', c_route._V6_ROUTES_HANDLERS)}.get(handler)
        if sub is not None:
            word, table = sub
            for t in list(table) + ['?']:
                for a in ARGS.get((word, t), DEFAULT_ARGS):
                    tt = 'bogus-type' if t == '?' else t
                    if word == 'routes':
                        text = '%s %s %s' % (prefix, tt, a)
                    else:
                        text = '%s %s %s' % (prefix, tt, a)
                    out.append((word, '%s %s' % (word, tt), text.strip()))
            continue
        group = path[0] if path[0] != '#' else 'system'
        if path[:2] == ('peer', '*'):
            group = 'peer-selector'
        for a in ARGS.get(path, ['']):
            out.append((group, prefix, ('%s %s' % (prefix, a)).strip()))
    return out


def v4_commands():
    """[(group, label, command)] v4 spellings: every key of the live translation table and subcommand sets, the
    show/flush/clear/create/delete/teardown forms of translate_v4_to_v6, and the neighbor-prefixed forms."""
    out = []
    for word in d4.V4_SIMPLE_TRANSLATIONS:
        out.append(('v4-simple', 'v4 ' + word, word))
    out.append(('v4-simple', 'v4 api version', 'api version'))
    for text in ('show adj-rib in', 'show adj-rib out extensive', 'show adj-rib', 'show neighbor summary', 'show neighbor', 'show',
                 'flush adj-rib out', 'flush adj-rib in', 'clear adj-rib in', 'clear adj-rib out', 'clear adj-rib', 'clear',
                 'create neighbor 127.0.0.9', 'delete neighbor 127.0.0.2', 'delete neighbor 9.9.9.9', 'teardown 6', 'teardown x'):
        out.append(('v4-show', 'v4 ' + ' '.join(text.split()[:2]), text))
    for word, subs in (('announce', d4.ANNOUNCE_SUBCOMMANDS), ('withdraw', d4.WITHDRAW_SUBCOMMANDS)):
        for t in sorted(subs) + ['?']:
            for a in ARGS.get((word, t), DEFAULT_ARGS):
                tt = 'bogus-type' if t == '?' else t
                out.append(('v4-' + word, 'v4 %s %s' % (word, tt), ('%s %s %s' % (word, tt, a)).strip()))
                out.append(('v4-neighbor', 'v4 neighbor %s %s' % (word, tt), ('neighbor 127.0.0.2 %s %s %s' % (word, tt, a)).strip()))
    for text in ('neighbor 127.0.0.2 teardown 6', 'neighbor 127.0.0.2 teardown', 'neighbor 127.0.0.2 show', 'neighbor 127.0.0.2',
                 'neighbor', 'neighbor 9.9.9.9 teardown 6', 'neighbor 9.9.9.9 announce route ' + ROUTE, 'neighbor 127.0.0.2 announce'):
        out.append(('v4-neighbor', 'v4 ' + ' '.join(w for w in text.split() if not w[0].isdigit())[:40], text))
    return out


UNKNOWN = ['bogus', 'bogus with words', 'daemon', 'daemon bogus', 'session ack', 'peer', 'peer *', 'peer * bogus', 'rib', 'rib bogus in',
           'peer 127.0.0.2 bogus-key 5 announce route ' + ROUTE, 'group', 'group bogus', 'system api', 'announce-route x']


def h_reply(ctx, commands, version, faults=True):
    """One command through the real API.process / dispatch / handler / ASYNC; callee outcomes symbolic."""
    label, command = ctx.pick('cmd', commands)
    npeers = (2, 0)[ctx.choice('nopeers', 2)]
    inj = Inj(ctx, faults)
    reactor = StubReactor(ctx, inj, npeers)
    getenv().api.version = version
    lines, raised = run_command(reactor, command)
    terms = terminals(lines)
    want = 0 if label in NO_REPLY_BY_DESIGN or ('v4 silence-ack' == label) else 1
    info = {'command': command, 'api-version': version, 'callees': inj.trace, 'lines': [x.decode()[:60] for x in lines][-4:],
            'raised': repr(raised) if raised else None}
    ctx.check('handler-does-not-raise', raised is None,
              sig='C14:reply:exception-escapes-process:%s:%s' % (label, type(raised).__name__), info=info)
    ctx.check('exactly-one-terminal-reply', len(terms) == want,
              sig='C14:reply:terminal-replies:%s:%s' % (label, '+'.join(terms) or 'none'), info=info)
    if terms:
        ctx.check('terminal-reply-is-last', lines[-1] in TERMINAL, sig='C14:reply:output-after-terminal:%s' % label, info=info)
    ctx.check('nothing-left-scheduled', not reactor.asynchronous._async, sig='C14:reply:work-left-scheduled:%s' % label, info=info)
    if terms == ['error']:
        ctx.cover('error-outcome')
    if terms == ['done']:
        ctx.cover('done-outcome')
    if npeers == 0:
        ctx.cover('no-peers')
    ctx.note('class', '%s -> %s' % (label, '+'.join(terms) or 'none'))
    return [label, terms]


def h_unknown(ctx, version):
    """Unknown / incomplete commands: exactly one error, nothing scheduled."""
    command = ctx.pick('cmd', UNKNOWN)
    inj = Inj(ctx, False)
    reactor = StubReactor(ctx, inj, 2)
    getenv().api.version = version
    lines, raised = run_command(reactor, command)
    terms = terminals(lines)
    info = {'command': command, 'api-version': version, 'lines': [x.decode()[:60] for x in lines][-4:], 'raised': repr(raised) if raised else None}
    ctx.check('handler-does-not-raise', raised is None, sig='C14:reply:exception-escapes-process:unknown-command', info=info)
    ctx.check('unknown-command-one-error', terms == ['error'], sig='C14:reply:unknown-command:%s' % ('+'.join(terms) or 'none'), info=info)
    ctx.check('unknown-command-calls-nothing', inj.n == 0, sig='C14:reply:unknown-command-has-effects', info=dict(info, callees=inj.trace))
    ctx.cover('error-outcome')
    return terms


SEQ_POOL = [
    ('async-announce', {4: 'announce route ' + ROUTE, 6: 'peer * announce route ' + ROUTE}),
    ('sync-version', {4: 'version', 6: 'system version'}),
    ('unknown', {4: 'bogus', 6: 'bogus'}),
    ('async-show', {4: 'show adj-rib out', 6: 'rib show out'}),
    ('no-match', {4: 'neighbor 9.9.9.9 announce route ' + ROUTE, 6: 'peer 9.9.9.9 bogus'}),
]


def h_sequence(ctx, n, version, background=(0,)):
    """n commands, each fully processed before the next is read (as the main loop does): the terminal replies
    appear in command order, one per command.  `background`: steps of a generator task queued ahead (ASYNC mixes
    generators and coroutines in one queue)."""
    inj = Inj(ctx, False)
    reactor = StubReactor(ctx, inj, 2)
    getenv().api.version = version
    g = ctx.pick('background', background) if len(background) > 1 else background[0]
    if g:
        def bg(k):
            for _ in range(k):
                yield
        reactor.asynchronous.schedule('background', 'background task', bg(g))
        ctx.cover('background-generator')
    kinds = []
    got = []
    for i in range(n):
        kind, texts = ctx.pick('cmd%d' % i, SEQ_POOL)
        kinds.append(kind)
        lines, raised = run_command(reactor, texts[version])
        got.append(terminals(lines))
    # let the scheduler finish whatever is still queued (later loop iterations)
    late = []
    for _ in range(4):
        if reactor.asynchronous._async:
            q = reactor.processes._write_queue[SVC]
            mark = len(q)
            drive(reactor.asynchronous._run_async())
            late.extend(terminals([bytes(x) for x in list(q)[mark:]]))
    info = {'commands': kinds, 'api-version': version, 'replies-per-command': got, 'late': late, 'background-steps': g, 'callees': inj.trace}
    shape = 'background%d' % g if g else 'plain'
    ctx.check('one-reply-per-command-in-order', all(len(x) == 1 for x in got) and not late,
              sig='C14:reply:sequence:%s:%s' % (shape, 'late-or-missing' if late or any(len(x) == 0 for x in got) else 'extra'), info=info)
    for kind, x in zip(kinds, got):
        if kind in ('unknown', 'no-match'):
            ctx.check('invalid-command-answers-error', x == ['error'], sig='C14:reply:sequence:%s:invalid-not-error' % shape, info=info)
        if kind == 'sync-version':
            ctx.check('valid-command-answers-done', x == ['done'], sig='C14:reply:sequence:%s:valid-not-done' % shape, info=info)
    if len(set(kinds)) > 1:
        ctx.cover('mixed-sequence')
    if any(x == ['error'] for x in got):
        ctx.cover('error-outcome')
    return got


TEXT = ('announce route 10.0.0.0/24 next-hop 1.2.3.4\nneighbor 127.0.0.2 withdraw route 10.0.0.0/24\r\n'
        '  debug hello \n\nversion\t \nsho')


def units(tier):
    th = tier == 'thorough'
    us = []
    cov = ('split', 'partial-line-kept', 'two-commands-one-read', 'read-without-newline', 'command', 'two-commands',
           'empty-line', 'trailing-partial', 'helper-exited')
    K = 4 if th else 3
    for L in range(1, 8):
        us.append(Unit('reassembly/L%d' % L, lambda ctx, L=L: h_reassembly(ctx, L, K), weight=3 ** L,
                       must_cover=cov if L >= 4 else ()))
    for L in ((8, 9, 10) if th else (8,)):
        for a in range(3):
            for b in (range(3) if L > 8 else (None,)):
                fixed = (a,) if b is None else (a, b)
                us.append(Unit('reassembly/L%d/%s' % (L, ''.join('nwo'[c] for c in fixed)),
                               lambda ctx, L=L, f=fixed: h_reassembly(ctx, L, K, fixed=f), weight=3 ** (L - len(fixed)),
                               must_cover=('split', 'partial-line-kept', 'helper-exited'), max_seconds=1500, max_paths=400000))
    if th:
        for L in (11, 12):
            for a in range(3):
                for b in range(3):
                    us.append(Unit('reassembly/L%d/%s' % (L, 'nwo'[a] + 'nwo'[b]),
                                   lambda ctx, L=L, f=(a, b): h_reassembly(ctx, L, 3, fixed=f, sym=2, modes=1),
                                   weight=3 ** (L - 2), must_cover=('split', 'partial-line-kept'), max_seconds=1500))
    us.append(Unit('reassembly/text/k2', lambda ctx: h_reassembly(ctx, 0, 2, text=TEXT, modes=5), weight=300,
                   must_cover=('split', 'partial-line-kept', 'two-commands-one-read', 'helper-exited')))
    us.append(Unit('reassembly/text/k3', lambda ctx: h_reassembly(ctx, 0, 4 if th else 3, text=TEXT[84:], modes=5), weight=300,
                   must_cover=('split', 'partial-line-kept', 'two-commands-one-read')))

    # ---- (b)
    v6 = v6_commands()
    v4 = v4_commands()
    for version, cmds in ((6, v6), (4, v4), (4, [(g, 'v6-in-v4 ' + l, c) for g, l, c in v6 if g in ('announce', 'rib', 'session')])):
        groups = {}
        for g, label, text in cmds:
            groups.setdefault(g, []).append((label, text))
        for g, lst in sorted(groups.items()):
            name = 'reply/v%d/%s%s' % (version, g, '/v6-spelling' if lst[0][0].startswith('v6-in-v4') else '')
            cov = ['done-outcome']
            if g in ('announce', 'withdraw', 'routes', 'v4-announce', 'v4-withdraw', 'v4-neighbor', 'rib', 'peer-selector'):
                cov += ['error-outcome', 'fault-injected', 'fault-KeyError', 'fault-ValueError', 'no-peers']
            us.append(Unit(name, lambda ctx, lst=lst, v=version: h_reply(ctx, lst, v), must_cover=cov, weight=20 * len(lst), reset=reset_world))
    for version in (4, 6):
        us.append(Unit('reply/v%d/unknown' % version, lambda ctx, v=version: h_unknown(ctx, v), must_cover=('error-outcome',), weight=10, reset=reset_world))
        us.append(Unit('reply/v%d/sequence' % version, lambda ctx, v=version: h_sequence(ctx, 3, v), must_cover=('mixed-sequence', 'error-outcome'),
                       weight=150, reset=reset_world))
        us.append(Unit('reply/v%d/sequence-background' % version, lambda ctx, v=version: h_sequence(ctx, 2, v, background=(1, 2, 48, 49, 50, 51)),
                       must_cover=('mixed-sequence', 'background-generator'), weight=150, reset=reset_world))
    return us
