"""C04 — Adj-RIB-Out converges: the peer ends up with exactly the intended routes.

hist/*  : a history of n operations on the real OutgoingRIB.  The KIND of every operation is a symbolic choice among
          announce (attribute set chosen from a pool: different MED / same attributes, different next hop),
          withdraw, send-one-message (the update generator is consumed one message at a time, so the following
          operations arrive while it is partially consumed), flush (drain), route-refresh (plain and enhanced),
          session restart (generator abandoned, rib.reset(), replace_restart as Peer._main does), withdraw-all,
          clear, watchdog announce / withdraw.  The prefix of every route operand is a SYMBOLIC byte: ExaBGP's own
          dicts probe by symbolic equality and z3 decides which operands alias (rib kit).  After the history the
          queue is drained and three tables are compared: what the peer holds after applying every emitted message in
          order (PeerTable), what ExaBGP reports (cached_routes()), what the operations intended (ghost).
step/*  : inductive step.  An ARBITRARY state of k resident prefixes (per prefix: what the peer holds, what the cache
          reports, announce pending, withdraw pending; the creation order of the attribute buckets) that satisfies the
          representation invariant I (kits.rib.rep_invariant) and the convergence relation R (pending applied to the
          peer table = cached_routes()), then ONE operation with a symbolic operand: I and R must hold again.
          Together with the empty RIB as base case: convergence for histories of any length (operations arriving
          while no generator is live; the live-generator interleavings are the hist/* units').
"""
from __future__ import annotations

from sx.run import Unit

from kits import rib as K
from kits.rib import (Pool, PeerTable, Table, Sender, mk_route, mk_nlri, mk_rib, cached_table, diff, same, row_of_route,
                      rep_invariant, plant)
from sx.core import sx_eq, s_not

import exabgp.rib as ribpkg

ID = 'C04'
LEVEL = 'model_checking'
TECHNIQUE = ('symbolic execution of the real OutgoingRIB/Cache (z3): operation kinds enumerated, route prefixes symbolic bytes so '
             'that the solver decides aliasing inside ExaBGP\'s own dicts; peer-table oracle applied to every emitted '
             'UpdateCollection/RouteRefresh, compared with cached_routes() and with a ghost of the intended table; '
             'bounded histories + an inductive step over a symbolic pre-state under a representation invariant')
ASSUMPTIONS = [
    'logging (log.debug, lazymsg) in exabgp.rib.outgoing has an empty body',
    'sender model = Peer._send_route_updates: at most one live updates() generator, created only when rib.pending(), '
    'consumed message by message; operations arrive between two messages; the queue has drained when the generator is '
    'exhausted and rib.pending() is False',
    'session restart = what Peer does: generator abandoned, neighbor.reset_rib() -> rib.reset(), the peer forgets every '
    'route (RFC 4271 Idle), then Peer._main calls replace_restart([], []) on the new session',
    'OutgoingRIB.clear() only runs together with a session restart (its callers are RIB construction/enable with '
    'adj-rib-out disabled and the unused Neighbor.clear_rib): the peer table is emptied with it',
    'peer semantics: RFC 4271 (announce replaces same NLRI, withdraw removes), RFC 7313 (EoRR purges routes not '
    're-advertised since BoRR); UpdateCollection -> wire messages is C01/C09\'s business',
    'adj-rib-out cache enabled (the table ExaBGP reports); IPv4 unicast, no ADD-PATH, no paths_limit',
    'every route operand carries a symbolic prefix byte (hash_const soundness rule)',
    'step/*: representation invariant I1-I5 of kits.rib.rep_invariant + relation R (per resident prefix: cache = pending '
    'applied to the peer\'s entry); pre-states are planted into the private dicts of a real OutgoingRIB; resident prefixes '
    'pairwise distinct; no live generator and no queued refresh in the pre-state',
]
BOUNDS = {
    'quick': {'hist': 'n<=3 operations over the full alphabet (13 kinds incl. 3 attribute sets) after one watchdog route '
                      'registered announced or withdrawn; n=4 over {announce x3, withdraw, send-1, flush} grouped and '
                      'ungrouped; n=3 with parser-shaped attributes (NEXT_HOP inside the collection); prefix octet '
                      'symbolic in 0..2 (0..3 for n=4)',
              'step': 'k=1 resident prefix x 8 operations; k=2 x {announce x/y, withdraw}; 24 states per prefix, both bucket orders'},
    'thorough': {'hist': 'adds n=4 over the full alphabet, n=5 over the core alphabet (grouped and ungrouped), n=6 over '
                         '{announce x/y, withdraw, send-1} with 2 prefixes, n=4 with a symbolic mask byte (/23,/24)',
                 'step': 'k=2 x all 8 operations'},
}
OUTSIDE = [
    'paths_limit filtering (ADD-PATH send limits) inside updates()',
    'families other than IPv4 unicast (the RIB code is family-agnostic except for grouping)',
    'the encoding of an UpdateCollection into wire messages (C01, C09) and message loss below BGP',
    'liveness of enhanced-refresh markers when nothing else is pending (pending() ignores _refresh_families)',
    'adj-rib-out disabled (then ExaBGP reports no table)',
]

K.quiet()


def reset():
    ribpkg.RIB._cache.clear()


CORE = ('announce:x', 'announce:y', 'announce:x2', 'withdraw', 'send1', 'flush')
FULL = CORE + ('resend', 'resend-enh', 'restart', 'withdraw-all', 'clear', 'wd-announce', 'wd-withdraw')
MINI = ('announce:x', 'announce:y', 'withdraw', 'send1')
WD = 'w1'


class Ghost:
    """The intended table: the operations applied to a plain model (last writer wins per prefix)."""

    def __init__(self):
        self.t = Table()
        self.withdrawn = []      # keys whose last operation was a withdraw
        self.plus = Table()      # watchdog group, announced side   key -> route
        self.minus = Table()     # watchdog group, withdrawn side

    def announce(self, route):
        key = route.nlri.index()
        self.t.set_route(route)
        self.withdrawn = [k for k in self.withdrawn if not same(k, key)]

    def withdraw_key(self, key):
        self.t.delete(key)
        self.withdrawn = [k for k in self.withdrawn if not same(k, key)] + [key]

    def withdraw_all(self):
        for r in list(self.t.rows):
            self.withdraw_key(r[0])

    def clear(self):
        self.t.clear()
        self.withdrawn = []


def h_hist(ctx, n, alphabet, dom=3, grouped=False, prefix=(), nwd=0, masks=(24,), pool_names=('x', 'y', 'x2')):
    """prefix: the kinds (a kind or a tuple of kinds) of the first operations are fixed by the unit: units partition the histories."""
    pool = Pool(pool_names)
    sel_of = {('announce:' + nm): i for i, nm in enumerate(pool.names)}
    rib = mk_rib(True)
    peer = PeerTable()
    ghost = Ghost()
    tx = Sender(rib, peer, grouped)
    kinds = []
    wd_routes = {}

    # watchdog routes are registered the way the configuration does (add_to_rib_watchdog at parse time)
    for j in range(nwd):
        withdrawn = bool(ctx.bool('wd%d.withdrawn' % j))
        sel = j % 2
        r = mk_route(ctx, 'wd%d.p' % j, dom, pool, sel, masks, watchdog=WD, withdrawn=withdrawn)
        rib.add_to_rib_watchdog(r)
        key = r.nlri.index()
        wd_routes[j] = r
        if withdrawn:
            ghost.minus.set(key, r, None)
        else:
            ghost.plus.set(key, r, None)
            ghost.announce(r)
        kinds.append('wd-reg-' if withdrawn else 'wd-reg+')

    watch = K.StaleWatch(rib)   # inside which RIB primitive a superseded entry is left behind (root cause for the signature)
    try:
        for i in range(n):
            want = prefix[i] if i < len(prefix) else alphabet
            kind = want if isinstance(want, str) else ctx.pick('op%d' % i, want)
            kinds.append(kind)
            if tx.live:
                ctx.cover('op-while-generator-live')
            if kind.startswith('announce:'):
                r = mk_route(ctx, 'p%d' % i, dom, pool, sel_of[kind], masks)
                prev = ghost.t.get(r.nlri.index())
                if prev is not None:
                    ctx.cover('alias')
                    if prev[1] != r.attributes.index():
                        ctx.cover('announce-changed-attributes')
                    elif not same(prev[2], r.nexthop.index()):
                        ctx.cover('announce-changed-nexthop')
                rib.add_to_rib(r)
                ghost.announce(r)
            elif kind == 'withdraw':
                r = mk_route(ctx, 'p%d' % i, dom, pool, 0, masks)
                if ghost.t.get(r.nlri.index()) is not None:
                    ctx.cover('withdraw-present')
                rib.del_from_rib(r)
                ghost.withdraw_key(r.nlri.index())
            elif kind == 'send1':
                if tx.send(1):
                    ctx.cover('sent-one')
            elif kind == 'flush':
                tx.send(None)
            elif kind == 'resend':
                rib.resend(False)
                ctx.cover('refresh')
            elif kind == 'resend-enh':
                rib.resend(True)
                ctx.cover('refresh')
            elif kind == 'restart':
                if tx.live:
                    ctx.cover('generator-abandoned')
                tx.abandon()
                peer.session_reset()
                rib.reset()
                rib.replace_restart([], [])
            elif kind == 'withdraw-all':
                rib.withdraw()
                ghost.withdraw_all()
            elif kind == 'clear':
                tx.abandon()
                peer.session_reset()
                rib.clear()
                ghost.clear()
            elif kind == 'wd-announce':
                rib.announce_watchdog(WD)
                for row in list(ghost.minus.rows):
                    ghost.announce(row[1])
                    ghost.plus.set(row[0], row[1], None)
                ghost.minus.clear()
            elif kind == 'wd-withdraw':
                rib.withdraw_watchdog(WD)
                for row in list(ghost.plus.rows):
                    ghost.withdraw_key(row[0])
                    ghost.minus.set(row[0], row[1], None)
                ghost.plus.clear()
            else:
                raise AssertionError(kind)
            watch.after()

        # ---- the outgoing queue drains
        tx.send(None)
    except Exception as exc:  # the RIB raised, or the queue never drains: the history cannot converge
        crashed = type(exc).__name__
        ctx.check('rib-operations-do-not-fail', False, sig='C04:hist:exception:%s' % crashed, info={'ops': kinds, 'exception': repr(exc)})
        return ['-'.join(k.split(':')[0] for k in kinds), 'exception', crashed]
    ctx.check('queue-drained', not rib.pending() and not tx.live, sig='C04:hist:queue-not-drained')
    cached = cached_table(rib)
    hist = '-'.join(k.split(':')[0] for k in kinds)
    # known finding F2 is exactly: _update_rib (an announce superseding a still-queued announce of the same prefix) leaves the
    # old entry in its attribute bucket.  A stale entry left inside the withdraw primitive, or elsewhere, is a different defect.
    cause = watch.cause(tx.stale_seen, 'hist')
    info = {'ops': kinds, 'peer': peer.render(), 'adj-rib-out': cached.render(), 'intended': ghost.t.render(),
            'stale_pending_entries_seen': tx.stale_seen, 'grouped': grouped}

    ctx.check('adj-rib-out-has-one-route-per-prefix', not cached.duplicate_keys, sig='C04:%s:duplicate-prefix-in-adj-rib-out' % cause, info=info)

    # (1) the peer's table equals the table ExaBGP reports
    d = diff(peer, cached)
    sym = {'extra': 'peer-holds-route-not-in-adj-rib-out', 'differs': 'peer-holds-other-attributes-than-adj-rib-out',
           'missing': 'adj-rib-out-route-never-reached-peer'}
    for s in ('extra', 'differs', 'missing'):
        ctx.check('peer-equals-adj-rib-out/' + s, not any(x[0] == s for x in d), sig='C04:%s:%s' % (cause, sym[s]), info=info)

    # (2) nothing stale, nothing resurrected, nothing lost — against the intended table
    d2 = diff(peer, ghost.t)
    resurrected = [x for x in d2 if x[0] == 'extra' and any(same(x[1][0], k) for k in ghost.withdrawn)]
    ctx.check('no-withdrawn-route-resurrected', not resurrected, sig='C04:%s:withdrawn-route-resurrected' % cause, info=info)
    ctx.check('no-unintended-route', not [x for x in d2 if x[0] == 'extra' and x not in resurrected],
              sig='C04:%s:peer-holds-unintended-route' % cause, info=info)
    ctx.check('no-stale-announcement', not any(x[0] == 'differs' for x in d2), sig='C04:%s:stale-announcement-survives' % cause, info=info)
    ctx.check('no-lost-announcement', not any(x[0] == 'missing' for x in d2), sig='C04:%s:intended-route-never-reached-peer' % cause, info=info)

    # (3) the reported table is the intended one
    d3 = diff(cached, ghost.t)
    ctx.check('adj-rib-out-equals-intent', not d3, sig='C04:%s:adj-rib-out-differs-from-intent' % cause, info=info)

    if len(peer):
        ctx.cover('final-nonempty')
    else:
        ctx.cover('final-empty')
    if peer.messages:
        ctx.cover('messages-sent')
    ctx.note('class', hist if n <= 2 else '%d-ops' % n)
    return [hist, len(peer), len(cached), len(ghost.t)]


# ----------------------------------------------------------------------------- inductive step

STEP_OPS = ('announce:x', 'announce:y', 'announce:x2', 'withdraw', 'withdraw-all', 'resend-enh', 'restart', 'flush')


def slot_states(peer_vals=(None, 0, 1), cache_vals=(0, 1, 2)):
    """(peer attribute selector|None, cache selector|None, announce pending, withdraw pending) satisfying R:
    applying what is pending to what the peer holds yields what the cache reports."""
    out = []
    for pv in peer_vals:
        out.append((pv, pv, False, False))        # nothing pending: the peer holds what the cache reports
        out.append((pv, None, False, True))       # withdrawn, withdraw not sent yet
        for cv in cache_vals:
            out.append((pv, cv, True, False))     # (re)announced, not sent yet
            out.append((pv, cv, True, True))      # withdrawn then announced again, neither sent
    return out


def h_step(ctx, k, ops, dom=3, grouped=False):
    """One operation from an ARBITRARY state of k resident prefixes that satisfies the representation invariant I
    (kits.rib.rep_invariant) and the convergence relation R (pending applied to the peer table = cached_routes());
    obligation: I and R hold again.  With the base case (the empty RIB) this is convergence for histories of any
    length made of operations that arrive while no generator is live."""
    pool = Pool(('x', 'y', 'x2'))
    rib = mk_rib(True)
    peer = PeerTable()
    states = slot_states()
    nlris = []
    desc = []
    # the order in which the attribute buckets were created is part of the state (dicts are ordered)
    y_first = bool(ctx.bool('bucket-y-created-first'))
    if y_first:
        a_y = pool.entry(1)[0]
        rib._new_attr_af_nlri[a_y.index()] = {K.FAMILY: {}}
        rib._new_attribute[a_y.index()] = a_y
    for i in range(k):
        n = mk_nlri(ctx, 's%d.p' % i, dom)
        for m in nlris:
            ctx.assume(s_not(sx_eq(n.index(), m.index())), 'step: resident prefixes are pairwise distinct (one entry per NLRI in every dict)')
        nlris.append(n)
        pv, cv, pa, pw = ctx.pick('s%d.state' % i, states)
        plant(rib, peer, n, None if pv is None else pool.entry(pv), None if cv is None else pool.entry(cv), pa, pw)
        desc.append([pv, cv, pa, pw])
        if pa:
            ctx.cover('pre-pending-announce')
        if pw:
            ctx.cover('pre-pending-withdraw')
    pre_bad = rep_invariant(rib)
    ctx.check('pre-state-satisfies-I', not pre_bad, sig='C04:step:harness-built-a-state-outside-I', info={'bad': pre_bad, 'slots': desc})
    ghost = Ghost()
    ghost.t = Table(cached_table(rib).rows)   # under R the intended table is the cached one

    kind = ctx.pick('op', ops)
    tx = Sender(rib, peer, grouped)
    watch = K.StaleWatch(rib)
    try:
        if kind.startswith('announce:'):
            sel = pool.names.index(kind.split(':')[1])
            r = mk_route(ctx, 'q', dom, pool, sel)
            if any(same(r.nlri.index(), m.index()) for m in nlris):
                ctx.cover('operand-aliases-resident')
            rib.add_to_rib(r)
            ghost.announce(r)
        elif kind == 'withdraw':
            r = mk_route(ctx, 'q', dom, pool, 0)
            if any(same(r.nlri.index(), m.index()) for m in nlris):
                ctx.cover('operand-aliases-resident')
            rib.del_from_rib(r)
            ghost.withdraw_key(r.nlri.index())
        elif kind == 'withdraw-all':
            rib.withdraw()
            ghost.withdraw_all()
        elif kind == 'resend-enh':
            rib.resend(True)
        elif kind == 'restart':
            peer.session_reset()
            rib.reset()
            rib.replace_restart([], [])
        elif kind == 'flush':
            pass
        post_bad = rep_invariant(rib)
        info = {'op': kind, 'slots': desc, 'bucket_y_first': y_first, 'violated': post_bad}
        cause = watch.cause(1 if 'I1-superseded-entry-left-in-bucket' in post_bad else 0, 'step')   # F2 only when left by _update_rib
        ctx.check('I-preserved', not post_bad, sig='C04:%s:invariant-not-preserved-by-%s' % (cause, kind.split(':')[0]), info=info)
        tx.send(None)
    except Exception as exc:
        ctx.check('rib-operations-do-not-fail', False, sig='C04:step:exception:%s' % type(exc).__name__, info={'op': kind, 'slots': desc, 'exception': repr(exc)})
        return [kind, 'exception']
    cached = cached_table(rib)
    info = {'op': kind, 'slots': desc, 'bucket_y_first': y_first, 'peer': peer.render(), 'adj-rib-out': cached.render(), 'intended': ghost.t.render()}
    ctx.check('R-preserved/peer-equals-adj-rib-out', not diff(peer, cached) and not cached.duplicate_keys,
              sig='C04:%s:step:peer-differs-from-adj-rib-out-after-%s' % (cause, kind.split(':')[0]), info=info)
    ctx.check('R-preserved/adj-rib-out-equals-intent', not diff(cached, ghost.t), sig='C04:%s:step:adj-rib-out-differs-from-intent-after-%s' % (cause, kind.split(':')[0]), info=info)
    ctx.note('class', kind)
    return [kind, len(peer), len(cached)]


# ----------------------------------------------------------------------------- units


def _u(name, must=(), max_paths=400000, max_seconds=1100, weight=10, **kw):
    return Unit(name, lambda ctx, kw=kw: h_hist(ctx, **kw), must_cover=must, hash_const=True, reset=reset,
                max_paths=max_paths, max_seconds=max_seconds, weight=weight)


def _short(k):
    return k.replace('announce:', 'a.')


def units(tier):
    th = tier == 'thorough'
    us = []
    base = ('final-nonempty', 'final-empty', 'messages-sent')
    live = ('alias', 'op-while-generator-live', 'announce-changed-attributes', 'announce-changed-nexthop')
    # short histories over the full alphabet (a watchdog group of one route registered like the configuration does)
    us.append(_u('hist/full/n2', base + ('alias', 'refresh', 'withdraw-present'), n=2, alphabet=FULL, nwd=1, weight=2))
    for k in FULL:
        us.append(_u('hist/full/n3/%s' % _short(k), (), n=3, alphabet=FULL, prefix=(k,), nwd=1, weight=20))
    # longer histories over the core alphabet: announce/withdraw arriving while the generator is partially consumed
    for k in CORE:
        for grouped in (False, True):
            us.append(_u('hist/core/n4/%s/%s' % ('grouped' if grouped else 'single', _short(k)),
                         live if k.startswith('announce') else (),
                         n=4, alphabet=CORE, prefix=(k,), grouped=grouped, dom=4, weight=40))
    # inductive step: one operation from an arbitrary state satisfying I and R
    smust = ('pre-pending-announce', 'pre-pending-withdraw', 'operand-aliases-resident')
    us.append(Unit('step/k1', lambda ctx: h_step(ctx, 1, STEP_OPS), must_cover=smust, hash_const=True, reset=reset, weight=15))
    groups = [('announce', ('announce:x', 'announce:y', 'announce:x2') if th else ('announce:x', 'announce:y')), ('withdraw', ('withdraw',))]
    if th:
        groups.append(('others', ('withdraw-all', 'resend-enh', 'restart', 'flush')))
    for gname, ops in groups:
        us.append(Unit('step/k2/%s' % gname, lambda ctx, ops=ops: h_step(ctx, 2, ops), hash_const=True, reset=reset,
                       must_cover=smust if gname != 'others' else smust[:2], max_paths=400000, max_seconds=1100, weight=60))
    # from two routes already on the wire (announce, announce, flush), any two operations of the full alphabet: bulk
    # operations (withdraw-all, clear, resend) meeting what is still queued for OTHER resident routes
    us.append(_u('hist/full/n5/two-on-the-wire', ('alias', 'withdraw-present'), n=5, alphabet=FULL, prefix=('announce:x', 'announce:x', 'flush'), nwd=0, weight=60))
    us.append(_u('hist/parser-shaped/n3', ('alias',), n=3, alphabet=('announce:x', 'announce:z', 'withdraw', 'send1', 'flush'),
                 pool_names=('x', 'z'), weight=5))
    if th:
        # NOTE keep the number of units small: sx.main recycles workers (max_tasks_per_child) and Python 3.12.1's
        # ProcessPoolExecutor can hang when it does (gh-115634)
        rest = tuple(k for k in FULL if k not in CORE)
        for k in FULL:
            if k.startswith('announce') or k == 'withdraw':
                us.append(_u('hist/full/n4/%s/core' % _short(k), (), n=4, alphabet=FULL, prefix=(k, CORE), nwd=1, weight=110))
                us.append(_u('hist/full/n4/%s/rest' % _short(k), (), n=4, alphabet=FULL, prefix=(k, rest), nwd=1, weight=100))
            else:
                us.append(_u('hist/full/n4/%s' % _short(k), (), n=4, alphabet=FULL, prefix=(k,), nwd=1, weight=90))
        for k in CORE:
            for grouped in (False, True):
                us.append(_u('hist/core/n5/%s/%s' % ('grouped' if grouped else 'single', _short(k)), (),
                             n=5, alphabet=CORE, prefix=(k,), grouped=grouped, dom=4, weight=120))
        us.append(_u('hist/mask/n4', (), n=4, alphabet=CORE, dom=2, masks=(23, 24), weight=80))
        for k in MINI:
            us.append(_u('hist/mini/n6/%s' % _short(k), (), n=6, alphabet=MINI, prefix=(k,), dom=2, weight=105))
    return us
