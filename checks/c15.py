"""C15 — every family and attribute survives an encode/decode round trip.

Registry driven: `units()` enumerates the LIVE registries of the package under test (NLRI.registered_nlri,
EVPN/MUP/MVPN/BGP-LS route types, Attribute.registered_attributes, extended-community (type, subtype) pairs, BGP-LS
attribute TLVs, prefix-SID TLVs, tunnel-encapsulation sub-TLVs, PMSI tunnel types) and sweeps each entry with ONE
generic harness per direction.  A decoder registered tomorrow is swept at the default sizes without touching this file
(and its unit fails the vacuity guard if nothing decodes within them, which is the signal to give it a shape).

  dec/nlri/<family>[/<route type>]   octets symbolic (concrete TLV/length skeleton where a decoder loops on a length)
                                     -> the real NLRI.unpack_nlri dispatch -> on paths that decode:
                                       (b) canonical(in)  =>  pack_nlri(x) == in, for ALL octet values of the path (z3);
                                           what is not canonical is the explicit list CANON_NOTES, each with its RFC clause;
                                       (a) out = pack_nlri(x) is ExaBGP's own encoding: it decodes, whole, to y with
                                           pack_nlri(y) == out, y == x (the class's own ==), index(y) == index(x),
                                           hash(y) == hash(x) (on the replayed model)
  dec/attr/<code>[/<sub type>]       same through Attribute.unpack(code, flag, data, negotiated) / pack_attribute (header
                                     checked and stripped; MP_REACH / MP_UNREACH through MPNLRICollection)
  enc/nlri/<family>[/<type>]         objects from the factory methods the configuration parser and the API use, every field
  enc/attr/<attribute>               symbolic: unpack(pack(x)) is of x's class, == x, has x's fields, index and octets
  index/<family>[/<type>]            two routes of one class from independent symbolic fields:  a == b  =>  index and
                                     hash equal;  index equal  =>  same path identifier, prefix, route distinguisher;
                                     the same fields in two families never share an index
  text (witness, every decoded path) two decodes of the same octets render the same json()/str()/extensive()/repr(); the
                                     decoded twin of a factory-built object renders like it

Which exceptions may escape a decoder is NOT decided here (property C03): a decoder that raises is a refusal, its class is
kept in the outcome census (`refused-by-<Exception>`).
"""
from __future__ import annotations

import re

from sx.run import Unit
from sx.core import sx_eq, s_and, s_or, s_not, s_implies, SBytes, SInt, SBool, SDict
from kits import session as S

import exabgp.bgp.message.update  # noqa: F401  (registers every NLRI and attribute)
from exabgp.bgp.message import Action
from exabgp.bgp.message.direction import Direction
from exabgp.bgp.message.notification import Notify
from exabgp.bgp.message.update.nlri.nlri import NLRI
from exabgp.bgp.message.update.nlri.evpn.nlri import EVPN
from exabgp.bgp.message.update.nlri.mup.nlri import MUP
from exabgp.bgp.message.update.nlri.mvpn.nlri import MVPN
from exabgp.bgp.message.update.nlri.bgpls.nlri import BGPLS
from exabgp.bgp.message.update.attribute import Attribute
from exabgp.protocol.family import AFI, SAFI
import exabgp.bgp.message.update.nlri.nlri as _m_nlri
import exabgp.bgp.message.update.nlri.flow as _m_flow
import exabgp.bgp.message.update.nlri.bgpls.link as _m_ls_link
import exabgp.bgp.message.update.nlri.bgpls.prefixv4 as _m_ls_p4
import exabgp.bgp.message.update.nlri.bgpls.prefixv6 as _m_ls_p6

ID = 'C15'
LEVEL = 'model_checking'
TECHNIQUE = ('symbolic execution of the real registered decoders, encoders, factories, index()/__eq__/__hash__ (z3 over every octet / field of '
             'the bound; TLV/length skeletons concrete where a decoder loops on a length), registry-driven sweep; per-path concrete replay; '
             'text renderings and C-level hash() compared on one solver model per path')
ASSUMPTIONS = [
    'logging (log, lazymsg, lazynlri, lazyattribute) has an empty body',
    'sessions come from kits/session.py (real Neighbor from a generated configuration, Negotiated through the real sent()/received()): '
    'one with every configurable family, one with ADD-PATH send/receive on every family the grammar offers it for (unicast, nlri-mpls, mpls-vpn, mup), '
    'each with 4-octet and 2-octet AS numbers; the two families the configuration grammar cannot name (ipv6 multicast, ipv4 rtc) are decoded and packed '
    'against the same objects (not negotiated: ADD-PATH off); aigp enabled (AIGP.unpack_attribute answers Discard otherwise)',
    'the per-AFI FlowSpec component tables flow.decode[afi] / flow.factory[afi] are wrapped as SDict (same content), as in C16',
    'Attribute.unpack is called with the registered flag (EXTENDED_LENGTH bit as packed): PARTIAL and wrong flags are the business of '
    'AttributeCollection.parse (C08)',
    'a decoder that raises anything is counted as a refusal (the class is kept in the census): which exceptions may escape is C03',
    'MP_REACH / MP_UNREACH are decoded by iterating the attribute (they keep the octets and decode lazily) and re-encoded by MPNLRICollection, '
    'which is what UpdateCollection.messages does; an MP attribute without a route is the End-of-RIB marker and has no re-encoding',
    'index units: the name `hash` is shadowed in the exabgp.bgp.message.update.nlri.* / exabgp.protocol.ip modules while __hash__ is called, so that it '
    'returns the KEY it hashes (tuple / octets) and z3 compares keys; classes whose key is a formatted string (NLRI.__hash__, EVPN/MUP/MVPN generic, '
    'EVPN Prefix, SR-policy) are compared by the real hash() on the model of each path only',
    'process-wide state reset per path: AttributeCollection.cached/previous, Attribute.cache, classes LinkState.get_ls_class synthesises for unknown TLV codes',
]
BOUNDS = {
    'quick': {
        'dec/nlri': 'every registered family; ipv4/ipv6 unicast+multicast: every NLRI length 0..6 and full+1..2 (ADD-PATH: +4); nlri-mpls: lengths 0..8, 11, full+4 '
                    '(1-2 labels), withdraw 3..8, ADD-PATH 4..10; mpls-vpn: 0..4, 9..14, 12+full, withdraw 11..14, ADD-PATH 13..17; flow/flow-vpn: 0..4 (+8) octets (rule rebuilt: '
                    'normal form only, octet exactness is C16); vpls 0..24; rtc 0..15; sr-policy 0..27; EVPN/MUP/MVPN: per route type the lengths at which it accepts something '
                    'and their neighbours (EVPN_QUICK/MUP_QUICK/MVPN_QUICK), unknown route type 0..9; BGP-LS NLRI (plain and VPN): protocol-id and TLV types/lengths concrete, every value octet symbolic, '
                    'node/link/prefix/srv6-sid descriptor shapes of bgpls_shapes() plus one descriptor TLV of 0..7 free octets',
        'dec/attr': 'every registered attribute code; AS_PATH/AS4_PATH 1-2 segments of 0..3 ASNs (type octet symbolic) on 4- and 2-octet sessions; communities 0..3 elements; '
                    'every registered extended-community (type, subtype) with the 4 high type bits and 6/18 value octets symbolic; PMSI every known tunnel type; prefix-SID every TLV; '
                    'tunnel-encap every registered SR-policy sub-TLV (segment type A label entry: 4 concrete patterns, see SEG_A_ENTRIES); AIGP TLV combinations; '
                    'BGP-LS every registered TLV at lengths 0..8 + its LEN + LS_LENGTH_HINTS (SRv6 End.X TLVs: fixed part + concrete sub-TLV skeleton); MP_REACH/UNREACH 7 families x 1-2 routes',
        'enc': 'factories: INET/Label/IPVPN every prefix size and mask of ipv4 and ipv6, 1-2 labels (20 bits symbolic), RD 8 octets, path id 4 octets; VPLS, RTC, SR-policy NLRI, '
               'EVPN 5 types, MUP 4 types x 2 AFI, MVPN 3 types x 2 AFI with every field symbolic over its full range; 21 attribute factories + 11 BGP-LS TLV factories (addresses given as text are concrete)',
        'index': 'two routes per class; ipv4: every prefix size; ipv6: sizes {0,1,9,13,16} (unicast) / {0,5,6,13,14,16} (labelled, vpn) = boundaries + the sizes at which the index of a route with and '
                 'without a path identifier have equal length; 1 label',
    },
    'thorough': {
        'dec/nlri': 'as quick, with every length up to full+2 / full+8 / 16+full for the IP families, flow 0..5 (+8), every length 0..62 / 0..72 / 0..50 for EVPN / MUP / MVPN types, descriptor TLV 0..9 free octets',
        'dec/attr': 'as quick, with communities 0..16 octets, PMSI 0..22, BGP-LS TLVs additionally at 9..16 octets, AS_PATH free octets (1,2,3,6)',
        'enc': 'as quick, with 3 labels, ADD-PATH withdraws, every TEID size of MUP T2ST',
        'index': 'every prefix size of ipv4 and ipv6, 1-2 labels',
    },
}
OUTSIDE = [
    'values not reachable within the listed sizes (e.g. AS_PATH segments over 3 ASNs, the 11 SR-policy segment types other than A and B get the generic sub-TLV treatment only)',
    'ADD-PATH for families the configuration grammar cannot enable it for (multicast, EVPN, VPLS, FlowSpec, BGP-LS, MVPN, RTC): their decoders take the flag, no session negotiates it',
    'FlowSpec octet exactness against RFC 8955/8956 (C16); here the rule must reach a normal form in one step',
    'which exceptions may escape a decoder (C03); PARTIAL / wrong attribute flags (C08); splitting of UPDATEs (C09)',
    'text-held values (SRv6 SID and IP addresses rendered by inet_ntop, SR-policy names): socket.inet_ntop and str.encode are sampled, so these fields are checked on one model per path, not for all values',
    'segment type A of an SR-policy segment list: the 32-bit label entry is one of 4 concrete patterns (z3 answers unknown on the OR of four symbolic fields)',
    'BGP-LS attribute TLV 1108: the last four octets of the fixed part are two concrete patterns on the decode side (see repro_5: the pinned decoder reads them as a sub-TLV header)',
    'json()/str() are compared between two decodes of the same octets and between a factory-built object and its decoded twin; that the text is CORRECT is not claimed',
]


class _Log:
    def __getattr__(self, name):
        return lambda *a, **k: None


def _silence(mod):
    if hasattr(mod, 'log'):
        mod.log = _Log()
    for n in ('lazymsg', 'lazyformat', 'lazyattribute', 'lazynlri'):
        if hasattr(mod, n):
            setattr(mod, n, lambda *a, **k: None)


for _m in (_m_nlri, _m_flow, _m_ls_link, _m_ls_p4, _m_ls_p6):
    _silence(_m)

for _afi in list(_m_flow.decode):
    if not isinstance(_m_flow.decode[_afi], SDict):
        _m_flow.decode[_afi] = SDict(_m_flow.decode[_afi])
        _m_flow.factory[_afi] = SDict(_m_flow.factory[_afi])


# The import hook of the symbolic worker imports EVERY module under exabgp.bgp, also those nothing in the product imports (today:
# community/extended/bandwidth.py).  Their classes register themselves, so the worker's registries would hold entries the
# product (and the clean replay interpreter) never has.  They are removed: the units are built from the PRODUCT's registries.


def _plain_modules():
    from sx import hook as _hook
    if not getattr(_hook, '_INSTALLED', False):
        return None
    import os
    import subprocess
    import sys
    code = ("import sys; from kits import session; import exabgp.bgp.message.update; "
            "print(' '.join(m for m in sys.modules if m.startswith('exabgp.')))")
    env = dict(os.environ)
    env['exabgp_log_enable'] = 'false'
    out = subprocess.run([sys.executable, '-c', code], env=env, capture_output=True, text=True, cwd=os.path.dirname(os.path.dirname(os.path.abspath(__file__))))
    mods = set(out.stdout.split())
    if len(mods) < 50:
        raise RuntimeError('C15: cannot list the modules of a plain interpreter: %s' % out.stderr[-400:])
    return mods


PRUNED = []


def _prune(registry, owner):
    prod = _PLAIN
    if prod is None:
        return
    for k in list(dict.keys(registry)):
        v = dict.__getitem__(registry, k)
        m = getattr(v, '__module__', None)
        if isinstance(m, str) and m.startswith('exabgp.') and m not in prod:
            dict.__delitem__(registry, k)
            PRUNED.append('%s[%s] (%s)' % (owner, k, m))


_PLAIN = _plain_modules()

# ----------------------------------------------------------------------------- helpers


def B(ctx, x):
    """bytes-like carrier of the current mode"""
    if ctx.sym:
        return x if isinstance(x, SBytes) else SBytes(list(bytes(x)) if isinstance(x, (bytes, bytearray, memoryview)) else list(x))
    return bytes(x)


def B_any(x):
    """carrier of whatever mode the value is in"""
    if isinstance(x, SBytes):
        return x
    return bytes(x)


def be_sym(ctx, v, n):
    """big-endian octets of an int that may be symbolic (fresh byte variables tied to v by one linear constraint)"""
    if isinstance(v, SInt):
        from sx.core import int_to_items
        return SBytes(int_to_items(v, n))
    b = int(v).to_bytes(n, 'big')
    return SBytes(list(b)) if ctx.sym else b


def mk(ctx, items):
    items = list(items)
    return SBytes(items) if ctx.sym else bytes(items)


def sym(ctx, name, n):
    return [ctx.byte('%s[%d]' % (name, i)) for i in range(n)]


def be(n, size):
    return list(int(n).to_bytes(size, 'big'))


def tlv16(t, value):
    """type(2) length(2) value: BGP-LS style"""
    value = list(value)
    return be(t, 2) + be(len(value), 2) + value


def tlv8(t, value):
    value = list(value)
    return [t, len(value)] + value


_SKIP_FIELDS = {'_negotiated', '_context', 'negotiated'}


def state(o, depth=0):
    """What an object holds, as nested lists of ints / byte strings / names: the field-wise comparison of two decodes."""
    if o is None or isinstance(o, (bool, str, float)):
        return o
    if isinstance(o, (SInt, SBool)):
        return o
    if isinstance(o, int):
        return int(o)
    if isinstance(o, (bytes, bytearray, memoryview)):
        return bytes(o)
    if isinstance(o, SBytes):
        return SBytes(list(o.items))
    if isinstance(o, (list, tuple)):
        items = [state(i, depth + 1) for i in o]
        return items if type(o) in (list, tuple) else [type(o).__name__, items]
    if isinstance(o, (set, frozenset)):
        return ['set', len(o)]
    if isinstance(o, dict):
        return [[state(k, depth + 1), state(v, depth + 1)] for k, v in o.items()]
    if isinstance(o, type) or callable(o) and not hasattr(o, '__dict__'):
        return getattr(o, '__name__', 'callable')
    if depth > 5:
        return type(o).__name__
    fields = []
    seen = set()
    for klass in type(o).__mro__:
        for s in getattr(klass, '__slots__', ()) or ():
            if s in seen or s in _SKIP_FIELDS or s.startswith('__'):
                continue
            seen.add(s)
            try:
                v = object.__getattribute__(o, s)
            except AttributeError:
                continue
            fields.append([s, state(v, depth + 1)])
    d = getattr(o, '__dict__', None)
    if isinstance(d, dict):
        for k in sorted(d):
            if k in seen or k in _SKIP_FIELDS:
                continue
            fields.append([k, state(d[k], depth + 1)])
    return [type(o).__name__, fields]


def chk(ctx, name, cond, sig, info=None):
    """ctx.check with the info computed only when the obligation fails (rendering carriers samples the model: costly)"""
    ok = ctx.check(name, cond, sig=sig)
    if not ok and info is not None:
        from sx.ctx import plain
        try:
            ctx.failed[-1].info = plain(info())
        except Exception as exc:   # the info is a convenience, never a verdict
            ctx.failed[-1].info = 'info unavailable: %s' % type(exc).__name__
    return ok


def texts(o):
    """every text rendering the product makes of the object (concrete mode only).  NLRI: json()/extensive()/str()/repr();
    attributes: the renderings AttributeCollection makes (json(), json(generic), str()) plus the object's own str/repr;
    a json() the class does not define (the collection renders those itself) is skipped, a default object repr too."""
    out = []
    if isinstance(o, Attribute):
        from exabgp.bgp.message.update.attribute.collection import AttributeCollection
        coll = AttributeCollection()
        coll.add(o)
        out.append(('collection-json', coll.json()))
        out.append(('collection-json-generic', coll.json(generic=True)))
        out.append(('collection-str', str(coll)))
        names = ('json', '__str__', '__repr__')
    else:
        names = ('json', 'extensive', '__str__', '__repr__')
    for name in names:
        f = getattr(type(o), name, None)
        if f is None or f in (object.__repr__, object.__str__, Attribute.json, NLRI.json):
            continue
        if name == '__str__' and f is object.__str__:
            continue
        out.append((name, f(o)))
    return out


def render_witness(ctx, kind, make):
    """two fresh decodes of the same octets render the same texts; a rendering that raises is reported under its own signature"""
    if ctx.sym:
        return
    got = []
    for _ in range(2):
        try:
            got.append(texts(make()))
        except Exception as exc:
            ctx.witness_check('text-renders', lambda: False, sig='C15:text:%s:rendering-raises-%s' % (kind, type(exc).__name__),
                              info={'raised': '%s: %s' % (type(exc).__name__, exc)})
            return
    ctx.witness_check('text-deterministic', lambda: got[0] == got[1], sig='C15:text:%s:not-deterministic' % kind,
                      info={'first': str(got[0])[:300], 'second': str(got[1])[:300]})


# ----------------------------------------------------------------------------- sessions

_SESS = {}


def families():
    out = []
    for a, s in NLRI.registered_families:
        if (int(a), int(s)) not in [(int(x), int(y)) for x, y in out]:
            out.append((a, s))
    return out


def fam_name(afi, safi):
    return '%s-%s' % (AFI.from_int(afi), SAFI.from_int(safi))


UNCONFIGURABLE = {(2, 2), (1, 132)}   # ipv6 multicast, ipv4 rtc: registered decoders the configuration grammar cannot name


def session(addpath=False, asn4=True):
    """all configurable families; aigp enabled (AIGP.unpack_attribute answers Discard otherwise)"""
    key = (bool(addpath), bool(asn4))
    if key not in _SESS:
        fams = [(a, s) for a, s in families() if (int(a), int(s)) not in UNCONFIGURABLE]
        names = ['%s %s' % (a, s) for a, s in fams]
        codes = [(int(a), int(s)) for a, s in fams]
        if addpath:
            conf = S.mk_conf(families=names, addpath='send/receive', addpath_families=names, asn4=asn4)
            body = S.peer_open_body(families=codes, addpath={c: 3 for c in codes}, layout='extended', asn4=asn4)
        else:
            conf = S.mk_conf(families=names, asn4=asn4)
            body = S.peer_open_body(families=codes, asn4=asn4)
        conf = conf.replace('    capability {\n', '    capability {\n        aigp enable;\n', 1)
        _SESS[key] = S.negotiated_for(S.neighbor_from(conf), Direction.IN, body)
    return _SESS[key]


def addpath_ok(afi, safi):
    """ADD-PATH units exist for the families a session can negotiate it for (the configuration grammar offers it for
    unicast, nlri-mpls, mpls-vpn and mup only)"""
    a, s = AFI.from_int(afi), SAFI.from_int(safi)
    return (int(afi), int(safi)) not in UNCONFIGURABLE and bool(session(True).addpath.send(a, s))


_LS_SNAPSHOT = None


def reset_state():
    from exabgp.bgp.message.update.attribute.collection import AttributeCollection
    AttributeCollection.cached = None
    AttributeCollection.previous = b''
    for c in Attribute.cache.values():
        try:
            c.clear()
        except Exception:
            pass
    # LinkState.get_ls_class registers a synthetic class for every unknown TLV code it meets: process-wide, undone here
    global _LS_SNAPSHOT
    from exabgp.bgp.message.update.attribute.bgpls.linkstate import LinkState
    reg = LinkState.registered_lsids
    if _LS_SNAPSHOT is None:
        _LS_SNAPSHOT = dict(reg)
    for k in [k for k in list(dict.keys(reg)) if k not in _LS_SNAPSHOT]:
        dict.__delitem__(reg, k)


# ----------------------------------------------------------------------------- NLRI: what is canonical
#
# A wire NLRI is canonical when ExaBGP is obliged to give the same octets back.  Every entry is a documented
# normalisation; everything else must round trip octet for octet.


CANON_NOTES = {
    'label': 'ipv4/ipv6 nlri-mpls: the stack is rebuilt from the 20-bit label values (Labels.make_labels): the 3 reserved bits of every label '
             'are cleared and the bottom-of-stack bit is set on the last label only.  RFC 8277 2.2/2.3: Rsrv "SHOULD be set to zero on transmission '
             'and MUST be ignored on reception", S set on the last label; RFC 8277 2.4: the withdraw compatibility field (0x800000, or the older '
             '0x000000) "MUST be ignored on reception": both come back as a label with S=1',
    'rtc': 'ipv4 rtc: the two high bits of the route-target type octet are cleared (RTC.resetFlags): RFC 4684 4 compares route targets as NLRI '
           'prefix bits and RFC 4360 2 makes those bits the IANA-authority / transitive flags of an attribute, which an NLRI does not have',
    'vpls': 'l2vpn vpls: a declared length above 17 is accepted and only the 17 octets RFC 4761 3.2.2 defines are kept: the length comes back as 17',
    'flow': 'flow / flow-vpn: the rule is rebuilt from its components (ordering, operator length bits, end-of-list bit): octet-exactness against '
            'RFC 8955 is C16; here the normal form only (what is packed decodes to an equal rule and packs to itself)',
}


def nlri_canonical(ctx, afi, safi, consumed, addpath, nlri, action=None):
    """-> (cond, tag): cond is bool|SBool 'these octets are canonical'; None = no octet-exact claim (normal form only)"""
    safi_i = int(safi)
    if safi_i == 4:  # nlri-mpls
        off = 4 if addpath else 0
        size = getattr(nlri, '_label_size', 0)
        terms = []
        for i in range(off + 1, off + 1 + size, 3):
            last = i + 3 >= off + 1 + size
            terms.append(consumed[i + 2] % 16 == (1 if last else 0))
        return s_and(*terms), 'label'
    if safi_i == 132:  # rtc
        if len(consumed) < 13:
            return True, 'rtc'
        return consumed[5] < 64, 'rtc'
    if safi_i == 65:   # vpls
        return s_and(consumed[0] == 0, consumed[1] == 17), 'vpls'
    if safi_i in (133, 134):
        return None, 'flow'
    return True, ''


def input_class(ctx, afi, safi, consumed, addpath, nlri, action):
    """A name for the class of input a known defect is tied to (part of the obligation signatures, never of the verdict):
    forks on the class so that one signature is one class."""
    if int(safi) == 4:
        off = 4 if addpath else 0
        size = getattr(nlri, '_label_size', 0)
        if size >= 6:
            # the 20-bit value of the first label is one of the two values the decoder also reads as "this IS the whole stack"
            if bool(s_and(consumed[off + 1] == 0, consumed[off + 2] == 0, consumed[off + 3] < 16)):
                return ':label-0-above-another-label'
            if action == Action.WITHDRAW and bool(s_and(consumed[off + 1] == 0x80, consumed[off + 2] == 0, consumed[off + 3] < 16)):
                return ':withdraw-label-524288-above-another-label'
    return ''


# ----------------------------------------------------------------------------- NLRI: decode -> encode


def eq_by_class(a, b):
    """the class's own == (forks on a symbolic answer: the two sides are then two paths)"""
    r = a == b
    return bool(r)


def dec_nlri(ctx, afi, safi, data, addpath=False, action=Action.ANNOUNCE, kind=None):
    """The generic decode->encode obligation for one NLRI buffer.

      in --decode--> x --pack--> out            canonical(in)  =>  out == in                         (clause b)
      out --decode--> y                         always: y exists, consumes out, pack(y) == out,      (clause a on x, which
                                                y == x by the class's own ==, index(y) == index(x),   is reachable from decoding)
                                                hash(y) == hash(x) (witness)
    """
    afi, safi = AFI.from_int(afi), SAFI.from_int(safi)
    kind = kind or fam_name(afi, safi)
    neg = session(addpath)
    try:
        nlri, left = NLRI.unpack_nlri(afi, safi, data, action, addpath, neg)
    except Notify as exc:
        ctx.cover('refused')
        ctx.note('class', 'refused')
        return ('refused', int(exc.code), int(exc.subcode))
    except Exception as exc:
        # which exceptions may escape a decoder is property C03, not C15: here it is a refusal, kept in the census
        ctx.cover('refused')
        ctx.note('class', 'refused-by-%s' % type(exc).__name__)
        return ('raises', type(exc).__name__)
    if nlri is NLRI.INVALID:
        ctx.cover('refused')
        ctx.note('class', 'invalid')
        return ('invalid', len(left))
    ctx.cover('decoded')
    n_used = len(data) - len(left)
    consumed = data[:n_used]
    klass = type(nlri).__name__
    ctx.note('class', 'decoded:%s' % klass)
    kind = kind + input_class(ctx, afi, safi, consumed, addpath, nlri, action)
    # the left-over is the tail of the input
    chk(ctx, 'left-over-is-tail', sx_eq(B(ctx, left), data[n_used:]), 'C15:dec:nlri:%s:left-over-not-tail' % kind)
    # family survives
    chk(ctx, 'family', s_and(sx_eq(int(nlri.afi), int(afi)), sx_eq(int(nlri.safi), int(safi))), 'C15:dec:nlri:%s:family-changes' % kind,
        lambda: {'got': '%s/%s' % (nlri.afi, nlri.safi)})
    try:
        out = B(ctx, nlri.pack_nlri(neg))
    except Exception as exc:
        ctx.check('packs', False, sig='C15:dec:nlri:%s:pack-raises-%s' % (kind, type(exc).__name__), info={'data': data, 'raised': str(exc)[:200]})
        return ('decoded', klass, n_used, 'pack-raises')
    canon, why = nlri_canonical(ctx, afi, safi, consumed, addpath, nlri, action)
    if canon is None:
        verdict = 'normal-form-only'
        ctx.cover('non-canonical')
    else:
        if not chk(ctx, 'reencode', s_implies(canon, sx_eq(out, consumed)), 'C15:dec:nlri:%s:reencode-differs' % kind, lambda: {'in': consumed, 'out': out}):
            # canonical octets did not come back: reported; decoding the wrong octets again adds nothing (and has no bound)
            return ('decoded', klass, n_used, 'reencode-differs')
        if bool(canon):
            verdict = 'canonical'
            ctx.cover('canonical')
        else:
            verdict = 'non-canonical:' + why
            ctx.cover('non-canonical')
    # what ExaBGP packed is its own encoding: it decodes, whole, to an equal route which packs to the same octets
    try:
        again, left2 = NLRI.unpack_nlri(afi, safi, out, action, addpath, neg)
    except Exception as exc:
        ctx.check('reencoded-decodes', False, sig='C15:dec:nlri:%s:reencoded-refused' % kind, info={'in': consumed, 'out': out, 'raised': '%s %s' % (type(exc).__name__, str(exc)[:160])})
        return ('decoded', klass, n_used, verdict, 'reencoded-refused')
    ok = again is not NLRI.INVALID
    chk(ctx, 'reencoded-decodes', ok, 'C15:dec:nlri:%s:reencoded-refused' % kind, lambda: {'in': consumed, 'out': out})
    if ok:
        chk(ctx, 'reencoded-whole', len(left2) == 0, 'C15:dec:nlri:%s:reencoded-left-over' % kind, lambda: {'out': out})
        chk(ctx, 'same-octets', sx_eq(B(ctx, again.pack_nlri(neg)), out), 'C15:dec:nlri:%s:repack-differs' % kind, lambda: {'in': consumed, 'out': out})
        chk(ctx, 'equal-route', type(again) is type(nlri) and eq_by_class(again, nlri), 'C15:dec:nlri:%s:redecoded-route-not-equal' % kind,
            lambda: {'in': consumed, 'out': out, 'first': str(state(nlri))[:300], 'second': str(state(again))[:300]})
        # equal routes: equal index (and equal hash, on the replayed model: hash() is C code)
        chk(ctx, 'equal-index', sx_eq(B(ctx, again.index()), B(ctx, nlri.index())), 'C15:dec:nlri:%s:equal-routes-different-index' % kind, lambda: {'in': consumed, 'out': out})
        if not ctx.sym:
            ctx.witness_check('equal-hash', lambda: hash(again) == hash(nlri), sig='C15:dec:nlri:%s:equal-routes-different-hash' % kind, info={'in': consumed, 'out': out})
    cdata = data
    render_witness(ctx, 'nlri:' + kind, lambda: NLRI.unpack_nlri(afi, safi, bytes(cdata), action, addpath, neg)[0])
    return ('decoded', klass, n_used, verdict)


# ---- shapes: name -> builder(ctx) -> items


def free(L):
    return lambda ctx: sym(ctx, 'p', L)


def swept(lengths, head=None):
    """every length of `lengths`, all bytes symbolic after an optional concrete header computed from the length"""
    lengths = list(lengths)

    def f(ctx):
        L = ctx.pick('L', lengths)
        h = head(L) if head else []
        return h + sym(ctx, 'p', max(0, L - len(h))) if L >= len(h) else h[:L]
    return f


def h_dec_nlri(ctx, afi, safi, builder, addpath=False, action=Action.ANNOUNCE, kind=None):
    data = mk(ctx, builder(ctx))
    return dec_nlri(ctx, afi, safi, data, addpath, action, kind)


def rng(a, b):
    return list(range(a, b + 1))


def nlri_units(tier):
    th = tier == 'thorough'
    us = []
    T = 1500 if th else 600

    def add(name, afi, safi, builder, cover=('decoded', 'refused'), addpath=False, action=Action.ANNOUNCE, weight=10, kind=None, max_paths=20000):
        us.append(Unit('dec/nlri/' + name, lambda ctx: h_dec_nlri(ctx, afi, safi, builder, addpath, action, kind), must_cover=cover,
                       weight=weight, max_seconds=T, max_paths=max_paths, reset=reset_state, hash_const=True))

    for afi, safi in families():
        a, s = int(afi), int(safi)
        fam = fam_name(afi, safi)
        full = 4 if a == 1 else 16
        if s in (1, 2):
            lens = rng(0, 6) + ([full + 1, full + 2] if full + 1 > 6 else []) if not th else rng(0, full + 2)
            add(fam + '/swept', a, s, swept(lens), ('decoded', 'refused', 'canonical'), weight=20)
            if addpath_ok(a, s):
                add(fam + '/addpath', a, s, swept([x + 4 for x in lens] + [0, 3, 4]), ('decoded', 'refused', 'canonical'), addpath=True, weight=20)
        elif s == 4:
            lens = (rng(0, 8) + [11, full + 4]) if not th else rng(0, full + 8)
            # several units (the long buffers hold up to three labels in front of a full address: most of the paths)
            add(fam + '/swept', a, s, swept([x for x in lens if x <= 11]), ('decoded', 'refused', 'canonical', 'non-canonical'), weight=150)
            for x in [x for x in lens if x > 11]:
                add(fam + '/swept-%d' % x, a, s, swept([x]), ('decoded', 'canonical', 'non-canonical'), weight=300 if x > 12 else 100)
            add(fam + '/withdraw', a, s, swept(rng(3, 8)), ('decoded', 'refused', 'canonical', 'non-canonical'), action=Action.WITHDRAW, weight=40)
            add(fam + '/addpath', a, s, swept([x + 4 for x in (rng(0, 6) if not th else rng(0, 9))]), ('decoded', 'refused', 'canonical', 'non-canonical'), addpath=True, weight=40)
        elif s == 128:
            lens = (rng(0, 4) + rng(9, 14) + [12 + full]) if not th else rng(0, 16 + full)
            add(fam + '/swept', a, s, swept(lens), ('decoded', 'refused', 'canonical'), weight=60)
            add(fam + '/withdraw', a, s, swept(rng(11, 14)), ('decoded', 'refused', 'canonical'), action=Action.WITHDRAW, weight=40)
            add(fam + '/addpath', a, s, swept([x + 4 for x in rng(9, 13)]), ('decoded', 'refused', 'canonical'), addpath=True, weight=40)
        elif s in (133, 134):
            top = (5 if th else 4) + (8 if s == 134 else 0)
            add(fam + '/swept', a, s, swept(rng(0, top)), ('decoded', 'refused', 'non-canonical'), weight=200, max_paths=100000)
        elif (a, s) == (25, 65):
            add(fam + '/swept', a, s, swept(rng(0, 24)), ('decoded', 'refused', 'canonical'), weight=20)
        elif (a, s) == (1, 132):
            add(fam + '/swept', a, s, swept(rng(0, 15)), ('decoded', 'refused', 'canonical', 'non-canonical'), weight=20)
        elif s == 73:
            add(fam + '/swept', a, s, swept(rng(0, 27)), ('decoded', 'refused', 'canonical'), weight=20)
        elif (a, s) == (25, 70):
            for code in sorted(EVPN.registered_evpn) + [0x7f]:
                tag = 'generic' if code not in EVPN.registered_evpn else 'type%d' % code
                lens = rng(0, 62) if th or tag == 'generic' else EVPN_QUICK.get(code, rng(0, 62))
                if tag == 'generic':
                    lens = rng(0, 8)
                add('%s/%s' % (fam, tag), a, s, swept(lens, head=lambda L, code=code: [code, max(0, L - 2)]), weight=60, kind='%s:%s' % (fam, tag))
            add(fam + '/free', a, s, swept(rng(0, 5)), weight=60)
        elif s == 85:
            for key in sorted(MUP.registered_mup) + ['1:99']:
                arch, code = [int(x) for x in key.split(':')]
                tag = 'generic' if key not in MUP.registered_mup else 'arch%d-type%d' % (arch, code)
                top = 72 if a == 2 else 36
                lens = rng(0, top) if th else MUP_QUICK.get((a, key), rng(0, top))
                if tag == 'generic':
                    lens = rng(0, 9)
                add('%s/%s' % (fam, tag), a, s, swept(lens, head=lambda L, arch=arch, code=code: [arch] + be(code, 2) + [max(0, L - 4)]),
                    weight=200 if 'type3' in tag else 40, kind='%s:%s' % (fam, tag))
        elif s == 5:
            for code in sorted(MVPN.registered_mvpn) + [0x7f]:
                tag = 'generic' if code not in MVPN.registered_mvpn else 'type%d' % code
                lens = rng(0, 50) if th else MVPN_QUICK.get(code, rng(0, 50))
                if tag == 'generic':
                    lens = rng(0, 8)
                add('%s/%s' % (fam, tag), a, s, swept(lens, head=lambda L, code=code: [code, max(0, L - 2)]), weight=40, kind='%s:%s' % (fam, tag))
            add(fam + '/free', a, s, swept(rng(0, 5)), weight=40)
        elif a == 16388:
            vpn = s == 72
            for code in sorted(BGPLS.registered_bgpls) + [0x7f]:
                tag = 'generic' if code not in BGPLS.registered_bgpls else 'type%d' % code
                for shape_name, builder in bgpls_shapes(code, vpn, th).items():
                    add('%s/%s/%s' % (fam, tag, shape_name), a, s, builder, BGPLS_COVER.get((code, shape_name), ('decoded', 'refused')), weight=60, kind='%s:%s' % (fam, tag))
        else:
            # a family registered after this file was written: every length up to 12 (16 thorough), all bytes symbolic
            add(fam + '/swept', a, s, swept(rng(0, 16 if th else 12)), weight=100)
    return us


# lengths at which each route type accepts something (header included), plus their neighbours; thorough sweeps every length
EVPN_QUICK = {
    1: rng(0, 3) + rng(23, 31),                       # RD ESI ETag + label stack
    2: [31, 32, 34, 35, 38, 39, 42, 51, 54, 55],     # MAC: 35/38 (no ip) 39/42 (ipv4) 51/54 (ipv6); the ip-length octet is enumerated (dict literal .get)
    3: rng(13, 20) + rng(30, 32),                     # inclusive multicast: 19 / 31
    4: rng(19, 26) + rng(36, 38),                     # ethernet segment: 25 / 37
    5: rng(34, 37) + rng(59, 61),                     # prefix: 36 / 60
}
MUP_QUICK = {
    (1, '1:1'): rng(11, 18), (2, '1:1'): rng(11, 18) + rng(28, 30),
    (1, '1:2'): rng(14, 17) + rng(27, 29), (2, '1:2'): rng(14, 17) + rng(27, 29),
    (1, '1:3'): rng(12, 15) + rng(22, 30), (2, '1:3'): rng(12, 15) + rng(22, 30) + [40, 52, 69],
    (1, '1:4'): rng(12, 22), (2, '1:4'): rng(12, 14) + rng(28, 34),
}
MVPN_QUICK = {5: rng(0, 2) + rng(19, 21) + rng(43, 45), 6: rng(0, 2) + rng(23, 25) + rng(47, 49), 7: rng(0, 2) + rng(23, 25) + rng(47, 49)}


# ---- BGP-LS NLRI shapes: protocol-id and TLV types / lengths concrete (the decoders hash them), every value byte symbolic

BGPLS_COVER = {}


def _node_desc(ctx, name, proto, router_len=None, with_area=False):
    """node descriptor sub-TLVs: AS, BGP-LS id, [area], IGP router id"""
    v = tlv16(512, sym(ctx, name + '.as', 4)) + tlv16(513, sym(ctx, name + '.id', 4))
    if with_area:
        v += tlv16(514, sym(ctx, name + '.area', 4))
    if router_len is None:
        router_len = 6 if proto in (1, 2) else 4
    v += tlv16(515, sym(ctx, name + '.rid', router_len))
    return v


def bgpls_shapes(code, vpn, th):
    """name -> builder.  The NLRI is [type(2)][length(2)][RD(8) if vpn][protocol-id(1)][identifier(8)][descriptor TLVs]"""
    def wrap(body_fn):
        def f(ctx):
            body = body_fn(ctx)
            rd = sym(ctx, 'rd', 8) if vpn else []
            return be(code, 2) + be(len(rd) + len(body), 2) + rd + body
        return f

    def head(ctx, protos=(2, 3)):
        proto = ctx.pick('proto', protos)
        return proto, [proto] + sym(ctx, 'ident', 8)

    shapes = {}
    if code == 0x7f:
        shapes['free'] = wrap(lambda ctx: sym(ctx, 'p', ctx.pick('n', rng(0, 6))))
        BGPLS_COVER[(code, 'free')] = ('decoded',)
        return shapes

    def short(ctx):
        n = ctx.pick('n', rng(0, 12))
        return ([ctx.pick('proto', (2, 9))] + sym(ctx, 'p', n - 1)) if n else []
    shapes['short'] = wrap(short)
    BGPLS_COVER[(code, 'short')] = ('refused',)

    def node(ctx):
        proto, h = head(ctx, (1, 3, 227))
        rl = ctx.pick('rl', (4, 8)) if proto != 1 else ctx.pick('rl', (6, 7))
        return h + tlv16(256, _node_desc(ctx, 'n', proto, rl, with_area=bool(ctx.choice('area', 2))))

    def node_free(ctx):
        # one descriptor TLV of the right type whose sub-TLV octets are all free
        proto, h = head(ctx, (3,))
        n = ctx.pick('n', rng(0, 9 if th else 7))
        return h + tlv16(256, sym(ctx, 'd', n))

    def node_wrong(ctx):
        proto, h = head(ctx, (3,))
        return h + tlv16(ctx.pick('t', (257, 258)), sym(ctx, 'd', 4))

    if code in (1,):
        shapes['node'] = wrap(node)
        BGPLS_COVER[(code, 'node')] = ('decoded',)
        shapes['desc-free'] = wrap(node_free)
        shapes['wrong-tlv'] = wrap(node_wrong)
        BGPLS_COVER[(code, 'wrong-tlv')] = ('refused',)
    elif code == 2:
        def link(ctx):
            proto, h = head(ctx, (2, 3))
            v = h + tlv16(256, _node_desc(ctx, 'l', proto)) + tlv16(257, _node_desc(ctx, 'r', proto))
            which = ctx.pick('with', ('linkid', 'v4', 'v6', 'mt', 'all'))
            if which in ('linkid', 'all'):
                v += tlv16(258, sym(ctx, 'lid', 8))
            if which in ('v4', 'all'):
                v += tlv16(259, sym(ctx, 'if4', 4)) + tlv16(260, sym(ctx, 'ne4', 4))
            if which in ('v6', 'all'):
                v += tlv16(261, sym(ctx, 'if6', 16)) + tlv16(262, sym(ctx, 'ne6', 16))
            if which in ('mt', 'all'):
                v += tlv16(263, sym(ctx, 'mt', 2 * ctx.pick('nmt', (1, 2))))
            return v

        def link_badlen(ctx):
            proto, h = head(ctx, (3,))
            t, n = ctx.pick('tl', ((258, 7), (258, 9), (259, 3), (260, 5), (261, 15), (263, 1), (263, 3), (999, 2)))
            return h + tlv16(256, _node_desc(ctx, 'l', proto)) + tlv16(t, sym(ctx, 'v', n))
        shapes['link'] = wrap(link)
        BGPLS_COVER[(code, 'link')] = ('decoded',)
        shapes['sub-tlv-lengths'] = wrap(link_badlen)
        shapes['desc-free'] = wrap(node_free)
    elif code in (3, 4):
        plen = 4 if code == 3 else 16

        def prefix(ctx):
            proto, h = head(ctx, (2, 3))
            v = h + tlv16(256, _node_desc(ctx, 'l', proto))
            if ctx.choice('ospf', 2):
                v += tlv16(264, sym(ctx, 'ospf', 1))
            n = ctx.pick('pn', (0, 1, 2, plen))
            v += tlv16(265, sym(ctx, 'plen', 1) + sym(ctx, 'pfx', n))
            return v

        def prefix_odd(ctx):
            proto, h = head(ctx, (3,))
            which = ctx.pick('which', ('no-reach', 'empty-reach', 'ospf-2', 'mt', 'no-node'))
            v = h + (tlv16(256, _node_desc(ctx, 'l', proto)) if which != 'no-node' else [])
            if which == 'empty-reach':
                v += tlv16(265, [])
            elif which == 'ospf-2':
                v += tlv16(264, sym(ctx, 'ospf', 2)) + tlv16(265, sym(ctx, 'r', 2))
            elif which == 'mt':
                v += tlv16(263, sym(ctx, 'mt', 2)) + tlv16(265, sym(ctx, 'r', 3))
            elif which == 'no-node':
                v += tlv16(265, sym(ctx, 'r', 3))
            return v
        shapes['prefix'] = wrap(prefix)
        BGPLS_COVER[(code, 'prefix')] = ('decoded',)
        shapes['odd'] = wrap(prefix_odd)
        shapes['desc-free'] = wrap(node_free)
        BGPLS_COVER[(code, 'desc-free')] = ('refused',)
    elif code == 6:
        def sid(ctx):
            proto, h = head(ctx, (2, 3))
            v = h + tlv16(256, _node_desc(ctx, 'l', proto))
            which = ctx.pick('with', ('sid', 'mt+sid', 'none', 'sid-15', 'other'))
            if which == 'mt+sid':
                v += tlv16(263, sym(ctx, 'mt', 2))
            if which in ('sid', 'mt+sid'):
                v += tlv16(518, sym(ctx, 'sid', 16))
            if which == 'sid-15':
                v += tlv16(518, sym(ctx, 'sid', 15))
            if which == 'other':
                v += tlv16(999, sym(ctx, 'x', 3))
            return v
        shapes['sid'] = wrap(sid)
        BGPLS_COVER[(code, 'sid')] = ('decoded', 'refused')
        shapes['desc-free'] = wrap(node_free)
        shapes['wrong-tlv'] = wrap(node_wrong)
        BGPLS_COVER[(code, 'wrong-tlv')] = ('refused',)
    else:
        # a BGP-LS NLRI type registered later: descriptor octets free after a valid fixed part
        shapes['desc-free'] = wrap(node_free)
        BGPLS_COVER[(code, 'desc-free')] = ()
    return shapes



# ============================================================================= attributes: decode -> encode

from exabgp.bgp.message.update.attribute.attribute import TreatAsWithdraw, Discard   # noqa: E402
from exabgp.bgp.message.update.attribute.community.extended.community import ExtendedCommunity, ExtendedCommunityIPv6   # noqa: E402
from exabgp.bgp.message.update.attribute.bgpls.linkstate import LinkState   # noqa: E402
from exabgp.bgp.message.update.attribute.sr.prefixsid import PrefixSid   # noqa: E402
from exabgp.bgp.message.update.attribute.pmsi import PMSI   # noqa: E402
from exabgp.bgp.message.update.attribute.tunnel_encap.tlv import TunnelTypeTLV, SubTLV   # noqa: E402
from exabgp.bgp.message.update.nlri.collection import MPNLRICollection   # noqa: E402
import exabgp.bgp.message.update.attribute.bgpls.linkstate as _m_ls   # noqa: E402

_silence(_m_ls)

for _reg, _owner in ((ExtendedCommunity.registered_extended, 'ExtendedCommunity'), (ExtendedCommunityIPv6.registered_extended, 'ExtendedCommunityIPv6'),
                     (LinkState.registered_lsids, 'LinkState'), (PrefixSid.registered_srids, 'PrefixSid'), (SubTLV.registered_subtypes, 'SubTLV'),
                     (TunnelTypeTLV.registered_tunnel_types, 'TunnelTypeTLV'), (PMSI._pmsi_known, 'PMSI'), (Attribute.registered_attributes, 'Attribute'),
                     (NLRI.registered_nlri, 'NLRI'), (EVPN.registered_evpn, 'EVPN'), (MUP.registered_mup, 'MUP'), (MVPN.registered_mvpn, 'MVPN'), (BGPLS.registered_bgpls, 'BGPLS')):
    _prune(_reg, _owner)

REFUSAL = (Notify, ValueError, IndexError)   # what AttributeCollection.parse handles around Attribute.unpack


class Shape:
    """octets of one attribute value + the terms under which they are canonical (None: idempotence only)"""

    def __init__(self, items, canon=(), why='', tag=''):
        self.items = list(items)
        self.canon = canon
        self.why = why
        self.tag = tag      # input class a known defect is tied to: part of the obligation signatures only


def split_attributes(out):
    """[(flag, code, value)] of packed path attributes (the header octets are concrete: they come from class constants)"""
    res = []
    i = 0
    n = len(out)
    while i < n:
        if n - i < 3:
            return None
        flag, code = out[i], out[i + 1]
        if int(flag) & 0x10:
            if n - i < 4:
                return None
            ln = int(out[i + 2]) * 256 + int(out[i + 3])
            h = 4
        else:
            ln = int(out[i + 2])
            h = 3
        if i + h + ln > n:
            return None
        res.append((int(flag), int(code), out[i + h:i + h + ln]))
        i += h + ln
    return res


def repack_mp(ctx, obj, neg, code):
    """codes 14/15 hold the wire octets and are re-encoded by MPNLRICollection (what UpdateCollection.messages does)"""
    afi, safi = obj.afi, obj.safi
    if code == 14:
        coll = MPNLRICollection.from_routed(list(obj.iter_routed()), {}, afi, safi)
        outs = list(coll.packed_reach_attributes(neg))
    else:
        coll = MPNLRICollection(list(obj), {}, afi, safi)
        outs = list(coll.packed_unreach_attributes(neg))
    out = None
    for o in outs:
        out = B(ctx, o) if out is None else out + B(ctx, o)
    return mk(ctx, []) if out is None else out


def cover(ctx, member, tag):
    """reachability tag; units that sweep several registry entries also tag the entry, so that each one has its own vacuity guard"""
    ctx.cover(tag)
    if member:
        ctx.cover('%s:%s' % (tag, member))


def dec_attr(ctx, code, flag, shape, asn4=True, kind=None, deep=None, member=None):
    """The generic decode->encode obligation for one attribute value (same scheme as dec_nlri)."""
    kind = (kind or 'attr-%d' % code) + shape.tag
    neg = session(False, asn4)
    data = mk(ctx, shape.items)
    try:
        obj = Attribute.unpack(code, flag, data, neg)
        if code in (14, 15) and not isinstance(obj, (TreatAsWithdraw, Discard)):
            # MP_REACH / MP_UNREACH keep the wire octets and decode their routes when iterated: decoding IS iterating
            n_routes = len(list(obj))
    except REFUSAL as exc:
        cover(ctx, member, 'refused')
        ctx.note('class', 'refused' if isinstance(exc, Notify) else 'refused-by-%s' % type(exc).__name__)
        return ('refused', type(exc).__name__)
    except Exception as exc:
        # which exceptions may escape a decoder is property C03, not C15: here it is a refusal, kept in the census
        cover(ctx, member, 'refused')
        ctx.note('class', 'refused-by-%s' % type(exc).__name__)
        return ('raises', type(exc).__name__)
    if isinstance(obj, (TreatAsWithdraw, Discard)):
        cover(ctx, member, 'refused')
        ctx.note('class', 'refused:%s' % type(obj).__name__)
        return ('refused', type(obj).__name__)
    klass = type(obj).__name__
    if code in (14, 15) and n_routes == 0:
        # no route inside: for MP_UNREACH this is the End-of-RIB marker of the family (RFC 4724 2), which Update.parse
        # turns into an EOR message; there is nothing for pack to give back
        cover(ctx, member, 'refused')
        ctx.note('class', 'no-route-inside')
        return ('no-route-inside', klass)
    cover(ctx, member, 'decoded')
    ctx.note('class', 'decoded:%s' % klass)
    try:
        out = repack_mp(ctx, obj, neg, code) if code in (14, 15) else B(ctx, obj.pack_attribute(neg))
    except Exception as exc:
        ctx.check('packs', False, sig='C15:dec:attr-%d:pack-raises-%s' % (code, type(exc).__name__), info={'data': data, 'raised': str(exc)[:200]})
        render_witness(ctx, kind, lambda: Attribute.unpack(code, flag, bytes(data), neg))
        return ('decoded', klass, 'pack-raises')
    if len(out) == 0:
        # an OPTIONAL attribute with an empty value is not sent at all (Attribute._attribute): the empty value round trips to absence
        chk(ctx, 'empty-only-when-empty', len(data) == 0, 'C15:dec:%s:reencoded-to-nothing' % kind, lambda: {'in': data})
        cover(ctx, member, 'canonical')
        render_witness(ctx, kind, lambda: Attribute.unpack(code, flag, bytes(data), neg))
        return ('decoded', klass, 'omitted-when-empty')
    parts = split_attributes(out)
    ok = chk(ctx, 'well-formed-tlv', parts is not None and len(parts) >= 1, 'C15:dec:%s:reencoded-not-a-tlv' % kind, lambda: {'in': data, 'out': out})
    if not ok:
        return ('decoded', klass, 'not-a-tlv')
    oflag, ocode, value = parts[0]
    want_flag = (int(flag) & 0xEF) | (0x10 if len(value) > 255 else 0)
    chk(ctx, 'header', ocode == code and oflag == want_flag and len(parts) == 1, 'C15:dec:%s:reencoded-header' % kind,
        lambda: {'flag': oflag, 'code': ocode, 'attributes': len(parts), 'want-flag': want_flag})
    if shape.canon is None:
        verdict = 'normal-form-only'
        cover(ctx, member, 'non-canonical')
    else:
        canon = s_and(*shape.canon)
        if not chk(ctx, 'reencode', s_implies(canon, sx_eq(value, data)), 'C15:dec:%s:reencode-differs' % kind, lambda: {'in': data, 'out': value}):
            return ('decoded', klass, 'reencode-differs')
        if bool(canon):
            verdict = 'canonical'
            cover(ctx, member, 'canonical')
        else:
            verdict = 'non-canonical:' + shape.why
            cover(ctx, member, 'non-canonical')
    if deep is not None:
        deep(ctx, obj, data, kind, neg)
    # what ExaBGP packed is its own encoding: it decodes to an equal attribute which packs to the same octets
    try:
        again = Attribute.unpack(code, flag, value, neg)
        if code in (14, 15):
            list(again)
    except Exception as exc:
        ctx.check('reencoded-decodes', False, sig='C15:dec:%s:reencoded-refused' % kind, info={'in': data, 'out': value, 'raised': '%s %s' % (type(exc).__name__, str(exc)[:160])})
        return ('decoded', klass, verdict, 'reencoded-refused')
    if code in (14, 15):
        # the object IS its wire octets (next hop included); what must be equal is the routes it yields
        same = [eq_by_class(x, y) for x, y in zip(list(obj), list(again))]
        chk(ctx, 'equal-attribute', len(list(obj)) == len(list(again)) and all(same), 'C15:dec:%s:redecoded-routes-not-equal' % kind, lambda: {'in': data, 'out': value})
    else:
        chk(ctx, 'equal-attribute', type(again) is type(obj) and eq_by_class(again, obj), 'C15:dec:%s:redecoded-attribute-not-equal' % kind,
            lambda: {'in': data, 'out': value, 'first': str(state(obj))[:300], 'second': str(state(again))[:300]})
    try:
        out2 = repack_mp(ctx, again, neg, code) if code in (14, 15) else B(ctx, again.pack_attribute(neg))
        chk(ctx, 'same-octets', sx_eq(out2, out), 'C15:dec:%s:repack-differs' % kind, lambda: {'in': data, 'out': out, 'again': out2})
    except Exception as exc:
        ctx.check('same-octets', False, sig='C15:dec:%s:repack-raises-%s' % (kind, type(exc).__name__))
    render_witness(ctx, kind, lambda: Attribute.unpack(code, flag, bytes(data), neg))
    return ('decoded', klass, verdict)


# ---- deep obligations: the collection attributes hand out element objects which must pack back to their octets


def deep_elements(attr_name, size):
    def deep(ctx, obj, data, kind, neg):
        elems = list(getattr(obj, attr_name))
        chk(ctx, 'element-count', len(elems) * size == len(getattr(obj, '_packed')), 'C15:dec:%s:element-count' % kind)
        got = mk(ctx, [])
        for e in elems:
            got = got + B(ctx, e.pack_attribute(neg) if hasattr(e, 'pack_attribute') else e.pack())
        chk(ctx, 'elements-pack-back', sx_eq(got, B(ctx, obj._packed)), 'C15:dec:%s:elements-repack-differs' % kind, lambda: {'in': data, 'out': got})
    return deep


def deep_extended(registry):
    inner = deep_elements('communities', 8 if registry is ExtendedCommunity else 20)

    def deep(ctx, obj, data, kind, neg):
        inner(ctx, obj, data, kind, neg)
        for i, e in enumerate(obj.communities):
            key = (int(data[i * len(e)]) & 0x0F, int(data[i * len(e) + 1])) if not ctx.sym or all(type(x) is int for x in (data[i * len(e)], data[i * len(e) + 1])) else None
            if key is not None and key in registry.registered_extended:
                chk(ctx, 'registered-class', type(e) is registry.registered_extended[key], 'C15:dec:%s:wrong-subtype-class' % kind,
                    lambda: {'got': type(e).__name__, 'want': registry.registered_extended[key].__name__})
    return deep


DEEP = {8: deep_elements('communities', 4), 32: deep_elements('communities', 12), 16: deep_extended(ExtendedCommunity), 25: deep_extended(ExtendedCommunityIPv6)}


# ---- shapes per attribute code: name -> (builder(ctx) -> Shape, must_cover, options)

ALL = ('decoded', 'refused', 'canonical')


def sh_swept(lengths):
    lengths = list(lengths)
    return lambda ctx: Shape(sym(ctx, 'p', ctx.pick('L', lengths)))


def sh_aspath(asn4, segs):
    """segments: ((type or None, counts), ...): type symbolic when None; count picked from counts"""
    size = 4 if asn4 else 2

    def f(ctx):
        items = []
        empty = False
        for i, (t, counts) in enumerate(segs):
            c = ctx.pick('c%d' % i, counts)
            empty = empty or c == 0
            items += [ctx.byte('t%d' % i) if t is None else t, c] + sym(ctx, 's%d' % i, c * size)
        if empty and not asn4:
            # a zero-length segment is malformed (RFC 7606 7.2; that it is accepted is C08's finding F16).  A 4-octet session
            # gives the stored octets back; a 2-octet session rebuilds the path from its segments and the empty one is not written
            return Shape(items, [False], 'zero-length-segment', tag=':zero-length-segment')
        return Shape(items)
    return f


def sh_large(ctx):
    n = ctx.pick('n', (0, 1, 2, 3))
    items = sym(ctx, 'lc', 12 * n)
    chunks = [mk(ctx, items[12 * i:12 * i + 12]) for i in range(n)]
    # RFC 8092 5: "a receiving speaker SHOULD silently remove redundant BGP Large Community values": duplicates are dropped on decode
    canon = [s_not(sx_eq(chunks[i], chunks[j])) for i in range(n) for j in range(i + 1, n)]
    return Shape(items, canon, 'duplicate-large-community')


def sh_aigp(ctx):
    which = ctx.pick('which', ('one', 'two-aigp', 'other-first', 'other-after', 'len-sym', 'short'))
    tlv = lambda name, t=1, ln=11, n=8: [t] + be(ln, 2) + sym(ctx, name, n)
    if which == 'one':
        return Shape(tlv('m'))
    if which == 'two-aigp':
        # RFC 7311 3: only the first AIGP TLV is used; ExaBGP keeps that one alone
        return Shape(tlv('m') + tlv('m2'), [False], 'aigp-extra-tlv')
    if which == 'other-first':
        return Shape(tlv('x', 2, 5, 2) + tlv('m'), [False], 'aigp-extra-tlv')
    if which == 'other-after':
        return Shape(tlv('m') + tlv('x', 9, 4, 1), [False], 'aigp-extra-tlv')
    if which == 'len-sym':
        lo = ctx.int('ln', 0, 14)
        return Shape([ctx.byte('t'), 0, lo] + sym(ctx, 'm', 8))
    return Shape(sym(ctx, 'p', ctx.pick('L', (0, 1, 2, 3, 10, 12))))


def sh_pmsi(lengths):
    def f(ctx):
        L = ctx.pick('L', lengths)
        return Shape(sym(ctx, 'p', L))
    return f


def sh_ext(size, t, sub):
    """one extended community of a registered (type, subtype): the four high bits of the type octet (IANA authority,
    transitive, ...) and the value octets symbolic"""
    def f(ctx):
        hi = ctx.int('hi', 0, 15)
        return Shape([hi * 16 + t, sub] + sym(ctx, 'v', size - 2))
    return f


def sh_prefixsid(tlv, th):
    def f(ctx):
        if tlv == 1:
            n = ctx.pick('n', (0, 6, 7, 8))
            return Shape([1] + be(n, 2) + sym(ctx, 'v', n))
        if tlv == 3:
            n = ctx.pick('n', (0, 1, 2, 7, 8, 9, 14))
            return Shape([3] + be(n, 2) + sym(ctx, 'v', n))
        if tlv in (5, 6):
            which = ctx.pick('which', ('empty', 'reserved-only', 'sid-info', 'sid-info+structure', 'sid-info+two-structures', 'sid-info+unknown-sub-sub', 'sid-info-short', 'generic-sub', 'sub-free'))
            if which == 'empty':
                body = []
            elif which == 'reserved-only':
                body = sym(ctx, 'rsv', 1)
            elif which in ('sid-info', 'sid-info+structure', 'sid-info+two-structures', 'sid-info+unknown-sub-sub', 'sid-info-short'):
                info = sym(ctx, 'r1', 1) + sym(ctx, 'sid', 16) + sym(ctx, 'fl', 1) + sym(ctx, 'beh', 2) + sym(ctx, 'r2', 1)
                if which == 'sid-info+structure':
                    info += [1, 0, 6] + sym(ctx, 'st', 6)
                if which == 'sid-info+two-structures':
                    info += [1, 0, 6] + sym(ctx, 'st', 6) + [1, 0, 6] + sym(ctx, 'st2', 6)
                if which == 'sid-info+unknown-sub-sub':
                    info += [9, 0, 2] + sym(ctx, 'uu', 2)      # a sub-sub-TLV type nobody registered
                if which == 'sid-info-short':
                    info = info[:ctx.pick('k', (0, 20))]
                body = sym(ctx, 'rsv', 1) + [1] + be(len(info), 2) + info
            elif which == 'generic-sub':
                body = sym(ctx, 'rsv', 1) + [9, 0, 2] + sym(ctx, 'g', 2)
            else:
                body = sym(ctx, 'rsv', 1) + sym(ctx, 'f', ctx.pick('n', rng(1, 5 if th else 4)))
            return Shape([tlv] + be(len(body), 2) + body)
        # unknown / later registered TLV
        n = ctx.pick('n', rng(0, 6))
        return Shape([tlv] + be(n, 2) + sym(ctx, 'v', n))
    return f


def sh_prefixsid_free(lengths):
    return lambda ctx: Shape(sym(ctx, 'p', ctx.pick('L', lengths)))


def sh_prefixsid_repeated(ctx):
    """one TLV type twice in the attribute: label-index, SRGB, or a type nobody registered"""
    which = ctx.pick('which', ('label-index', 'srgb', 'unknown'))
    if which == 'label-index':
        return Shape([1, 0, 7] + sym(ctx, 'a', 7) + [1, 0, 7] + sym(ctx, 'b', 7))
    if which == 'srgb':
        return Shape([3, 0, 8] + sym(ctx, 'a', 8) + [3, 0, 8] + sym(ctx, 'b', 8))
    return Shape([77, 0, 2] + sym(ctx, 'a', 2) + [77, 0, 2] + sym(ctx, 'b', 2))


def sh_ls_float(code, n):
    """BGP-LS bandwidth TLVs hold IEEE-754 floats chosen by the peer: a NaN, an infinity, or free octets"""
    def f(ctx):
        which = ctx.pick('float', ('nan', 'inf', '-inf', 'free'))
        one = {'nan': [0x7F, 0xC0, 0, 0], 'inf': [0x7F, 0x80, 0, 0], '-inf': [0xFF, 0x80, 0, 0]}.get(which)
        v = one * (n // 4) if one else sym(ctx, 'v', n)
        return Shape(be(code, 2) + be(n, 2) + v)
    return f


def sh_prefixsid_two(ctx):
    return Shape([1, 0, 7] + sym(ctx, 'li', 7) + [3, 0, 8] + sym(ctx, 'gb', 8))


def sh_ls(code, lengths):
    def f(ctx):
        n = ctx.pick('n', lengths)
        return Shape(be(code, 2) + be(n, 2) + sym(ctx, 'v', n))
    return f


def sh_ls_srv6(code, base, lengths):
    """SRv6 End.X / LAN End.X (1106-1108): fixed part symbolic, then nothing, one SID-structure sub-TLV (1252), one unknown
    sub-TLV, or a cut sub-TLV header: the sub-TLV type and length are concrete (the decoder slices on them)"""
    def f(ctx):
        which = ctx.pick('which', ('short',) + ('base', 'sid-structure', 'unknown-sub', 'cut-header'))
        if which == 'short':
            n = ctx.pick('n', lengths)
            return Shape(be(code, 2) + be(n, 2) + sym(ctx, 'v', n))
        # 1108: the last four octets of the fixed part are two concrete patterns (the decoder of the pinned tree reads them as a
        # sub-TLV header, see repro_5: free octets there are 65536 slice bounds)
        v = sym(ctx, 'v', base) if code != 1108 else sym(ctx, 'v', base - 4) + list(ctx.pick('tail', ((0, 0, 0, 0), (0x12, 0x34, 0, 0))))
        if which == 'sid-structure':
            v += be(1252, 2) + be(4, 2) + sym(ctx, 'st', 4)
        elif which == 'unknown-sub':
            v += be(4242, 2) + be(3, 2) + sym(ctx, 'u', 3)
        elif which == 'cut-header':
            v += sym(ctx, 'c', ctx.pick('k', (1, 3)))
        return Shape(be(code, 2) + be(len(v), 2) + v)
    return f


def sh_ls_truncated(ctx):
    """the TLV walker of the attribute itself: fewer octets than a header, and a header whose length overruns"""
    n = ctx.pick('L', rng(0, 5))
    if n < 4:
        return Shape(sym(ctx, 'p', n))
    code = ctx.pick('code', (1028, 4242))
    return Shape(be(code, 2) + sym(ctx, 'len', 2) + sym(ctx, 'p', n - 4))


def sh_ls_apart(ctx):
    """A, B, A and A, B, C, A: a TLV which may not repeat comes back with other TLVs in between (RFC 9552 does not order the
    TLVs of the attribute)"""
    a, na = ctx.pick('repeated', ((1092, 4), (1095, 3), (1026, 2)))
    between = ctx.pick('between', (((1088, 1),), ((1028, 4), (4242, 2))))
    mid = []
    for i, (b, nb) in enumerate(between):
        mid += be(b, 2) + be(nb, 2) + sym(ctx, 'm%d' % i, nb)
    return Shape(be(a, 2) + be(na, 2) + sym(ctx, 'a', na) + mid + be(a, 2) + be(na, 2) + sym(ctx, 'b', na))


def sh_ls_two(a, na, b, nb):
    return lambda ctx: Shape(be(a, 2) + be(na, 2) + sym(ctx, 'a', na) + be(b, 2) + be(nb, 2) + sym(ctx, 'b', nb))


# SegmentTypeA.pack rebuilds the 32-bit label entry as (label << 12) | (tc << 9) | S | ttl from four decoded fields: an OR of
# symbolic operands, which z3 answered `unknown` to on free octets.  The entry is therefore one of these patterns (label, tc, S,
# ttl all exercised, the 12 low bits both zero and non-zero), the flags and reserved octets stay symbolic.
SEG_A_ENTRIES = ((0x00, 0x06, 0x41, 0x00), (0xff, 0xff, 0xf0, 0x00), (0x12, 0x34, 0x5f, 0xfe), (0x00, 0x00, 0x03, 0x40))


def seg_a(ctx, name):
    return sym(ctx, name + '.fl', 2) + list(ctx.pick(name + '.entry', SEG_A_ENTRIES))


def _segment_shapes():
    """name -> (sub-sub-TLV type, value length) for every segment class of the live module which has an optional SID"""
    import exabgp.bgp.message.update.attribute.tunnel_encap.sr_policy.segment_list as sl
    out = {}
    for name in dir(sl):
        k = getattr(sl, name)
        if isinstance(k, type) and name.startswith('SegmentType') and hasattr(k, 'SUBTYPE') and hasattr(k, 'VALUE_WITH_SID_SIZE') and hasattr(k, 'VALUE_BASE_SIZE'):
            letter = name[len('SegmentType'):].lower()
            out['type-%s' % letter] = (int(k.SUBTYPE), int(k.VALUE_BASE_SIZE), 0)
            out['type-%s+sid' % letter] = (int(k.SUBTYPE), int(k.VALUE_WITH_SID_SIZE), int(k.VALUE_WITH_SID_SIZE) - int(k.VALUE_BASE_SIZE))
    return out


SEGMENT_SHAPES = _segment_shapes()


def sh_tunnel_sub(sub, th):
    """one SR-policy tunnel (type 15) holding one sub-TLV of the given type"""
    def wrap(subitems, canon=(), why=''):
        return Shape(be(15, 2) + be(len(subitems), 2) + subitems, canon, why)

    def hdr(n):
        return [sub, n] if sub < 128 else [sub] + be(n, 2)

    def f(ctx):
        if sub == 12:   # preference: flags(1) reserved(1) preference(4)
            n = ctx.pick('n', (6, 0, 5, 7))
            v = sym(ctx, 'v', n)
            # RFC 9830 2.4.1: reserved MUST be zero on transmission, ignored on receipt
            return wrap(hdr(n) + v, [n == 6 and v[1] == 0] if n == 6 else [False], 'reserved-octet-or-size')
        if sub == 15:   # priority: priority(1) reserved(1)
            n = ctx.pick('n', (2, 0, 1, 3))
            v = sym(ctx, 'v', n)
            return wrap(hdr(n) + v, [v[1] == 0] if n == 2 else [False], 'reserved-octet-or-size')
        if sub == 13:   # binding sid: flags(1) reserved(1) [label entry(4)]
            n = ctx.pick('n', (2, 6, 0, 1, 18))
            v = sym(ctx, 'v', n)
            # what BindingSIDSubTLV.pack_value writes: reserved octet 0; with a label: flag 0x10 set, the 12 bits after the
            # 20-bit label are TC=0 S=1 TTL=0 (RFC 9830 2.4.2: those bits and the unassigned flags are ignored on receipt)
            if n == 2:
                canon = [v[1] == 0]
            elif n == 6:
                canon = [v[1] == 0, (v[0] // 16) % 2 == 1, v[4] % 16 == 1, v[5] == 0]
            else:
                canon = [False]
            return wrap(hdr(n) + v, canon, 'binding-sid-ignored-bits-or-size')
        if sub == 20:   # srv6 binding sid: flags reserved sid(16) [behavior+structure(8)]
            n = ctx.pick('n', (18, 26, 0, 17))
            v = sym(ctx, 'v', n)
            return wrap(hdr(n) + v, None, 'srv6-binding-sid')
        if sub in (129, 130):   # names: flags(1) + utf-8 text
            which = ctx.pick('which', ('empty', 'flags-only', 'one-octet', 'ascii', 'two-octet-utf8', 'invalid-utf8'))
            if which == 'empty':
                v = []
            elif which == 'flags-only':
                v = sym(ctx, 'fl', 1)
            elif which == 'one-octet':
                v = sym(ctx, 'fl', 1) + sym(ctx, 'c', 1)
            elif which == 'ascii':
                v = sym(ctx, 'fl', 1) + list(b'edge-1 "x"\\')
            elif which == 'two-octet-utf8':
                v = sym(ctx, 'fl', 1) + list('é'.encode())
            else:
                v = sym(ctx, 'fl', 1) + [0xff, 0x41]
            return wrap(hdr(len(v)) + v, None, 'name')
        if sub == 128:  # segment list: reserved(1) + sub-sub-TLVs (weight 9, segments 1..)
            which = ctx.pick('which', ('empty', 'reserved-only', 'weight', 'type-a', 'type-b', 'weight+a+b', 'free') + tuple(sorted(SEGMENT_SHAPES)))
            if which in SEGMENT_SHAPES:
                # segment types C .. K (RFC 9831 2.1): without and with the optional SID, every octet symbolic
                subtype, n, sid = SEGMENT_SHAPES[which]
                if sid == 4:
                    # SR-MPLS SID: a label stack entry.  The 20-bit label and the 12 bits after it come from small sets (0 = IPv4
                    # Explicit NULL is a legal SID), the rest of the segment is symbolic: shifts of a free 32-bit word time out
                    label = ctx.pick('label', (0, 3, 16001, 1048575))
                    low = ctx.pick('tc-s-ttl', (0x000, 0x1FF, 0xE40))
                    v = sym(ctx, 'r', 1) + [subtype, n] + sym(ctx, 'seg', n - 4) + be(label * 4096 + low, 4)
                else:
                    v = sym(ctx, 'r', 1) + [subtype, n] + sym(ctx, 'seg', n)
            elif which == 'empty':
                v = []
            elif which == 'reserved-only':
                v = sym(ctx, 'r', 1)
            elif which == 'weight':
                v = sym(ctx, 'r', 1) + [9, 6] + sym(ctx, 'w', 6)
            elif which == 'type-a':
                v = sym(ctx, 'r', 1) + [1, 6] + seg_a(ctx, 'a')
            elif which == 'type-b':
                v = sym(ctx, 'r', 1) + [13, 18] + sym(ctx, 'b', 18)
            elif which == 'weight+a+b':
                v = sym(ctx, 'r', 1) + [9, 6] + sym(ctx, 'w', 6) + [1, 6] + seg_a(ctx, 'a') + [13, 18] + sym(ctx, 'b', 18)
            else:
                v = sym(ctx, 'r', 1) + sym(ctx, 'f', ctx.pick('n', rng(1, 4 if th else 3)))
            return wrap(hdr(len(v)) + v, None, 'segment-list')
        n = ctx.pick('n', rng(0, 4))
        return wrap(hdr(n) + sym(ctx, 'v', n))
    return f


def sh_tunnel_generic(ctx):
    which = ctx.pick('which', ('unknown-tunnel', 'two', 'truncated', 'unknown-sub-short', 'unknown-sub-long', 'empty-tunnel'))
    if which == 'unknown-tunnel':
        n = ctx.pick('n', rng(0, 4))
        return Shape(sym(ctx, 't', 2) + be(n, 2) + sym(ctx, 'v', n), None, 'tunnel')
    if which == 'two':
        return Shape(be(8, 2) + be(2, 2) + sym(ctx, 'a', 2) + be(15, 2) + be(8, 2) + [12, 6] + sym(ctx, 'p', 6), None, 'tunnel')
    if which == 'truncated':
        return Shape(sym(ctx, 'p', ctx.pick('L', rng(1, 5))), None, 'tunnel')
    if which == 'unknown-sub-short':
        return Shape(be(15, 2) + be(5, 2) + [77, 3] + sym(ctx, 'v', 3))
    if which == 'unknown-sub-long':
        return Shape(be(15, 2) + be(6, 2) + [200, 0, 3] + sym(ctx, 'v', 3))
    return Shape(be(15, 2) + be(0, 2))


MP_FAMILIES = ((1, 1, 4), (2, 1, 16), (1, 4, 4), (1, 128, 12), (2, 128, 24), (25, 70, 4), (1, 133, 0))


def sh_mp(code):
    def f(ctx):
        afi, safi, nhl = ctx.pick('fam', MP_FAMILIES)
        v = be(afi, 2) + [safi]
        canon = []
        why = ''
        if code == 14:
            alt = ctx.pick('nh', ('usual', 'llnh')) if (afi, safi) == (2, 1) else 'usual'
            if alt == 'llnh':
                nhl = 32
                # RFC 2545 3: global + link-local next hop; the route keeps the global one (iter_routed), so 16 octets come back
                canon, why = [False], 'link-local-next-hop-not-kept'
            rd = 8 if safi == 128 else 0
            v += [nhl] + [0] * rd + sym(ctx, 'nh', nhl - rd) + [0]
        if (afi, safi) in ((1, 1), (2, 1)):
            n = ctx.pick('n', (1, 2))
            for i in range(n):
                nb = (1, 3)[i % 2] if afi == 1 else (2, 8)[i % 2]
                mask = ctx.int('m%d' % i, 8 * (nb - 1) + 1, 8 * nb)
                v += [mask] + sym(ctx, 'p%d' % i, nb)
        elif safi == 4:
            v += [24 + 16] + sym(ctx, 'l', 2) + [ctx.int('lb', 0, 15) * 16 + 1] + sym(ctx, 'p', 2)
        elif safi == 128:
            v += [24 + 64 + 16] + sym(ctx, 'l', 2) + [ctx.int('lb', 0, 15) * 16 + 1] + sym(ctx, 'rd', 8) + sym(ctx, 'p', 2)
        elif safi == 70:
            v += [3, 17] + sym(ctx, 'rd', 8) + sym(ctx, 'et', 4) + [32] + sym(ctx, 'ip', 4)
        elif safi == 133:
            v += [3, 3, 0x81] + sym(ctx, 'proto', 1)
            canon, why = None, 'flow'
        return Shape(v, canon, why)
    return f


LS_SRV6 = {1106: 22, 1107: 28, 1108: 26}   # fixed part of the SRv6 End.X / LAN End.X TLVs, sub-TLVs follow
LS_LENGTH_HINTS = {   # payload sizes at which a BGP-LS attribute TLV accepts something, beyond its LEN and the generic 0..8
    1027: (1, 13), 1028: (4,), 1029: (16,), 1030: (4,), 1031: (16,), 1034: (12, 13), 1035: (1, 3), 1091: (32,), 1096: (4, 8, 12), 1099: (7, 8),
    1100: (11, 12, 13, 14), 1252: (4,), 1038: (4,), 1162: (8, 16), 1250: (4,),
    1114: (4,), 1115: (8,), 1116: (4,), 1117: (4,), 1118: (4,), 1119: (4,), 1120: (4,), 258: (8,), 1152: (1,), 1153: (4, 8), 1154: (8, 16),
    1155: (4,), 1156: (4, 16), 1158: (7, 8), 1170: (1,), 1171: (4, 16), 1026: (1, 5), 1098: (1, 5), 1088: (4,), 1089: (4,), 1090: (4,), 1092: (4,),
    1093: (2,), 1094: (1,), 1095: (1, 2, 3), 1024: (1,),
}


def attr_plans(tier):
    """[(unit suffix, code, flag, builder, must_cover, options)] from the live registries"""
    th = tier == 'thorough'
    plans = []

    def add(name, code, flag, builder, cover=ALL, **opt):
        plans.append((name, code, flag, builder, tuple(cover), opt))

    for (code, kflag), klass in sorted(Attribute.registered_attributes.items()):
        flag = kflag & 0xEF
        c = str(code)
        if code == 1:
            add(c + '/swept', code, flag, sh_swept(rng(0, 3)))
        elif code in (2, 17):
            for asn4 in ((True, False) if code == 2 else (True,)):
                tag = 'asn4' if asn4 else 'asn2'
                add('%s/%s/one-segment' % (c, tag), code, flag, sh_aspath(asn4, ((None, (0, 1, 2, 3)),)), asn4=asn4, weight=30)
                add('%s/%s/two-segments' % (c, tag), code, flag, sh_aspath(asn4, ((None, (1, 2)), (None, (0, 1)))), asn4=asn4, weight=60)
                add('%s/%s/truncated' % (c, tag), code, flag, lambda ctx, a=asn4: Shape([ctx.byte('t'), ctx.pick('c', (1, 2, 255))] + sym(ctx, 's', ctx.pick('n', (0, 1, 3, 5) if a or th else (0, 1, 3)))), ('refused',), asn4=asn4)
                add('%s/%s/empty' % (c, tag), code, flag, lambda ctx: Shape([]), ('decoded',), asn4=asn4)
            if th:
                add(c + '/free', code, flag, sh_swept((1, 2, 3, 6)), ('decoded', 'refused'), weight=400, max_paths=60000)
        elif code == 3:
            add(c + '/swept', code, flag, sh_swept((0, 3, 4, 5, 15, 16, 17)))
        elif code in (4, 5, 9):
            add(c + '/swept', code, flag, sh_swept(rng(0, 6)))
        elif code == 6:
            add(c + '/swept', code, flag, sh_swept(rng(0, 2)))
        elif code == 7:
            add(c + '/asn4', code, flag, sh_swept(rng(5, 9)))
            add(c + '/asn2', code, flag, sh_swept(rng(5, 9)), asn4=False)
        elif code == 18:
            add(c + '/swept', code, flag, sh_swept(rng(6, 9)))
        elif code == 8:
            add(c + '/swept', code, flag, sh_swept((0, 3, 4, 5, 8, 12) if not th else rng(0, 16)))
        elif code == 10:
            add(c + '/swept', code, flag, sh_swept((0, 3, 4, 8, 9)))
        elif code in (14, 15):
            add(c + '/families', code, flag, sh_mp(code), ('decoded', 'canonical', 'non-canonical'), weight=100)
            add(c + '/short', code, flag, lambda ctx: (lambda fam, n: Shape((be(fam[0], 2) + [fam[1]] + sym(ctx, 'p', n))[:n + 3 if n >= 0 else 0]))(ctx.pick('fam', ((1, 1), (2, 1), (1, 128), (9, 9))), ctx.pick('n', rng(0, 4))),
                ('refused',), weight=30)
            add(c + '/truncated-header', code, flag, sh_swept(rng(0, 2)), ('refused',))
        elif code in (16, 25):
            size, reg = (8, ExtendedCommunity) if code == 16 else (20, ExtendedCommunityIPv6)
            add(c + '/swept', code, flag, sh_swept((0, size - 1, size, size + 1, 2 * size)), weight=40)
            for (t, sub), k in sorted(reg.registered_extended.items()):
                add('%s/type%d-sub%d' % (c, t, sub), code, flag, sh_ext(size, t, sub), ('decoded', 'canonical'), kind='attr-%d:%s' % (code, k.__name__))
            add('%s/unregistered' % c, code, flag, sh_ext(size, 5, 99), ('decoded', 'canonical'))
        elif code == 22:
            add(c + '/swept', code, flag, sh_pmsi(rng(0, 10) if not th else rng(0, 22)), weight=40)
            for t, k in sorted(PMSI._pmsi_known.items()):
                sizes = sorted(set([5 + (k.TUNNEL_SIZE or 0), 5, 6, 9]))
                add('%s/tunnel%d' % (c, t), code, flag, lambda ctx, t=t, sizes=sizes: Shape(sym(ctx, 'fl', 1) + [t] + sym(ctx, 'v', ctx.pick('L', sizes) - 2)), ('decoded', 'canonical'),
                    kind='attr-22:%s' % k.__name__)
        elif code == 23:
            for sub, k in sorted(SubTLV.registered_subtypes.items()):
                add('%s/sr-policy/sub%d' % (c, sub), code, flag, sh_tunnel_sub(sub, th), ('decoded',), kind='attr-23:%s' % k.__name__, weight=80 if sub in (129, 130, 128) else 20)
            add(c + '/generic', code, flag, sh_tunnel_generic, ('decoded', 'refused'), weight=30)
            for t in sorted(TunnelTypeTLV.registered_tunnel_types):
                if t != 15:   # a tunnel type registered later: value octets free
                    add('%s/tunnel%d' % (c, t), code, flag, lambda ctx, t=t: (lambda n: Shape(be(t, 2) + be(n, 2) + sym(ctx, 'v', n), None, 'tunnel'))(ctx.pick('n', rng(0, 6))), ('decoded',))
        elif code == 26:
            add(c + '/tlvs', code, flag, sh_aigp, ('decoded', 'refused', 'canonical', 'non-canonical'), weight=30)
        elif code == 29:
            for tlv, k in sorted(LinkState.registered_lsids.items()):
                if tlv in LS_SRV6:
                    add('%s/tlv%d' % (c, tlv), code, flag, sh_ls_srv6(tlv, LS_SRV6[tlv], rng(0, 8) + ([LS_SRV6[tlv] - 1] if th else [])), ('decoded', 'refused'), kind='attr-29:%s' % k.__name__, weight=30)
                    continue
                lens = sorted(set(rng(0, 8) + [getattr(k, 'LEN', 0) or 0] + list(LS_LENGTH_HINTS.get(tlv, ())) + (rng(9, 16) if th else [])))
                add('%s/tlv%d' % (c, tlv), code, flag, sh_ls(tlv, lens), ('decoded',), kind='attr-29:%s' % k.__name__, weight=30)
            for tlv, n in ((1089, 4), (1090, 4), (1091, 32)):
                add('%s/float%d' % (c, tlv), code, flag, sh_ls_float(tlv, n), ('decoded',))
            add(c + '/unknown-tlv', code, flag, sh_ls(4242, rng(0, 5)), ('decoded',))
            add(c + '/two-tlvs', code, flag, sh_ls_two(1095, 3, 1092, 4), ('decoded',))
            add(c + '/repeated', code, flag, sh_ls_two(1092, 4, 1092, 4), ('refused',))
            add(c + '/repeated-apart', code, flag, sh_ls_apart, ('refused',))
            add(c + '/truncated', code, flag, sh_ls_truncated, ('decoded', 'refused'))
        elif code == 32:
            add(c + '/chunks', code, flag, sh_large, ('decoded', 'canonical', 'non-canonical'), weight=40)
            add(c + '/swept', code, flag, sh_swept((0, 11, 12, 13, 23)), ('decoded', 'refused'))
        elif code == 40:
            for tlv, k in sorted(PrefixSid.registered_srids.items()):
                add('%s/tlv%d' % (c, tlv), code, flag, sh_prefixsid(tlv, th), ('decoded',), kind='attr-40:%s' % k.__name__, weight=60)
            add(c + '/unknown-tlv', code, flag, sh_prefixsid(77, th), ('decoded', 'canonical'))
            add(c + '/two-tlvs', code, flag, sh_prefixsid_two, ('decoded', 'canonical'))
            add(c + '/repeated-tlv', code, flag, sh_prefixsid_repeated, ('decoded',))
            add(c + '/free', code, flag, sh_prefixsid_free(rng(0, 5 if th else 4)), ('decoded', 'refused'), weight=60)
        else:
            # an attribute registered after this file was written: every length up to 8 (12 thorough), all octets symbolic
            add(c + '/swept', code, flag, sh_swept(rng(0, 12 if th else 8)), ('decoded',), weight=100)
    return plans


GROUPED = re.compile(r'^(29/tlv\d+|16/type\d+-sub\d+|25/type\d+-sub\d+|22/tunnel\d+|23/sr-policy/sub\d+)$')
GROUP_SIZE = 12


def attr_units(tier):
    """one unit per plan, except the per-registry-entry plans (BGP-LS TLVs, extended-community subtypes, ...), which are swept
    GROUP_SIZE entries per unit (a process start costs more than such a plan); every entry keeps its own must_cover tags"""
    th = tier == 'thorough'
    T = 1500 if th else 600
    us = []
    groups = {}
    for name, code, flag, builder, cover_tags, opt in attr_plans(tier):
        asn4 = opt.get('asn4', True)
        kind = opt.get('kind')
        if GROUPED.match(name) and opt.get('weight', 10) <= 30:
            groups.setdefault((code, flag, asn4, name.split('/')[0] + '/' + re.sub(r'\d+.*$', '', name.split('/', 1)[1])), []).append((name, builder, cover_tags, kind))
            continue
        us.append(Unit('dec/attr/' + name, lambda ctx, code=code, flag=flag, builder=builder, asn4=asn4, kind=kind: dec_attr(ctx, code, flag, builder(ctx), asn4, kind, DEEP.get(code)),
                       must_cover=cover_tags, weight=opt.get('weight', 10), max_seconds=T, max_paths=opt.get('max_paths', 20000), reset=reset_state, hash_const=True))
    for (code, flag, asn4, stem), members in groups.items():
        for i in range(0, len(members), GROUP_SIZE):
            chunk = members[i:i + GROUP_SIZE]
            tags = [m[0].split('/', 1)[1] for m in chunk]

            def fn(ctx, code=code, flag=flag, asn4=asn4, chunk=chunk, tags=tags):
                k = ctx.choice('member', len(chunk))
                name, builder, cover_tags, kind = chunk[k]
                return dec_attr(ctx, code, flag, builder(ctx), asn4, kind, DEEP.get(code), member=tags[k])
            must = tuple('%s:%s' % (c, t) for (n, b, cs, k), t in zip(chunk, tags) for c in cs)
            us.append(Unit('dec/attr/%s[%s..%s]' % (stem, tags[0].replace(stem.split('/', 1)[1], ''), tags[-1].replace(stem.split('/', 1)[1], '')), fn, must_cover=must,
                           weight=10 * len(chunk), max_seconds=T, max_paths=40000, reset=reset_state, hash_const=True))
    return us


# ============================================================================= encode -> decode (clause a, from the factories)
#
# An object is built by the factory method the configuration parser / API use, with symbolic field values; it is packed by
# pack_nlri / pack_attribute and the octets are given to the registered decoder.  The decoded object must be equal (the class's
# own ==, index, and every listed field), must pack to the same octets, and must hash and render the same (witness).

from exabgp.bgp.message.update.nlri.cidr import CIDR   # noqa: E402
from exabgp.bgp.message.update.nlri.inet import INET   # noqa: E402
from exabgp.bgp.message.update.nlri.label import Label   # noqa: E402
from exabgp.bgp.message.update.nlri.ipvpn import IPVPN   # noqa: E402
from exabgp.bgp.message.update.nlri.vpls import VPLS   # noqa: E402
from exabgp.bgp.message.update.nlri.rtc import RTC   # noqa: E402
from exabgp.bgp.message.update.nlri.sr_policy import SRPolicyNLRI   # noqa: E402
from exabgp.bgp.message.update.nlri.qualifier import Labels, PathInfo, RouteDistinguisher, ESI, EthernetTag   # noqa: E402
from exabgp.bgp.message.update.nlri.qualifier import MAC as MACQ   # noqa: E402
from exabgp.bgp.message.open.asn import ASN   # noqa: E402
from exabgp.protocol.ip import IPv4, IPv6   # noqa: E402


def fld(o, path):
    """a field by dotted path; a callable step is called"""
    for step in path.split('.'):
        o = o[int(step)] if step.isdigit() else getattr(o, step)
        if callable(o) and not isinstance(o, type):
            o = o()
    return o


def enc_nlri(ctx, kind, x, afi, safi, fields=(), action=Action.ANNOUNCE, addpath=False):
    afi, safi = AFI.from_int(afi), SAFI.from_int(safi)
    neg = session(addpath)
    # a route is packed once per session it is sent on; what it IS (index, equality) is not a function of where it was sent:
    # pack it for a session with ADD-PATH and for one without before anything is looked at
    try:
        idx0 = B(ctx, x.index())
        for other in (True, False):
            x.pack_nlri(session(other))
        chk(ctx, 'packing-leaves-the-route-unchanged', sx_eq(B(ctx, x.index()), idx0), 'C15:enc:nlri:%s:index-changes-once-packed' % kind,
            lambda: {'before': idx0, 'after': x.index()})
    except Exception as exc:
        ctx.check('packing-leaves-the-route-unchanged', False, sig='C15:enc:nlri:%s:pack-for-another-session-raises' % kind, info={'raised': '%s %s' % (type(exc).__name__, str(exc)[:160])})
    out = B(ctx, x.pack_nlri(neg))
    ctx.cover('encoded')
    try:
        y, left = NLRI.unpack_nlri(afi, safi, out, action, addpath, neg)
    except Exception as exc:
        ctx.check('own-encoding-decodes', False, sig='C15:enc:nlri:%s:own-encoding-refused' % kind, info={'out': out, 'raised': '%s %s' % (type(exc).__name__, str(exc)[:160])})
        return ('refused', type(exc).__name__)
    if not chk(ctx, 'own-encoding-decodes', y is not NLRI.INVALID, 'C15:enc:nlri:%s:own-encoding-refused' % kind, lambda: {'out': out}):
        return ('invalid',)
    ctx.cover('decoded')
    chk(ctx, 'whole', len(left) == 0, 'C15:enc:nlri:%s:left-over' % kind, lambda: {'out': out})
    chk(ctx, 'same-class', type(y) is type(x), 'C15:enc:nlri:%s:class-changes' % kind, lambda: {'built': type(x).__name__, 'decoded': type(y).__name__})
    chk(ctx, 'family', s_and(sx_eq(int(y.afi), int(x.afi)), sx_eq(int(y.safi), int(x.safi))), 'C15:enc:nlri:%s:family-changes' % kind,
        lambda: {'built': '%s/%s' % (x.afi, x.safi), 'decoded': '%s/%s' % (y.afi, y.safi)})
    for f in fields:
        # the decoded field against the VALUE GIVEN TO THE FACTORY (these classes keep their octets and derive the fields:
        # the built object's own accessor would read the same octets as the decoded one)
        try:
            a = state(fields[f]) if isinstance(fields, dict) else state(fld(x, f))
            b = state(fld(y, f))
        except Exception as exc:
            ctx.check('field:' + f, False, sig='C15:enc:nlri:%s:field-%s-unreadable' % (kind, f), info={'out': out, 'raised': '%s %s' % (type(exc).__name__, str(exc)[:160])})
            continue
        chk(ctx, 'field:' + f, sx_eq(a, b), 'C15:enc:nlri:%s:field-%s-differs' % (kind, f), lambda: {'out': out, 'given': a, 'decoded': b})
    chk(ctx, 'same-octets', sx_eq(B(ctx, y.pack_nlri(neg)), out), 'C15:enc:nlri:%s:repack-differs' % kind, lambda: {'out': out, 'again': y.pack_nlri(neg)})
    chk(ctx, 'equal-index', sx_eq(B(ctx, y.index()), B(ctx, x.index())), 'C15:enc:nlri:%s:equal-routes-different-index' % kind, lambda: {'out': out})
    chk(ctx, 'equal-route', eq_by_class(y, x), 'C15:enc:nlri:%s:decoded-route-not-equal' % kind, lambda: {'out': out})
    if not ctx.sym:
        ctx.witness_check('equal-hash', lambda: hash(y) == hash(x), sig='C15:enc:nlri:%s:equal-routes-different-hash' % kind, info={'out': out})
        ctx.witness_check('same-text', lambda: texts(y) == texts(x), sig='C15:enc:nlri:%s:rendering-differs' % kind, info={'built': str(texts(x))[:300], 'decoded': str(texts(y))[:300]})
    return ('round-trip', type(y).__name__, len(out))


def q_bytes(ctx, name, n):
    return mk(ctx, sym(ctx, name, n))


def q_ip(ctx, name, v6):
    return (IPv6 if v6 else IPv4)(q_bytes(ctx, name, 16 if v6 else 4))


def q_rd(ctx, name='rd'):
    return RouteDistinguisher(q_bytes(ctx, name, 8))


def q_cidr(ctx, v6, name='pfx', sizes=None):
    """address octets symbolic, mask symbolic over its whole range (the prefix size in octets is chosen first: the encoder and the
    decoder slice on it; every mask of that size stays symbolic); the octets after the prefix are zero, which is what the text
    parser and the decoder both produce (CIDR keeps the full-length address)"""
    full = 16 if v6 else 4
    nbytes = ctx.pick(name + '.octets', list(sizes) if sizes is not None else list(range(full + 1)))
    mask = ctx.int(name + '.mask', max(0, 8 * nbytes - 7), 8 * nbytes)
    items = sym(ctx, name, nbytes) + [0] * (full - nbytes)
    return CIDR.create_cidr(mk(ctx, items), mask)


class Given(dict):
    """the values handed to a factory, by the dotted path under which the decoded object must show them"""

    def cidr(self, ctx, v6, name='pfx', sizes=None):
        full = 16 if v6 else 4
        nbytes = ctx.pick(name + '.octets', list(sizes) if sizes is not None else list(range(full + 1)))
        mask = ctx.int(name + '.mask', max(0, 8 * nbytes - 7), 8 * nbytes)
        items = sym(ctx, name, nbytes)
        self['cidr.mask'] = mask
        self['cidr.pack_ip'] = mk(ctx, items)
        return CIDR.create_cidr(mk(ctx, items + [0] * (full - nbytes)), mask)

    def path(self, ctx, on, name='pathid'):
        if not on:
            self['path_info.pack_path'] = mk(ctx, [])
            return PathInfo.DISABLED
        b = q_bytes(ctx, name, 4)
        self['path_info.pack_path'] = b
        return PathInfo(b)

    def labels(self, ctx, depth, name='label', key='labels.labels'):
        v = [ctx.int('%s%d' % (name, i), 0, Labels.MAX) for i in range(depth)]
        self[key] = v
        return Labels.make_labels(v)

    def octets(self, ctx, key, name, n, wrap=None):
        b = q_bytes(ctx, name, n)
        self[key] = b
        return wrap(b) if wrap else b

    def rd(self, ctx, name='rd', key='rd.pack_rd'):
        return self.octets(ctx, key, name, 8, RouteDistinguisher)

    def ip(self, ctx, key, name, v6):
        return self.octets(ctx, key, name, 16 if v6 else 4, IPv6 if v6 else IPv4)

    def int(self, ctx, key, name, lo, hi):
        v = ctx.int(name, lo, hi)
        self[key] = v
        return v


def q_path(ctx, on, name='pathid'):
    return PathInfo(q_bytes(ctx, name, 4)) if on else PathInfo.DISABLED


def q_labels(ctx, depth, name='label'):
    return Labels.make_labels([ctx.int('%s%d' % (name, i), 0, Labels.MAX) for i in range(depth)])


def stack_class(ctx, depth, action, name='label'):
    """the input class the label-stack defect is tied to (signature only): forks on it"""
    if depth >= 2:
        first = ctx.int('%s0' % name, 0, Labels.MAX)
        if bool(first == 0):
            return ':label-0-above-another-label'
        if action == Action.WITHDRAW and bool(first == 0x80000):
            return ':withdraw-label-524288-above-another-label'
    return ''


def enc_nlri_units(tier):
    th = tier == 'thorough'
    us = []
    T = 1500 if th else 600

    def add(name, fn, weight=10, cover=('encoded', 'decoded')):
        us.append(Unit('enc/nlri/' + name, fn, must_cover=cover, weight=weight, max_seconds=T, max_paths=20000, reset=reset_state, hash_const=True))

    for v6 in (False, True):
        afi = 2 if v6 else 1
        v = 'ipv6' if v6 else 'ipv4'

        def inet(ctx, safi, ap, sname, v6=v6, afi=afi, v=v):
            g = Given()
            x = INET.from_cidr(g.cidr(ctx, v6), AFI.from_int(afi), SAFI.from_int(safi), g.path(ctx, ap))
            return enc_nlri(ctx, '%s-%s' % (v, sname), x, afi, safi, g, addpath=ap)
        for safi, sname in ((1, 'unicast'), (2, 'multicast')):
            for ap in ((False, True) if safi == 1 else (False,)):
                add('%s-%s%s' % (v, sname, '/addpath' if ap else ''), lambda ctx, inet=inet, safi=safi, ap=ap, sname=sname: inet(ctx, safi, ap, sname), weight=20)

        def label(ctx, depth, ap, action, v6=v6, afi=afi, v=v):
            g = Given()
            tag = stack_class(ctx, depth, action)
            x = Label.from_cidr(g.cidr(ctx, v6), AFI.from_int(afi), SAFI.nlri_mpls, g.path(ctx, ap), g.labels(ctx, depth))
            return enc_nlri(ctx, '%s-nlri-mpls%s' % (v, tag), x, afi, 4, g, action=action, addpath=ap)

        def vpn(ctx, depth, ap, v6=v6, afi=afi, v=v):
            g = Given()
            tag = stack_class(ctx, depth, Action.ANNOUNCE)
            try:
                x = IPVPN.from_cidr(g.cidr(ctx, v6), AFI.from_int(afi), SAFI.mpls_vpn, g.path(ctx, ap), g.labels(ctx, depth), g.rd(ctx))
            except ValueError:
                # three labels + RD + more than 119 prefix bits do not fit the one-octet NLRI length (RFC 4760 5): the factory refuses
                ctx.note('class', 'factory-refused')
                return ('factory-refused',)
            return enc_nlri(ctx, '%s-mpls-vpn%s' % (v, tag), x, afi, 128, g, addpath=ap)
        for depth in ((1, 2, 3) if th else (1, 2)):
            for ap in (False, True):
                for action in (Action.ANNOUNCE, Action.WITHDRAW):
                    if ap and action == Action.WITHDRAW and not th:
                        continue
                    add('%s-nlri-mpls/labels%d%s%s' % (v, depth, '/addpath' if ap else '', '/withdraw' if action == Action.WITHDRAW else ''),
                        lambda ctx, label=label, depth=depth, ap=ap, action=action: label(ctx, depth, ap, action), weight=40)
            add('%s-mpls-vpn/labels%d' % (v, depth), lambda ctx, vpn=vpn, depth=depth: vpn(ctx, depth, False), weight=40)
        add('%s-mpls-vpn/addpath' % v, lambda ctx, vpn=vpn: vpn(ctx, 1, True), weight=40)

        def srp(ctx, v6=v6, afi=afi, v=v):
            g = Given()
            ep = ctx.pick('ep', ('2001:db8::1', '::') if v6 else ('192.0.2.1', '255.255.255.255'))
            g['endpoint'] = ep
            x = SRPolicyNLRI.create(AFI.from_int(afi), g.int(ctx, 'distinguisher', 'dist', 0, 2 ** 32 - 1), g.int(ctx, 'color', 'color', 0, 2 ** 32 - 1), ep)
            return enc_nlri(ctx, '%s-sr-policy' % v, x, afi, 73, g)
        add('%s-sr-policy' % v, srp)

    def vpls(ctx):
        g = Given()
        x = VPLS.make_vpls(g.rd(ctx), g.int(ctx, 'endpoint', 'endpoint', 0, 65535), g.int(ctx, 'base', 'base', 0, 2 ** 20 - 1), g.int(ctx, 'offset', 'offset', 0, 65535), g.int(ctx, 'block_size', 'size', 0, 65535))
        return enc_nlri(ctx, 'l2vpn-vpls', x, 25, 65, g)
    add('l2vpn-vpls', vpls)

    def rtc(ctx):
        from exabgp.bgp.message.update.attribute.community.extended.rt import RouteTargetASN2Number, RouteTargetASN4Number
        g = Given()
        which = ctx.pick('rt', ('asn2', 'asn4', 'wildcard'))
        origin = ctx.int('origin', 0, 2 ** 32 - 1)
        if which == 'wildcard':
            rt = None
        else:
            tr = bool(ctx.choice('transitive', 2))
            if which == 'asn2':
                a, n = ctx.int('rt.asn', 0, 65535), ctx.int('rt.number', 0, 2 ** 32 - 1)
                rt = RouteTargetASN2Number.make_route_target(ASN(a), n, tr)
            else:
                a, n = ctx.int('rt.asn', 0, 2 ** 32 - 1), ctx.int('rt.number', 0, 65535)
                rt = RouteTargetASN4Number.make_route_target(ASN(a), n, tr)
            g['origin'] = origin
            g['rt.asn'] = a
            g['rt.number'] = n
        return enc_nlri(ctx, 'ipv4-rtc', RTC.make_rtc(ASN(origin), rt), 1, 132, g)
    add('ipv4-rtc', rtc)

    # ---- EVPN
    from exabgp.bgp.message.update.nlri.evpn.mac import MAC as EVPNMAC
    from exabgp.bgp.message.update.nlri.evpn.multicast import Multicast
    from exabgp.bgp.message.update.nlri.evpn.ethernetad import EthernetAD
    from exabgp.bgp.message.update.nlri.evpn.segment import EthernetSegment
    from exabgp.bgp.message.update.nlri.evpn.prefix import Prefix as EVPNPrefix

    def esi(ctx, g):
        return g.octets(ctx, 'esi.pack_esi', 'esi', 10, ESI)

    def etag(ctx, g):
        return EthernetTag.make_etag(g.int(ctx, 'etag.tag', 'etag', 0, 2 ** 32 - 1))

    def evpn_mac(ctx):
        g = Given()
        ipk = ctx.pick('ip', ('none', 'v4', 'v6'))
        ip = None if ipk == 'none' else g.ip(ctx, 'ip.pack_ip', 'ip', ipk == 'v6')
        g['maclen'] = 48
        x = EVPNMAC.make_mac(g.rd(ctx), esi(ctx, g), etag(ctx, g), g.octets(ctx, 'mac.pack_mac', 'mac', 6, lambda b: MACQ(packed=b)), 48, g.labels(ctx, ctx.pick('depth', (1, 2)), key='label.labels'), ip)
        return enc_nlri(ctx, 'l2vpn-evpn:mac', x, 25, 70, g)
    add('l2vpn-evpn/mac', evpn_mac, weight=30)

    def evpn_multicast(ctx):
        g = Given()
        x = Multicast.make_multicast(g.rd(ctx), etag(ctx, g), g.ip(ctx, 'ip.pack_ip', 'ip', bool(ctx.choice('v6', 2))))
        return enc_nlri(ctx, 'l2vpn-evpn:multicast', x, 25, 70, g)
    add('l2vpn-evpn/multicast', evpn_multicast)

    def evpn_ad(ctx):
        g = Given()
        x = EthernetAD.make_ethernetad(g.rd(ctx), esi(ctx, g), etag(ctx, g), g.labels(ctx, ctx.pick('depth', (1, 2)), key='label.labels'))
        return enc_nlri(ctx, 'l2vpn-evpn:ethernet-ad', x, 25, 70, g)
    add('l2vpn-evpn/ethernet-ad', evpn_ad)

    def evpn_es(ctx):
        g = Given()
        x = EthernetSegment.make_ethernetsegment(g.rd(ctx), esi(ctx, g), g.ip(ctx, 'ip.pack_ip', 'ip', bool(ctx.choice('v6', 2))))
        return enc_nlri(ctx, 'l2vpn-evpn:ethernet-segment', x, 25, 70, g)
    add('l2vpn-evpn/ethernet-segment', evpn_es)

    def evpn_prefix(ctx):
        g = Given()
        v6 = bool(ctx.choice('v6', 2))
        x = EVPNPrefix.make_prefix(g.rd(ctx), esi(ctx, g), etag(ctx, g), g.labels(ctx, 1, key='label.labels'), g.ip(ctx, 'ip.pack_ip', 'ip', v6), g.int(ctx, 'iplen', 'iplen', 0, 128 if v6 else 32), g.ip(ctx, 'gwip.pack_ip', 'gw', v6))
        return enc_nlri(ctx, 'l2vpn-evpn:prefix', x, 25, 70, g)
    add('l2vpn-evpn/prefix', evpn_prefix)

    # ---- MUP
    from exabgp.bgp.message.update.nlri.mup.dsd import DirectSegmentDiscoveryRoute
    from exabgp.bgp.message.update.nlri.mup.isd import InterworkSegmentDiscoveryRoute
    from exabgp.bgp.message.update.nlri.mup.t1st import Type1SessionTransformedRoute
    from exabgp.bgp.message.update.nlri.mup.t2st import Type2SessionTransformedRoute

    def masked_ip(ctx, g, name, v6, mask_name):
        """(prefix length, address with zero octets after the prefix): what the text parser hands to the MUP factories"""
        full = 16 if v6 else 4
        nbytes = ctx.pick(name + '.octets', list(range(full + 1)))
        mask = g.int(ctx, 'prefix_ip_len', mask_name, max(0, 8 * nbytes - 7), 8 * nbytes)
        items = sym(ctx, name, nbytes) + [0] * (full - nbytes)
        g['prefix_ip.pack_ip'] = mk(ctx, items)
        return mask, (IPv6 if v6 else IPv4)(mk(ctx, items))

    for v6 in (False, True):
        afi = 2 if v6 else 1
        v = 'ipv6' if v6 else 'ipv4'

        def dsd(ctx, v6=v6, afi=afi, v=v):
            g = Given()
            return enc_nlri(ctx, '%s-mup:dsd' % v, DirectSegmentDiscoveryRoute.make_dsd(g.rd(ctx), g.ip(ctx, 'ip.pack_ip', 'ip', v6), AFI.from_int(afi)), afi, 85, g)
        add('%s-mup/dsd' % v, dsd)

        def isd(ctx, v6=v6, afi=afi, v=v):
            g = Given()
            mask, ip = masked_ip(ctx, g, 'ip', v6, 'plen')
            return enc_nlri(ctx, '%s-mup:isd' % v, InterworkSegmentDiscoveryRoute.make_isd(g.rd(ctx), mask, ip, AFI.from_int(afi)), afi, 85, g)
        add('%s-mup/isd' % v, isd, weight=20)

        def t1st(ctx, v6=v6, afi=afi, v=v):
            g = Given()
            mask, ip = masked_ip(ctx, g, 'ip', v6, 'plen')
            full = 128 if v6 else 32
            src = ctx.pick('source', ('none', 'present'))
            g['endpoint_ip_len'] = full
            g['source_ip_len'] = 0 if src == 'none' else full
            x = Type1SessionTransformedRoute.make_t1st(g.rd(ctx), mask, ip, g.int(ctx, 'teid', 'teid', 0, 2 ** 32 - 1), g.int(ctx, 'qfi', 'qfi', 0, 255), full, g.ip(ctx, 'endpoint_ip.pack_ip', 'ep', v6),
                                                       0 if src == 'none' else full, b'' if src == 'none' else g.ip(ctx, 'source_ip.pack_ip', 'src', v6), AFI.from_int(afi))
            return enc_nlri(ctx, '%s-mup:t1st' % v, x, afi, 85, g)
        add('%s-mup/t1st' % v, t1st, weight=30)

        def t2st(ctx, v6=v6, afi=afi, v=v):
            g = Given()
            full = 128 if v6 else 32
            teid_bits = ctx.pick('teid-bits', (0, 8, 32) if not th else (0, 1, 8, 9, 16, 31, 32))
            teid = g.int(ctx, 'teid', 'teid', 0, 2 ** teid_bits - 1) if teid_bits else 0
            g['teid'] = teid
            g['endpoint_len'] = full + teid_bits
            x = Type2SessionTransformedRoute.make_t2st(g.rd(ctx), full + teid_bits, g.ip(ctx, 'endpoint_ip.pack_ip', 'ep', v6), teid, AFI.from_int(afi))
            return enc_nlri(ctx, '%s-mup:t2st' % v, x, afi, 85, g)
        add('%s-mup/t2st' % v, t2st, weight=20)

    # ---- MVPN
    from exabgp.bgp.message.update.nlri.mvpn.sourcead import SourceAD
    from exabgp.bgp.message.update.nlri.mvpn.sharedjoin import SharedJoin
    from exabgp.bgp.message.update.nlri.mvpn.sourcejoin import SourceJoin
    for v6 in (False, True):
        afi = 2 if v6 else 1
        v = 'ipv6' if v6 else 'ipv4'

        def mvpn(ctx, which, v6=v6, afi=afi, v=v):
            g = Given()
            rd, src, grp = g.rd(ctx), g.ip(ctx, 'source.pack_ip', 'src', v6), g.ip(ctx, 'group.pack_ip', 'grp', v6)
            if which == 'source-ad':
                x = SourceAD.make_sourcead(rd, AFI.from_int(afi), src, grp)
            else:
                x = (SharedJoin.make_sharedjoin if which == 'shared-join' else SourceJoin.make_sourcejoin)(rd, AFI.from_int(afi), src, grp, g.int(ctx, 'source_as', 'source-as', 0, 2 ** 32 - 1))
            return enc_nlri(ctx, '%s-mcast-vpn:%s' % (v, which), x, afi, 5, g)
        for which in ('source-ad', 'shared-join', 'source-join'):
            add('%s-mcast-vpn/%s' % (v, which), lambda ctx, mvpn=mvpn, which=which: mvpn(ctx, which))
    return us


def enc_attr(ctx, kind, x, code, fields=(), asn4=True, flag=None, renderings=None, neg=None):
    """factory-built attribute -> pack_attribute -> Attribute.unpack: equal attribute, equal fields, same octets, same text"""
    neg = session(False, asn4) if neg is None else neg
    out = B(ctx, x.pack_attribute(neg))
    ctx.cover('encoded')
    parts = split_attributes(out)
    if not chk(ctx, 'one-tlv', parts is not None and len(parts) == 1 and parts[0][1] == code, 'C15:enc:%s:not-one-attribute' % kind, lambda: {'out': out}):
        return ('not-a-tlv',)
    oflag, ocode, value = parts[0]
    try:
        y = Attribute.unpack(code, oflag, value, neg)
    except Exception as exc:
        ctx.check('own-encoding-decodes', False, sig='C15:enc:%s:own-encoding-refused' % kind, info={'out': out, 'raised': '%s %s' % (type(exc).__name__, str(exc)[:160])})
        return ('refused', type(exc).__name__)
    if not chk(ctx, 'own-encoding-decodes', not isinstance(y, (TreatAsWithdraw, Discard)), 'C15:enc:%s:own-encoding-refused' % kind, lambda: {'out': out}):
        return ('refused', type(y).__name__)
    ctx.cover('decoded')
    chk(ctx, 'same-class', type(y) is type(x), 'C15:enc:%s:class-changes' % kind, lambda: {'built': type(x).__name__, 'decoded': type(y).__name__})
    for f in fields:
        try:
            if isinstance(fields, dict) and callable(fields[f]):
                chk(ctx, 'field:' + f, fields[f](y), 'C15:enc:%s:field-%s-differs' % (kind, f), lambda: {'out': out})
                continue
            a = state(fields[f]) if isinstance(fields, dict) else state(fld(x, f))
            b = state(fld(y, f))
        except Exception as exc:
            ctx.check('field:' + f, False, sig='C15:enc:%s:field-%s-unreadable' % (kind, f), info={'out': out, 'raised': '%s %s' % (type(exc).__name__, str(exc)[:160])})
            continue
        chk(ctx, 'field:' + f, sx_eq(a, b), 'C15:enc:%s:field-%s-differs' % (kind, f), lambda: {'out': out, 'given': a, 'decoded': b})
    chk(ctx, 'same-octets', sx_eq(B(ctx, y.pack_attribute(neg)), out), 'C15:enc:%s:repack-differs' % kind, lambda: {'out': out})
    chk(ctx, 'equal-attribute', eq_by_class(y, x), 'C15:enc:%s:decoded-attribute-not-equal' % kind, lambda: {'out': out})
    if not ctx.sym:
        tx, ty = texts(x), texts(y)
        if renderings is not None:
            tx, ty = [t for t in tx if t[0] in renderings], [t for t in ty if t[0] in renderings]
        ctx.witness_check('same-text', lambda: ty == tx, sig='C15:enc:%s:rendering-differs' % kind, info={'built': str(tx)[:300], 'decoded': str(ty)[:300]})
    return ('round-trip', type(y).__name__, len(out))


def enc_attr_units(tier):
    th = tier == 'thorough'
    us = []
    T = 1500 if th else 600
    U32 = 2 ** 32 - 1

    def add(name, fn, weight=10, cover=('encoded', 'decoded')):
        us.append(Unit('enc/attr/' + name, fn, must_cover=cover, weight=weight, max_seconds=T, max_paths=20000, reset=reset_state, hash_const=True))

    from exabgp.bgp.message.update.attribute.origin import Origin
    from exabgp.bgp.message.update.attribute.med import MED
    from exabgp.bgp.message.update.attribute.localpref import LocalPreference
    from exabgp.bgp.message.update.attribute.aigp import AIGP
    from exabgp.bgp.message.update.attribute.aspath import ASPath, AS4Path, SET, SEQUENCE, CONFED_SEQUENCE, CONFED_SET
    from exabgp.bgp.message.update.attribute.aggregator import Aggregator
    from exabgp.bgp.message.update.attribute.nexthop import NextHop
    from exabgp.bgp.message.update.attribute.originatorid import OriginatorID
    from exabgp.bgp.message.update.attribute.clusterlist import ClusterList
    from exabgp.bgp.message.update.attribute.atomicaggregate import AtomicAggregate
    from exabgp.bgp.message.update.attribute.community.initial.community import Community
    from exabgp.bgp.message.update.attribute.community.initial.communities import Communities
    from exabgp.bgp.message.update.attribute.community.large.community import LargeCommunity
    from exabgp.bgp.message.update.attribute.community.large.communities import LargeCommunities
    from exabgp.bgp.message.update.attribute.community.extended.communities import ExtendedCommunities
    from exabgp.bgp.message.update.attribute.community.extended import rt as _rt, origin as _so
    from exabgp.bgp.message.update.attribute.community.extended.traffic import TrafficRedirect, TrafficMark, TrafficAction
    from exabgp.bgp.message.update.attribute.community.extended.mac_mobility import MacMobility
    from exabgp.bgp.message.update.attribute.community.extended.encapsulation import Encapsulation
    from exabgp.bgp.message.update.attribute.community.extended.l2info import L2Info
    from exabgp.bgp.message.update.attribute.sr.labelindex import SrLabelIndex
    from exabgp.bgp.message.update.attribute.sr.srgb import SrGb
    from exabgp.bgp.message.update.attribute.tunnel_encap import TunnelEncap
    from exabgp.bgp.message.update.attribute.tunnel_encap import sr_policy as _sp
    from exabgp.bgp.message.update.attribute.tunnel_encap.sr_policy.segment_list import WeightSubSubTLV, SegmentTypeA

    def simple(code, kind_field, factory, lo, hi):
        def f(ctx):
            v = ctx.int('value', lo, hi)
            return enc_attr(ctx, 'attr-%d' % code, factory(v), code, {kind_field: v})
        return f
    add('origin', simple(1, 'origin', Origin.from_int, 0, 2))
    add('med', simple(4, 'med', MED.from_int, 0, U32))
    add('local-preference', simple(5, 'localpref', LocalPreference.from_int, 0, U32))
    add('aigp', simple(26, 'aigp', AIGP.from_int, 0, 2 ** 64 - 1))
    add('atomic-aggregate', lambda ctx: enc_attr(ctx, 'attr-6', AtomicAggregate.make_atomic_aggregate(), 6))

    def aigp_ibgp(ctx):
        # AIGP is SENT on every IBGP session (AIGP.pack_attribute: aigp or is_ibgp); what is sent on a session decodes on that session
        neg = S.session('in', local_as=65000, peer_as=65000, families=('ipv4 unicast',))
        v = ctx.int('value', 0, 2 ** 64 - 1)
        return enc_attr(ctx, 'attr-26:ibgp-without-the-capability', AIGP.from_int(v), 26, {'aigp': v}, neg=neg)
    add('aigp/ibgp-without-the-capability', aigp_ibgp, cover=('encoded',))

    def octets(code, klass, n=4):
        def f(ctx):
            b = q_bytes(ctx, 'v', n)
            return enc_attr(ctx, 'attr-%d' % code, klass(b), code, {'pack_ip': b})
        return f
    add('next-hop', octets(3, NextHop))
    add('originator-id', octets(9, OriginatorID))

    def cluster_list(ctx):
        bs = [q_bytes(ctx, 'c%d' % i, 4) for i in range(ctx.pick('n', (1, 2, 3)))]
        exp = {'clusters.%d.pack_ip' % i: b for i, b in enumerate(bs)}
        exp['count'] = lambda y: len(y.clusters) == len(bs)
        return enc_attr(ctx, 'attr-10', ClusterList.make_clusterlist([IPv4(b) for b in bs]), 10, exp)
    add('cluster-list', cluster_list)

    def aspath(ctx, asn4, klass=ASPath, code=2):
        top = U32 if asn4 else 65535
        kinds = (SEQUENCE, SET, CONFED_SEQUENCE, CONFED_SET)
        segs = []
        for i in range(ctx.pick('segments', (1, 2))):
            k = kinds[ctx.choice('k%d' % i, 4)]
            segs.append(k([ASN(ctx.int('as%d.%d' % (i, j), 0, top)) for j in range(ctx.pick('n%d' % i, (1, 2)))]))
        x = klass.make_aspath(segs, asn4)
        return enc_attr(ctx, 'attr-%d' % code, x, code, {'aspath': segs}, asn4=asn4)
    add('as-path/asn4', lambda ctx: aspath(ctx, True), weight=30)
    add('as-path/asn2', lambda ctx: aspath(ctx, False), weight=30)
    add('as4-path', lambda ctx: aspath(ctx, True, AS4Path, 17), weight=30)

    def aggregator(ctx, asn4):
        asn, sp = ctx.int('asn', 0, U32 if asn4 else 65535), q_bytes(ctx, 'sp', 4)
        return enc_attr(ctx, 'attr-7', Aggregator.make_aggregator(ASN(asn), IPv4(sp)), 7, {'asn': asn, 'speaker.pack_ip': sp}, asn4=asn4)
    add('aggregator/asn4', lambda ctx: aggregator(ctx, True))
    add('aggregator/asn2', lambda ctx: aggregator(ctx, False))

    def members(given, size):
        """the decoded elements are the given ones as a set (the factories sort, and drop a repeated large community: RFC 8092 5)"""
        def cond(y):
            got = [B_any(e.pack_attribute(None) if hasattr(e, 'pack_attribute') else e.pack()) for e in y.communities]
            if not got or len(got) > len(given):
                return False
            ok = True
            for g in given:
                ok = s_and(ok, s_or(*[sx_eq(g, e) for e in got]))
            for e in got:
                ok = s_and(ok, s_or(*[sx_eq(g, e) for g in given]))
            return ok
        return cond

    def communities(ctx):
        vals = [(ctx.int('a%d' % i, 0, 65535), ctx.int('v%d' % i, 0, 65535)) for i in range(ctx.pick('n', (1, 2)))]
        x = Communities.make_communities([Community.make_community(a, v) for a, v in vals])
        given = [be_sym(ctx, a, 2) + be_sym(ctx, v, 2) for a, v in vals]
        return enc_attr(ctx, 'attr-8', x, 8, {'communities': members(given, 4)})
    add('communities', communities, weight=20)

    def large(ctx):
        vals = [(ctx.int('g%d' % i, 0, U32), ctx.int('l%d' % i, 0, U32), ctx.int('m%d' % i, 0, U32)) for i in range(ctx.pick('n', (1, 2)))]
        x = LargeCommunities.make_large_communities([LargeCommunity.make_large_community(*v) for v in vals])
        given = [be_sym(ctx, a, 4) + be_sym(ctx, b, 4) + be_sym(ctx, c, 4) for a, b, c in vals]
        return enc_attr(ctx, 'attr-32', x, 32, {'communities': members(given, 12)})
    add('large-communities', large, weight=20)

    def extended(ctx):
        which = ctx.pick('which', ('rt-asn2', 'rt-ip', 'rt-asn4', 'origin-asn2', 'redirect', 'mark', 'action', 'mac-mobility', 'encapsulation', 'l2info'))
        tr = bool(ctx.choice('transitive', 2)) if which.startswith(('rt', 'origin')) else True
        e = 'communities.0.'
        exp = {}
        if which == 'rt-asn2':
            a, n = ctx.int('asn', 0, 65535), ctx.int('num', 0, U32)
            m, exp = _rt.RouteTargetASN2Number.make_route_target(ASN(a), n, tr), {e + 'asn': a, e + 'number': n}
        elif which == 'rt-ip':
            ip, n = ctx.pick('ip', ('192.0.2.1', '255.255.255.255')), ctx.int('num', 0, 65535)
            m, exp = _rt.RouteTargetIPNumber.make_route_target(ip, n, tr), {e + 'ip': ip, e + 'number': n}
        elif which == 'rt-asn4':
            a, n = ctx.int('asn', 0, U32), ctx.int('num', 0, 65535)
            m, exp = _rt.RouteTargetASN4Number.make_route_target(ASN(a), n, tr), {e + 'asn': a, e + 'number': n}
        elif which == 'origin-asn2':
            a, ip = ctx.int('asn', 0, 65535), ctx.pick('ip', ('192.0.2.1', '0.0.0.0'))
            m, exp = _so.OriginASNIP.make_origin(ASN(a), ip, tr), {e + 'asn': a, e + 'ip': ip}
        elif which == 'redirect':
            a, t = ctx.int('asn', 0, 65535), ctx.int('target', 0, U32)
            m, exp = TrafficRedirect.make_traffic_redirect(ASN(a), t), {e + 'asn': a, e + 'target': t}
        elif which == 'mark':
            d = ctx.int('dscp', 0, 63)
            m, exp = TrafficMark.make_traffic_mark(d), {e + 'dscp': d}
        elif which == 'action':
            sa, te = bool(ctx.choice('sample', 2)), bool(ctx.choice('terminal', 2))
            m, exp = TrafficAction.make_traffic_action(sa, te), {e + 'sample': sa, e + 'terminal': te}
        elif which == 'mac-mobility':
            q, st = ctx.int('seq', 0, U32), bool(ctx.choice('sticky', 2))
            m, exp = MacMobility.make_mac_mobility(q, st), {e + 'sequence': q, e + 'sticky': st}
        elif which == 'encapsulation':
            t = ctx.int('tunnel', 0, 65535)
            m, exp = Encapsulation.make_encapsulation(t), {e + 'tunnel_type': t}
        else:
            en, co, mtu, rs = ctx.int('encaps', 0, 255), ctx.int('control', 0, 255), ctx.int('mtu', 0, 65535), ctx.int('reserved', 0, 65535)
            m, exp = L2Info.make_l2info(en, co, mtu, rs), {e + 'encaps': en, e + 'control': co, e + 'mtu': mtu, e + 'reserved': rs}
        exp['class'] = lambda y: type(y.communities[0]) is type(m)
        if which.startswith(('rt', 'origin')):
            exp['transitive'] = lambda y: sx_eq((B_any(y.communities[0]._packed)[0] // 64) % 2, 0 if tr else 1)
        x = ExtendedCommunities.make_extended_communities([m])
        return enc_attr(ctx, 'attr-16:' + which, x, 16, exp)
    add('extended-communities', extended, weight=40)

    def pmsi(ctx):
        from exabgp.bgp.message.update.attribute.pmsi import PMSI as P
        t = ctx.pick('tunnel-type', (0, 6, 1, 3))
        tunnel = mk(ctx, []) if t == 0 else q_bytes(ctx, 'tunnel', {6: 4, 1: 12, 3: 8}[t])
        fl, lb = ctx.int('flags', 0, 255), ctx.int('label', 0, 2 ** 20 - 1)
        x = P.make_pmsi(t, fl, lb, tunnel)
        return enc_attr(ctx, 'attr-22', x, 22, {'flags': fl, 'label': lb, 'tunnel': tunnel, 'tunnel_type': t})
    add('pmsi', pmsi, weight=20)

    def prefix_sid(ctx):
        which = ctx.pick('which', ('label-index', 'label-index+srgb'))
        idx = ctx.int('index', 0, U32)
        attrs, exp = [SrLabelIndex.make_labelindex(idx)], {'sr_attrs.0.labelindex': idx}
        if which != 'label-index':
            ranges = [(ctx.int('base%d' % i, 0, 2 ** 24 - 1), ctx.int('range%d' % i, 0, 2 ** 24 - 1)) for i in range(ctx.pick('n', (1, 2)))]
            attrs.append(SrGb.make_srgb(ranges))
            exp['sr_attrs.1.srgbs'] = [list(r) for r in ranges]
        x = PrefixSid(attrs)
        return enc_attr(ctx, 'attr-40', x, 40, exp)
    add('prefix-sid', prefix_sid, weight=20)

    def tunnel(ctx):
        which = ctx.pick('which', ('preference', 'priority', 'binding-sid', 'binding-sid-null', 'names', 'segment-list', 'segment-types', 'all'))
        subs, exp = [], {}

        def put(obj, **given):
            base = 'tunnel_tlvs.0.subtlvs.%d.' % len(subs)
            subs.append(obj)
            for k, v in given.items():
                exp[base + k.replace('__', '.')] = v
        if which in ('preference', 'all'):
            p, f = ctx.int('pref', 0, U32), ctx.int('pref.flags', 0, 255)
            put(_sp.PreferenceSubTLV(p, f), preference=p, flags=f)
        if which in ('priority', 'all'):
            p = ctx.int('prio', 0, 255)
            put(_sp.PrioritySubTLV(p), priority=p)
        if which in ('binding-sid', 'all'):
            lb = ctx.int('bsid', 0, 2 ** 20 - 1)
            put(_sp.BindingSIDSubTLV(lb, ctx.pick('bsid.flags', (0, 0x80, 0xc0))), label=lb)
        if which == 'binding-sid-null':
            f = ctx.int('bsid.flags', 0, 255)
            put(_sp.BindingSIDSubTLV(None, f), label=None, flags=f)
        if which in ('names', 'all'):
            n, f = ctx.pick('pname', ('edge-1', 'a "quoted" \\ name', 'caf\u00e9')), ctx.int('pname.flags', 0, 255)
            put(_sp.PolicyNameSubTLV(n, f), name=n, flags=f)
            n, f = ctx.pick('cname', ('path-1', '')), ctx.int('cname.flags', 0, 255)
            put(_sp.CandidatePathNameSubTLV(n, f), name=n, flags=f)
        if which in ('segment-list', 'all'):
            l0, f0, l1 = ctx.pick('a.label', (16, 2 ** 20 - 1)), ctx.int('a.flags', 0, 255), ctx.pick('a2.label', (0, 1000))
            w, wf = ctx.int('weight', 0, U32), ctx.int('w.flags', 0, 255)
            put(_sp.SegmentListSubTLV(WeightSubSubTLV(w, wf), [SegmentTypeA(l0, f0), SegmentTypeA(l1, 0)]),
                weight__weight=w, weight__flags=wf, segments__0__label=l0, segments__0__flags=f0, segments__0__s=False, segments__1__label=l1, segments__1__s=True)
        if which == 'segment-types':
            # segment types C .. H (RFC 9831 2.1) built as the text grammar builds them, with and without the optional SR-MPLS SID;
            # SID 0 (IPv4 Explicit NULL) is a SID like any other
            import inspect
            import exabgp.bgp.message.update.attribute.tunnel_encap.sr_policy.segment_list as _sl
            names = [n for n in sorted(dir(_sl)) if n.startswith('SegmentType') and 'tc' in inspect.signature(getattr(_sl, n).__init__).parameters
                     and 'sid' in inspect.signature(getattr(_sl, n).__init__).parameters]
            name = ctx.pick('segment-class', names)
            klass = getattr(_sl, name)
            sid = ctx.pick('sid', (None, 0, 3, 16001, 2 ** 20 - 1))
            kw = {}
            for pname in inspect.signature(klass.__init__).parameters:
                if pname.endswith('ipv4') or pname == 'ipv4_node':
                    kw[pname] = '192.0.2.%d' % (1 + len(kw))
                elif pname.endswith('ipv6') or pname == 'ipv6_node':
                    kw[pname] = '2001:db8::%d' % (1 + len(kw))
                elif pname.endswith('if_id'):
                    kw[pname] = 7 + len(kw)
            kw['sid'] = sid
            put(_sp.SegmentListSubTLV(WeightSubSubTLV(1, 0), [klass(**kw)]), segments__0__sid=sid)
            ctx.cover('segment:' + name[len('SegmentType'):])
            if sid == 0:
                ctx.cover('sid-0')
        x = TunnelEncap([_sp.SRPolicyTunnel(subs)])
        # the encoder sets two bits whatever the object holds: flag 0x10 of a binding SID that has a label, and S on the last MPLS
        # segment of a list (RFC 3032): the VALUES are compared field by field, the binding SID flags are not, S is expected as
        # the encoder sets it, and of the renderings the text ones (json prints "s")
        return enc_attr(ctx, 'attr-23:' + which, x, 23, exp, renderings=('collection-str', '__str__'))
    add('tunnel-encap', tunnel, weight=40, cover=('encoded', 'decoded', 'sid-0'))

    # ---- BGP-LS attribute TLVs from their factories: the decoded content must be what was given to the factory
    def ls(ctx, kind, obj, tlv, expect):
        neg = session(False, True)
        value = B(ctx, obj._packed)
        data = mk(ctx, be(tlv, 2) + be(len(value), 2)) + value
        ctx.cover('encoded')
        try:
            y = Attribute.unpack(29, 0x80, data, neg)
            got = y.ls_attrs[0].content
        except Exception as exc:
            ctx.check('own-encoding-decodes', False, sig='C15:enc:attr-29:%s:own-encoding-refused' % kind, info={'data': data, 'raised': '%s %s' % (type(exc).__name__, str(exc)[:160])})
            return ('refused', type(exc).__name__)
        ctx.cover('decoded')
        if isinstance(expect, dict):
            for k, v in expect.items():
                have = got.get(k) if isinstance(got, dict) else None
                chk(ctx, 'content:' + k, sx_eq(state(have), state(v)), 'C15:enc:attr-29:%s:content-%s-differs' % (kind, k), lambda: {'data': data, 'given': v, 'decoded': have})
        else:
            chk(ctx, 'content', sx_eq(state(got), state(expect)), 'C15:enc:attr-29:%s:content-differs' % kind, lambda: {'data': data, 'given': expect, 'decoded': got})
        return ('round-trip', type(y.ls_attrs[0]).__name__)

    def ls_units():
        from exabgp.bgp.message.update.attribute.bgpls.link.srv6endx import Srv6EndX
        from exabgp.bgp.message.update.attribute.bgpls.link.srv6lanendx import Srv6LanEndXISIS, Srv6LanEndXOSPF
        from exabgp.bgp.message.update.attribute.bgpls.link.temetric import TeMetric
        from exabgp.bgp.message.update.attribute.bgpls.link.admingroup import AdminGroup
        from exabgp.bgp.message.update.attribute.bgpls.link.srlg import Srlg
        from exabgp.bgp.message.update.attribute.bgpls.link.localremoteid import LinkLocalRemoteId
        from exabgp.bgp.message.update.attribute.bgpls.link.srv6endpointbehavior import Srv6EndpointBehavior
        from exabgp.bgp.message.update.attribute.bgpls.prefix.prefixmetric import PrefixMetric
        from exabgp.bgp.message.update.attribute.bgpls.prefix.igptags import IgpTags
        from exabgp.bgp.message.update.attribute.bgpls.node.sralgo import SrAlgorithm
        sid = ('fc00::3', '2001:db8:ffff:ffff:ffff:ffff:ffff:fffe')
        flags0 = {'B': 0, 'S': 0, 'P': 0}

        def endx(ctx):
            b, a, w, s = ctx.int('behavior', 0, 65535), ctx.int('algorithm', 0, 255), ctx.int('weight', 0, 255), ctx.pick('sid', sid)
            return ls(ctx, 'Srv6EndX', Srv6EndX.make_srv6_endx(b, dict(flags0), a, w, s), 1106, {'behavior': b, 'algorithm': a, 'weight': w, 'sid': s})

        def lan_isis(ctx):
            b, a, w, s = ctx.int('behavior', 0, 65535), ctx.int('algorithm', 0, 255), ctx.int('weight', 0, 255), ctx.pick('sid', sid)
            n = ctx.pick('neighbor', ('0102.0304.0506', 'ffff.ffff.ffff'))
            return ls(ctx, 'Srv6LanEndXISIS', Srv6LanEndXISIS.make_srv6_lan_endx_isis(b, dict(flags0), a, w, n, s), 1107, {'behavior': b, 'algorithm': a, 'weight': w, 'sid': s})

        def lan_ospf(ctx):
            b, a, w, s = ctx.int('behavior', 0, 65535), ctx.int('algorithm', 0, 255), ctx.int('weight', 0, 255), ctx.pick('sid', sid)
            n = ctx.pick('neighbor', ('192.0.2.1', '255.255.255.255'))
            return ls(ctx, 'Srv6LanEndXOSPF', Srv6LanEndXOSPF.make_srv6_lan_endx_ospf(b, dict(flags0), a, w, n, s), 1108, {'behavior': b, 'algorithm': a, 'weight': w, 'neighbor-id': n, 'sid': s})
        add('bgp-ls/srv6-endx', endx)
        add('bgp-ls/srv6-lan-endx-isis', lan_isis)
        add('bgp-ls/srv6-lan-endx-ospf', lan_ospf)
        add('bgp-ls/te-metric', lambda ctx: (lambda m: ls(ctx, 'TeMetric', TeMetric.make_temetric(m), 1092, m))(ctx.int('metric', 0, U32)))
        add('bgp-ls/admin-group', lambda ctx: (lambda m: ls(ctx, 'AdminGroup', AdminGroup.make_admingroup(m), 1088, m))(ctx.int('mask', 0, U32)))
        add('bgp-ls/prefix-metric', lambda ctx: (lambda m: ls(ctx, 'PrefixMetric', PrefixMetric.make_prefixmetric(m), 1155, m))(ctx.int('metric', 0, U32)))
        add('bgp-ls/srlg', lambda ctx: (lambda v: ls(ctx, 'Srlg', Srlg.make_srlg(v), 1096, v))([ctx.int('srlg%d' % i, 0, U32) for i in range(ctx.pick('n', (1, 2)))]))
        add('bgp-ls/igp-tags', lambda ctx: (lambda v: ls(ctx, 'IgpTags', IgpTags.make_igp_tags(v), 1153, v))([ctx.int('tag%d' % i, 0, U32) for i in range(ctx.pick('n', (1, 2)))]))
        add('bgp-ls/sr-algorithm', lambda ctx: (lambda v: ls(ctx, 'SrAlgorithm', SrAlgorithm.make_sr_algorithm(v), 1035, v))([ctx.int('algo%d' % i, 0, 255) for i in range(ctx.pick('n', (1, 2)))]))
        add('bgp-ls/link-ids', lambda ctx: (lambda a, b: ls(ctx, 'LinkLocalRemoteId', LinkLocalRemoteId.make_link_identifiers(a, b), 258, {'local-id': a, 'remote-id': b}))(ctx.int('local', 0, U32), ctx.int('remote', 0, U32)))
        add('bgp-ls/srv6-endpoint-behavior', lambda ctx: (lambda b, a: ls(ctx, 'Srv6EndpointBehavior', Srv6EndpointBehavior.make_srv6_endpoint_behavior(b, a), 1250, {'endpoint-behavior': b, 'algorithm': a}))(ctx.int('behavior', 0, 65535), ctx.int('algorithm', 0, 255)))
    ls_units()
    return us


# ============================================================================= index / == / hash (clause c)
#
# Two routes a, b of one class are built by the factories from independent symbolic fields.
#   equal routes (the class's own ==, forked)      =>  index(a) == index(b)  and  hash(a) == hash(b)
#   index(a) == index(b)                            =>  same path identifier, same prefix, same route distinguisher
#   (family: the same fields packed for two families never give one index)
# hash(): C code; the modules' `hash` name is shadowed during these units so that __hash__ returns its KEY (the tuple / bytes it
# hashes): equal keys <=> equal hashes up to collisions.  A key that is a formatted string is sampled text: for those classes the
# hash obligation is the witness on each path's model only.

import builtins as _builtins   # noqa: E402
import sys as _sys   # noqa: E402


class HK:
    def __init__(self, v):
        self.v = v


def _has_carrier(v, depth=0):
    if isinstance(v, (SBytes, SInt, SBool, HK)):
        return True
    if isinstance(v, (tuple, list)) and depth < 4:
        return any(_has_carrier(i, depth + 1) for i in v)
    if isinstance(v, (int, str, bytes, bytearray, memoryview, float, type(None))):
        return False
    h = getattr(type(v), '__hash__', None)
    mod = getattr(type(v), '__module__', '')
    if h is not None and mod.startswith('exabgp.') and depth < 4:
        try:
            return isinstance(h(v), HK)
        except Exception:
            return False
    return False


def hk(v):
    """stand-in for builtins.hash inside the NLRI modules during index units: the key itself when it holds carriers"""
    if _has_carrier(v):
        return HK(v)
    return _builtins.hash(v)


def hk_norm(v, depth=0):
    if isinstance(v, HK):
        return hk_norm(v.v, depth)
    if isinstance(v, (tuple, list)):
        return [hk_norm(i, depth + 1) for i in v]
    if isinstance(v, (bytes, bytearray, memoryview)):
        return bytes(v)
    if isinstance(v, (SBytes, SInt, SBool, int, type(None))):
        return v
    if isinstance(v, str):
        return ['text', str(v)]
    h = getattr(type(v), '__hash__', None)
    if h is not None and getattr(type(v), '__module__', '').startswith('exabgp.') and depth < 4:
        r = h(v)
        return hk_norm(r, depth + 1) if isinstance(r, HK) else ['hash', r]
    return ['object', type(v).__name__]


def has_text(n):
    if isinstance(n, list):
        return (len(n) == 2 and n[0] == 'text') or any(has_text(i) for i in n)
    return False


class shadow_hash:
    def __enter__(self):
        self.mods = [m for n, m in list(_sys.modules.items()) if n.startswith(('exabgp.bgp.message.update.nlri', 'exabgp.protocol.ip', 'exabgp.protocol.family')) and m is not None]
        for m in self.mods:
            m.__dict__['hash'] = hk
        return self

    def __exit__(self, *a):
        for m in self.mods:
            m.__dict__.pop('hash', None)
        return False


def index_pair(ctx, kind, a, b, keys, same_family=True):
    """the obligations of clause (c) on two routes"""
    ia, ib = B(ctx, a.index()), B(ctx, b.index())
    same_index = sx_eq(ia, ib)
    ctx.cover('built')
    # never share an index when they differ in path identifier / prefix / route distinguisher
    for f in keys:
        fa, fb = state(fld(a, f)), state(fld(b, f))
        chk(ctx, 'index-separates:' + f, s_implies(same_index, sx_eq(fa, fb)), 'C15:index:%s:shared-by-routes-differing-in-%s' % (kind, f),
            lambda: {'a': a.pack_nlri(session(False)), 'b': b.pack_nlri(session(False)), 'index-a': ia, 'index-b': ib, 'field-a': fa, 'field-b': fb})
    if not same_family:
        chk(ctx, 'index-separates:family', s_not(same_index), 'C15:index:%s:shared-across-families' % kind, lambda: {'index-a': ia, 'index-b': ib})
        return ('two-families',)
    # equal routes: equal index, equal hash
    equal = eq_by_class(a, b)
    if not equal:
        ctx.cover('unequal')
        return ('unequal',)
    ctx.cover('equal')
    chk(ctx, 'equal-index', same_index, 'C15:index:%s:equal-routes-different-index' % kind,
        lambda: {'a': a.pack_nlri(session(False)), 'b': b.pack_nlri(session(False)), 'index-a': ia, 'index-b': ib})
    if ctx.sym:
        with shadow_hash():
            ka, kb = hk_norm(type(a).__hash__(a)), hk_norm(type(b).__hash__(b))
        if not has_text(ka) and not has_text(kb):
            chk(ctx, 'equal-hash', sx_eq(ka, kb), 'C15:index:%s:equal-routes-different-hash' % kind,
                lambda: {'a': a.pack_nlri(session(False)), 'b': b.pack_nlri(session(False)), 'key-a': ka, 'key-b': kb})
    else:
        # same name as the symbolic obligation: a counterexample is confirmed by the real hash() in the clean interpreter
        ctx.check('equal-hash', hash(a) == hash(b), sig='C15:index:%s:equal-routes-different-hash' % kind,
                  info={'a': a.pack_nlri(session(False)), 'b': b.pack_nlri(session(False))})
    return ('equal',)


def index_units(tier):
    th = tier == 'thorough'
    us = []
    T = 1500 if th else 600

    def add(name, fn, weight=30, cover=('built', 'equal', 'unequal')):
        us.append(Unit('index/' + name, fn, must_cover=cover, weight=weight, max_seconds=T, max_paths=40000, reset=reset_state, hash_const=True))

    def two(ctx, build):
        return build(ctx, 'a.'), build(ctx, 'b.')

    for v6 in (False, True):
        afi = 2 if v6 else 1
        v = 'ipv6' if v6 else 'ipv4'
        full = 16 if v6 else 4
        # quick, ipv6: the boundary sizes plus the pairs of sizes at which an index with and without a path identifier have the
        # same length (9/13 unicast, 13/14 nlri-mpls, 5/6 mpls-vpn); thorough: every size
        sizes = list(range(full + 1)) if th or not v6 else [0, 1, 9, 13, 16]
        small = sizes if not v6 else ([0, 5, 6, 13, 14, 16] if not th else sizes)

        def inet(ctx, n, v6=v6, afi=afi, sizes=sizes):
            return INET.from_cidr(q_cidr(ctx, v6, n + 'pfx', sizes), AFI.from_int(afi), SAFI.unicast, q_path(ctx, bool(ctx.choice(n + 'has-path', 2)), n + 'pathid'))
        add('%s-unicast' % v, lambda ctx, v=v, inet=inet: index_pair(ctx, '%s-unicast' % v, *two(ctx, inet), keys=('path_info.pack_path', 'cidr.mask', 'cidr.pack_ip')), weight=60)

        def label(ctx, n, v6=v6, afi=afi, sizes=small):
            depth = ctx.pick(n + 'depth', (1, 2) if th else (1,))
            return Label.from_cidr(q_cidr(ctx, v6, n + 'pfx', sizes), AFI.from_int(afi), SAFI.nlri_mpls, q_path(ctx, bool(ctx.choice(n + 'has-path', 2)), n + 'pathid'), q_labels(ctx, depth, n + 'label'))
        add('%s-nlri-mpls' % v, lambda ctx, v=v, label=label: index_pair(ctx, '%s-nlri-mpls' % v, *two(ctx, label), keys=('path_info.pack_path', 'cidr.mask', 'cidr.pack_ip')), weight=120)

        def vpn(ctx, n, v6=v6, afi=afi, sizes=small):
            return IPVPN.from_cidr(q_cidr(ctx, v6, n + 'pfx', sizes), AFI.from_int(afi), SAFI.mpls_vpn, q_path(ctx, bool(ctx.choice(n + 'has-path', 2)), n + 'pathid'), q_labels(ctx, 1, n + 'label'), q_rd(ctx, n + 'rd'))
        add('%s-mpls-vpn' % v, lambda ctx, v=v, vpn=vpn: index_pair(ctx, '%s-mpls-vpn' % v, *two(ctx, vpn), keys=('path_info.pack_path', 'cidr.mask', 'cidr.pack_ip', 'rd.pack_rd')), weight=120)

        def cross(ctx, v6=v6, afi=afi, v=v, full=full):
            cidr = q_cidr(ctx, v6, 'pfx', [0, 1, full])
            which = ctx.pick('families', ('unicast/multicast', 'unicast/nlri-mpls', 'nlri-mpls/mpls-vpn'))
            A = AFI.from_int(afi)
            if which == 'unicast/multicast':
                a, b = INET.from_cidr(cidr, A, SAFI.unicast), INET.from_cidr(cidr, A, SAFI.multicast)
            elif which == 'unicast/nlri-mpls':
                a, b = INET.from_cidr(cidr, A, SAFI.unicast), Label.from_cidr(cidr, A, SAFI.nlri_mpls, PathInfo.DISABLED, None)
            else:
                lb = q_labels(ctx, 1)
                a, b = Label.from_cidr(cidr, A, SAFI.nlri_mpls, PathInfo.DISABLED, lb), IPVPN.from_cidr(cidr, A, SAFI.mpls_vpn, PathInfo.DISABLED, lb, None)
            return index_pair(ctx, '%s:%s' % (v, which), a, b, keys=(), same_family=False)
        add('%s-cross-family' % v, cross, cover=('built',))

    add('l2vpn-vpls', lambda ctx: index_pair(ctx, 'l2vpn-vpls', *two(ctx, lambda ctx, n: VPLS.make_vpls(q_rd(ctx, n + 'rd'), ctx.int(n + 'endpoint', 0, 65535), ctx.int(n + 'base', 0, 2 ** 20 - 1), ctx.int(n + 'offset', 0, 65535), ctx.int(n + 'size', 0, 65535))),
                                                 keys=('rd.pack_rd', 'endpoint')))

    from exabgp.bgp.message.update.nlri.evpn.mac import MAC as EVPNMAC
    from exabgp.bgp.message.update.nlri.evpn.multicast import Multicast
    from exabgp.bgp.message.update.nlri.evpn.ethernetad import EthernetAD
    from exabgp.bgp.message.update.nlri.evpn.segment import EthernetSegment
    from exabgp.bgp.message.update.nlri.evpn.prefix import Prefix as EVPNPrefix

    def esi(ctx, n):
        return ESI(q_bytes(ctx, n + 'esi', 10))

    def etag(ctx, n):
        return EthernetTag.make_etag(ctx.int(n + 'etag', 0, 2 ** 32 - 1))
    add('l2vpn-evpn/mac', lambda ctx: index_pair(ctx, 'l2vpn-evpn:mac', *two(ctx, lambda ctx, n: EVPNMAC.make_mac(q_rd(ctx, n + 'rd'), esi(ctx, n), etag(ctx, n), MACQ(packed=q_bytes(ctx, n + 'mac', 6)), 48, q_labels(ctx, 1, n + 'label'), q_ip(ctx, n + 'ip', False))), keys=('rd.pack_rd',)))
    add('l2vpn-evpn/ethernet-ad', lambda ctx: index_pair(ctx, 'l2vpn-evpn:ethernet-ad', *two(ctx, lambda ctx, n: EthernetAD.make_ethernetad(q_rd(ctx, n + 'rd'), esi(ctx, n), etag(ctx, n), q_labels(ctx, 1, n + 'label'))), keys=('rd.pack_rd',)))
    add('l2vpn-evpn/multicast', lambda ctx: index_pair(ctx, 'l2vpn-evpn:multicast', *two(ctx, lambda ctx, n: Multicast.make_multicast(q_rd(ctx, n + 'rd'), etag(ctx, n), q_ip(ctx, n + 'ip', False))), keys=('rd.pack_rd',)))
    add('l2vpn-evpn/ethernet-segment', lambda ctx: index_pair(ctx, 'l2vpn-evpn:ethernet-segment', *two(ctx, lambda ctx, n: EthernetSegment.make_ethernetsegment(q_rd(ctx, n + 'rd'), esi(ctx, n), q_ip(ctx, n + 'ip', False))), keys=('rd.pack_rd',)))
    add('l2vpn-evpn/prefix', lambda ctx: index_pair(ctx, 'l2vpn-evpn:prefix', *two(ctx, lambda ctx, n: EVPNPrefix.make_prefix(q_rd(ctx, n + 'rd'), esi(ctx, n), etag(ctx, n), q_labels(ctx, 1, n + 'label'), q_ip(ctx, n + 'ip', False), ctx.int(n + 'iplen', 0, 32), q_ip(ctx, n + 'gw', False))), keys=('rd.pack_rd', 'ip.pack_ip', 'iplen')))

    from exabgp.bgp.message.update.nlri.mup.dsd import DirectSegmentDiscoveryRoute
    from exabgp.bgp.message.update.nlri.mup.isd import InterworkSegmentDiscoveryRoute
    from exabgp.bgp.message.update.nlri.mup.t1st import Type1SessionTransformedRoute
    from exabgp.bgp.message.update.nlri.mup.t2st import Type2SessionTransformedRoute
    A4 = AFI.ipv4

    def isd(ctx, n):
        c = q_cidr(ctx, False, n + 'pfx', [0, 1, 3, 4])
        return InterworkSegmentDiscoveryRoute.make_isd(q_rd(ctx, n + 'rd'), c.mask, IPv4(B(ctx, c._packed)), A4)

    def t1st(ctx, n):
        c = q_cidr(ctx, False, n + 'pfx', [0, 3, 4])
        return Type1SessionTransformedRoute.make_t1st(q_rd(ctx, n + 'rd'), c.mask, IPv4(B(ctx, c._packed)), ctx.int(n + 'teid', 0, 2 ** 32 - 1), ctx.int(n + 'qfi', 0, 255), 32, q_ip(ctx, n + 'ep', False), 0, b'', A4)
    add('ipv4-mup/dsd', lambda ctx: index_pair(ctx, 'ipv4-mup:dsd', *two(ctx, lambda ctx, n: DirectSegmentDiscoveryRoute.make_dsd(q_rd(ctx, n + 'rd'), q_ip(ctx, n + 'ip', False), A4)), keys=('rd.pack_rd', 'ip.pack_ip')))
    add('ipv4-mup/isd', lambda ctx: index_pair(ctx, 'ipv4-mup:isd', *two(ctx, isd), keys=('rd.pack_rd', 'prefix_ip_len', 'prefix_ip.pack_ip')))
    add('ipv4-mup/t1st', lambda ctx: index_pair(ctx, 'ipv4-mup:t1st', *two(ctx, t1st), keys=('rd.pack_rd', 'prefix_ip_len', 'prefix_ip.pack_ip')))
    add('ipv4-mup/t2st', lambda ctx: index_pair(ctx, 'ipv4-mup:t2st', *two(ctx, lambda ctx, n: Type2SessionTransformedRoute.make_t2st(q_rd(ctx, n + 'rd'), 64, q_ip(ctx, n + 'ep', False), ctx.int(n + 'teid', 0, 2 ** 32 - 1), A4)), keys=('rd.pack_rd', 'endpoint_ip.pack_ip')))

    from exabgp.bgp.message.update.nlri.mvpn.sourcead import SourceAD
    from exabgp.bgp.message.update.nlri.mvpn.sharedjoin import SharedJoin
    from exabgp.bgp.message.update.nlri.mvpn.sourcejoin import SourceJoin
    add('ipv4-mcast-vpn/source-ad', lambda ctx: index_pair(ctx, 'ipv4-mcast-vpn:source-ad', *two(ctx, lambda ctx, n: SourceAD.make_sourcead(q_rd(ctx, n + 'rd'), A4, q_ip(ctx, n + 'src', False), q_ip(ctx, n + 'grp', False))), keys=('rd.pack_rd',)))
    add('ipv4-mcast-vpn/shared-join', lambda ctx: index_pair(ctx, 'ipv4-mcast-vpn:shared-join', *two(ctx, lambda ctx, n: SharedJoin.make_sharedjoin(q_rd(ctx, n + 'rd'), A4, q_ip(ctx, n + 'src', False), q_ip(ctx, n + 'grp', False), ctx.int(n + 'as', 0, 2 ** 32 - 1))), keys=('rd.pack_rd',)))
    add('ipv4-mcast-vpn/source-join', lambda ctx: index_pair(ctx, 'ipv4-mcast-vpn:source-join', *two(ctx, lambda ctx, n: SourceJoin.make_sourcejoin(q_rd(ctx, n + 'rd'), A4, q_ip(ctx, n + 'src', False), q_ip(ctx, n + 'grp', False), ctx.int(n + 'as', 0, 2 ** 32 - 1))), keys=('rd.pack_rd',)))
    add('ipv4-sr-policy', lambda ctx: index_pair(ctx, 'ipv4-sr-policy', *two(ctx, lambda ctx, n: SRPolicyNLRI(A4, q_bytes(ctx, n + 'body', 12))), keys=('distinguisher', 'color')))

    def rtc(ctx, n):
        from exabgp.bgp.message.update.attribute.community.extended.rt import RouteTargetASN2Number
        return RTC.make_rtc(ASN(ctx.int(n + 'origin', 0, 2 ** 32 - 1)), RouteTargetASN2Number.make_route_target(ASN(ctx.int(n + 'rt.asn', 0, 65535)), ctx.int(n + 'rt.number', 0, 2 ** 32 - 1)))
    add('ipv4-rtc', lambda ctx: index_pair(ctx, 'ipv4-rtc', *two(ctx, rtc), keys=('origin', 'rt.pack')))

    # BGP-LS: two decodes of the node NLRI, plain and VPN (the route distinguisher is part of the VPN route)
    def ls_node(ctx, vpn):
        def one(n):
            rd = sym(ctx, n + 'rd', 8) if vpn else []
            body = [3] + sym(ctx, n + 'ident', 8) + tlv16(256, tlv16(512, sym(ctx, n + 'as', 4)) + tlv16(515, sym(ctx, n + 'rid', 4)))
            data = mk(ctx, be(1, 2) + be(len(rd) + len(body), 2) + rd + body)
            nlri, left = NLRI.unpack_nlri(AFI.bgpls, SAFI.bgp_ls_vpn if vpn else SAFI.bgp_ls, data, Action.ANNOUNCE, False, session(False))
            return nlri
        a, b = one('a.'), one('b.')
        return index_pair(ctx, 'bgp-ls%s:node' % ('-vpn' if vpn else ''), a, b, keys=('route_d.pack_rd',) if vpn else ())
    add('bgp-ls/node', lambda ctx: ls_node(ctx, False))
    add('bgp-ls-vpn/node', lambda ctx: ls_node(ctx, True))
    return us


def h_flow_length(ctx, dest_mask, ports, want_body):
    """A FlowSpec NLRI built by the real factories whose body is want_body octets (destination prefix + `ports` one-octet
    destination-port values, the first and the last symbolic): RFC 8955 4.1 switches to the two-octet length at 240.  What
    ExaBGP packs must decode whole to an equal route and pack to the same octets (octet layout of the rule itself is C16)."""
    from exabgp.bgp.message.update.nlri.flow import Flow, Flow4Destination, FlowDestinationPort, NumericOperator
    from exabgp.protocol.resource import NumericValue as _NumericValue
    flow = Flow.make_flow(AFI.ipv4, SAFI.flow_ip)
    flow.add(Flow4Destination.make_prefix4(bytes([10, 1, 2, 3]), dest_mask))
    first = ctx.int('port.first', 0, 255)
    last = ctx.int('port.last', 0, 255)
    for i in range(ports):
        v = first if i == 0 else last if i == ports - 1 else 1 + i % 250
        flow.add(FlowDestinationPort(NumericOperator.EQ, _NumericValue(v)))
    r = enc_nlri(ctx, 'ipv4-flow:length-%d' % want_body, flow, 1, 133)
    if r and r[0] == 'round-trip':
        ctx.check('body-length-as-intended', r[2] in (want_body + 1, want_body + 2), sig='C15:enc:harness:flow-body-length', info={'wire': r[2], 'body': want_body})
        ctx.cover('flow-body-%d' % want_body)
    return r


def flow_length_units(tier):
    th = tier == 'thorough'
    us = []
    for mask, ports, body in ((16, 117, 239), (24, 117, 240), (32, 117, 241)) + (((24, 2044, 4094), (16, 2045, 4095)) if th else ()):
        us.append(Unit('enc/nlri/ipv4-flow/length-%d' % body, lambda ctx, m=mask, p=ports, b=body: h_flow_length(ctx, m, p, b),
                       must_cover=('encoded', 'decoded', 'flow-body-%d' % body), weight=15, max_seconds=600, max_paths=2000, reset=reset_state, hash_const=True))
    return us


def units(tier):
    us = []
    us += flow_length_units(tier)
    us += nlri_units(tier)
    us += attr_units(tier)
    us += enc_nlri_units(tier)
    us += enc_attr_units(tier)
    us += index_units(tier)
    return us
