"""C15 — every family and attribute survives an encode/decode round trip.

Registry driven: `units()` enumerates the LIVE registries of the package under test (NLRI.registered_nlri,
EVPN/MUP/MVPN/BGP-LS route types, Attribute.registered_attributes, extended-community (type, subtype) pairs, BGP-LS
attribute TLVs, prefix-SID TLVs, tunnel-encapsulation sub-TLVs, PMSI tunnel types) and sweeps each entry with ONE
generic harness per direction.  A decoder registered tomorrow is swept at the default sizes without touching this file
(and its unit fails the vacuity guard if nothing decodes within them, which is the signal to give it a shape).

  dec/nlri/<family>[/<route type>]   payload bytes symbolic (concrete TLV/length skeleton where a decoder loops on a
                                     length) -> the real NLRI.unpack_nlri dispatch -> on paths that decode:
                                     pack_nlri(negotiated) == the octets consumed, for ALL byte values of the path (z3),
                                     unless the input is non-canonical per CANON_NLRI (explicit list); ALWAYS:
                                     decode(pack(decode(x))) is the same object field by field and packs to the same octets
  dec/attr/<code>[/<sub type>]       same through Attribute.unpack(code, flag, data, negotiated) / pack_attribute (header
                                     checked and stripped)
  enc/<kind>                         objects from the factory methods with symbolic fields: unpack(pack(x)) == x field-wise
  index/<kind>                       two symbolic NLRI of one class: a == b  =>  index/hash equal;  differing family /
                                     path-id / prefix / RD  =>  different index (z3 on the two index byte strings)
  text (witness, every decoded path)  two decodes of the same octets render the same json()/str()/extensive()/repr()
"""
from __future__ import annotations

from sx.run import Unit
from sx.core import sx_eq, s_and, s_or, s_not, s_implies, SBytes, SInt, SBool, SDict
from kits import session as S

import exabgp.bgp.message.update  # noqa: F401  (registers every NLRI and attribute)
from exabgp.bgp.message import Action
from exabgp.bgp.message.direction import Direction
from exabgp.bgp.message.notification import Notify
from exabgp.bgp.message.update.nlri.nlri import NLRI
from exabgp.bgp.message.update.nlri.evpn.nlri import EVPN
from exabgp.bgp.message.update.nlri.mup.nlri import MUP
from exabgp.bgp.message.update.nlri.mvpn.nlri import MVPN
from exabgp.bgp.message.update.nlri.bgpls.nlri import BGPLS
from exabgp.bgp.message.update.attribute import Attribute
from exabgp.protocol.family import AFI, SAFI
import exabgp.bgp.message.update.nlri.nlri as _m_nlri
import exabgp.bgp.message.update.nlri.flow as _m_flow
import exabgp.bgp.message.update.nlri.bgpls.link as _m_ls_link
import exabgp.bgp.message.update.nlri.bgpls.prefixv4 as _m_ls_p4
import exabgp.bgp.message.update.nlri.bgpls.prefixv6 as _m_ls_p6

ID = 'C15'
LEVEL = 'model_checking'
TECHNIQUE = ('symbolic execution of the real registered decoders and encoders (z3 over every payload byte of the bound, '
             'TLV/length skeletons concrete where a decoder loops on a length), registry-driven sweep; text renderings '
             'compared on one solver model per path')
ASSUMPTIONS = [
    'logging (log, lazymsg, lazynlri, lazyattribute) has an empty body',
    'sessions come from kits/session.py (real Neighbor from a generated configuration, Negotiated through the real sent()/received()): '
    'one with every configurable family, one with ADD-PATH send/receive on every configurable family as well; the two families the '
    'configuration grammar cannot name (ipv6 multicast, ipv4 rtc) are decoded and packed against the same objects (not negotiated: ADD-PATH off)',
    'the per-AFI FlowSpec component tables flow.decode[afi] / flow.factory[afi] are wrapped as SDict (same content), as in C16',
    'Attribute.unpack is called with the registered flag (EXTENDED_LENGTH bit symbolic): PARTIAL and wrong flags are the business of '
    'AttributeCollection.parse (C08); refusal of an attribute value is Notify, ValueError or IndexError, the three AttributeCollection.parse handles',
]
BOUNDS = {}
OUTSIDE = []


class _Log:
    def __getattr__(self, name):
        return lambda *a, **k: None


def _silence(mod):
    if hasattr(mod, 'log'):
        mod.log = _Log()
    for n in ('lazymsg', 'lazyformat', 'lazyattribute', 'lazynlri'):
        if hasattr(mod, n):
            setattr(mod, n, lambda *a, **k: None)


for _m in (_m_nlri, _m_flow, _m_ls_link, _m_ls_p4, _m_ls_p6):
    _silence(_m)

for _afi in list(_m_flow.decode):
    if not isinstance(_m_flow.decode[_afi], SDict):
        _m_flow.decode[_afi] = SDict(_m_flow.decode[_afi])
        _m_flow.factory[_afi] = SDict(_m_flow.factory[_afi])


# ----------------------------------------------------------------------------- helpers


def B(ctx, x):
    """bytes-like carrier of the current mode"""
    if ctx.sym:
        return x if isinstance(x, SBytes) else SBytes(list(bytes(x)) if isinstance(x, (bytes, bytearray, memoryview)) else list(x))
    return bytes(x)


def mk(ctx, items):
    items = list(items)
    return SBytes(items) if ctx.sym else bytes(items)


def sym(ctx, name, n):
    return [ctx.byte('%s[%d]' % (name, i)) for i in range(n)]


def be(n, size):
    return list(int(n).to_bytes(size, 'big'))


def tlv16(t, value):
    """type(2) length(2) value: BGP-LS style"""
    value = list(value)
    return be(t, 2) + be(len(value), 2) + value


def tlv8(t, value):
    value = list(value)
    return [t, len(value)] + value


_SKIP_FIELDS = {'_negotiated', '_context', 'negotiated'}


def state(o, depth=0):
    """What an object holds, as nested lists of ints / byte strings / names: the field-wise comparison of two decodes."""
    if o is None or isinstance(o, (bool, str, float)):
        return o
    if isinstance(o, (SInt, SBool)):
        return o
    if isinstance(o, int):
        return int(o)
    if isinstance(o, (bytes, bytearray, memoryview)):
        return bytes(o)
    if isinstance(o, SBytes):
        return SBytes(list(o.items))
    if isinstance(o, (list, tuple)):
        return [state(i, depth + 1) for i in o]
    if isinstance(o, (set, frozenset)):
        return ['set', len(o)]
    if isinstance(o, dict):
        return [[state(k, depth + 1), state(v, depth + 1)] for k, v in o.items()]
    if isinstance(o, type) or callable(o) and not hasattr(o, '__dict__'):
        return getattr(o, '__name__', 'callable')
    if depth > 5:
        return type(o).__name__
    fields = []
    seen = set()
    for klass in type(o).__mro__:
        for s in getattr(klass, '__slots__', ()) or ():
            if s in seen or s in _SKIP_FIELDS or s.startswith('__'):
                continue
            seen.add(s)
            try:
                v = object.__getattribute__(o, s)
            except AttributeError:
                continue
            fields.append([s, state(v, depth + 1)])
    d = getattr(o, '__dict__', None)
    if isinstance(d, dict):
        for k in sorted(d):
            if k in seen or k in _SKIP_FIELDS:
                continue
            fields.append([k, state(d[k], depth + 1)])
    return [type(o).__name__, fields]


def chk(ctx, name, cond, sig, info=None):
    """ctx.check with the info computed only when the obligation fails (rendering carriers samples the model: costly)"""
    ok = ctx.check(name, cond, sig=sig)
    if not ok and info is not None:
        from sx.ctx import plain
        try:
            ctx.failed[-1].info = plain(info())
        except Exception as exc:   # the info is a convenience, never a verdict
            ctx.failed[-1].info = 'info unavailable: %s' % type(exc).__name__
    return ok


def texts(o):
    """every text rendering the product makes of the object (concrete mode only).  NLRI: json()/extensive()/str()/repr();
    attributes: the renderings AttributeCollection makes (json(), json(generic), str()) plus the object's own str/repr;
    a json() the class does not define (the collection renders those itself) is skipped, a default object repr too."""
    out = []
    if isinstance(o, Attribute):
        from exabgp.bgp.message.update.attribute.collection import AttributeCollection
        coll = AttributeCollection()
        coll.add(o)
        out.append(('collection-json', coll.json()))
        out.append(('collection-json-generic', coll.json(generic=True)))
        out.append(('collection-str', str(coll)))
        names = ('json', '__str__', '__repr__')
    else:
        names = ('json', 'extensive', '__str__', '__repr__')
    for name in names:
        f = getattr(type(o), name, None)
        if f is None or f in (object.__repr__, object.__str__, Attribute.json, NLRI.json):
            continue
        if name == '__str__' and f is object.__str__:
            continue
        out.append((name, f(o)))
    return out


def render_witness(ctx, kind, make):
    """two fresh decodes of the same octets render the same texts; a rendering that raises is reported under its own signature"""
    if ctx.sym:
        return
    got = []
    for _ in range(2):
        try:
            got.append(texts(make()))
        except Exception as exc:
            ctx.witness_check('text-renders', lambda: False, sig='C15:text:%s:rendering-raises-%s' % (kind, type(exc).__name__),
                              info={'raised': '%s: %s' % (type(exc).__name__, exc)})
            return
    ctx.witness_check('text-deterministic', lambda: got[0] == got[1], sig='C15:text:%s:not-deterministic' % kind,
                      info={'first': str(got[0])[:300], 'second': str(got[1])[:300]})


# ----------------------------------------------------------------------------- sessions

_SESS = {}


def families():
    out = []
    for a, s in NLRI.registered_families:
        if (int(a), int(s)) not in [(int(x), int(y)) for x, y in out]:
            out.append((a, s))
    return out


def fam_name(afi, safi):
    return '%s-%s' % (AFI.from_int(afi), SAFI.from_int(safi))


UNCONFIGURABLE = {(2, 2), (1, 132)}   # ipv6 multicast, ipv4 rtc: registered decoders the configuration grammar cannot name


def session(addpath=False, asn4=True):
    """all configurable families; aigp enabled (AIGP.unpack_attribute answers Discard otherwise)"""
    key = (bool(addpath), bool(asn4))
    if key not in _SESS:
        fams = [(a, s) for a, s in families() if (int(a), int(s)) not in UNCONFIGURABLE]
        names = ['%s %s' % (a, s) for a, s in fams]
        codes = [(int(a), int(s)) for a, s in fams]
        if addpath:
            conf = S.mk_conf(families=names, addpath='send/receive', addpath_families=names, asn4=asn4)
            body = S.peer_open_body(families=codes, addpath={c: 3 for c in codes}, layout='extended', asn4=asn4)
        else:
            conf = S.mk_conf(families=names, asn4=asn4)
            body = S.peer_open_body(families=codes, asn4=asn4)
        conf = conf.replace('    capability {\n', '    capability {\n        aigp enable;\n', 1)
        _SESS[key] = S.negotiated_for(S.neighbor_from(conf), Direction.IN, body)
    return _SESS[key]


_LS_SNAPSHOT = None


def reset_state():
    from exabgp.bgp.message.update.attribute.collection import AttributeCollection
    AttributeCollection.cached = None
    AttributeCollection.previous = b''
    for c in Attribute.cache.values():
        try:
            c.clear()
        except Exception:
            pass
    # LinkState.get_ls_class registers a synthetic class for every unknown TLV code it meets: process-wide, undone here
    global _LS_SNAPSHOT
    from exabgp.bgp.message.update.attribute.bgpls.linkstate import LinkState
    reg = LinkState.registered_lsids
    if _LS_SNAPSHOT is None:
        _LS_SNAPSHOT = dict(reg)
    for k in [k for k in list(dict.keys(reg)) if k not in _LS_SNAPSHOT]:
        dict.__delitem__(reg, k)


# ----------------------------------------------------------------------------- NLRI: what is canonical
#
# A wire NLRI is canonical when ExaBGP is obliged to give the same octets back.  Every entry is a documented
# normalisation; everything else must round trip octet for octet.


CANON_NOTES = {
    'label': 'ipv4/ipv6 nlri-mpls: the stack is rebuilt from the 20-bit label values (Labels.make_labels): the 3 reserved bits of every label '
             'are cleared and the bottom-of-stack bit is set on the last label only.  RFC 8277 2.2/2.3: Rsrv "SHOULD be set to zero on transmission '
             'and MUST be ignored on reception", S set on the last label; RFC 8277 2.4: the withdraw compatibility field (0x800000, or the older '
             '0x000000) "MUST be ignored on reception": both come back as a label with S=1',
    'rtc': 'ipv4 rtc: the two high bits of the route-target type octet are cleared (RTC.resetFlags): RFC 4684 4 compares route targets as NLRI '
           'prefix bits and RFC 4360 2 makes those bits the IANA-authority / transitive flags of an attribute, which an NLRI does not have',
    'vpls': 'l2vpn vpls: a declared length above 17 is accepted and only the 17 octets RFC 4761 3.2.2 defines are kept: the length comes back as 17',
    'flow': 'flow / flow-vpn: the rule is rebuilt from its components (ordering, operator length bits, end-of-list bit): octet-exactness against '
            'RFC 8955 is C16; here the normal form only (what is packed decodes to an equal rule and packs to itself)',
}


def nlri_canonical(ctx, afi, safi, consumed, addpath, nlri, action=None):
    """-> (cond, tag): cond is bool|SBool 'these octets are canonical'; None = no octet-exact claim (normal form only)"""
    safi_i = int(safi)
    if safi_i == 4:  # nlri-mpls
        off = 4 if addpath else 0
        size = getattr(nlri, '_label_size', 0)
        terms = []
        for i in range(off + 1, off + 1 + size, 3):
            last = i + 3 >= off + 1 + size
            terms.append(consumed[i + 2] % 16 == (1 if last else 0))
        return s_and(*terms), 'label'
    if safi_i == 132:  # rtc
        if len(consumed) < 13:
            return True, 'rtc'
        return consumed[5] < 64, 'rtc'
    if safi_i == 65:   # vpls
        return s_and(consumed[0] == 0, consumed[1] == 17), 'vpls'
    if safi_i in (133, 134):
        return None, 'flow'
    return True, ''


def input_class(ctx, afi, safi, consumed, addpath, nlri, action):
    """A name for the class of input a known defect is tied to (part of the obligation signatures, never of the verdict):
    forks on the class so that one signature is one class."""
    if int(safi) == 4:
        off = 4 if addpath else 0
        size = getattr(nlri, '_label_size', 0)
        if size >= 6:
            # the 20-bit value of the first label is one of the two values the decoder also reads as "this IS the whole stack"
            if bool(s_and(consumed[off + 1] == 0, consumed[off + 2] == 0, consumed[off + 3] < 16)):
                return ':label-0-above-another-label'
            if action == Action.WITHDRAW and bool(s_and(consumed[off + 1] == 0x80, consumed[off + 2] == 0, consumed[off + 3] < 16)):
                return ':withdraw-label-524288-above-another-label'
    return ''


# ----------------------------------------------------------------------------- NLRI: decode -> encode


def eq_by_class(a, b):
    """the class's own == (forks on a symbolic answer: the two sides are then two paths)"""
    r = a == b
    return bool(r)


def dec_nlri(ctx, afi, safi, data, addpath=False, action=Action.ANNOUNCE, kind=None):
    """The generic decode->encode obligation for one NLRI buffer.

      in --decode--> x --pack--> out            canonical(in)  =>  out == in                         (clause b)
      out --decode--> y                         always: y exists, consumes out, pack(y) == out,      (clause a on x, which
                                                y == x by the class's own ==, index(y) == index(x),   is reachable from decoding)
                                                hash(y) == hash(x) (witness)
    """
    afi, safi = AFI.from_int(afi), SAFI.from_int(safi)
    kind = kind or fam_name(afi, safi)
    neg = session(addpath)
    try:
        nlri, left = NLRI.unpack_nlri(afi, safi, data, action, addpath, neg)
    except Notify as exc:
        ctx.cover('refused')
        ctx.note('class', 'refused')
        return ('refused', int(exc.code), int(exc.subcode))
    except Exception as exc:
        # which exceptions may escape a decoder is property C03, not C15: here it is a refusal, kept in the census
        ctx.cover('refused')
        ctx.note('class', 'refused-by-%s' % type(exc).__name__)
        return ('raises', type(exc).__name__)
    if nlri is NLRI.INVALID:
        ctx.cover('refused')
        ctx.note('class', 'invalid')
        return ('invalid', len(left))
    ctx.cover('decoded')
    n_used = len(data) - len(left)
    consumed = data[:n_used]
    klass = type(nlri).__name__
    ctx.note('class', 'decoded:%s' % klass)
    kind = kind + input_class(ctx, afi, safi, consumed, addpath, nlri, action)
    # the left-over is the tail of the input
    chk(ctx, 'left-over-is-tail', sx_eq(B(ctx, left), data[n_used:]), 'C15:dec:nlri:%s:left-over-not-tail' % kind)
    # family survives
    chk(ctx, 'family', s_and(sx_eq(int(nlri.afi), int(afi)), sx_eq(int(nlri.safi), int(safi))), 'C15:dec:nlri:%s:family-changes' % kind,
        lambda: {'got': '%s/%s' % (nlri.afi, nlri.safi)})
    try:
        out = B(ctx, nlri.pack_nlri(neg))
    except Exception as exc:
        ctx.check('packs', False, sig='C15:dec:nlri:%s:pack-raises-%s' % (kind, type(exc).__name__), info={'data': data, 'raised': str(exc)[:200]})
        return ('decoded', klass, n_used, 'pack-raises')
    canon, why = nlri_canonical(ctx, afi, safi, consumed, addpath, nlri, action)
    if canon is None:
        verdict = 'normal-form-only'
        ctx.cover('non-canonical')
    else:
        chk(ctx, 'reencode', s_implies(canon, sx_eq(out, consumed)), 'C15:dec:nlri:%s:reencode-differs' % kind, lambda: {'in': consumed, 'out': out})
        if bool(canon):
            verdict = 'canonical'
            ctx.cover('canonical')
        else:
            verdict = 'non-canonical:' + why
            ctx.cover('non-canonical')
    # what ExaBGP packed is its own encoding: it decodes, whole, to an equal route which packs to the same octets
    try:
        again, left2 = NLRI.unpack_nlri(afi, safi, out, action, addpath, neg)
    except Exception as exc:
        ctx.check('reencoded-decodes', False, sig='C15:dec:nlri:%s:reencoded-refused' % kind, info={'in': consumed, 'out': out, 'raised': '%s %s' % (type(exc).__name__, str(exc)[:160])})
        return ('decoded', klass, n_used, verdict, 'reencoded-refused')
    ok = again is not NLRI.INVALID
    chk(ctx, 'reencoded-decodes', ok, 'C15:dec:nlri:%s:reencoded-refused' % kind, lambda: {'in': consumed, 'out': out})
    if ok:
        chk(ctx, 'reencoded-whole', len(left2) == 0, 'C15:dec:nlri:%s:reencoded-left-over' % kind, lambda: {'out': out})
        chk(ctx, 'same-octets', sx_eq(B(ctx, again.pack_nlri(neg)), out), 'C15:dec:nlri:%s:repack-differs' % kind, lambda: {'in': consumed, 'out': out})
        chk(ctx, 'equal-route', type(again) is type(nlri) and eq_by_class(again, nlri), 'C15:dec:nlri:%s:redecoded-route-not-equal' % kind,
            lambda: {'in': consumed, 'out': out, 'first': str(state(nlri))[:300], 'second': str(state(again))[:300]})
        # equal routes: equal index (and equal hash, on the replayed model: hash() is C code)
        chk(ctx, 'equal-index', sx_eq(B(ctx, again.index()), B(ctx, nlri.index())), 'C15:dec:nlri:%s:equal-routes-different-index' % kind, lambda: {'in': consumed, 'out': out})
        if not ctx.sym:
            ctx.witness_check('equal-hash', lambda: hash(again) == hash(nlri), sig='C15:dec:nlri:%s:equal-routes-different-hash' % kind, info={'in': consumed, 'out': out})
    cdata = data
    render_witness(ctx, 'nlri:' + kind, lambda: NLRI.unpack_nlri(afi, safi, bytes(cdata), action, addpath, neg)[0])
    return ('decoded', klass, n_used, verdict)


# ---- shapes: name -> builder(ctx) -> items


def free(L):
    return lambda ctx: sym(ctx, 'p', L)


def swept(lengths, head=None):
    """every length of `lengths`, all bytes symbolic after an optional concrete header computed from the length"""
    lengths = list(lengths)

    def f(ctx):
        L = ctx.pick('L', lengths)
        h = head(L) if head else []
        return h + sym(ctx, 'p', max(0, L - len(h))) if L >= len(h) else h[:L]
    return f


def h_dec_nlri(ctx, afi, safi, builder, addpath=False, action=Action.ANNOUNCE, kind=None):
    data = mk(ctx, builder(ctx))
    return dec_nlri(ctx, afi, safi, data, addpath, action, kind)


def rng(a, b):
    return list(range(a, b + 1))


def nlri_units(tier):
    th = tier == 'thorough'
    us = []
    T = 1500 if th else 240

    def add(name, afi, safi, builder, cover=('decoded', 'refused'), addpath=False, action=Action.ANNOUNCE, weight=10, kind=None, max_paths=20000):
        us.append(Unit('dec/nlri/' + name, lambda ctx: h_dec_nlri(ctx, afi, safi, builder, addpath, action, kind), must_cover=cover,
                       weight=weight, max_seconds=T, max_paths=max_paths, reset=reset_state, hash_const=True))

    for afi, safi in families():
        a, s = int(afi), int(safi)
        fam = fam_name(afi, safi)
        full = 4 if a == 1 else 16
        if s in (1, 2):
            lens = rng(0, 6) + ([full + 1, full + 2] if full + 1 > 6 else []) if not th else rng(0, full + 2)
            add(fam + '/swept', a, s, swept(lens), ('decoded', 'refused', 'canonical'), weight=20)
            if (a, s) not in UNCONFIGURABLE:
                add(fam + '/addpath', a, s, swept([x + 4 for x in lens] + [0, 3, 4]), ('decoded', 'refused', 'canonical'), addpath=True, weight=20)
        elif s == 4:
            lens = (rng(0, 8) + [11, full + 4, full + 7]) if not th else rng(0, full + 8)
            add(fam + '/swept', a, s, swept(lens), ('decoded', 'refused', 'canonical', 'non-canonical'), weight=60)
            add(fam + '/withdraw', a, s, swept(rng(3, 8)), ('decoded', 'refused', 'canonical', 'non-canonical'), action=Action.WITHDRAW, weight=40)
            add(fam + '/addpath', a, s, swept([x + 4 for x in (rng(0, 6) if not th else rng(0, 9))]), ('decoded', 'refused', 'canonical', 'non-canonical'), addpath=True, weight=40)
        elif s == 128:
            lens = (rng(0, 4) + rng(9, 14) + [12 + full]) if not th else rng(0, 16 + full)
            add(fam + '/swept', a, s, swept(lens), ('decoded', 'refused', 'canonical'), weight=60)
            add(fam + '/withdraw', a, s, swept(rng(11, 14)), ('decoded', 'refused', 'canonical'), action=Action.WITHDRAW, weight=40)
            add(fam + '/addpath', a, s, swept([x + 4 for x in rng(9, 13)]), ('decoded', 'refused', 'canonical'), addpath=True, weight=40)
        elif s in (133, 134):
            top = (5 if th else 4) + (8 if s == 134 else 0)
            add(fam + '/swept', a, s, swept(rng(0, top)), ('decoded', 'refused', 'non-canonical'), weight=200, max_paths=100000)
        elif (a, s) == (25, 65):
            add(fam + '/swept', a, s, swept(rng(0, 24)), ('decoded', 'refused', 'canonical'), weight=20)
        elif (a, s) == (1, 132):
            add(fam + '/swept', a, s, swept(rng(0, 15)), ('decoded', 'refused', 'canonical', 'non-canonical'), weight=20)
        elif s == 73:
            add(fam + '/swept', a, s, swept(rng(0, 27)), ('decoded', 'refused', 'canonical'), weight=20)
        elif (a, s) == (25, 70):
            for code in sorted(EVPN.registered_evpn) + [0x7f]:
                tag = 'generic' if code not in EVPN.registered_evpn else 'type%d' % code
                lens = rng(0, 62) if th or tag == 'generic' else EVPN_QUICK.get(code, rng(0, 62))
                if tag == 'generic':
                    lens = rng(0, 8)
                add('%s/%s' % (fam, tag), a, s, swept(lens, head=lambda L, code=code: [code, max(0, L - 2)]), weight=60, kind='%s:%s' % (fam, tag))
            add(fam + '/free', a, s, swept(rng(0, 5)), weight=60)
            add(fam + '/addpath-flag', a, s, swept([27], head=lambda L: [1, L - 2]), ('decoded',), addpath=True, weight=5, kind=fam + ':type1')
        elif s == 85:
            for key in sorted(MUP.registered_mup) + ['1:99']:
                arch, code = [int(x) for x in key.split(':')]
                tag = 'generic' if key not in MUP.registered_mup else 'arch%d-type%d' % (arch, code)
                top = 72 if a == 2 else 36
                lens = rng(0, top) if th else MUP_QUICK.get((a, key), rng(0, top))
                if tag == 'generic':
                    lens = rng(0, 9)
                add('%s/%s' % (fam, tag), a, s, swept(lens, head=lambda L, arch=arch, code=code: [arch] + be(code, 2) + [max(0, L - 4)]),
                    weight=200 if 'type3' in tag else 40, kind='%s:%s' % (fam, tag))
        elif s == 5:
            for code in sorted(MVPN.registered_mvpn) + [0x7f]:
                tag = 'generic' if code not in MVPN.registered_mvpn else 'type%d' % code
                lens = rng(0, 50) if th else MVPN_QUICK.get(code, rng(0, 50))
                if tag == 'generic':
                    lens = rng(0, 8)
                add('%s/%s' % (fam, tag), a, s, swept(lens, head=lambda L, code=code: [code, max(0, L - 2)]), weight=40, kind='%s:%s' % (fam, tag))
            add(fam + '/free', a, s, swept(rng(0, 5)), weight=40)
        elif a == 16388:
            vpn = s == 72
            for code in sorted(BGPLS.registered_bgpls) + [0x7f]:
                tag = 'generic' if code not in BGPLS.registered_bgpls else 'type%d' % code
                for shape_name, builder in bgpls_shapes(code, vpn, th).items():
                    add('%s/%s/%s' % (fam, tag, shape_name), a, s, builder, BGPLS_COVER.get((code, shape_name), ('decoded', 'refused')), weight=60, kind='%s:%s' % (fam, tag))
        else:
            # a family registered after this file was written: every length up to 12 (16 thorough), all bytes symbolic
            add(fam + '/swept', a, s, swept(rng(0, 16 if th else 12)), weight=100)
    return us


# lengths at which each route type accepts something (header included), plus their neighbours; thorough sweeps every length
EVPN_QUICK = {
    1: rng(0, 3) + rng(23, 31),                       # RD ESI ETag + label stack
    2: [31, 32, 34, 35, 38, 39, 42, 51, 54, 55],     # MAC: 35/38 (no ip) 39/42 (ipv4) 51/54 (ipv6); the ip-length octet is enumerated (dict literal .get)
    3: rng(13, 20) + rng(30, 32),                     # inclusive multicast: 19 / 31
    4: rng(19, 26) + rng(36, 38),                     # ethernet segment: 25 / 37
    5: rng(34, 37) + rng(59, 61),                     # prefix: 36 / 60
}
MUP_QUICK = {
    (1, '1:1'): rng(11, 18), (2, '1:1'): rng(11, 18) + rng(28, 30),
    (1, '1:2'): rng(14, 17) + rng(27, 29), (2, '1:2'): rng(14, 17) + rng(27, 29),
    (1, '1:3'): rng(12, 15) + rng(22, 30), (2, '1:3'): rng(12, 15) + rng(22, 30) + [40, 52, 69],
    (1, '1:4'): rng(12, 22), (2, '1:4'): rng(12, 14) + rng(28, 34),
}
MVPN_QUICK = {5: rng(0, 2) + rng(19, 21) + rng(43, 45), 6: rng(0, 2) + rng(23, 25) + rng(47, 49), 7: rng(0, 2) + rng(23, 25) + rng(47, 49)}


# ---- BGP-LS NLRI shapes: protocol-id and TLV types / lengths concrete (the decoders hash them), every value byte symbolic

BGPLS_COVER = {}


def _node_desc(ctx, name, proto, router_len=None, with_area=False):
    """node descriptor sub-TLVs: AS, BGP-LS id, [area], IGP router id"""
    v = tlv16(512, sym(ctx, name + '.as', 4)) + tlv16(513, sym(ctx, name + '.id', 4))
    if with_area:
        v += tlv16(514, sym(ctx, name + '.area', 4))
    if router_len is None:
        router_len = 6 if proto in (1, 2) else 4
    v += tlv16(515, sym(ctx, name + '.rid', router_len))
    return v


def bgpls_shapes(code, vpn, th):
    """name -> builder.  The NLRI is [type(2)][length(2)][RD(8) if vpn][protocol-id(1)][identifier(8)][descriptor TLVs]"""
    def wrap(body_fn):
        def f(ctx):
            body = body_fn(ctx)
            rd = sym(ctx, 'rd', 8) if vpn else []
            return be(code, 2) + be(len(rd) + len(body), 2) + rd + body
        return f

    def head(ctx, protos=(2, 3)):
        proto = ctx.pick('proto', protos)
        return proto, [proto] + sym(ctx, 'ident', 8)

    shapes = {}
    if code == 0x7f:
        shapes['free'] = wrap(lambda ctx: sym(ctx, 'p', ctx.pick('n', rng(0, 6))))
        BGPLS_COVER[(code, 'free')] = ('decoded',)
        return shapes

    def short(ctx):
        n = ctx.pick('n', rng(0, 12))
        return ([ctx.pick('proto', (2, 9))] + sym(ctx, 'p', n - 1)) if n else []
    shapes['short'] = wrap(short)
    BGPLS_COVER[(code, 'short')] = ('refused',)

    def node(ctx):
        proto, h = head(ctx, (1, 3, 227))
        rl = ctx.pick('rl', (4, 8)) if proto != 1 else ctx.pick('rl', (6, 7))
        return h + tlv16(256, _node_desc(ctx, 'n', proto, rl, with_area=bool(ctx.choice('area', 2))))

    def node_free(ctx):
        # one descriptor TLV of the right type whose sub-TLV octets are all free
        proto, h = head(ctx, (3,))
        n = ctx.pick('n', rng(0, 9 if th else 7))
        return h + tlv16(256, sym(ctx, 'd', n))

    def node_wrong(ctx):
        proto, h = head(ctx, (3,))
        return h + tlv16(ctx.pick('t', (257, 258)), sym(ctx, 'd', 4))

    if code in (1,):
        shapes['node'] = wrap(node)
        BGPLS_COVER[(code, 'node')] = ('decoded',)
        shapes['desc-free'] = wrap(node_free)
        shapes['wrong-tlv'] = wrap(node_wrong)
        BGPLS_COVER[(code, 'wrong-tlv')] = ('refused',)
    elif code == 2:
        def link(ctx):
            proto, h = head(ctx, (2, 3))
            v = h + tlv16(256, _node_desc(ctx, 'l', proto)) + tlv16(257, _node_desc(ctx, 'r', proto))
            which = ctx.pick('with', ('linkid', 'v4', 'v6', 'mt', 'all'))
            if which in ('linkid', 'all'):
                v += tlv16(258, sym(ctx, 'lid', 8))
            if which in ('v4', 'all'):
                v += tlv16(259, sym(ctx, 'if4', 4)) + tlv16(260, sym(ctx, 'ne4', 4))
            if which in ('v6', 'all'):
                v += tlv16(261, sym(ctx, 'if6', 16)) + tlv16(262, sym(ctx, 'ne6', 16))
            if which in ('mt', 'all'):
                v += tlv16(263, sym(ctx, 'mt', 2 * ctx.pick('nmt', (1, 2))))
            return v

        def link_badlen(ctx):
            proto, h = head(ctx, (3,))
            t, n = ctx.pick('tl', ((258, 7), (258, 9), (259, 3), (260, 5), (261, 15), (263, 1), (263, 3), (999, 2)))
            return h + tlv16(256, _node_desc(ctx, 'l', proto)) + tlv16(t, sym(ctx, 'v', n))
        shapes['link'] = wrap(link)
        BGPLS_COVER[(code, 'link')] = ('decoded',)
        shapes['sub-tlv-lengths'] = wrap(link_badlen)
        shapes['desc-free'] = wrap(node_free)
    elif code in (3, 4):
        plen = 4 if code == 3 else 16

        def prefix(ctx):
            proto, h = head(ctx, (2, 3))
            v = h + tlv16(256, _node_desc(ctx, 'l', proto))
            if ctx.choice('ospf', 2):
                v += tlv16(264, sym(ctx, 'ospf', 1))
            n = ctx.pick('pn', (0, 1, 2, plen))
            v += tlv16(265, sym(ctx, 'plen', 1) + sym(ctx, 'pfx', n))
            return v

        def prefix_odd(ctx):
            proto, h = head(ctx, (3,))
            which = ctx.pick('which', ('no-reach', 'empty-reach', 'ospf-2', 'mt', 'no-node'))
            v = h + (tlv16(256, _node_desc(ctx, 'l', proto)) if which != 'no-node' else [])
            if which == 'empty-reach':
                v += tlv16(265, [])
            elif which == 'ospf-2':
                v += tlv16(264, sym(ctx, 'ospf', 2)) + tlv16(265, sym(ctx, 'r', 2))
            elif which == 'mt':
                v += tlv16(263, sym(ctx, 'mt', 2)) + tlv16(265, sym(ctx, 'r', 3))
            elif which == 'no-node':
                v += tlv16(265, sym(ctx, 'r', 3))
            return v
        shapes['prefix'] = wrap(prefix)
        BGPLS_COVER[(code, 'prefix')] = ('decoded',)
        shapes['odd'] = wrap(prefix_odd)
        shapes['desc-free'] = wrap(node_free)
        BGPLS_COVER[(code, 'desc-free')] = ('refused',)
    elif code == 6:
        def sid(ctx):
            proto, h = head(ctx, (2, 3))
            v = h + tlv16(256, _node_desc(ctx, 'l', proto))
            which = ctx.pick('with', ('sid', 'mt+sid', 'none', 'sid-15', 'other'))
            if which == 'mt+sid':
                v += tlv16(263, sym(ctx, 'mt', 2))
            if which in ('sid', 'mt+sid'):
                v += tlv16(518, sym(ctx, 'sid', 16))
            if which == 'sid-15':
                v += tlv16(518, sym(ctx, 'sid', 15))
            if which == 'other':
                v += tlv16(999, sym(ctx, 'x', 3))
            return v
        shapes['sid'] = wrap(sid)
        BGPLS_COVER[(code, 'sid')] = ('decoded', 'refused')
        shapes['desc-free'] = wrap(node_free)
        shapes['wrong-tlv'] = wrap(node_wrong)
        BGPLS_COVER[(code, 'wrong-tlv')] = ('refused',)
    else:
        # a BGP-LS NLRI type registered later: descriptor octets free after a valid fixed part
        shapes['desc-free'] = wrap(node_free)
        BGPLS_COVER[(code, 'desc-free')] = ()
    return shapes



# ============================================================================= attributes: decode -> encode

from exabgp.bgp.message.update.attribute.attribute import TreatAsWithdraw, Discard   # noqa: E402
from exabgp.bgp.message.update.attribute.community.extended.community import ExtendedCommunity, ExtendedCommunityIPv6   # noqa: E402
from exabgp.bgp.message.update.attribute.bgpls.linkstate import LinkState   # noqa: E402
from exabgp.bgp.message.update.attribute.sr.prefixsid import PrefixSid   # noqa: E402
from exabgp.bgp.message.update.attribute.pmsi import PMSI   # noqa: E402
from exabgp.bgp.message.update.attribute.tunnel_encap.tlv import TunnelTypeTLV, SubTLV   # noqa: E402
from exabgp.bgp.message.update.nlri.collection import MPNLRICollection   # noqa: E402
import exabgp.bgp.message.update.attribute.bgpls.linkstate as _m_ls   # noqa: E402

_silence(_m_ls)

REFUSAL = (Notify, ValueError, IndexError)   # what AttributeCollection.parse handles around Attribute.unpack


class Shape:
    """octets of one attribute value + the terms under which they are canonical (None: idempotence only)"""

    def __init__(self, items, canon=(), why='', tag=''):
        self.items = list(items)
        self.canon = canon
        self.why = why
        self.tag = tag      # input class a known defect is tied to: part of the obligation signatures only


def split_attributes(out):
    """[(flag, code, value)] of packed path attributes (the header octets are concrete: they come from class constants)"""
    res = []
    i = 0
    n = len(out)
    while i < n:
        if n - i < 3:
            return None
        flag, code = out[i], out[i + 1]
        if int(flag) & 0x10:
            if n - i < 4:
                return None
            ln = int(out[i + 2]) * 256 + int(out[i + 3])
            h = 4
        else:
            ln = int(out[i + 2])
            h = 3
        if i + h + ln > n:
            return None
        res.append((int(flag), int(code), out[i + h:i + h + ln]))
        i += h + ln
    return res


def repack_mp(ctx, obj, neg, code):
    """codes 14/15 hold the wire octets and are re-encoded by MPNLRICollection (what UpdateCollection.messages does)"""
    afi, safi = obj.afi, obj.safi
    if code == 14:
        coll = MPNLRICollection.from_routed(list(obj.iter_routed()), {}, afi, safi)
        outs = list(coll.packed_reach_attributes(neg))
    else:
        coll = MPNLRICollection(list(obj), {}, afi, safi)
        outs = list(coll.packed_unreach_attributes(neg))
    out = None
    for o in outs:
        out = B(ctx, o) if out is None else out + B(ctx, o)
    return mk(ctx, []) if out is None else out


def dec_attr(ctx, code, flag, shape, asn4=True, kind=None, deep=None):
    """The generic decode->encode obligation for one attribute value (same scheme as dec_nlri)."""
    kind = (kind or 'attr-%d' % code) + shape.tag
    neg = session(False, asn4)
    data = mk(ctx, shape.items)
    try:
        obj = Attribute.unpack(code, flag, data, neg)
        if code in (14, 15) and not isinstance(obj, (TreatAsWithdraw, Discard)):
            # MP_REACH / MP_UNREACH keep the wire octets and decode their routes when iterated: decoding IS iterating
            n_routes = len(list(obj))
    except REFUSAL as exc:
        ctx.cover('refused')
        ctx.note('class', 'refused')
        return ('refused', type(exc).__name__)
    except Exception as exc:
        # which exceptions may escape a decoder is property C03, not C15: here it is a refusal, kept in the census
        ctx.cover('refused')
        ctx.note('class', 'refused-by-%s' % type(exc).__name__)
        return ('raises', type(exc).__name__)
    if isinstance(obj, (TreatAsWithdraw, Discard)):
        ctx.cover('refused')
        ctx.note('class', 'refused:%s' % type(obj).__name__)
        return ('refused', type(obj).__name__)
    klass = type(obj).__name__
    if code in (14, 15) and n_routes == 0:
        # no route inside: for MP_UNREACH this is the End-of-RIB marker of the family (RFC 4724 2), which Update.parse
        # turns into an EOR message; there is nothing for pack to give back
        ctx.cover('refused')
        ctx.note('class', 'no-route-inside')
        return ('no-route-inside', klass)
    ctx.cover('decoded')
    ctx.note('class', 'decoded:%s' % klass)
    try:
        out = repack_mp(ctx, obj, neg, code) if code in (14, 15) else B(ctx, obj.pack_attribute(neg))
    except Exception as exc:
        ctx.check('packs', False, sig='C15:dec:attr-%d:pack-raises-%s' % (code, type(exc).__name__), info={'data': data, 'raised': str(exc)[:200]})
        render_witness(ctx, kind, lambda: Attribute.unpack(code, flag, bytes(data), neg))
        return ('decoded', klass, 'pack-raises')
    if len(out) == 0:
        # an OPTIONAL attribute with an empty value is not sent at all (Attribute._attribute): the empty value round trips to absence
        chk(ctx, 'empty-only-when-empty', len(data) == 0, 'C15:dec:%s:reencoded-to-nothing' % kind, lambda: {'in': data})
        ctx.cover('canonical')
        render_witness(ctx, kind, lambda: Attribute.unpack(code, flag, bytes(data), neg))
        return ('decoded', klass, 'omitted-when-empty')
    parts = split_attributes(out)
    ok = chk(ctx, 'well-formed-tlv', parts is not None and len(parts) >= 1, 'C15:dec:%s:reencoded-not-a-tlv' % kind, lambda: {'in': data, 'out': out})
    if not ok:
        return ('decoded', klass, 'not-a-tlv')
    oflag, ocode, value = parts[0]
    want_flag = (int(flag) & 0xEF) | (0x10 if len(value) > 255 else 0)
    chk(ctx, 'header', ocode == code and oflag == want_flag and len(parts) == 1, 'C15:dec:%s:reencoded-header' % kind,
        lambda: {'flag': oflag, 'code': ocode, 'attributes': len(parts), 'want-flag': want_flag})
    if shape.canon is None:
        verdict = 'normal-form-only'
        ctx.cover('non-canonical')
    else:
        canon = s_and(*shape.canon)
        chk(ctx, 'reencode', s_implies(canon, sx_eq(value, data)), 'C15:dec:%s:reencode-differs' % kind, lambda: {'in': data, 'out': value})
        if bool(canon):
            verdict = 'canonical'
            ctx.cover('canonical')
        else:
            verdict = 'non-canonical:' + shape.why
            ctx.cover('non-canonical')
    if deep is not None:
        deep(ctx, obj, data, kind, neg)
    # what ExaBGP packed is its own encoding: it decodes to an equal attribute which packs to the same octets
    try:
        again = Attribute.unpack(code, flag, value, neg)
        if code in (14, 15):
            list(again)
    except Exception as exc:
        ctx.check('reencoded-decodes', False, sig='C15:dec:%s:reencoded-refused' % kind, info={'in': data, 'out': value, 'raised': '%s %s' % (type(exc).__name__, str(exc)[:160])})
        return ('decoded', klass, verdict, 'reencoded-refused')
    if code in (14, 15):
        # the object IS its wire octets (next hop included); what must be equal is the routes it yields
        same = [eq_by_class(x, y) for x, y in zip(list(obj), list(again))]
        chk(ctx, 'equal-attribute', len(list(obj)) == len(list(again)) and all(same), 'C15:dec:%s:redecoded-routes-not-equal' % kind, lambda: {'in': data, 'out': value})
    else:
        chk(ctx, 'equal-attribute', type(again) is type(obj) and eq_by_class(again, obj), 'C15:dec:%s:redecoded-attribute-not-equal' % kind,
            lambda: {'in': data, 'out': value, 'first': str(state(obj))[:300], 'second': str(state(again))[:300]})
    try:
        out2 = repack_mp(ctx, again, neg, code) if code in (14, 15) else B(ctx, again.pack_attribute(neg))
        chk(ctx, 'same-octets', sx_eq(out2, out), 'C15:dec:%s:repack-differs' % kind, lambda: {'in': data, 'out': out, 'again': out2})
    except Exception as exc:
        ctx.check('same-octets', False, sig='C15:dec:%s:repack-raises-%s' % (kind, type(exc).__name__))
    render_witness(ctx, kind, lambda: Attribute.unpack(code, flag, bytes(data), neg))
    return ('decoded', klass, verdict)


# ---- deep obligations: the collection attributes hand out element objects which must pack back to their octets


def deep_elements(attr_name, size):
    def deep(ctx, obj, data, kind, neg):
        elems = list(getattr(obj, attr_name))
        chk(ctx, 'element-count', len(elems) * size == len(getattr(obj, '_packed')), 'C15:dec:%s:element-count' % kind)
        got = mk(ctx, [])
        for e in elems:
            got = got + B(ctx, e.pack_attribute(neg) if hasattr(e, 'pack_attribute') else e.pack())
        chk(ctx, 'elements-pack-back', sx_eq(got, B(ctx, obj._packed)), 'C15:dec:%s:elements-repack-differs' % kind, lambda: {'in': data, 'out': got})
    return deep


def deep_extended(registry):
    inner = deep_elements('communities', 8 if registry is ExtendedCommunity else 20)

    def deep(ctx, obj, data, kind, neg):
        inner(ctx, obj, data, kind, neg)
        for i, e in enumerate(obj.communities):
            key = (int(data[i * len(e)]) & 0x0F, int(data[i * len(e) + 1])) if not ctx.sym or all(type(x) is int for x in (data[i * len(e)], data[i * len(e) + 1])) else None
            if key is not None and key in registry.registered_extended:
                chk(ctx, 'registered-class', type(e) is registry.registered_extended[key], 'C15:dec:%s:wrong-subtype-class' % kind,
                    lambda: {'got': type(e).__name__, 'want': registry.registered_extended[key].__name__})
    return deep


DEEP = {8: deep_elements('communities', 4), 32: deep_elements('communities', 12), 16: deep_extended(ExtendedCommunity), 25: deep_extended(ExtendedCommunityIPv6)}


# ---- shapes per attribute code: name -> (builder(ctx) -> Shape, must_cover, options)

ALL = ('decoded', 'refused', 'canonical')


def sh_swept(lengths):
    lengths = list(lengths)
    return lambda ctx: Shape(sym(ctx, 'p', ctx.pick('L', lengths)))


def sh_aspath(asn4, segs):
    """segments: ((type or None, counts), ...): type symbolic when None; count picked from counts"""
    size = 4 if asn4 else 2

    def f(ctx):
        items = []
        empty = False
        for i, (t, counts) in enumerate(segs):
            c = ctx.pick('c%d' % i, counts)
            empty = empty or c == 0
            items += [ctx.byte('t%d' % i) if t is None else t, c] + sym(ctx, 's%d' % i, c * size)
        if empty and not asn4:
            # a zero-length segment is malformed (RFC 7606 7.2; that it is accepted is C08's finding F16).  A 4-octet session
            # gives the stored octets back; a 2-octet session rebuilds the path from its segments and the empty one is not written
            return Shape(items, [False], 'zero-length-segment', tag=':zero-length-segment')
        return Shape(items)
    return f


def sh_large(ctx):
    n = ctx.pick('n', (0, 1, 2, 3))
    items = sym(ctx, 'lc', 12 * n)
    chunks = [mk(ctx, items[12 * i:12 * i + 12]) for i in range(n)]
    # RFC 8092 5: "a receiving speaker SHOULD silently remove redundant BGP Large Community values": duplicates are dropped on decode
    canon = [s_not(sx_eq(chunks[i], chunks[j])) for i in range(n) for j in range(i + 1, n)]
    return Shape(items, canon, 'duplicate-large-community')


def sh_aigp(ctx):
    which = ctx.pick('which', ('one', 'two-aigp', 'other-first', 'other-after', 'len-sym', 'short'))
    tlv = lambda name, t=1, ln=11, n=8: [t] + be(ln, 2) + sym(ctx, name, n)
    if which == 'one':
        return Shape(tlv('m'))
    if which == 'two-aigp':
        # RFC 7311 3: only the first AIGP TLV is used; ExaBGP keeps that one alone
        return Shape(tlv('m') + tlv('m2'), [False], 'aigp-extra-tlv')
    if which == 'other-first':
        return Shape(tlv('x', 2, 5, 2) + tlv('m'), [False], 'aigp-extra-tlv')
    if which == 'other-after':
        return Shape(tlv('m') + tlv('x', 9, 4, 1), [False], 'aigp-extra-tlv')
    if which == 'len-sym':
        lo = ctx.int('ln', 0, 14)
        return Shape([ctx.byte('t'), 0, lo] + sym(ctx, 'm', 8))
    return Shape(sym(ctx, 'p', ctx.pick('L', (0, 1, 2, 3, 10, 12))))


def sh_pmsi(lengths):
    def f(ctx):
        L = ctx.pick('L', lengths)
        return Shape(sym(ctx, 'p', L))
    return f


def sh_ext(size, t, sub):
    """one extended community of a registered (type, subtype): the four high bits of the type octet (IANA authority,
    transitive, ...) and the value octets symbolic"""
    def f(ctx):
        hi = ctx.int('hi', 0, 15)
        return Shape([hi * 16 + t, sub] + sym(ctx, 'v', size - 2))
    return f


def sh_prefixsid(tlv, th):
    def f(ctx):
        if tlv == 1:
            n = ctx.pick('n', (0, 6, 7, 8))
            return Shape([1] + be(n, 2) + sym(ctx, 'v', n))
        if tlv == 3:
            n = ctx.pick('n', (0, 1, 2, 7, 8, 9, 14))
            return Shape([3] + be(n, 2) + sym(ctx, 'v', n))
        if tlv in (5, 6):
            which = ctx.pick('which', ('empty', 'reserved-only', 'sid-info', 'sid-info+structure', 'sid-info-short', 'generic-sub', 'sub-free'))
            if which == 'empty':
                body = []
            elif which == 'reserved-only':
                body = sym(ctx, 'rsv', 1)
            elif which in ('sid-info', 'sid-info+structure', 'sid-info-short'):
                info = sym(ctx, 'r1', 1) + sym(ctx, 'sid', 16) + sym(ctx, 'fl', 1) + sym(ctx, 'beh', 2) + sym(ctx, 'r2', 1)
                if which == 'sid-info+structure':
                    info += [1, 0, 6] + sym(ctx, 'st', 6)
                if which == 'sid-info-short':
                    info = info[:ctx.pick('k', (0, 20))]
                body = sym(ctx, 'rsv', 1) + [1] + be(len(info), 2) + info
            elif which == 'generic-sub':
                body = sym(ctx, 'rsv', 1) + [9, 0, 2] + sym(ctx, 'g', 2)
            else:
                body = sym(ctx, 'rsv', 1) + sym(ctx, 'f', ctx.pick('n', rng(1, 5 if th else 4)))
            return Shape([tlv] + be(len(body), 2) + body)
        # unknown / later registered TLV
        n = ctx.pick('n', rng(0, 6))
        return Shape([tlv] + be(n, 2) + sym(ctx, 'v', n))
    return f


def sh_prefixsid_free(lengths):
    return lambda ctx: Shape(sym(ctx, 'p', ctx.pick('L', lengths)))


def sh_prefixsid_two(ctx):
    return Shape([1, 0, 7] + sym(ctx, 'li', 7) + [3, 0, 8] + sym(ctx, 'gb', 8))


def sh_ls(code, lengths):
    def f(ctx):
        n = ctx.pick('n', lengths)
        return Shape(be(code, 2) + be(n, 2) + sym(ctx, 'v', n))
    return f


def sh_ls_srv6(code, base, lengths):
    """SRv6 End.X / LAN End.X (1106-1108): fixed part symbolic, then nothing, one SID-structure sub-TLV (1252), one unknown
    sub-TLV, or a cut sub-TLV header: the sub-TLV type and length are concrete (the decoder slices on them)"""
    def f(ctx):
        which = ctx.pick('which', ('short',) + ('base', 'sid-structure', 'unknown-sub', 'cut-header'))
        if which == 'short':
            n = ctx.pick('n', lengths)
            return Shape(be(code, 2) + be(n, 2) + sym(ctx, 'v', n))
        # 1108: the last four octets of the fixed part are two concrete patterns (the decoder of the pinned tree reads them as a
        # sub-TLV header, see repro_5: free octets there are 65536 slice bounds)
        v = sym(ctx, 'v', base) if code != 1108 else sym(ctx, 'v', base - 4) + list(ctx.pick('tail', ((0, 0, 0, 0), (0x12, 0x34, 0, 0))))
        if which == 'sid-structure':
            v += be(1252, 2) + be(4, 2) + sym(ctx, 'st', 4)
        elif which == 'unknown-sub':
            v += be(4242, 2) + be(3, 2) + sym(ctx, 'u', 3)
        elif which == 'cut-header':
            v += sym(ctx, 'c', ctx.pick('k', (1, 3)))
        return Shape(be(code, 2) + be(len(v), 2) + v)
    return f


def sh_ls_truncated(ctx):
    """the TLV walker of the attribute itself: fewer octets than a header, and a header whose length overruns"""
    n = ctx.pick('L', rng(0, 5))
    if n < 4:
        return Shape(sym(ctx, 'p', n))
    code = ctx.pick('code', (1028, 4242))
    return Shape(be(code, 2) + sym(ctx, 'len', 2) + sym(ctx, 'p', n - 4))


def sh_ls_two(a, na, b, nb):
    return lambda ctx: Shape(be(a, 2) + be(na, 2) + sym(ctx, 'a', na) + be(b, 2) + be(nb, 2) + sym(ctx, 'b', nb))


def sh_tunnel_sub(sub, th):
    """one SR-policy tunnel (type 15) holding one sub-TLV of the given type"""
    def wrap(subitems, canon=(), why=''):
        return Shape(be(15, 2) + be(len(subitems), 2) + subitems, canon, why)

    def hdr(n):
        return [sub, n] if sub < 128 else [sub] + be(n, 2)

    def f(ctx):
        if sub == 12:   # preference: flags(1) reserved(1) preference(4)
            n = ctx.pick('n', (6, 0, 5, 7))
            v = sym(ctx, 'v', n)
            # RFC 9830 2.4.1: reserved MUST be zero on transmission, ignored on receipt
            return wrap(hdr(n) + v, [n == 6 and v[1] == 0] if n == 6 else [False], 'reserved-octet-or-size')
        if sub == 15:   # priority: priority(1) reserved(1)
            n = ctx.pick('n', (2, 0, 1, 3))
            v = sym(ctx, 'v', n)
            return wrap(hdr(n) + v, [v[1] == 0] if n == 2 else [False], 'reserved-octet-or-size')
        if sub == 13:   # binding sid: flags(1) reserved(1) [label entry(4)]
            n = ctx.pick('n', (2, 6, 0, 1, 18))
            v = sym(ctx, 'v', n)
            # what BindingSIDSubTLV.pack_value writes: reserved octet 0; with a label: flag 0x10 set, the 12 bits after the
            # 20-bit label are TC=0 S=1 TTL=0 (RFC 9830 2.4.2: those bits and the unassigned flags are ignored on receipt)
            if n == 2:
                canon = [v[1] == 0]
            elif n == 6:
                canon = [v[1] == 0, (v[0] // 16) % 2 == 1, v[4] % 16 == 1, v[5] == 0]
            else:
                canon = [False]
            return wrap(hdr(n) + v, canon, 'binding-sid-ignored-bits-or-size')
        if sub == 20:   # srv6 binding sid: flags reserved sid(16) [behavior+structure(8)]
            n = ctx.pick('n', (18, 26, 0, 17))
            v = sym(ctx, 'v', n)
            return wrap(hdr(n) + v, None, 'srv6-binding-sid')
        if sub in (129, 130):   # names: flags(1) + utf-8 text
            which = ctx.pick('which', ('empty', 'flags-only', 'one-octet', 'ascii', 'two-octet-utf8', 'invalid-utf8'))
            if which == 'empty':
                v = []
            elif which == 'flags-only':
                v = sym(ctx, 'fl', 1)
            elif which == 'one-octet':
                v = sym(ctx, 'fl', 1) + sym(ctx, 'c', 1)
            elif which == 'ascii':
                v = sym(ctx, 'fl', 1) + list(b'edge-1 "x"\\')
            elif which == 'two-octet-utf8':
                v = sym(ctx, 'fl', 1) + list('é'.encode())
            else:
                v = sym(ctx, 'fl', 1) + [0xff, 0x41]
            return wrap(hdr(len(v)) + v, None, 'name')
        if sub == 128:  # segment list: reserved(1) + sub-sub-TLVs (weight 9, segments 1..)
            which = ctx.pick('which', ('empty', 'reserved-only', 'weight', 'type-a', 'type-b', 'weight+a+b', 'free'))
            if which == 'empty':
                v = []
            elif which == 'reserved-only':
                v = sym(ctx, 'r', 1)
            elif which == 'weight':
                v = sym(ctx, 'r', 1) + [9, 6] + sym(ctx, 'w', 6)
            elif which == 'type-a':
                v = sym(ctx, 'r', 1) + [1, 6] + sym(ctx, 'a', 6)
            elif which == 'type-b':
                v = sym(ctx, 'r', 1) + [13, 18] + sym(ctx, 'b', 18)
            elif which == 'weight+a+b':
                v = sym(ctx, 'r', 1) + [9, 6] + sym(ctx, 'w', 6) + [1, 6] + sym(ctx, 'a', 6) + [13, 18] + sym(ctx, 'b', 18)
            else:
                v = sym(ctx, 'r', 1) + sym(ctx, 'f', ctx.pick('n', rng(1, 4 if th else 3)))
            return wrap(hdr(len(v)) + v, None, 'segment-list')
        n = ctx.pick('n', rng(0, 4))
        return wrap(hdr(n) + sym(ctx, 'v', n))
    return f


def sh_tunnel_generic(ctx):
    which = ctx.pick('which', ('unknown-tunnel', 'two', 'truncated', 'unknown-sub-short', 'unknown-sub-long', 'empty-tunnel'))
    if which == 'unknown-tunnel':
        n = ctx.pick('n', rng(0, 4))
        return Shape(sym(ctx, 't', 2) + be(n, 2) + sym(ctx, 'v', n), None, 'tunnel')
    if which == 'two':
        return Shape(be(8, 2) + be(2, 2) + sym(ctx, 'a', 2) + be(15, 2) + be(8, 2) + [12, 6] + sym(ctx, 'p', 6), None, 'tunnel')
    if which == 'truncated':
        return Shape(sym(ctx, 'p', ctx.pick('L', rng(1, 5))), None, 'tunnel')
    if which == 'unknown-sub-short':
        return Shape(be(15, 2) + be(5, 2) + [77, 3] + sym(ctx, 'v', 3))
    if which == 'unknown-sub-long':
        return Shape(be(15, 2) + be(6, 2) + [200, 0, 3] + sym(ctx, 'v', 3))
    return Shape(be(15, 2) + be(0, 2))


MP_FAMILIES = ((1, 1, 4), (2, 1, 16), (1, 4, 4), (1, 128, 12), (2, 128, 24), (25, 70, 4), (1, 133, 0))


def sh_mp(code):
    def f(ctx):
        afi, safi, nhl = ctx.pick('fam', MP_FAMILIES)
        v = be(afi, 2) + [safi]
        canon = []
        why = ''
        if code == 14:
            alt = ctx.pick('nh', ('usual', 'llnh')) if (afi, safi) == (2, 1) else 'usual'
            if alt == 'llnh':
                nhl = 32
                # RFC 2545 3: global + link-local next hop; the route keeps the global one (iter_routed), so 16 octets come back
                canon, why = [False], 'link-local-next-hop-not-kept'
            rd = 8 if safi == 128 else 0
            v += [nhl] + [0] * rd + sym(ctx, 'nh', nhl - rd) + [0]
        if (afi, safi) in ((1, 1), (2, 1)):
            n = ctx.pick('n', (1, 2))
            for i in range(n):
                nb = (1, 3)[i % 2] if afi == 1 else (2, 8)[i % 2]
                mask = ctx.int('m%d' % i, 8 * (nb - 1) + 1, 8 * nb)
                v += [mask] + sym(ctx, 'p%d' % i, nb)
        elif safi == 4:
            v += [24 + 16] + sym(ctx, 'l', 2) + [ctx.int('lb', 0, 15) * 16 + 1] + sym(ctx, 'p', 2)
        elif safi == 128:
            v += [24 + 64 + 16] + sym(ctx, 'l', 2) + [ctx.int('lb', 0, 15) * 16 + 1] + sym(ctx, 'rd', 8) + sym(ctx, 'p', 2)
        elif safi == 70:
            v += [3, 17] + sym(ctx, 'rd', 8) + sym(ctx, 'et', 4) + [32] + sym(ctx, 'ip', 4)
        elif safi == 133:
            v += [3, 3, 0x81] + sym(ctx, 'proto', 1)
            canon, why = None, 'flow'
        return Shape(v, canon, why)
    return f


LS_SRV6 = {1106: 22, 1107: 28, 1108: 26}   # fixed part of the SRv6 End.X / LAN End.X TLVs, sub-TLVs follow
LS_LENGTH_HINTS = {   # payload sizes at which a BGP-LS attribute TLV accepts something, beyond its LEN and the generic 0..8
    1027: (1, 13), 1028: (4,), 1029: (16,), 1030: (4,), 1031: (16,), 1034: (12, 13), 1035: (1, 3), 1091: (32,), 1096: (4, 8, 12), 1099: (7, 8),
    1100: (11, 12, 13, 14), 1252: (4,), 1038: (4,), 1162: (8, 16), 1250: (4,),
    1114: (4,), 1115: (8,), 1116: (4,), 1117: (4,), 1118: (4,), 1119: (4,), 1120: (4,), 258: (8,), 1152: (1,), 1153: (4, 8), 1154: (8, 16),
    1155: (4,), 1156: (4, 16), 1158: (7, 8), 1170: (1,), 1171: (4, 16), 1026: (1, 5), 1098: (1, 5), 1088: (4,), 1089: (4,), 1090: (4,), 1092: (4,),
    1093: (2,), 1094: (1,), 1095: (1, 2, 3), 1024: (1,),
}


def attr_plans(tier):
    """[(unit suffix, code, flag, builder, must_cover, options)] from the live registries"""
    th = tier == 'thorough'
    plans = []

    def add(name, code, flag, builder, cover=ALL, **opt):
        plans.append((name, code, flag, builder, tuple(cover), opt))

    for (code, kflag), klass in sorted(Attribute.registered_attributes.items()):
        flag = kflag & 0xEF
        c = str(code)
        if code == 1:
            add(c + '/swept', code, flag, sh_swept(rng(0, 3)))
        elif code in (2, 17):
            for asn4 in ((True, False) if code == 2 else (True,)):
                tag = 'asn4' if asn4 else 'asn2'
                add('%s/%s/one-segment' % (c, tag), code, flag, sh_aspath(asn4, ((None, (0, 1, 2, 3)),)), asn4=asn4, weight=30)
                add('%s/%s/two-segments' % (c, tag), code, flag, sh_aspath(asn4, ((None, (1, 2)), (None, (0, 1)))), asn4=asn4, weight=60)
                add('%s/%s/truncated' % (c, tag), code, flag, lambda ctx, a=asn4: Shape([ctx.byte('t'), ctx.pick('c', (1, 2, 255))] + sym(ctx, 's', ctx.pick('n', (0, 1, 3, 5)))), ('refused',), asn4=asn4)
                add('%s/%s/empty' % (c, tag), code, flag, lambda ctx: Shape([]), ('decoded',), asn4=asn4)
            if th:
                add(c + '/free', code, flag, sh_swept((1, 2, 3, 6)), ('decoded', 'refused'), weight=400, max_paths=60000)
        elif code == 3:
            add(c + '/swept', code, flag, sh_swept((0, 3, 4, 5, 15, 16, 17)))
        elif code in (4, 5, 9):
            add(c + '/swept', code, flag, sh_swept(rng(0, 6)))
        elif code == 6:
            add(c + '/swept', code, flag, sh_swept(rng(0, 2)))
        elif code == 7:
            add(c + '/asn4', code, flag, sh_swept(rng(5, 9)))
            add(c + '/asn2', code, flag, sh_swept(rng(5, 9)), asn4=False)
        elif code == 18:
            add(c + '/swept', code, flag, sh_swept(rng(6, 9)))
        elif code == 8:
            add(c + '/swept', code, flag, sh_swept((0, 3, 4, 5, 8, 12) if not th else rng(0, 16)))
        elif code == 10:
            add(c + '/swept', code, flag, sh_swept((0, 3, 4, 8, 9)))
        elif code in (14, 15):
            add(c + '/families', code, flag, sh_mp(code), ('decoded', 'canonical', 'non-canonical'), weight=100)
            add(c + '/short', code, flag, lambda ctx: (lambda fam, n: Shape((be(fam[0], 2) + [fam[1]] + sym(ctx, 'p', n))[:n + 3 if n >= 0 else 0]))(ctx.pick('fam', ((1, 1), (2, 1), (1, 128), (9, 9))), ctx.pick('n', rng(0, 4))),
                ('refused',), weight=30)
            add(c + '/truncated-header', code, flag, sh_swept(rng(0, 2)), ('refused',))
        elif code in (16, 25):
            size, reg = (8, ExtendedCommunity) if code == 16 else (20, ExtendedCommunityIPv6)
            add(c + '/swept', code, flag, sh_swept((0, size - 1, size, size + 1, 2 * size)), weight=40)
            for (t, sub), k in sorted(reg.registered_extended.items()):
                add('%s/type%d-sub%d' % (c, t, sub), code, flag, sh_ext(size, t, sub), ('decoded', 'canonical'), kind='attr-%d:%s' % (code, k.__name__))
            add('%s/unregistered' % c, code, flag, sh_ext(size, 5, 99), ('decoded', 'canonical'))
        elif code == 22:
            add(c + '/swept', code, flag, sh_pmsi(rng(0, 10) if not th else rng(0, 22)), weight=40)
            for t, k in sorted(PMSI._pmsi_known.items()):
                sizes = sorted(set([5 + (k.TUNNEL_SIZE or 0), 5, 6, 9]))
                add('%s/tunnel%d' % (c, t), code, flag, lambda ctx, t=t, sizes=sizes: Shape(sym(ctx, 'fl', 1) + [t] + sym(ctx, 'v', ctx.pick('L', sizes) - 2)), ('decoded', 'canonical'),
                    kind='attr-22:%s' % k.__name__)
        elif code == 23:
            for sub, k in sorted(SubTLV.registered_subtypes.items()):
                add('%s/sr-policy/sub%d' % (c, sub), code, flag, sh_tunnel_sub(sub, th), ('decoded',), kind='attr-23:%s' % k.__name__, weight=80 if sub in (129, 130, 128) else 20)
            add(c + '/generic', code, flag, sh_tunnel_generic, ('decoded', 'refused'), weight=30)
            for t in sorted(TunnelTypeTLV.registered_tunnel_types):
                if t != 15:   # a tunnel type registered later: value octets free
                    add('%s/tunnel%d' % (c, t), code, flag, lambda ctx, t=t: (lambda n: Shape(be(t, 2) + be(n, 2) + sym(ctx, 'v', n), None, 'tunnel'))(ctx.pick('n', rng(0, 6))), ('decoded',))
        elif code == 26:
            add(c + '/tlvs', code, flag, sh_aigp, ('decoded', 'refused', 'canonical', 'non-canonical'), weight=30)
        elif code == 29:
            for tlv, k in sorted(LinkState.registered_lsids.items()):
                if tlv in LS_SRV6:
                    add('%s/tlv%d' % (c, tlv), code, flag, sh_ls_srv6(tlv, LS_SRV6[tlv], rng(0, 8) + ([LS_SRV6[tlv] - 1] if th else [])), ('decoded', 'refused'), kind='attr-29:%s' % k.__name__, weight=30)
                    continue
                lens = sorted(set(rng(0, 8) + [getattr(k, 'LEN', 0) or 0] + list(LS_LENGTH_HINTS.get(tlv, ())) + (rng(9, 16) if th else [])))
                add('%s/tlv%d' % (c, tlv), code, flag, sh_ls(tlv, lens), ('decoded',), kind='attr-29:%s' % k.__name__, weight=30)
            add(c + '/unknown-tlv', code, flag, sh_ls(4242, rng(0, 5)), ('decoded',))
            add(c + '/two-tlvs', code, flag, sh_ls_two(1095, 3, 1092, 4), ('decoded',))
            add(c + '/repeated', code, flag, sh_ls_two(1092, 4, 1092, 4), ('refused',))
            add(c + '/truncated', code, flag, sh_ls_truncated, ('decoded', 'refused'))
        elif code == 32:
            add(c + '/chunks', code, flag, sh_large, ('decoded', 'canonical', 'non-canonical'), weight=40)
            add(c + '/swept', code, flag, sh_swept((0, 11, 12, 13, 23)), ('decoded', 'refused'))
        elif code == 40:
            for tlv, k in sorted(PrefixSid.registered_srids.items()):
                add('%s/tlv%d' % (c, tlv), code, flag, sh_prefixsid(tlv, th), ('decoded',), kind='attr-40:%s' % k.__name__, weight=60)
            add(c + '/unknown-tlv', code, flag, sh_prefixsid(77, th), ('decoded', 'canonical'))
            add(c + '/two-tlvs', code, flag, sh_prefixsid_two, ('decoded', 'canonical'))
            add(c + '/free', code, flag, sh_prefixsid_free(rng(0, 5 if th else 4)), ('decoded', 'refused'), weight=60)
        else:
            # an attribute registered after this file was written: every length up to 8 (12 thorough), all octets symbolic
            add(c + '/swept', code, flag, sh_swept(rng(0, 12 if th else 8)), ('decoded',), weight=100)
    return plans


def attr_units(tier):
    th = tier == 'thorough'
    T = 1500 if th else 240
    us = []
    for name, code, flag, builder, cover, opt in attr_plans(tier):
        asn4 = opt.get('asn4', True)
        kind = opt.get('kind')
        us.append(Unit('dec/attr/' + name, lambda ctx, code=code, flag=flag, builder=builder, asn4=asn4, kind=kind: dec_attr(ctx, code, flag, builder(ctx), asn4, kind, DEEP.get(code)),
                       must_cover=cover, weight=opt.get('weight', 10), max_seconds=T, max_paths=opt.get('max_paths', 20000), reset=reset_state, hash_const=True))
    return us


def units(tier):
    us = []
    us += nlri_units(tier)
    us += attr_units(tier)
    return us
