"""C13 — API events stay well-formed whatever a peer sends.

What the solver does, and what it does not (level: exploration):
  * the real decoders run on symbolic octets (the same registry-driven sweep as C15: every registered NLRI family /
    route type, every registered attribute code, extended-community subtype, BGP-LS attribute TLV, prefix-SID TLV,
    tunnel-encapsulation sub-TLV, PMSI tunnel type, plus unknown attributes, every registered capability, NOTIFICATION,
    ROUTE-REFRESH, OPERATIONAL, KEEPALIVE): every feasible decoder path within the bound is enumerated by z3, so every
    structurally different decoded object within the bound is produced;
  * text is SAMPLED by this engine, so the rendering obligations are per-path WITNESSES: for every path z3 gives the
    path's ordinary model and up to four *hostile* models of the same path condition (ctx.prefer: soft constraints that
    push every free octet towards `"` `\\` LF CR NUL DEL 0x80-0xFF `}` `,` `:`; an injection payload `","z":"`; all
    LF/CR; all >= 0x80).  Each model is replayed in the clean interpreter: the octets are put in a complete message,
    decoded by the real Message.unpack, and pushed through the real Processes event methods (parsed / consolidate /
    packets, the way Protocol.read_message does) for the encoders Processes._start installs (JSON v6, JSON v4, text
    v4) and Response.Text; the bytes Processes.write queued are judged:
      JSON  one write, one line, printable ASCII, json.loads with a duplicate-key-rejecting hook, documented envelope
            (exabgp/time/host/pid/ppid/counter/type [header/body] neighbor{address,asn,direction,<content>}), no forged
            key, peer strings present as values equal to the octets sent under the decoding the code documents;
      text  one write, the expected number of records, printable ASCII only (no control character, no line break).
  * kernels: oneline() is lifted from the current source and executed on symbolic code points (<= 3), z3 proves for
    ALL code points that what it emits verbatim is neither a control character nor a line boundary.
"""
from __future__ import annotations

import ast
import json
import os

from sx.run import Unit
from sx import core as _core
from sx.core import SBytes, SInt, SBool, s_and, s_or, s_not

_core.UTF8_CLASS_DECODE = True    # peer text: fork on UTF-8 structure, sample the characters (see sx/core.py)

from checks import c15 as R       # registry-driven plans / shapes (shared with C15)   # noqa: E402
from kits import apievents as A   # noqa: E402
from kits import session as S     # noqa: E402

from exabgp.bgp.message import Message, Notify, Update   # noqa: E402
from exabgp.bgp.message.action import Action   # noqa: E402
from exabgp.bgp.message.notification import Notification   # noqa: E402
from exabgp.bgp.message.open import Open   # noqa: E402
from exabgp.bgp.message.open.capability import Capability   # noqa: E402
from exabgp.bgp.message.operational import Operational   # noqa: E402
from exabgp.bgp.message.refresh import RouteRefresh   # noqa: E402
from exabgp.bgp.message.keepalive import KeepAlive   # noqa: E402
from exabgp.bgp.message.update.attribute import Attribute   # noqa: E402
from exabgp.bgp.message.update.attribute.attribute import TreatAsWithdraw, Discard   # noqa: E402
from exabgp.bgp.message.update.nlri.nlri import NLRI   # noqa: E402
from exabgp.bgp.fsm import FSM   # noqa: E402
from exabgp.protocol.family import AFI, SAFI   # noqa: E402
import exabgp.bgp.message.operational as _m_op   # noqa: E402
import exabgp.bgp.message.update as _m_upd   # noqa: E402
import exabgp.bgp.message.update.collection as _m_uc   # noqa: E402
import exabgp.bgp.message.update.attribute.collection as _m_ac   # noqa: E402
import exabgp.bgp.message.open.capability.capabilities as _m_caps   # noqa: E402

ID = 'C13'
LEVEL = 'exploration'
TECHNIQUE = ('symbolic execution of the real registered decoders with z3 (path-exhaustive within the bound) + per path the '
             'ordinary model and up to four solver-generated hostile models (soft constraints on the path condition) replayed in a '
             'clean interpreter through the real Message.unpack, Processes event methods, the four response encoders and '
             'Processes.write; oneline() executed on symbolic code points')
ASSUMPTIONS = [
    'logging (log, lazymsg, lazyformat, lazyattribute, lazynlri) has an empty body',
    'kits/apievents.py: real Neighbor objects from a parsed configuration with process + api sections (one per encoder), Negotiated through the '
    'real OPEN flow; the real Processes() in async mode (write() queues the encoded bytes; nothing is spawned: _process[name] is a stand-in, '
    '_encoder[name] is what Processes._start installs for that version/encoder, plus Response.Text); a stand-in Peer holding .neighbor',
    'events are driven as Protocol.read_message/_to_api/new_notification and Peer drive them: message() parsed, message() consolidate '
    '(header+body), packets(); a message the decoder refuses with Notify is followed through the NOTIFICATION ExaBGP then sends (send events)',
    'symbolic phase: Attribute.unpack / NLRI.unpack_nlri / Open.unpack_message / Notification(.data) / RouteRefresh / Operational.unpack_message '
    'called directly on symbolic octets; the surrounding message (ORIGIN, AS_PATH, NEXT_HOP or MP_REACH/MP_UNREACH framing) is concrete and '
    'decoded by Message.unpack on each witness; a witness whose decoded object does not reach the event is reported (C13:harness:*)',
    'registries are the PRODUCT\'s: checks/c15.py removes from the symbolic worker\'s registries the classes of modules which only the import '
    'hook imports (today community/extended/bandwidth.py), so worker and clean interpreter build the same plans',
    'SBytes.decode(utf-8/ascii) forks on the UTF-8 structure of the octets (complete partition) and samples the characters',
    'host name / pid / time in the envelope are whatever this machine returns',
    'CPython contract used by the oneline() proof: repr() escapes exactly the characters for which str.isprintable() is false, with ASCII output',
]
BOUNDS = {
    'quick': 'payload sizes and shapes of C15 quick (registry driven); capability values <= 4 free octets, text capabilities <= 3 octets; '
             'shutdown communication <= 3 octets; OPERATIONAL advisory <= 2 octets; oneline() on <= 2 code points; witnesses per path: the ordinary model + 2 hostile '
             '(rotation of hostile octets, key-injection payload), 1 hostile on refused paths',
    'thorough': 'payload sizes and shapes of C15 thorough; capability values <= 6; shutdown communication <= 4; advisory <= 3; oneline() on <= 3 code points; '
                'ordinary model + 4 hostile witnesses per path (rotation, injection, all LF/CR, all >= 0x80)',
}
OUTSIDE = [
    'the rendering obligations hold for the witnesses rendered (ordinary + hostile models per decoder path), not for all octet values of a path',
    'json.dumps itself (C code / regular expressions): not executed symbolically; exercised on the witnesses only',
    'ipv6 multicast and ipv4 rtc NLRI (registered decoders the configuration grammar cannot name: never negotiated, never rendered)',
    'messages with more than one symbolic attribute / NLRI family at a time, payloads longer than the bound',
    'actual delivery of the queued bytes to the helper (flush_write_queue, EAGAIN, EPIPE), the synchronous os.write branch of Processes.write',
    'events for messages ExaBGP itself sends (send-update etc.) other than the NOTIFICATION answering a refused message',
]


class _Log:
    def __getattr__(self, name):
        return lambda *a, **k: None


for _m in (_m_op, _m_upd, _m_uc, _m_ac, _m_caps):
    R._silence(_m)

mk, sym, be, rng = R.mk, R.sym, R.be, R.rng
REFUSAL = R.REFUSAL


# ----------------------------------------------------------------------------- hostile witnesses

HOSTILE = [0x22, 0xFF, 0x0A, 0x5C, 0x0D, 0x00, 0x7F, 0x7D, 0x2C, 0x3A, 0x1B, 0x80, 0x27, 0x7B, 0x5B, 0x25, 0x09, 0x5D]
INJECT = b'","z":"'


PROFILES = {'quick': ('rot', 'inject', 'newline', 'high'), 'thorough': ('rot', 'inject', 'newline', 'high')}
TIER = {'name': 'quick'}


def hostile(ctx, items):
    """soft constraints for the hostile witnesses over every symbolic octet of the payload (a superset of the octets
    that flow into peer-chosen strings: the path condition decides which of them are free)"""
    if not ctx.sym:
        return
    want = PROFILES[TIER['name']]
    syms = [x for x in items if isinstance(x, SInt)]
    for i, b in enumerate(syms):
        member = s_or(b < 0x20, b == 0x22, b == 0x5C, b >= 0x7F, b == 0x7D, b == 0x2C, b == 0x3A)
        ctx.prefer('rot', b == HOSTILE[i % len(HOSTILE)], member)
        if 'inject' in want:
            ctx.prefer('inject', b == INJECT[i % len(INJECT)], b == 0x22, b == 0x5C)
        if 'newline' in want:
            ctx.prefer('newline', b == 0x0A, b == 0x0D, b < 0x20)
        if 'high' in want:
            ctx.prefer('high', b == 0xFF, b >= 0x80)


def refused_path(ctx):
    """a refused message is reported through the NOTIFICATION sent back: one hostile witness is enough there"""
    if ctx.sym and TIER['name'] == 'quick':
        for k in list(getattr(ctx, 'prefs', {})):
            if k != 'rot':
                del ctx.prefs[k]


# ----------------------------------------------------------------------------- judging the events of one witness

ENC = {'p-json6': 'json-v6', 'p-json4': 'json-v4', 'p-text4': 'text-v4', 'p-text6': 'text-v6'}


def fail(ctx, sig, info, seen):
    if sig in seen:
        return
    seen.add(sig)
    ctx.witness_check('event:' + sig, lambda: False, sig=sig, info=info)


def lookup(doc, path):
    cur = doc
    for k in path:
        if isinstance(cur, dict) and k in cur:
            cur = cur[k]
        elif isinstance(cur, list) and isinstance(k, int) and k < len(cur):
            cur = cur[k]
        else:
            return KeyError
    return cur


def judge(ctx, kind, evs, w, text_lines, values=(), needles=(), text_too=True):
    """values: [(path below the event root, expected value)] checked in every JSON event of kind 'parsed'/'consolidate';
    needles: strings which must occur somewhere as a complete JSON string VALUE (never as a key)"""
    seen = set()
    n_json = n_text = 0
    for ev in evs:
        enc = ENC[ev.proc]
        where = '%s/%s' % (ev.what, ev.how)
        if enc.startswith('json'):
            bad, doc = A.judge_json(ev, w)
            n_json += 1
            if doc is not None and ev.how != 'packets':
                for path, want in values:
                    got = lookup(doc, path)
                    if got is KeyError or got != want:
                        bad.append(('peer-value-differs', 'at %s: got %r want %r' % ('/'.join(map(str, path)), None if got is KeyError else got, want)))
                if needles:
                    strs = A.strings_of(doc)
                    keys = A.keys_of(doc)
                    for nd in needles:
                        if nd not in strs:
                            bad.append(('peer-string-not-a-value', 'expected %r as a string value; strings: %r' % (nd, [s for s in strs if s][-6:])))
                        if nd in keys and nd not in ('', ):
                            bad.append(('peer-string-is-a-key', repr(nd)))
        else:
            bad, doc = A.judge_text(ev, text_lines(ev))
            n_text += 1
        for tag, detail in bad:
            fail(ctx, 'C13:%s:%s:%s:%s' % (kind, where, enc, tag), {'detail': detail, 'process': ev.proc}, seen)
        if not bad:
            ctx.passed += 1          # one event record judged well-formed on this witness
    ctx.witness_check('events-judged', lambda: n_json > 0 and (n_text > 0 or not text_too), sig='C13:harness:%s:no-events' % kind)
    return not seen


def one_line(ev):
    return 1


def no_text_for_state(ev):
    return None


def update_lines(msg):
    def f(ev):
        if ev.how == 'packets':
            return 1
        if ev.what == 'notification':
            return 1
        if getattr(msg, 'IS_EOR', False):
            n = len(msg.nlris)
        else:
            n = len(msg.data.announces) + len(msg.data.withdraws)
        return 2 + n + (1 if (ev.header or ev.body) else 0)
    return f


def send_notification(ctx, kind, w, exc, values=()):
    """the NOTIFICATION ExaBGP answers a refused message with is itself reported (Protocol.write -> _to_api('send'))"""
    try:
        raw = exc.pack_message(w.neg)
    except Exception as e:   # not C13's claim: noted, the events are still judged with an empty frame
        raw = b''
        ctx.note('notify-pack-raises', type(e).__name__)
    evs = A.message_events(w, 3, exc, raw, 'send')
    try:
        text = exc.data.decode('utf-8', 'replace')
    except Exception:
        text = None
    vals = [(('neighbor', 'notification', 'code'), int(exc.code)), (('neighbor', 'notification', 'subcode'), int(exc.subcode))]
    if text is not None:
        vals.append((('neighbor', 'notification', 'message'), text))
    return judge(ctx, kind + ':answer', evs, w, one_line, vals)


# ----------------------------------------------------------------------------- UPDATE: one symbolic attribute

ORIGIN = [0x40, 1, 1, 0]
NEXT_HOP = [0x40, 3, 4, 192, 0, 2, 1]


def as_path(asn4):
    return [0x40, 2, 6, 2, 1, 0, 0, 0xFD, 0xE9] if asn4 else [0x40, 2, 4, 2, 1, 0xFD, 0xE9]


def tlv(flag, code, value):
    value = list(value)
    if len(value) > 255:
        return [flag | 0x10, code] + be(len(value), 2) + value
    return [flag & 0xEF, code, len(value)] + value


def update_body(asn4, attrs, nlri=(), withdrawn=()):
    a = [x for t in attrs for x in t]
    return bytes(be(len(withdrawn), 2) + list(withdrawn) + be(len(a), 2) + a + list(nlri))


def decode_and_render(ctx, kind, w, body, present, values=(), needles=()):
    """concrete: the complete UPDATE through the real Message.unpack, then the events.  present(msg) -> bool tells
    whether the object the symbolic phase decoded reached the event (vacuity guard of the witness)."""
    raw = A.frame(2, body)
    try:
        msg = Message.unpack(2, body, w.neg)
        if isinstance(msg, Update):
            msg.data
    except Notify as exc:
        ctx.witness_check('decoded-object-in-event', lambda: present is None, sig='C13:harness:%s:message-refused-%d-%d' % (kind, exc.code, exc.subcode),
                          info={'notify': str(exc)[:200], 'body': body.hex()})
        return send_notification(ctx, kind, w, exc)
    except Exception as exc:
        # not C13's claim (C03: only Notify may escape a decoder); Protocol.read_message turns it into Notify(1, 0)
        ctx.note('decoder-raises', type(exc).__name__)
        return send_notification(ctx, kind, w, Notify(1, 0, 'can not decode update message of type "%d"' % 2))
    if present is not None:
        ctx.witness_check('decoded-object-in-event', lambda: bool(present(msg)), sig='C13:harness:%s:decoded-object-not-in-event' % kind,
                          info={'body': body.hex()})
    if getattr(msg, 'IS_EOR', False) and not kind.startswith('eor:'):
        kind = 'eor:via:' + kind      # an UPDATE with no route at all is an End-of-RIB marker: its own renderer
    evs = A.message_events(w, 2, msg, raw)
    return judge(ctx, kind, evs, w, update_lines(msg), values, needles)


def attr_present(code):
    def f(msg):
        if getattr(msg, 'IS_EOR', False):
            return False
        d = msg.data
        if code == 14:
            return len(d.announces) > 0 or len(d.withdraws) > 0
        if code == 15:
            return len(d.withdraws) > 0
        return code in d.attributes
    return f


def expected_attr_strings(code, kind, data):
    """peer-chosen strings of an attribute value -> needles that must appear as JSON string values (the decoding the
    code documents: UTF-8 with replacement)"""
    out = []
    if code == 29 and len(data) >= 4:
        t = data[0] * 256 + data[1]
        n = data[2] * 256 + data[3]
        v = bytes(data[4:4 + n])
        if t in (1026, 1098) and len(v) == n and len(data) == 4 + n:   # node name / link name
            out.append(v.decode('utf-8', 'replace'))
    if code == 23 and len(data) >= 8 and data[0] * 256 + data[1] == 15 and data[4] in (129, 130):
        n = data[5] * 256 + data[6]
        v = bytes(data[7:7 + n])
        if len(v) == n and n >= 1 and len(data) == 7 + n:                # SR policy (candidate path) name: flags + UTF-8
            out.append(v[1:].decode('utf-8', 'replace'))
    return out


def h_attr(ctx, plans):
    plan = plans[ctx.choice('plan', len(plans))] if len(plans) > 1 else plans[0]
    name, code, flag, builder, cover, opt = plan
    asn4 = opt.get('asn4', True)
    kind = opt.get('kind') or 'attr-%d' % code
    shape = builder(ctx)
    w = A.world(asn4)
    data = mk(ctx, shape.items)
    hostile(ctx, shape.items)
    if ctx.sym and code == 29 and 4 < len(data) <= 6 and all(type(x) is int for x in shape.items[:4]) and shape.items[0] * 256 + shape.items[1] in (1026, 1098):
        data[4:].decode('utf-8', 'replace')   # node / link name: decoded when rendered; its UTF-8 structure is explored here
    try:
        obj = Attribute.unpack(code, flag, data, w.neg)
        if isinstance(obj, (TreatAsWithdraw, Discard)):
            out = ('refused', type(obj).__name__)
        else:
            out = ('decoded', type(obj).__name__)
    except REFUSAL as exc:
        out = ('refused', type(exc).__name__)
    except Exception as exc:    # only-refusals-escape is C15/C03's obligation; the event is still judged
        out = ('refused', 'raises-' + type(exc).__name__)
    ctx.cover('%s:%s' % (name, out[0]))
    ctx.note('class', '%s:%s' % (kind, out[0]))
    if out[0] == 'refused':
        refused_path(ctx)
    if not ctx.sym:
        value = bytes(data)
        base = [ORIGIN, as_path(asn4), NEXT_HOP]
        base = [b for b in base if b[1] != code]
        if code in (14, 15):
            body = update_body(asn4, [ORIGIN, as_path(asn4), tlv(flag, code, value)])
        else:
            body = update_body(asn4, base + [tlv(flag, code, value)], nlri=[8, 10])
        # MP_REACH/MP_UNREACH decode their NLRI lazily (a refusal shows only at message level), AS4_PATH/AS4_AGGREGATOR are
        # merged into AS_PATH/AGGREGATOR and removed, an empty optional attribute may be dropped: no presence demanded there
        present = attr_present(code) if out[0] == 'decoded' and len(value) > 0 and code not in (14, 15, 17, 18) else None
        needles = expected_attr_strings(code, kind, value) if out[0] == 'decoded' else ()
        decode_and_render(ctx, kind, w, body, present, needles=needles)
    return (name,) + out


COMBO_EXTRAS = {  # attributes which share a JSON name with another one, or are merged into it (RFC 6793): (flag, code, value for a 4-octet / a 2-octet session)
    'as4-path': (0xC0, 17, [2, 1, 0, 1, 0x11, 0x70]),
    'as4-aggregator': (0xC0, 18, [0, 1, 0x11, 0x70, 192, 0, 2, 9]),
    'aggregator': (0xC0, 7, None),
    'community': (0xC0, 8, [0xFD, 0xE8, 0, 1]),
    'med': (0x80, 4, [0, 0, 0, 9]),
}
COMBO_MALFORMED = {'none': None, 'med-3-octets': [0x80, 4, 3, 0, 0, 9], 'local-pref-3-octets': [0x40, 5, 3, 0, 0, 9], 'community-6-octets': [0xC0, 8, 6, 0, 1, 0, 2, 0, 3]}


def h_attr_combos(ctx):
    """SEVERAL attributes in one UPDATE: the ones which are merged into another or share its JSON name (AS4_PATH with AS_PATH,
    AS4_AGGREGATOR with AGGREGATOR - on a 2-octet AND on a 4-octet session, where nothing merges them), optionally beside an
    attribute malformed the treat-as-withdraw way (the UPDATE is then delivered with its routes withdrawn and the attributes
    which did decode, BEFORE any merge).  Solver-chosen subset; the event is judged like every other (no duplicate key ...)."""
    asn4 = bool(ctx.choice('asn4-session', 2))
    w = A.world(asn4)
    chosen = [k for k in COMBO_EXTRAS if ctx.choice('with-' + k, 2)]
    bad = ctx.pick('malformed', sorted(COMBO_MALFORMED))
    ctx.assume(len(chosen) >= 2, 'at least two of the attributes')
    if bad.startswith('med'):
        chosen = [k for k in chosen if k != 'med']
    if bad.startswith('community'):
        chosen = [k for k in chosen if k != 'community']
    attrs = [ORIGIN, as_path(asn4), NEXT_HOP]
    for k in chosen:
        flag, code, value = COMBO_EXTRAS[k]
        if k == 'aggregator':
            value = [0, 0, 0xFD, 0xE9, 192, 0, 2, 7] if asn4 else [0xFD, 0xE9, 192, 0, 2, 7]
        attrs.append(tlv(flag, code, value))
    if COMBO_MALFORMED[bad] is not None:
        attrs.append(COMBO_MALFORMED[bad])
        ctx.cover('beside-a-treat-as-withdraw-attribute')
    if 'as4-path' in chosen:
        ctx.cover('as-path+as4-path')
    if 'aggregator' in chosen and 'as4-aggregator' in chosen:
        ctx.cover('aggregator+as4-aggregator')
    kind = 'combo:%s%s' % ('+'.join(chosen), '' if bad == 'none' else ':' + bad)
    if not ctx.sym:
        decode_and_render(ctx, 'combo', w, update_body(asn4, attrs, nlri=[8, 10]), None)
    ctx.note('class', kind)
    return (asn4, chosen, bad)


def h_unknown_attr(ctx, th):
    """an attribute code nobody registered: optional transitive (kept as a generic attribute, rendered as hex) and
    optional non-transitive (ignored); the code itself symbolic over the unregistered codes"""
    w = A.world(True)
    known = sorted(set(int(c) for c, _ in Attribute.registered_attributes))
    code = ctx.int('code', 41, 254)
    flag = ctx.pick('flag', (0xC0, 0x80, 0xE0))
    n = ctx.pick('n', rng(0, 6 if th else 4))
    items = sym(ctx, 'p', n)
    hostile(ctx, items)
    ctx.assume(s_and(*[code != k for k in known if 41 <= k <= 254]), 'the unknown attribute code is not a registered one')
    ctx.cover('unknown:%s' % ('transitive' if flag & 0x40 else 'non-transitive'))
    if not ctx.sym:
        value = bytes(items)
        body = update_body(True, [ORIGIN, as_path(True), NEXT_HOP, tlv(flag, int(code), value)], nlri=[8, 10])
        present = (lambda msg: int(code) in msg.data.attributes) if flag & 0x40 else (lambda msg: int(code) not in msg.data.attributes)
        values = []
        if flag & 0x40:
            values.append((('neighbor', 'message', 'update', 'attribute', 'attribute-0x%02X-0x%02X' % (int(code), flag | 0x20)), '0x' + value.hex()))
        decode_and_render(ctx, 'attr-unknown', w, body, present, values)
    return ('unknown', flag, n)


# ----------------------------------------------------------------------------- UPDATE: one symbolic NLRI


def h_nlri(ctx, afi, safi, builder, addpath=False, action=Action.ANNOUNCE, kind=None):
    """replaces checks.c15.h_dec_nlri while a C15 NLRI plan runs (same families, route types and shapes)"""
    afi, safi = AFI.from_int(afi), SAFI.from_int(safi)
    kind = 'nlri:' + (kind or R.fam_name(afi, safi))
    w = A.world(True, addpath)
    if addpath and not w.neg.addpath.receive(afi, safi):
        ctx.assume(False, 'ADD-PATH units only for families the session negotiates it for')
    items = builder(ctx)
    data = mk(ctx, items)
    hostile(ctx, items)
    n_used = 0
    try:
        nlri, left = NLRI.unpack_nlri(afi, safi, data, action, addpath, w.neg)
        if nlri is NLRI.INVALID:
            out = ('refused', 'invalid')
        else:
            out = ('decoded', type(nlri).__name__)
            n_used = len(data) - len(left)
    except Notify as exc:
        out = ('refused', 'notify')
    except Exception as exc:
        out = ('refused', 'raises-' + type(exc).__name__)
    ctx.cover(out[0])
    ctx.note('class', '%s:%s' % (kind, out[0]))
    if out[0] == 'refused':
        refused_path(ctx)
    if not ctx.sym:
        a, s = int(afi), int(safi)
        wire = list(bytes(data)[:n_used]) if out[0] == 'decoded' else list(bytes(data))
        klass = out[1]
        forms = ['unreach'] + (['reach'] if action == Action.ANNOUNCE else [])
        for form in forms:
            if form == 'reach':
                value = be(a, 2) + [s] + A.mp_nexthop(a, s) + [0] + wire
                body = update_body(True, [ORIGIN, as_path(True), tlv(0x80, 14, value)])
                present = (lambda msg: any(type(r.nlri).__name__ == klass for r in msg.data.announces))
            else:
                value = be(a, 2) + [s] + wire
                body = update_body(True, [tlv(0x80, 15, value)])
                present = (lambda msg: any(type(n).__name__ == klass for n in msg.data.withdraws))
            # the octets were decoded as an announcement (or as a withdrawal): only the same form must show the same object
            same_form = (form == 'reach') == (action == Action.ANNOUNCE)
            decode_and_render(ctx, '%s:%s' % (kind, form), w, body, present if out[0] == 'decoded' and same_form else None)
    return out


def wrap_c15_nlri(fn):
    def run(ctx):
        saved = R.h_dec_nlri
        R.h_dec_nlri = h_nlri
        try:
            return fn(ctx)
        finally:
            R.h_dec_nlri = saved
    return run


def h_eor(ctx):
    """both End-of-RIB forms: the empty UPDATE and an UPDATE holding only an empty MP_UNREACH_NLRI (family symbolic)"""
    w = A.world(True)
    which = ctx.pick('form', ('ipv4', 'mp-negotiated', 'mp-short-header', 'mp-free'))
    if which == 'ipv4':
        items = [0, 0, 0, 0]
    elif which == 'mp-negotiated':
        a, s = ctx.pick('fam', [(int(a), int(s)) for a, s in A.families()])
        items = [0, 0, 0, 7, 0x90, 15, 0, 3] + be(a, 2) + [s]
    elif which == 'mp-short-header':
        a, s = ctx.pick('fam', ((2, 1), (1, 128), (25, 70)))
        items = [0, 0, 0, 6, 0x80, 15, 3] + be(a, 2) + [s]
    else:
        fam = sym(ctx, 'fam', 3)
        hostile(ctx, fam)
        items = [0, 0, 0, 7, 0x90, 15, 0, 3] + fam
    data = mk(ctx, items)
    try:
        msg = Message.unpack(2, data, w.neg)
        out = ('eor', bool(getattr(msg, 'IS_EOR', False)))
    except Notify as exc:
        out = ('refused', int(exc.code), int(exc.subcode))
    ctx.cover('eor' if out[0] == 'eor' and out[1] else 'other')
    if not ctx.sym:
        decode_and_render(ctx, 'eor:' + which, w, bytes(data), (lambda m: bool(getattr(m, 'IS_EOR', False))) if out == ('eor', True) else None)
    return out


# ----------------------------------------------------------------------------- OPEN


def open_render(ctx, kind, w, body, values=(), needles=()):
    raw = A.frame(1, body)
    try:
        msg = Message.unpack(1, body, w.neg)
    except Notify as exc:
        return send_notification(ctx, kind, w, exc)
    evs = A.message_events(w, 1, msg, raw)
    return judge(ctx, kind, evs, w, one_line, values, needles)


CAP_FAMS = ((1, 1), (2, 1), (1, 128), (77, 9))     # the last one is no registered family


def cap_shapes(code, th):
    """name -> builder(ctx) -> value items of one capability.  Capabilities which key a dict by (afi, safi) get the
    family from a concrete list (the solver picks it by fork; a symbolic dict key would be enumerated by value) and
    every other octet symbolic; 'free' = short all-symbolic values (the truncation / length branches)."""
    top = 6 if th else 4

    def fam(ctx, i):
        return ctx.pick('fam%d' % i, CAP_FAMS)

    shapes = {'free': lambda ctx: sym(ctx, 'v', ctx.pick('n', rng(0, top)))}
    if code == Capability.CODE.HOSTNAME:
        def text2(ctx):
            pairs = ((0, 0), (1, 0), (2, 0), (3, 0), (0, 1), (0, 2), (0, 3), (1, 1), (2, 1)) + (((4, 0), (0, 4), (2, 2), (1, 3)) if th else ())
            l1, l2 = ctx.pick('l', pairs)
            return [l1] + sym(ctx, 'h', l1) + [l2] + sym(ctx, 'd', l2)
        shapes = {'names': text2, 'free': lambda ctx: sym(ctx, 'v', ctx.pick('n', rng(0, 3)))}
    elif code == Capability.CODE.SOFTWARE_VERSION:
        def text1(ctx):
            n = ctx.pick('n', (0, 1, 2, 3, 4) if th else (0, 1, 2, 3))
            return [n] + sym(ctx, 's', n)
        shapes = {'text': text1, 'free': lambda ctx: sym(ctx, 'v', ctx.pick('n', rng(0, 3)))}
    elif code == Capability.CODE.MULTIPROTOCOL:
        shapes = {'free': lambda ctx: sym(ctx, 'v', ctx.pick('n', (0, 3, 4, 5) + ((8,) if th else ())))}
    elif code == Capability.CODE.ADD_PATH:
        def entries(ctx):
            out = []
            for i in range(ctx.pick('k', (1, 2))):
                a, f = fam(ctx, i)
                out += be(a, 2) + [f] + sym(ctx, 'sr%d' % i, 1)
            return out
        shapes = {'entries': entries, 'free': lambda ctx: sym(ctx, 'v', ctx.pick('n', (0, 1, 3)))}
    elif code == Capability.CODE.PATHS_LIMIT:
        def entries(ctx):
            out = []
            for i in range(ctx.pick('k', (1, 2))):
                a, f = fam(ctx, i)
                out += be(a, 2) + [f] + sym(ctx, 'lim%d' % i, 2)
            return out
        shapes = {'entries': entries, 'free': lambda ctx: sym(ctx, 'v', ctx.pick('n', (0, 1, 4)))}
    elif code == Capability.CODE.NEXTHOP:
        def entries(ctx):
            out = []
            for i in range(ctx.pick('k', (1, 2))):
                a, f = fam(ctx, i)
                out += be(a, 2) + sym(ctx, 'rsv%d' % i, 1) + [f] + be(ctx.pick('nh%d' % i, (1, 2, 99)), 2)
            return out
        shapes = {'entries': entries, 'free': lambda ctx: sym(ctx, 'v', ctx.pick('n', (0, 1, 5)))}
    elif code == Capability.CODE.GRACEFUL_RESTART:
        def entries(ctx):
            out = sym(ctx, 'rt', 2)
            for i in range(ctx.pick('k', (0, 1, 2))):
                a, f = fam(ctx, i)
                out += be(a, 2) + [f] + sym(ctx, 'fl%d' % i, 1)
            return out
        shapes = {'entries': entries, 'free': lambda ctx: sym(ctx, 'v', ctx.pick('n', (0, 1, 3, 5)))}
    return shapes


def h_cap(ctx, code, shape_name, builder, twice=False):
    w = A.world(True)
    if code is None:
        known = set(int(c) for c in Capability.registered_capability)
        codes = [ctx.pick('code', [c for c in (0, 99, 200, 254) if c not in known][:3])]
    else:
        codes = [code]
    value = builder(ctx)
    hostile(ctx, value)
    cap = codes + [len(value)] + value
    if twice:
        value2 = sym(ctx, 'w', len(value))
        hostile(ctx, value2)
        cap = cap + codes + [len(value2)] + value2
    items = S.peer_open_body(families=((1, 1),), asn4=True, extra_caps=cap, raw_items=True) if not twice else \
        S.peer_open_body(families=((1, 1),), asn4=True, extra_caps=cap, raw_items=True, layout='single')
    data = mk(ctx, items)
    try:
        msg = Open.unpack_message(data, w.neg)
        present = any(True for k in msg.capabilities if (code is None and int(k) not in (1, 65)) or (code is not None and int(k) == code))
        out = ('decoded', bool(present))
    except Notify as exc:
        out = ('refused', int(exc.code), int(exc.subcode))
    ctx.cover(out[0])
    ctx.note('class', 'cap-%s:%s' % (code, out[0]))
    if out[0] == 'refused':
        refused_path(ctx)
    if not ctx.sym:
        values, needles = [], []
        raw_value = bytes(value)
        if out[0] == 'decoded' and not twice:
            if code == Capability.CODE.HOSTNAME and shape_name == 'names':
                l1 = raw_value[0]
                host, dom = raw_value[1:1 + l1], raw_value[2 + l1:]
                values.append((('neighbor', 'open', 'capabilities', str(code), 'host-name'), host.decode('utf-8')))
                values.append((('neighbor', 'open', 'capabilities', str(code), 'domain-name'), dom.decode('utf-8')))
            if code == Capability.CODE.SOFTWARE_VERSION and shape_name == 'text':
                needles.append(raw_value[1:].decode('utf-8'))
        open_render(ctx, 'open:cap-%s' % ('unknown' if code is None else code), w, bytes(data), values, needles)
    return out


def h_open_fields(ctx):
    """the fixed part of the OPEN symbolic (version, AS, hold time, router id), usual capabilities"""
    w = A.world(True)
    fields = sym(ctx, 'f', 9)
    hostile(ctx, fields)
    items = fields + S.peer_open_body(families=((1, 1), (2, 1)), asn4=True, raw_items=True)[9:]
    data = mk(ctx, items)
    try:
        Open.unpack_message(data, w.neg)
        out = ('decoded',)
    except Notify as exc:
        out = ('refused', int(exc.code), int(exc.subcode))
    ctx.cover(out[0])
    if not ctx.sym:
        open_render(ctx, 'open:fields', w, bytes(data))
    return out


# ----------------------------------------------------------------------------- NOTIFICATION


def shutdown_text(raw):
    """RFC 8203/9003 shutdown communication as Notification.data documents it -> the 'message' value, or None"""
    if len(raw) == 0:
        return ''
    n, payload = raw[0], raw[1:]
    if n == 0:
        return 'empty Shutdown Communication.'
    if len(payload) < n or n > 128:
        return None
    try:
        text = payload[:n].decode('utf-8').replace('\r', ' ').replace('\n', ' ')
    except UnicodeDecodeError:
        return None
    out = 'Shutdown Communication: "%s"' % text
    if payload[n:]:
        out += ', trailing data: 0x' + payload[n:].hex().upper()
    return out


def h_notification(ctx, th):
    w = A.world(True)
    which = ctx.pick('which', ('shutdown', 'reset', 'printable', 'binary', 'empty', 'short'))
    top = 4 if th else 3
    if which in ('shutdown', 'reset'):
        n = ctx.pick('n', rng(0, top))
        payload = sym(ctx, 'd', n)
        items = [6, 2 if which == 'shutdown' else 4] + payload
    elif which == 'short':
        n = ctx.pick('n', (0, 1))
        payload = sym(ctx, 'd', n)
        items = payload
    else:
        head = sym(ctx, 'cs', 2)
        n = 0 if which == 'empty' else ctx.pick('n', (1, 2, 3))
        payload = sym(ctx, 'd', n)
        items = head + payload
        ctx.assume(s_not(s_and(head[0] == 6, s_or(head[1] == 2, head[1] == 4))), 'the free NOTIFICATION is not 6/2 nor 6/4 (they have their own branch)')
        if which == 'printable':
            ctx.assume(s_and(*[s_and(b >= 0x20, b <= 0x7E) for b in payload]), 'data octets printable ASCII')
        elif which == 'binary':
            ctx.assume(s_or(payload[0] < 0x20, payload[0] > 0x7E), 'first data octet not printable ASCII')
    hostile(ctx, payload)
    data = mk(ctx, items)
    msg = Notification.unpack_message(data, w.neg)
    shown = msg.data                 # the branches of Notification.data are part of the decoder (explored symbolically)
    str(msg)
    tag = bytes(shown[:12]).decode('ascii', 'replace') if which in ('shutdown', 'reset') else which
    if which in ('shutdown', 'reset'):
        tag = tag.split(' (')[0].split(':')[0].split('.')[0]
    ctx.cover(which)
    ctx.note('class', 'notification:%s:%s' % (which, tag))
    if not ctx.sym:
        raw = bytes(data)
        m2 = Message.unpack(3, raw, w.neg)
        evs = A.message_events(w, 3, m2, A.frame(3, raw))
        values = []
        if len(raw) >= 2:
            values += [(('neighbor', 'notification', 'code'), raw[0]), (('neighbor', 'notification', 'subcode'), raw[1])]
        if which in ('shutdown', 'reset'):
            want = shutdown_text(raw[2:])
            if want is not None:
                values.append((('neighbor', 'notification', 'message'), want))
        elif which == 'printable':
            values.append((('neighbor', 'notification', 'message'), raw[2:].decode('ascii')))
        judge(ctx, 'notification:' + which, evs, w, one_line, values)
        # Protocol.read_message reports a framing error it found itself through Processes.notification()
        evs = A.notification_events(w, m2, A.frame(3, raw))
        judge(ctx, 'notification-call:' + which, evs, w, one_line, values)
        # and Peer reports the end of the session: the reason carries the code and subcode
        evs = A.state_events(w, 'down', 'notification received (%d,%d)' % (m2.code, m2.subcode))
        judge(ctx, 'down', evs, w, one_line, [(('neighbor', 'reason'), 'notification received (%d,%d)' % (m2.code, m2.subcode))])
    return (which, tag, len(items))


# ----------------------------------------------------------------------------- ROUTE-REFRESH / KEEPALIVE / OPERATIONAL


def h_refresh(ctx):
    w = A.world(True)
    n = ctx.pick('n', (4, 0, 3, 5))
    items = sym(ctx, 'r', n)
    hostile(ctx, items)
    data = mk(ctx, items)
    try:
        RouteRefresh.unpack_message(data, w.neg)
        out = ('decoded',)
    except Notify as exc:
        out = ('refused', int(exc.code), int(exc.subcode))
    ctx.cover(out[0])
    if not ctx.sym:
        raw = bytes(data)
        try:
            msg = Message.unpack(5, raw, w.neg)
        except Notify as exc:
            send_notification(ctx, 'refresh', w, exc)
        else:
            evs = A.message_events(w, 5, msg, A.frame(5, raw))
            judge(ctx, 'refresh', evs, w, one_line, [(('neighbor', 'route-refresh', 'subtype'), {0: 'query', 1: 'begin', 2: 'end'}[raw[2]])])
    return out


def h_keepalive(ctx):
    w = A.world(True)
    n = ctx.pick('n', (0, 1, 2))
    items = sym(ctx, 'k', n)
    hostile(ctx, items)
    data = mk(ctx, items)
    try:
        KeepAlive.unpack_message(data, w.neg)
        out = ('decoded',)
    except Notify as exc:
        out = ('refused', int(exc.code), int(exc.subcode))
    ctx.cover(out[0])
    if not ctx.sym:
        raw = bytes(data)
        try:
            msg = Message.unpack(4, raw, w.neg)
        except Notify as exc:
            send_notification(ctx, 'keepalive', w, exc)
        else:
            evs = A.message_events(w, 4, msg, A.frame(4, raw))
            judge(ctx, 'keepalive', evs, w, one_line)
    return out


def h_operational(ctx, th):
    w = A.world(True)
    codes = sorted(int(c) for c in Operational.registered_operational)
    which = ctx.pick('what', codes + ['unknown', 'truncated'])
    if which == 'truncated':
        items = sym(ctx, 'o', ctx.pick('n', rng(0, 5)))
        text = []
    else:
        if which == 'unknown':
            what = sym(ctx, 'what', 2)
            ctx.assume(s_and(*[s_not(s_and(what[0] == c // 256, what[1] == c % 256)) for c in codes]), 'the unknown operational type is not a registered one')
        else:
            what = be(which, 2)
        category = Operational.registered_operational[which][0] if which != 'unknown' else 'unknown'
        if category == 'advisory':
            n = ctx.pick('n', rng(0, 3 if th else 2))
            text = sym(ctx, 't', n)
            payload = sym(ctx, 'fam', 3) + text
        elif category == 'query':
            text = []
            payload = sym(ctx, 'q', ctx.pick('n', (11, 10)))
        elif category == 'counter':
            text = []
            payload = sym(ctx, 'c', ctx.pick('n', (15, 14)))
        else:
            text = []
            payload = sym(ctx, 'u', ctx.pick('n', rng(0, 4)))
        items = what + be(len(payload), 2) + payload
    hostile(ctx, items)
    data = mk(ctx, items)
    try:
        msg = Operational.unpack_message(data, w.neg)
        out = ('decoded', msg.category)
        if msg.category == 'advisory':
            mk(ctx, text).decode('utf-8', 'replace') if ctx.sym and text else None    # the renderer's decoding step: UTF-8 structure explored
    except Notify as exc:
        out = ('refused', int(exc.code), int(exc.subcode))
    ctx.cover(out[0] if out[0] == 'refused' else 'decoded:' + out[1])
    if not ctx.sym:
        raw = bytes(data)
        try:
            m2 = Message.unpack(6, raw, w.neg)
        except Notify as exc:
            send_notification(ctx, 'operational', w, exc)
        else:
            evs = A.message_events(w, 6, m2, A.frame(6, raw))
            values = []
            if out == ('decoded', 'advisory'):
                values.append((('neighbor', 'operational', 'advisory'), bytes(text).decode('utf-8', 'replace')))
            judge(ctx, 'operational:%s' % out[-1], evs, w, one_line, values)
    return out


# ----------------------------------------------------------------------------- events which are not messages


def h_state(ctx):
    addpath = bool(ctx.choice('addpath', 2))
    w = A.world(True, addpath)
    which = ctx.pick('event', ('up', 'connected', 'down', 'fsm', 'signal', 'negotiated'))
    args, lines, values = (), one_line, []
    if which == 'down':
        code, sub = ctx.byte('code'), ctx.byte('sub')
        kind = ctx.pick('reason', ('received', 'sent', 'text'))
        if ctx.sym:
            c, s = _core.engine().sample(code), _core.engine().sample(sub)
        else:
            c, s = code, sub
        reason = {'received': 'notification received (%d,%d)' % (c, s), 'sent': 'notification sent (%d,%d)' % (c, s),
                  'text': 'closing connection'}[kind]
        args = (reason,)
        values = [(('neighbor', 'reason'), reason), (('neighbor', 'state'), 'down')]
    elif which == 'fsm':
        state = ctx.pick('state', (FSM.IDLE, FSM.ACTIVE, FSM.CONNECT, FSM.OPENSENT, FSM.OPENCONFIRM, FSM.ESTABLISHED))
        args = (FSM(None, state),) if False else (_fsm(state),)
        lines = no_text_for_state
        values = [(('neighbor', 'state'), _fsm(state).name())]
    elif which == 'signal':
        args = (ctx.pick('signal', (1, 10, 12, 14, 15, 64)),)
        lines = no_text_for_state
        values = [(('neighbor', 'code'), str(args[0]))]
    elif which == 'negotiated':
        args = (A.NEG,)
        lines = no_text_for_state
    else:
        values = [(('neighbor', 'state'), which)]
    ctx.cover(which)
    if not ctx.sym:
        evs = A.state_events(w, which, *args)
        judge(ctx, 'state:' + which, evs, w, lines, values)
    return (which,)


def _fsm(state):
    f = FSM.__new__(FSM)
    f.peer = None
    f.state = state
    return f


# ----------------------------------------------------------------------------- kernel: oneline()

_ONELINE = {}


def lift_oneline():
    """oneline() from the CURRENT source of response/text.py with str(value) -> __sx_str__, ''.join(gen) -> __sx_join__
    and repr(x) / ascii(x) -> __sx_repr__ / __sx_ascii__ so that it runs on symbolic characters; the number of rewrites
    is checked (one str, one join, one escape call)."""
    import exabgp.reactor.api.response.text as mod
    path = mod.__file__
    if path in _ONELINE:
        return _ONELINE[path]
    tree = ast.parse(open(path).read(), path)
    fn = [n for n in tree.body if isinstance(n, ast.FunctionDef) and n.name == 'oneline'][0]
    count = {'str': 0, 'join': 0, 'escape': 0}

    class T(ast.NodeTransformer):
        def visit_Call(self, node):
            self.generic_visit(node)
            f = node.func
            if isinstance(f, ast.Name) and f.id == 'str' and len(node.args) == 1:
                count['str'] += 1
                return ast.copy_location(ast.Call(ast.Name('__sx_str__', ast.Load()), node.args, []), node)
            if isinstance(f, ast.Name) and f.id in ('repr', 'ascii') and len(node.args) == 1:
                count['escape'] += 1
                return ast.copy_location(ast.Call(ast.Name('__sx_%s__' % f.id, ast.Load()), node.args, []), node)
            if isinstance(f, ast.Attribute) and f.attr == 'join' and isinstance(f.value, ast.Constant) and f.value.value == '':
                count['join'] += 1
                return ast.copy_location(ast.Call(ast.Name('__sx_join__', ast.Load()), node.args, []), node)
            return node
    fn = ast.fix_missing_locations(T().visit(fn))
    m = ast.Module([fn], [])
    ns = {'__sx_str__': lambda v: v if isinstance(v, SStr) else str(v),
          '__sx_repr__': lambda c: Escaped(c, 'repr') if isinstance(c, SChar) else repr(c),
          '__sx_ascii__': lambda c: Escaped(c, 'ascii') if isinstance(c, SChar) else ascii(c),
          '__sx_join__': lambda parts: list(parts)}
    exec(compile(m, path, 'exec'), ns)
    _ONELINE[path] = (ns['oneline'], count)
    return _ONELINE[path]


def _ranges(pred):
    """maximal code point intervals on which pred(chr(cp)) holds (tables computed from this interpreter's Unicode data)"""
    out, start = [], None
    for cp in range(0x110000):
        p = pred(chr(cp))
        if p and start is None:
            start = cp
        elif not p and start is not None:
            out.append((start, cp - 1))
            start = None
    if start is not None:
        out.append((start, 0x10FFFF))
    return out


_TABLES = {}


def tables():
    if not _TABLES:
        import unicodedata
        _TABLES['printable'] = _ranges(str.isprintable)
        # what must never reach a text record verbatim: control characters (Cc), line/paragraph separators (Zl, Zp),
        # everything str.splitlines() treats as a boundary, surrogates (not encodable)
        boundaries = set('\n\r\x0b\x0c\x1c\x1d\x1e\x85  ')
        _TABLES['bad'] = _ranges(lambda c: unicodedata.category(c) in ('Cc', 'Zl', 'Zp', 'Cs') or c in boundaries)
    return _TABLES


def regions():
    """code point space cut at every boundary of the atoms oneline()'s verdict can depend on besides printability:
    the forbidden set (controls, line boundaries, surrogates), ASCII, the space.  Inside one region those atoms are
    constant; printable / not printable splits it in at most two classes.  -> [(lo, hi, printable intervals, others)]"""
    if 'regions' not in _TABLES:
        t = tables()
        cuts = {0, 0x110000, 0x20, 0x21, 0x80}
        for lo, hi in t['bad']:
            cuts |= {lo, hi + 1}
        cs = sorted(cuts)
        out = []
        for i in range(len(cs) - 1):
            lo, hi = cs[i], cs[i + 1] - 1
            pin = [(max(a, lo), min(b, hi)) for a, b in t['printable'] if a <= hi and b >= lo]
            nin, cur = [], lo
            for a, b in pin:
                if a > cur:
                    nin.append((cur, a - 1))
                cur = b + 1
            if cur <= hi:
                nin.append((cur, hi))
            out.append((lo, hi, pin, nin))
        _TABLES['regions'] = out
    return _TABLES['regions']


class SChar:
    """one symbolic code point with the str methods oneline() uses.  The solver picks the region (fork) and the code
    point inside it; isprintable() is constant on most regions and otherwise forks between the two classes of the
    region, the code point then ranging over one interval of that class (every atom oneline() can test is constant
    on a class, so one interval stands for the class: checked when the tables are built)."""

    def __init__(self, ctx, name):
        regs = regions()
        self.ctx = ctx
        self.name = name
        r = ctx.choice(name + '.region', len(regs))
        self.lo, self.hi, self.pin, self.nin = regs[r]
        self.cp = ctx.int(name, self.lo, self.hi)
        self._printable = None

    def _in(self, ranges):
        return s_or(*[s_and(self.cp >= lo, self.cp <= hi) for lo, hi in ranges])

    def isprintable(self):
        if self._printable is None:
            if not self.pin:
                self._printable = False
            elif not self.nin:
                self._printable = True
            else:
                self._printable = bool(self.ctx.choice(self.name + '.printable', 2))
                lo, hi = (self.pin if self._printable else self.nin)[0]
                self.ctx.assume(s_and(self.cp >= lo, self.cp <= hi))
        return self._printable

    def __eq__(self, other):
        if isinstance(other, str) and len(other) == 1:
            return self.cp == ord(other)
        return NotImplemented

    def __hash__(self):
        return 0

    def isascii(self):
        return self.cp < 128


class Escaped:
    """repr(character) / ascii(character): under the CPython contract an ASCII escape sequence exactly when the
    character is not printable (repr) or not printable / not ASCII (ascii); the character itself otherwise"""

    def __init__(self, ch, how):
        self.ch = ch
        self.how = how

    def escapes(self):
        if self.how == 'repr':
            return not self.ch.isprintable()
        return s_or(not self.ch.isprintable(), self.ch.cp >= 128)

    def __getitem__(self, k):
        if isinstance(k, slice) and (k.start, k.stop, k.step) == (1, -1, None):
            return self
        raise TypeError('only [1:-1] is modelled')


class SStr:
    def __init__(self, chars):
        self.chars = chars

    def __iter__(self):
        return iter(self.chars)


def h_oneline(ctx, n):
    """for ALL strings of n code points: every element oneline() emits is either an escape sequence (ASCII by the
    CPython contract) of a character repr()/ascii() really escapes, or the character itself, which then is neither a
    control character nor a line boundary, and is ASCII (Processes.write encodes the record as ASCII)"""
    fn, count = lift_oneline()
    ctx.check('oneline-shape', count == {'str': 1, 'join': 1, 'escape': 1}, sig='C13:kernel:oneline:source-shape-changed', info=count)
    chars = [SChar(ctx, 'cp%d' % i) for i in range(n)]
    bad = tables()['bad']
    if not ctx.sym:
        text = ''.join(chr(c.cp) for c in chars)
        import exabgp.reactor.api.response.text as mod
        out = mod.oneline(text)
        ctx.check('oneline-clean', all(not any(lo <= ord(ch) <= hi for lo, hi in bad) for ch in out),
                  sig='C13:kernel:oneline:control-or-line-boundary-emitted', info={'in': [hex(ord(c)) for c in text], 'out': out})
        ctx.check('oneline-ascii', out.isascii(), sig='C13:kernel:oneline:non-ascii-emitted', info={'in': [hex(ord(c)) for c in text], 'out': out})
        ctx.cover('verbatim' if any(a.isprintable() for a in text) else 'escaped')
        return ('oneline', n)
    parts = fn(SStr(chars))
    ctx.check('oneline-length', len(parts) == n, sig='C13:kernel:oneline:drops-or-adds-characters')
    verb = 0
    for p in parts:
        if isinstance(p, SChar):
            verb += 1
            ctx.check('oneline-clean', s_not(p._in(bad)), sig='C13:kernel:oneline:control-or-line-boundary-emitted')
            ctx.check('oneline-ascii', p.cp < 128, sig='C13:kernel:oneline:non-ascii-emitted')
        elif isinstance(p, Escaped):
            # what repr()/ascii() return is clean only for a character they really escape
            ctx.check('oneline-clean', s_or(p.escapes(), s_not(p.ch._in(bad))), sig='C13:kernel:oneline:control-or-line-boundary-emitted')
            ctx.check('oneline-ascii', s_or(p.escapes(), p.ch.cp < 128), sig='C13:kernel:oneline:non-ascii-emitted')
        else:
            ctx.check('oneline-clean', False, sig='C13:kernel:oneline:unmodelled-output', info=repr(p)[:80])
    ctx.cover('verbatim' if any(c.isprintable() for c in chars) else 'escaped')
    return ('oneline', n)


def h_json_kernel(ctx, n):
    """the JSON string escape (json.dumps at JSON._string and the json() fragments): C code, not executable
    symbolically.  One solver-chosen code point per class, rendered through the real JSON.down(): witness only."""
    w = A.world(True)
    cps = []
    for i in range(n):
        cp = ctx.int('cp%d' % i, 0, 0x10FFFF)
        klass = ctx.pick('k%d' % i, ('quote', 'backslash', 'c0', 'del-c1', 'separator', 'ascii', 'bmp', 'astral'))
        cond = {'quote': cp == 0x22, 'backslash': cp == 0x5C, 'c0': cp < 0x20, 'del-c1': s_and(cp >= 0x7F, cp <= 0x9F),
                'separator': s_or(cp == 0x2028, cp == 0x2029), 'ascii': s_and(cp >= 0x20, cp <= 0x7E, cp != 0x22, cp != 0x5C),
                'bmp': s_and(cp >= 0xA0, cp <= 0xFFFF, s_not(s_and(cp >= 0xD800, cp <= 0xDFFF))), 'astral': cp >= 0x10000}[klass]
        ctx.assume(cond)
        cps.append(cp)
    ctx.cover('classes')
    if not ctx.sym:
        reason = ''.join(chr(c) for c in cps)
        evs = A.state_events(w, 'down', reason)
        # JSON helpers only: the reason of a down event is never peer text in the product, so what the text encoders
        # make of arbitrary code points there is not an event a peer can cause
        judge(ctx, 'state:down-text', [e for e in evs if ENC[e.proc].startswith('json')], w, one_line, [(('neighbor', 'reason'), reason)], text_too=False)
    return ('json-kernel', n)


# ----------------------------------------------------------------------------- units


def group_plans(plans):
    """C15's attribute plans grouped per attribute code (one unit each, the plan picked by a fork)"""
    groups = {}
    for p in plans:
        name = p[0]
        head = name.split('/')[0]
        groups.setdefault(head, []).append(p)
    return groups


def units(tier):
    th = tier == 'thorough'
    TIER['name'] = tier
    T = 1500 if th else 600
    us = []
    reset = R.reset_state

    # UPDATE, one attribute
    for head, plans in sorted(group_plans(R.attr_plans(tier)).items()):
        chunks = [plans[i:i + 12] for i in range(0, len(plans), 12)]
        for ci, chunk in enumerate(chunks):
            cover = []
            for p in chunk:
                cover += ['%s:%s' % (p[0], c) for c in p[4] if c in ('decoded', 'refused')]
            weight = sum(p[5].get('weight', 10) for p in chunk)
            uname = 'upd/attr/%s' % head + ('' if len(chunks) == 1 else '/%d' % ci)
            if head == '2':
                weight = 2000    # thousands of paths (AS_PATH truncations): started first
            us.append(Unit(uname, lambda ctx, chunk=chunk: h_attr(ctx, chunk), must_cover=tuple(cover), weight=weight,
                           max_seconds=T, max_paths=60000, reset=reset, hash_const=True))
    us.append(Unit('upd/attr/combinations', h_attr_combos, must_cover=('as-path+as4-path', 'aggregator+as4-aggregator', 'beside-a-treat-as-withdraw-attribute'),
                   weight=40, max_seconds=T, reset=reset, hash_const=True))
    us.append(Unit('upd/attr/unknown', lambda ctx: h_unknown_attr(ctx, th), must_cover=('unknown:transitive', 'unknown:non-transitive'),
                   weight=30, max_seconds=T, reset=reset, hash_const=True))

    # UPDATE, one NLRI (C15's plans with the harness swapped)
    ap = None
    for u in R.nlri_units(tier):
        fam = u.name.split('/')[2]
        if fam in ('ipv6-multicast', 'ipv4-rtc'):
            continue
        if u.name.endswith('/addpath'):
            # only for families the ADD-PATH session really negotiates (the harness assumes it)
            if ap is None:
                ap = set((int(a), int(s)) for a, s in A.families() if A.world(True, True).neg.addpath.receive(a, s))
            if not any(R.fam_name(AFI.from_int(a), SAFI.from_int(s)) == fam for a, s in ap):
                continue
        cover = tuple(c for c in u.must_cover if c in ('decoded', 'refused'))
        us.append(Unit('upd/nlri/' + u.name[len('dec/nlri/'):], wrap_c15_nlri(u.fn), must_cover=cover, weight=1500 if u.name.endswith('evpn/type2') else u.weight, max_seconds=T,
                       max_paths=u.max_paths, reset=reset, hash_const=True))
    us.append(Unit('upd/eor', h_eor, must_cover=('eor',), weight=10, max_seconds=T, reset=reset, hash_const=True))

    # OPEN
    for code, klass in sorted(Capability.registered_capability.items()):
        if int(code) > 255:
            continue
        for sname, builder in cap_shapes(int(code), th).items():
            shapes = cap_shapes(int(code), th)
            us.append(Unit('open/cap-%d/%s' % (int(code), sname), lambda ctx, c=int(code), s=sname, b=builder: h_cap(ctx, c, s, b),
                           must_cover=('decoded',) if sname != 'free' or len(shapes) == 1 else (), weight=20 if sname == 'free' else 60, max_seconds=T, reset=reset))
    us.append(Unit('open/cap-unknown', lambda ctx: h_cap(ctx, None, 'free', lambda c: sym(c, 'v', c.pick('n', rng(0, 4)))),
                   must_cover=('decoded',), weight=20, max_seconds=T, reset=reset))
    us.append(Unit('open/cap-73/twice', lambda ctx: h_cap(ctx, int(Capability.CODE.HOSTNAME), 'twice', lambda c: [1] + sym(c, 'h', 1) + [0], twice=True),
                   must_cover=('decoded',), weight=20, max_seconds=T, reset=reset))
    us.append(Unit('open/fields', h_open_fields, must_cover=('decoded', 'refused'), weight=20, max_seconds=T, reset=reset))

    # NOTIFICATION, ROUTE-REFRESH, KEEPALIVE, OPERATIONAL, state events
    us.append(Unit('notification', lambda ctx: h_notification(ctx, th), must_cover=('shutdown', 'reset', 'printable', 'binary', 'empty', 'short'),
                   weight=80, max_seconds=T, reset=reset))
    us.append(Unit('refresh', h_refresh, must_cover=('decoded', 'refused'), weight=10, max_seconds=T, reset=reset))
    us.append(Unit('keepalive', h_keepalive, must_cover=('decoded', 'refused'), weight=5, max_seconds=T, reset=reset))
    us.append(Unit('operational', lambda ctx: h_operational(ctx, th), must_cover=('decoded:advisory', 'decoded:query', 'decoded:counter', 'decoded:unknown', 'refused'),
                   weight=60, max_seconds=T, reset=reset))
    us.append(Unit('state', h_state, must_cover=('up', 'connected', 'down', 'fsm', 'signal', 'negotiated'), weight=10, max_seconds=T, reset=reset))

    # kernels
    for n in ((1, 2, 3) if th else (1, 2)):
        us.append(Unit('kernel/oneline/%d' % n, lambda ctx, n=n: h_oneline(ctx, n), must_cover=('verbatim', 'escaped'), weight=30 * n, max_seconds=T))
    us.append(Unit('kernel/json-string/1', lambda ctx: h_json_kernel(ctx, 1), must_cover=('classes',), weight=5, max_seconds=T))
    us.append(Unit('kernel/json-string/2', lambda ctx: h_json_kernel(ctx, 2), must_cover=('classes',), weight=10, max_seconds=T))
    return us
