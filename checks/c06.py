"""C06 — message framing is independent of how TCP delivers the bytes.

Units
  chunk/*   : real Connection._reader_async(number) / generator twin _reader(number) under every chunk
              schedule of recv_into (chunk sizes and EOF position symbolic)  -> exactly the next `number` bytes
  header/*  : real Connection.reader_async() / reader() on 19 fully symbolic header bytes + body, msg_size symbolic
              over the two legal values, compared with the RFC 4271 framing oracle
  proto/*   : real Protocol.read_message on top: NOTIFICATION code/subcode for every header fault, (1,3) for
              an unknown type, nothing read after an error; two consecutive messages
"""
from __future__ import annotations

from sx.run import Unit
from sx.core import sx_eq, SBytes
from oracle import frame as O

import exabgp.reactor.network.connection as cm
from exabgp.reactor.network.connection import Connection
from exabgp.reactor.network.error import LostConnection, NotifyError
from exabgp.bgp.message import Message, Notify
import exabgp.reactor.protocol as pm
from exabgp.reactor.protocol import Protocol

ID = 'C06'
LEVEL = 'model_checking'
TECHNIQUE = 'symbolic execution of the real reader/_reader_async/read_message (z3 over all header bytes, chunk sizes, both max sizes) vs RFC 4271 framing oracle'
ASSUMPTIONS = [
    'recv_into contract: returns 1..len(view) bytes, or 0 at EOF (stub loop.sock_recv_into / io.recv_into)',
    'asyncio event loop replaced by a direct driver (coro.send(None)); no concurrency inside one reader call',
    'logging (log.debug/warning, lazymsg, lazyformat) has an empty body',
    'Protocol built with object.__new__ + fake peer/neighbor whose api dict disables every API callback',
]
BOUNDS = {
    'quick': {'chunk': 'number<=6 bytes, every composition into chunks, EOF anywhere; number=19 with <=3 chunks',
              'header': '19 symbolic header bytes + body<=3 bytes, msg_size in {4096,65535}', 'proto': '2 messages, bodies <=2 bytes'},
    'thorough': {'chunk': 'number<=9 every composition; number=19 with <=4 chunks', 'header': 'body<=8 bytes',
                 'proto': '3 messages'},
}
OUTSIDE = ['bodies longer than the stated bound are covered only through the symbolic length field (errors) not by delivery',
           'OS-level socket errors other than EOF']


def drive(coro):
    """Run a coroutine that never really suspends."""
    try:
        coro.send(None)
    except StopIteration as e:
        return e.value
    raise RuntimeError('coroutine suspended')


class _Log:
    def __getattr__(self, name):
        return lambda *a, **k: None


def _quiet(mod):
    mod.log = _Log()
    mod.lazymsg = lambda *a, **k: None
    if hasattr(mod, 'lazyformat'):
        mod.lazyformat = lambda *a, **k: None


_quiet(cm)
_quiet(pm)


def mk_connection(msg_size):
    c = object.__new__(Connection)
    c.io = object()
    c.msg_size = msg_size
    c.peer = 'peer'
    c.local = 'local'
    c.id = 1
    c.defensive = False
    c.established = False
    c._rpoller = {}
    c._wpoller = {}
    c.close = lambda: setattr(c, 'io', None)
    return c


# ----------------------------------------------------------------------------- chunk units


class FakeLoop:
    """loop.sock_recv_into(io, view): delivers the stream in symbolic chunk sizes."""

    def __init__(self, ctx, stream, eof_at, max_chunks, wanted=None):
        self.ctx = ctx
        self.stream = stream
        self.pos = 0
        self.eof_at = eof_at
        self.calls = 0
        self.max_chunks = max_chunks
        self.wanted = wanted   # big reads: chunk sizes are picked from boundary candidates instead of every value

    def deliver(self, view):
        ctx = self.ctx
        room = len(view)
        avail = self.eof_at - self.pos
        if avail <= 0:
            return 0
        self.calls += 1
        cap = min(room, avail)
        if self.max_chunks is not None and self.calls >= self.max_chunks:
            n = cap
        elif self.wanted is not None:
            # as much as the caller's buffer takes / exactly what the message still needs / one standard message / a byte
            cands = sorted({cap, min(cap, max(1, self.wanted - self.pos)), min(cap, 4096), 1})
            n = ctx.pick('chunk%d' % self.calls, cands)
        else:
            n = ctx.int('chunk%d' % self.calls, 1, cap)
            n = ctx.concretize(n)
        view[:n] = self.stream[self.pos:self.pos + n]
        self.pos += n
        return n

    async def sock_recv_into(self, io, view):
        return self.deliver(view)


class FakeSock:
    def __init__(self, loop):
        self.loop = loop

    def recv_into(self, view):
        return self.loop.deliver(view)

    def close(self):
        pass

    def fileno(self):
        return 3


def h_chunk(ctx, number, twin, max_chunks, extra=2, big=False):
    total = number + extra
    if big:
        # a body larger than one standard message (extended messages): only the edges are symbolic, the bulk is a
        # concrete pattern; the bytes of the NEXT message follow at once (coalesced delivery)
        stream = SBytes(list(ctx.bytes('head', 4).items) + [(i * 7 + 3) % 256 for i in range(number - 8)] + list(ctx.bytes('tail', 4 + extra).items)) \
            if ctx.sym else bytes(ctx.bytes('head', 4)) + bytes((i * 7 + 3) % 256 for i in range(number - 8)) + bytes(ctx.bytes('tail', 4 + extra))
        eof_at = total
    else:
        stream = ctx.bytes('s', total)
        eof_at = ctx.choice('eof_at', total + 1)  # connection closes after eof_at bytes
    loop = FakeLoop(ctx, stream, eof_at, max_chunks, wanted=number if big else None)
    c = mk_connection(4096)
    if twin == 'async':
        cm.asyncio = type('A', (), {'get_event_loop': staticmethod(lambda: loop), 'CancelledError': type('CancelledError', (BaseException,), {})})
        try:
            got = drive(c._reader_async(number))
            lost = False
        except LostConnection:
            lost = True
    else:
        c.io = FakeSock(loop)
        c.reading = lambda: True
        got = None
        lost = False
        try:
            for data in c._reader(number):
                if data:
                    got = data
        except LostConnection:
            lost = True
    if eof_at < number:
        ctx.cover('eof')
        ctx.check('eof-means-lost', lost, sig='C06:chunk:eof-not-reported')
        return 'lost'
    ctx.check('no-spurious-loss', not lost, sig='C06:chunk:spurious-loss')
    if lost:
        return 'lost'
    ctx.cover('delivered')
    if loop.calls > 1:
        ctx.cover('split')
    ctx.check('exact-bytes', sx_eq(SBytes.of(got) if ctx.sym else bytes(got), stream[:number]), sig='C06:chunk:wrong-bytes')
    ctx.check('consumed-exactly', loop.pos == number, sig='C06:chunk:over-read', info={'pos': loop.pos, 'number': number})
    return 'ok'


# ----------------------------------------------------------------------------- header units


def h_header(ctx, twin, body_len):
    L = 19 + body_len
    stream = ctx.bytes('s', L)
    ext = ctx.bool('extended')
    msg_size = 65535 if ext else 4096
    c = mk_connection(msg_size)
    pos = [0]

    def take(number):
        avail = L - pos[0]
        if number > avail:
            raise LostConnection('eof')
        n = ctx.concretize(number)
        out = stream[pos[0]:pos[0] + n]
        pos[0] += n
        return out

    async def _ra(number):
        return take(number)

    def _r(number):
        yield take(number)

    c._reader_async = _ra
    c._reader = _r
    try:
        if twin == 'async':
            length, t, hdr, body, err = drive(c.reader_async())
        else:
            for length, t, hdr, body, err in c.reader():
                pass
        got = ('err', err.code, err.subcode, length) if err else ('msg', length, t, body)
    except LostConnection:
        got = ('lost',)
    want = O.frame(stream[:19], msg_size, bool)
    ctx.note('class', '%s%s' % (want[0], tuple(want[1:3]) if want[0] == 'err' else ''))
    if want[0] == 'err':
        ctx.cover('err-%d-%d' % (want[1], want[2]))
        if (want[1], want[2]) == (1, 3):
            # an unknown type is refused by Protocol.read_message, not by the connection reader (see proto units)
            ctx.check('unknown-type-not-misframed', got[0] in ('msg', 'lost', 'err'), sig='C06:header:unknown-type')
            return 'unknown-type'
        ctx.check('header-error', got[0] == 'err' and sx_eq(got[1:3], want[1:3]), sig='C06:header:wrong-error:%d/%d' % (want[1], want[2]),
                  info={'got': got[:3], 'want': want[:3]})
        if want[2] == 2 and got[0] == 'err':
            ctx.check('bad-length-reported', sx_eq(got[3], want[3]), sig='C06:header:length-not-reported')
        ctx.check('nothing-read-after-error', pos[0] == 19, sig='C06:header:read-after-error')
        return 'err'
    # well formed header
    length = want[1]
    if length - 19 > body_len:
        ctx.cover('short-body')
        ctx.check('incomplete-body-not-delivered', got[0] == 'lost', sig='C06:header:partial-body-delivered')
        return 'lost'
    ctx.cover('msg')
    ok = got[0] == 'msg'
    ctx.check('message-delivered', ok, sig='C06:header:valid-message-refused', info={'got': got[:3]})
    if ok:
        n = ctx.concretize(length) - 19
        ctx.check('length', sx_eq(got[1], length), sig='C06:header:length')
        ctx.check('type', sx_eq(got[2], want[2]), sig='C06:header:type')
        gb = got[3]
        ctx.check('body', len(gb) == n and sx_eq(SBytes.of(gb) if ctx.sym else bytes(gb), stream[19:19 + n]), sig='C06:header:body')
        ctx.check('consumed', pos[0] == 19 + n, sig='C06:header:consumed')
    return 'msg'


# ----------------------------------------------------------------------------- protocol units


class _Any:
    def __getattr__(self, name):
        return _Any()

    def __call__(self, *a, **k):
        return None


def mk_protocol(conn):
    from collections import defaultdict
    p = object.__new__(Protocol)

    class API(dict):
        def __missing__(self, k):
            return False

    neighbor = type('N', (), {})()
    neighbor.api = API()
    neighbor.adj_rib_in = False
    peer = type('P', (), {})()
    peer.neighbor = neighbor
    peer.stats = defaultdict(int)
    peer.reactor = _Any()
    p.peer = peer
    p.neighbor = neighbor
    p.negotiated = None
    p.connection = conn
    p.log_routes = False
    return p


def h_proto(ctx, nmsg):
    """nmsg headers of 19 bytes back to back (KEEPALIVE-sized); every header byte symbolic."""
    L = 19 * nmsg
    stream = ctx.bytes('s', L)
    c = mk_connection(4096)
    pos = [0]
    reads = [0]

    async def _ra(number):
        reads[0] += 1
        avail = L - pos[0]
        if number > avail:
            raise LostConnection('eof')
        n = ctx.concretize(number)
        out = stream[pos[0]:pos[0] + n]
        pos[0] += n
        return out

    c._reader_async = _ra
    c.session = lambda: 's'
    p = mk_protocol(c)
    res = []
    for i in range(nmsg):
        start = 19 * i
        want = O.frame(stream[start:start + 19], 4096, bool)
        if want[0] == 'msg' and want[1] != 19:
            # a valid message with a body: its delivery is the header/* units', its decoding C02/C03's business
            ctx.assume(False, 'proto units: well-formed headers carry no body (KEEPALIVE); bodies are covered by header/*')
        try:
            m = drive(p.read_message())
            got = ('msg', int(m.ID))
        except Notify as n:
            got = ('err', n.code, n.subcode)
        except LostConnection:
            got = ('lost',)
        if want[0] == 'err' and (want[1], want[2]) == (1, 3):
            t = want[3]
            if t == 6:
                # OPERATIONAL (draft-ietf-idr-operational-message) is an extension ExaBGP implements: outside the claim
                res.append('operational')
                break
            ctx.cover('err-1-3')
            # RFC 4271 6.1: unrecognised type -> Bad Message Type.  The reader may fetch the body first (it belongs
            # to that message); if the stream ends inside it the session is lost without a reply.
            length = stream[start + 16] * 256 + stream[start + 17]
            avail = L - (start + 19)
            if length - 19 > avail:
                ctx.check('unknown-type-short-body', got[0] in ('lost', 'err'), sig='C06:proto:unknown-type-short-body')
                res.append('lost')
                break
            ctx.check('notification-code', got[0] == 'err' and sx_eq(got[1:3], (1, 3)),
                      sig='C06:proto:wrong-notification:want=1/3:got=%s' % ('/'.join(str(x) for x in got[1:3]) if got[0] == 'err' else got[0]),
                      info={'got': got, 'want': (1, 3), 'type': t})
            ctx.check('nothing-after-error', sx_eq(pos[0], start + length), sig='C06:proto:read-after-error')
            res.append('err')
            break
        if want[0] == 'err':
            ctx.cover('err-%d-%d' % (want[1], want[2]))
            ctx.check('notification-code', got[0] == 'err' and sx_eq(got[1:3], want[1:3]),
                      sig='C06:proto:wrong-notification:want=%d/%d:got=%s' % (want[1], want[2], '/'.join(str(x) for x in got[1:3]) if got[0] == 'err' else got[0]),
                      info={'got': got, 'want': want[:3]})
            ctx.check('nothing-after-error', pos[0] == start + 19, sig='C06:proto:read-after-error')
            res.append('err')
            break
        ctx.cover('keepalive')
        ctx.check('keepalive-delivered', got == ('msg', 4), sig='C06:proto:keepalive-not-delivered', info={'got': got})
        ctx.check('consumed', pos[0] == start + 19, sig='C06:proto:consumed')
        res.append('ka')
    if len(res) > 1:
        ctx.cover('second-message')
    return res


# ----------------------------------------------------------------------------- pause units (timing of the segments)


def h_pause(ctx, npause, hold=9):
    """The real Peer._run over the REAL Connection.reader_async/_reader_async (kits/peer.py ByteConn: only the socket is
    replaced) and a faithful asyncio.wait_for (cancels the pending read on timeout, as the event loop does).  The remote
    speaker sends OPEN, KEEPALIVE, an UPDATE announcing 10.0.0.0/24, a KEEPALIVE, an UPDATE withdrawing it, then closes —
    one byte stream, delivered with `npause` pauses of 0.35 s (longer than the 0.1 s read timeout of Peer._main, far shorter
    than the hold time) at solver-chosen byte offsets: inside a header, between header and body, inside a body, between
    messages.  Framing must not depend on WHEN the segments arrive: no NOTIFICATION is sent, every message is delivered."""
    from kits import session as S
    from kits import peer as P
    from checks import c05 as C5
    conf = S.mk_conf(local_as=C5.LOCAL_AS, peer_as=C5.PEER_AS, hold=hold, families=('ipv4 unicast',), adj_rib_in=True)
    neighbor = S.neighbor_from(conf)
    neighbor.api = dict(neighbor.api)
    neighbor.reset_rib()
    neighbor.rib.incoming.clear()
    withdraw = bytes.fromhex('0004' + '180a0000' + '0000')
    msgs = [P.msg(1, C5.open_body(hold=hold)), P.KEEPALIVE, P.msg(2, C5.UPDATE_OK), P.KEEPALIVE, P.msg(2, withdraw), P.KEEPALIVE]
    stream = b''.join(msgs)
    start_established = len(msgs[0]) + len(msgs[1])
    # pauses only once the session is ESTABLISHED (the OPEN wait has its own, much longer, timer: C12)
    span = len(stream) - start_established
    cuts = []
    lo = 0
    for i in range(npause):
        c = ctx.choice('pause%d.at' % i, span - lo) + lo      # offset inside the established part, non-decreasing
        cuts.append(start_established + c)
        lo = c
    items = []
    prev = 0
    for c in cuts:
        if c > prev:
            items.append(('data', stream[prev:c]))
        items.append(('pause', 0.35))
        prev = c
    items.append(('data', stream[prev:]))
    items.append(('pause', 0.35))
    items.append(('eof',))
    # classify where the pauses fall (vacuity guard: every kind of position must be explored)
    bounds = []
    off = 0
    for m in msgs:
        bounds.append((off, off + 19, off + len(m)))
        off += len(m)
    for c in cuts:
        for (a, h, e) in bounds:
            if c == a:
                ctx.cover('pause-between-messages')
            elif a < c < h:
                ctx.cover('pause-inside-header')
            elif c == h and e > h:
                ctx.cover('pause-between-header-and-body')
            elif h < c < e:
                ctx.cover('pause-inside-body')
    feeder = P.ByteFeeder(items)
    peer = P.new_peer(neighbor, feeder)
    seen = []
    orig = neighbor.rib.incoming.update_cache
    orig_w = neighbor.rib.incoming.update_cache_withdraw

    def upd(route):
        seen.append(('announce', str(route.nlri)))
        return orig(route)

    def wd(nlri):
        seen.append(('withdraw', str(nlri)))
        return orig_w(nlri)
    neighbor.rib.incoming.update_cache = upd
    neighbor.rib.incoming.update_cache_withdraw = wd
    try:
        result = P.drive(peer._run(), max_steps=4000)
    finally:
        neighbor.rib.incoming.update_cache = orig
        neighbor.rib.incoming.update_cache_withdraw = orig_w
    w = P.WORLD
    info = {'pauses-at': cuts, 'message-boundaries': [b[2] for b in bounds], 'notifications': P.notifications(), 'received': seen,
            'fsm': ['%s>%s' % t for t in w.fsm], 'cancelled-reads': w.cancelled_reads, 'result': result[0]}
    if w.cancelled_reads:
        ctx.cover('read-cancelled-by-timeout')
    ctx.check('session-established', ('OPENCONFIRM', 'ESTABLISHED') in w.fsm, sig='C06:pause:session-not-established', info=info)
    ctx.check('no-notification', not P.notifications(), sig='C06:pause:stream-desynchronised-by-a-pause', info=info)
    ctx.check('every-message-delivered', seen == [('announce', '10.0.0.0/24'), ('withdraw', '10.0.0.0/24')],
              sig='C06:pause:message-lost-or-invented', info=info)
    ctx.check('all-bytes-read', feeder.delivered == len(stream), sig='C06:pause:bytes-left-unread', info=info)
    return [cuts, len(P.notifications()), seen]


def h_pause_then_new_connection(ctx, hold=3):
    """What an interrupted read keeps belongs to ITS connection.  Session 1: after the handshake a message arrives in part
    (solver-chosen cut), then nothing for longer than the hold time: ExaBGP closes (4/0) while bytes of the unfinished message
    are still set aside.  Session 2 of the same Peer, on a new connection: a clean handshake and an UPDATE must be read as
    sent."""
    from kits import session as S
    from kits import peer as P
    from checks import c05 as C5
    conf = S.mk_conf(local_as=C5.LOCAL_AS, peer_as=C5.PEER_AS, hold=hold, families=('ipv4 unicast',), adj_rib_in=True)
    neighbor = S.neighbor_from(conf)
    neighbor.api = dict(neighbor.api)
    neighbor.reset_rib()
    neighbor.rib.incoming.clear()
    update = P.msg(2, C5.UPDATE_OK)
    cut = ctx.choice('cut', len(update) - 1) + 1                # 1 .. len-1 octets of the UPDATE arrive
    good = P.msg(1, C5.open_body(hold=hold)) + P.KEEPALIVE
    f1 = P.ByteFeeder([('data', good + update[:cut]), ('pause', hold + 2.5), ('eof',)])
    peer = P.new_peer(neighbor, f1)
    r1 = P.drive(peer._run(), max_steps=8000)
    w = P.WORLD
    n1 = len(w.written)
    first = [(c, sc) for _, c, sc in P.notifications()]
    if cut < 19:
        ctx.cover('cut-inside-the-header')
    else:
        ctx.cover('cut-inside-the-body')
    seen = []
    orig = neighbor.rib.incoming.update_cache
    neighbor.rib.incoming.update_cache = lambda route: (seen.append(str(route.nlri)), orig(route))[1]
    f2 = P.ByteFeeder([('data', good + update + P.KEEPALIVE), ('pause', 0.35), ('eof',)])
    peer._conn_args = (f2, 'ok', None)
    try:
        r2 = P.drive(peer._run(), max_steps=16000)
    finally:
        neighbor.rib.incoming.update_cache = orig
    second = [(data[19], data[20]) for st, t, data in w.written[n1:] if len(data) >= 21 and data[18] == 3]
    info = {'cut': cut, 'session-1-notifications': first, 'session-2-notifications': second, 'session-2-received': seen,
            'fsm': ['%s>%s' % t for t in w.fsm], 'results': [r1[0], r2[0]], 'cancelled-reads': w.cancelled_reads}
    ctx.check('first-session-closed-by-the-hold-timer', first == [(4, 0)], sig='C06:pause2:harness:first-session-not-closed-by-hold-timer', info=info)
    ctx.check('second-session-established', [t for t in w.fsm].count(('OPENCONFIRM', 'ESTABLISHED')) == 2, sig='C06:pause2:second-connection-not-established', info=info)
    ctx.check('second-connection-reads-its-own-bytes', not second and seen == ['10.0.0.0/24'], sig='C06:pause2:bytes-of-a-previous-connection-read-on-the-next', info=info)
    return [cut, first, second, seen]


# ----------------------------------------------------------------------------- the maximum in force on the connection


def h_extended(ctx):
    """RFC 8654: messages up to 65535 octets are accepted iff BOTH speakers advertised Extended Message.  The real Peer runs
    the handshake (our OPEN first, or - `local-as auto` - the peer's OPEN first) over the real Connection reader, then the peer
    sends one well-formed UPDATE of 4419 octets: the limit the CONNECTION applies must be the negotiated one."""
    import struct
    from kits import session as S
    from kits import peer as P
    from checks import c05 as C5
    ours = bool(ctx.bool('we-advertise-extended-message'))
    theirs = bool(ctx.bool('peer-advertises-extended-message'))
    auto = bool(ctx.bool('local-as-auto'))
    conf = S.mk_conf(local_as=C5.LOCAL_AS, peer_as=C5.PEER_AS, hold=9, families=('ipv4 unicast',), extended_message=ours, adj_rib_in=True)
    if auto:
        conf = conf.replace('local-as %d;' % C5.LOCAL_AS, 'local-as auto;')
        ctx.cover('peer-open-read-first')
    neighbor = S.neighbor_from(conf)
    neighbor.api = dict(neighbor.api)
    neighbor.reset_rib()
    neighbor.rib.incoming.clear()
    body = S.peer_open_body(asn=C5.PEER_AS, hold=9, router_id=b'\x05\x06\x07\x08', families=((1, 1),), asn4=True, extended_message=theirs)
    filler = bytes([0xD0, 99]) + struct.pack('!H', 4360) + bytes(4360)          # unknown optional transitive attribute, extended length
    attrs = bytes.fromhex('40010100' + '4002060201' + '0000fde9' + '400304c0000201') + filler
    update = b'\x00\x00' + struct.pack('!H', len(attrs)) + attrs + bytes.fromhex('180a0000')
    big = P.msg(2, update)
    stream = P.msg(1, body) + P.KEEPALIVE + big + P.KEEPALIVE
    feeder = P.ByteFeeder([('data', stream), ('pause', 0.35), ('eof',)])
    peer = P.new_peer(neighbor, feeder)
    seen = []
    orig = neighbor.rib.incoming.update_cache
    neighbor.rib.incoming.update_cache = lambda route: (seen.append(str(route.nlri)), orig(route))[1]
    try:
        result = P.drive(peer._run(), max_steps=4000)
    finally:
        neighbor.rib.incoming.update_cache = orig
    w = P.WORLD
    notes = [(c, sc) for _, c, sc in P.notifications()]
    both = ours and theirs
    info = {'we': ours, 'peer': theirs, 'local-as-auto': auto, 'update-octets': len(big), 'notifications': notes, 'received': seen,
            'fsm': ['%s>%s' % t for t in w.fsm], 'result': result[0]}
    ctx.check('session-established', ('OPENCONFIRM', 'ESTABLISHED') in w.fsm, sig='C06:extended:session-not-established', info=info)
    if both:
        ctx.cover('extended-negotiated')
        ctx.check('large-message-accepted', not notes and seen == ['10.0.0.0/24'],
                  sig='C06:extended:negotiated-but-large-message-refused' + (':local-as-auto' if auto else ''), info=info)
    else:
        ctx.cover('extended-not-negotiated')
        ctx.check('large-message-refused', notes == [(1, 2)] and not seen, sig='C06:extended:not-negotiated-but-large-message-accepted', info=info)
    return [ours, theirs, auto, notes, seen]


# ----------------------------------------------------------------------------- units


def units(tier):
    us = []
    thorough = tier == 'thorough'
    for twin in ('async', 'gen'):
        for number in ((1, 2, 4, 6, 8) if thorough else (1, 3, 5)):
            us.append(Unit('chunk/%s/n%d' % (twin, number), lambda ctx, n=number, t=twin: h_chunk(ctx, n, t, None),
                           must_cover=('delivered', 'eof') + (('split',) if number > 1 else ()), weight=2 ** number))
        us.append(Unit('chunk/%s/n19' % twin, lambda ctx, t=twin: h_chunk(ctx, 19, t, 4 if thorough else 3, extra=1),
                       must_cover=('delivered', 'eof', 'split'), weight=2000 if thorough else 300))
        for body in ((0, 1, 4, 8) if thorough else (0, 3)):
            us.append(Unit('header/%s/b%d' % (twin, body), lambda ctx, t=twin, b=body: h_header(ctx, t, b),
                           must_cover=('err-1-1', 'err-1-2', 'err-1-3', 'msg'), weight=50 + body * 20))
    for n in ((1, 2, 3) if thorough else (1, 2)):
        us.append(Unit('proto/m%d' % n, lambda ctx, n=n: h_proto(ctx, n),
                       must_cover=('err-1-1', 'err-1-2', 'err-1-3', 'keepalive') + (('second-message',) if n > 1 else ()), weight=30 * n))
    # reads larger than one standard message (only possible once extended messages are negotiated): the reader must take
    # exactly `number` bytes however the kernel coalesces them with the next message
    for number in ((4097, 5000, 8192, 8193, 12289) if thorough else (4097, 5000)):
        us.append(Unit('big/async/n%d' % number, lambda ctx, n=number: h_chunk(ctx, n, 'async', 3, extra=19, big=True),
                       must_cover=('delivered', 'split'), weight=40))
        us.append(Unit('big/gen/n%d' % number, lambda ctx, n=number: h_chunk(ctx, n, 'gen', 3, extra=19, big=True),
                       must_cover=('delivered', 'split'), weight=40))
    us.append(Unit('pause/then-new-connection', h_pause_then_new_connection, must_cover=('cut-inside-the-header', 'cut-inside-the-body'), weight=40, max_seconds=600))
    us.append(Unit('extended/limit-in-force', h_extended, must_cover=('extended-negotiated', 'extended-not-negotiated', 'peer-open-read-first'), weight=30))
    for n in ((1, 2) if thorough else (1,)):
        us.append(Unit('pause/p%d' % n, lambda ctx, n=n: h_pause(ctx, n),
                       must_cover=('pause-between-messages', 'pause-inside-header', 'pause-between-header-and-body', 'pause-inside-body',
                                   'read-cancelled-by-timeout'), weight=400 * n, max_seconds=1200))
    return us
